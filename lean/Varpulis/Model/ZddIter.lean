import Varpulis.Model.ZddTable
/-!
# M-ZDD: the two iterators as step machines over the table model

* `AIter` mirrors `ArenaIterator` (arena.rs): an explicit stack of `(ref, next_branch)` frames and ONE
  path vector that is pushed/popped (`path.push(n.var)` before the hi branch, `path.pop()` on the third visit).
* `ZIter` mirrors `ZddIterator` (iter.rs): a stack of `(ref, path, next_branch)` frames, every frame owns its path.

`step` is one iteration of the loop inside `next()` (pop a frame, act on it). The iterators have no state
besides stack (and path), so the loops of successive `next()` calls concatenate into one loop:
`collect` (= `iter().collect()`) runs `step` until the stack is empty and gathers what `next()` returns;
`next` runs it until the first yield. Both carry fuel = number of loop iterations; `none` = fuel exhausted
or `get_node` out of bounds (Rust panic). `Lemmas/ZddIter.lean` proves that fuel
`steps (treeOf t r) + 1` suffices and that the collected sequence is `Zdd.sets (treeOf t r)`.
-/
namespace Varpulis.ZddT
open Varpulis.Zdd

/-- result of one loop iteration of `next()` -/
inductive IterStep (σ : Type) where
  | stop                                      -- `stack.pop()` returned `None`: `next()` returns `None`
  | panic                                     -- `get_node` out of bounds
  | go (s : σ) (out : Option (List Nat))      -- continue with `s`; `out = some p`: `next()` returns `Some(p)` now
  deriving Repr

/-! ### `ArenaIterator` -/

/-- `ArenaIterator { stack: Vec<(ZddRef, u8)>, path: Vec<u32> }`; head of `stack` = top (`Vec::pop`),
`path` in push order -/
structure AIter where
  stack : List (Ref × Nat)
  path : List Nat
  deriving Repr, Inhabited

/-- `ArenaIterator::new`: `if !handle.is_empty() { stack.push((root, 0)) }` -/
def AIter.new (root : Ref) : AIter := ⟨if root = .E then [] else [(root, 0)], []⟩

/-- one iteration of `while let Some((node, branch)) = self.stack.pop()` in `ArenaIterator::next` -/
def AIter.step (t : Table) (s : AIter) : IterStep AIter :=
  match s.stack with
  | [] => .stop
  | (node, branch) :: rest =>
    match node with
    | .E => .go ⟨rest, s.path⟩ none
    | .B => .go ⟨rest, s.path⟩ (some s.path)
    | .N id =>
      match t[id]? with
      | none => .panic
      | some n =>
        match branch with
        | 0 => .go ⟨(n.lo, 0) :: (node, 1) :: rest, s.path⟩ none
        | 1 => .go ⟨(n.hi, 0) :: (node, 2) :: rest, s.path ++ [n.v]⟩ none
        | _ => .go ⟨rest, s.path.dropLast⟩ none

/-- `ArenaIterator::next` (fuel = loop iterations) -/
def AIter.next (t : Table) : Nat → AIter → Option (Option (List Nat) × AIter)
  | 0, _ => none
  | fuel + 1, s =>
    match s.step t with
    | .stop => some (none, s)
    | .panic => none
    | .go s' none => AIter.next t fuel s'
    | .go s' (some p) => some (some p, s')

/-- `arena.iter(h).collect()`: all items until `next()` returns `None` (fuel = loop iterations in total) -/
def AIter.collect (t : Table) : Nat → AIter → Option (List (List Nat))
  | 0, _ => none
  | fuel + 1, s =>
    match s.step t with
    | .stop => some []
    | .panic => none
    | .go s' none => AIter.collect t fuel s'
    | .go s' (some p) => (AIter.collect t fuel s').map (p :: ·)

/-! ### `ZddIterator` -/

/-- `ZddIterator.stack: Vec<(ZddRef, Vec<u32>, u8)>` -/
structure ZIter where
  stack : List (Ref × List Nat × Nat)
  deriving Repr, Inhabited

/-- `ZddIterator::new` -/
def ZIter.new (root : Ref) : ZIter := ⟨if root = .E then [] else [(root, [], 0)]⟩

/-- one iteration of the `loop` in `ZddIterator::next` -/
def ZIter.step (t : Table) (s : ZIter) : IterStep ZIter :=
  match s.stack with
  | [] => .stop
  | (node, path, branch) :: rest =>
    match node with
    | .E => .go ⟨rest⟩ none
    | .B => .go ⟨rest⟩ (some path)
    | .N id =>
      match t[id]? with
      | none => .panic
      | some n =>
        match branch with
        | 0 => .go ⟨(n.lo, path, 0) :: (node, path, 1) :: rest⟩ none
        | 1 => .go ⟨(n.hi, path ++ [n.v], 0) :: rest⟩ none
        | _ => .go ⟨rest⟩ none

/-- `ZddIterator::next` -/
def ZIter.next (t : Table) : Nat → ZIter → Option (Option (List Nat) × ZIter)
  | 0, _ => none
  | fuel + 1, s =>
    match s.step t with
    | .stop => some (none, s)
    | .panic => none
    | .go s' none => ZIter.next t fuel s'
    | .go s' (some p) => some (some p, s')

/-- `zdd.iter().collect()` / `Zdd::to_sets` -/
def ZIter.collect (t : Table) : Nat → ZIter → Option (List (List Nat))
  | 0, _ => none
  | fuel + 1, s =>
    match s.step t with
    | .stop => some []
    | .panic => none
    | .go s' none => ZIter.collect t fuel s'
    | .go s' (some p) => (ZIter.collect t fuel s').map (p :: ·)

/-- number of loop iterations `ArenaIterator` spends on a diagram (three visits per node, one per terminal) -/
def stepsA : Z → Nat
  | .empty => 1
  | .base => 1
  | .node _ lo hi => stepsA lo + stepsA hi + 3

/-- number of loop iterations of `ZddIterator` (two visits per node) -/
def stepsZ : Z → Nat
  | .empty => 1
  | .base => 1
  | .node _ lo hi => stepsZ lo + stepsZ hi + 2

/-- `ZddArena::iter(handle).collect()` with the fuel that `iterator_yields_sets` proves sufficient -/
def Arena.iterAll (s : Arena) (a : Ref) : Option (List (List Nat)) :=
  AIter.collect s.table (stepsA (treeOf s.table a) + 1) (AIter.new a)

/-- `Zdd::to_sets` -/
def ZddS.toSets (z : ZddS) : Option (List (List Nat)) :=
  ZIter.collect z.table (stepsZ (treeOf z.table z.root) + 1) (ZIter.new z.root)

/-- `ZddArena::count_uncached` → `count_ref_uncached`: the recursion of `count_ref` with a per-call cache -/
def Arena.countUncached (s : Arena) (a : Ref) : Option Nat :=
  (countT (a.rank + 1) s.table [] a).map (·.2)

end Varpulis.ZddT
