import Varpulis.Model.Expand
/-!
# M-TEXT, part 2 — the text stages of `parse` with explicit failure points (C41)

`parse_inner` = `expand_declaration_loops_with_origins` → `preprocess_indentation` →
`check_nesting_depth` → pest → AST → `fold_program`, errors relocated by `source_location`.
This file mirrors every stage *except* the pest-generated recogniser, AST construction and folding.

Every Rust operation that can panic is an explicit check here:
slice/`Vec` indexing (`idx`, `sliceC`), `usize` subtraction (`usizeSub`), `Option::unwrap`, and every
`while` loop runs on fuel (running out of fuel = the loop would not terminate = `.panic "diverged"`).
`Lemmas/ParserText.lean` proves that none of these can happen (`≠ .panic _`) and that the
index-based expander computes what the list-recursive `Expand.expand` computes.
-/
namespace Varpulis.ParserText
open Varpulis.Expand

/-- `a - b` on `usize` (panics on underflow in debug builds, wraps in release builds) -/
def usizeSub (a b : Nat) : Outcome Nat := if b ≤ a then .ok (a - b) else .panic "usize underflow"

/-- `v[i]` -/
def idx {α : Type} (v : List α) (i : Nat) : Outcome α :=
  match v[i]? with
  | some x => .ok x
  | none => .panic "index out of bounds"

/-- `&v[a..b]` -/
def sliceC {α : Type} (v : List α) (a b : Nat) : Outcome (List α) :=
  if a ≤ b ∧ b ≤ v.length then .ok ((v.drop a).take (b - a)) else .panic "slice out of range"

/-- `line.len() - line.trim_start().len()` -/
def indentC (l : Line) : Outcome Nat := usizeSub (byteLen l) (byteLen (trimStart l))

/-! ## `expand.rs`, index-based -/

/-- `while body_end < lines.len() { … }` of `expand_one_pass`; returns `(body_end, body_indent)` -/
def scanBody (lines : List Line) : Nat → Nat → Option Nat → Outcome (Nat × Option Nat)
  | 0, _, _ => .panic "diverged"
  | fuel + 1, j, bi =>
    if j < lines.length then
      match idx lines j with
      | .ok bl =>
        if isBlank bl then scanBody lines fuel (j + 1) bi
        else
          match indentC bl with
          | .ok ind =>
            if ind = 0 then .ok (j, bi)
            else scanBody lines fuel (j + 1) (if bi.isNone then some ind else bi)
          | .err k => .err k
          | .panic w => .panic w
      | .err k => .err k
      | .panic w => .panic w
    else .ok (j, bi)

/-- the two `for` loops that emit the copies, with the origin (`from`) of every emitted line -/
def emitCopies (strip : Nat) (var : Text) (s e : Int) (bodyStart : Nat) (body : List Line) :
    List Line × List Nat :=
  ((intRange s e).flatMap fun k => body.map (copyLine strip var k),
   (intRange s e).flatMap fun _ => (List.range body.length).map (bodyStart + ·))

/-- `while i < lines.len() { … }` of `expand_one_pass`: output lines, their origins, remaining budget -/
def passLoop (lines : List Line) : Nat → Nat → Nat → Outcome (List Line × List Nat × Nat)
  | 0, _, _ => .panic "diverged"
  | fuel + 1, i, budget =>
    if i < lines.length then
      match idx lines i with
      | .ok line =>
        match indentC line with
        | .ok indent =>
          let trimmed := trim line
          -- (a function, so that the plain continuation is only evaluated where it is taken)
          let plain : Unit → Outcome (List Line × List Nat × Nat) := fun _ =>
            (passLoop lines fuel (i + 1) budget).map fun r => (line :: r.1, i :: r.2.1, r.2.2)
          if indent = 0 ∧ isDeclFor trimmed then
            match parseForRange trimmed with
            | some (var, s, e) =>
              if tooLarge s e then .err (rangeErr s e)
              else
                match scanBody lines (lines.length + 1) (i + 1) none with
                | .ok (bodyEnd, bi) =>
                  match sliceC lines (i + 1) bodyEnd with
                  | .ok body =>
                    if (e - s).toNat * (bodyEnd - (i + 1)) > budget then .err "budget"
                    else
                      let c := emitCopies (bi.getD 4) var s e (i + 1) body
                      (passLoop lines fuel bodyEnd (budget - (e - s).toNat * (bodyEnd - (i + 1)))).map
                        fun r => (c.1 ++ r.1, c.2 ++ r.2.1, r.2.2)
                  | .err k => .err k
                  | .panic w => .panic w
                | .err k => .err k
                | .panic w => .panic w
            | none => plain ()
          else plain ()
        | .err k => .err k
        | .panic w => .panic w
      | .err k => .err k
      | .panic w => .panic w
    else .ok ([], [], budget)

/-- `expand_one_pass` -/
def onePassC (budget : Nat) (src : Text) : Outcome (Text × List Nat × Nat) :=
  let lines := rustLines src
  (passLoop lines (lines.length + 1) 0 budget).map fun r => (joinLines r.1, r.2.1, r.2.2)

/-- the pass loop of `expand_declaration_loops_with_origins` (`origins.get(i).copied().unwrap_or(0)`) -/
def passesC : Nat → Nat → Text → List Nat → Outcome (Text × List Nat)
  | 0, _, r, o => .ok (r, o)
  | n + 1, b, r, o =>
    match onePassC b r with
    | .ok (e, from_, b') =>
      if e = r then .ok (r, o)
      else if n = 0 then .err "passes"
      else passesC n b' e (let oa := o.toArray; from_.map fun i => (oa[i]?).getD 0)
    | .err k => .err k
    | .panic w => .panic w

/-- `expand_declaration_loops_with_origins` -/
def expandC (src : Text) : Outcome (Text × List Nat) :=
  passesC MAX_EXPANSION_PASSES MAX_EXPANDED_LINES src (List.range (rustLines src).length)

/-! ## `indent.rs` -/

def INDENT : Text := "«INDENT»".toList
def DEDENT : Text := "«DEDENT»".toList

def BLOCK_KEYWORDS : List Text :=
  ["fn ", "if ", "elif ", "else:", "for ", "while ", "config:", "event "].map String.toList

/-- `is_block_start` -/
def isBlockStart (line : Line) : Bool :=
  let t := trim line
  t.getLast? == some ':' && BLOCK_KEYWORDS.any fun kw => kw.isPrefixOf t

/-- `out` holds the pieces pushed onto `result`, latest first (the text is `out.reverse.flatten`) -/
structure IndSt where
  out : List Text := []
  stack : List Nat := [0]      -- top of the stack first
  expecting : Bool := false
  inComment : Bool := false

/-- `*indent_stack.last().unwrap()` -/
def top (stack : List Nat) : Outcome Nat :=
  match stack with
  | t :: _ => .ok t
  | [] => .panic "unwrap on empty indent stack"

/-- `while indent_stack.len() > 1 && *indent_stack.last().unwrap() > indent { pop; push DEDENT }` -/
def popWhile (indent : Nat) : List Nat → List Text → Outcome (List Nat × List Text)
  | [], out => .ok ([], out)
  | [b], out => .ok ([b], out)
  | t :: rest, out => if t > indent then popWhile indent rest (DEDENT :: out) else .ok (t :: rest, out)

/-- body of `for line in source.lines()` of `preprocess_indentation` -/
def indentStep (st : IndSt) (line : Line) : Outcome IndSt :=
  if st.inComment then
    .ok { st with out := ['\n'] :: line :: st.out, inComment := !containsSub "*/".toList line }
  else if "/*".toList.isPrefixOf (trimStart line) then
    .ok { st with out := ['\n'] :: line :: st.out, inComment := !containsSub "*/".toList line }
  else
    let trimmed := trim line
    if trimmed.isEmpty || trimmed.head? == some '#' then .ok { st with out := ['\n'] :: line :: st.out }
    else
      match indentC line, top st.stack with
      | .ok indent, .ok cur =>
        let blk := isBlockStart trimmed
        if st.expecting ∧ indent > cur then
          .ok { st with stack := indent :: st.stack, out := ['\n'] :: trimmed :: INDENT :: st.out, expecting := blk }
        else if indent < cur ∧ st.stack.length > 1 then
          match popWhile indent st.stack st.out with
          | .ok (stk, out) => .ok { st with stack := stk, out := ['\n'] :: trimmed :: out, expecting := st.expecting || blk }
          | .err k => .err k
          | .panic w => .panic w
        else .ok { st with out := ['\n'] :: trimmed :: st.out, expecting := blk }
      | .panic w, _ => .panic w
      | _, .panic w => .panic w
      | .err k, _ => .err k
      | _, .err k => .err k

def indentLines : IndSt → List Line → Outcome IndSt
  | st, [] => .ok st
  | st, l :: ls =>
    match indentStep st l with
    | .ok st' => indentLines st' ls
    | .err k => .err k
    | .panic w => .panic w

/-- `preprocess_indentation` -/
def preprocessC (src : Text) : Outcome Text :=
  match indentLines {} (rustLines src) with
  | .ok st => .ok ((st.out.reverse ++ List.replicate (st.stack.length - 1) DEDENT).flatten)
  | .err k => .err k
  | .panic w => .panic w

/-! ## `check_nesting_depth` (on the UTF-8 bytes) -/

/-- regenerated from `pest_parser.rs` on every check -/
def MAX_NESTING_DEPTH : Nat := Generated.ParserLimits.MAX_NESTING_DEPTH

def utf8 (t : Text) : List UInt8 := t.flatMap String.utf8EncodeChar

def bQuote : UInt8 := 34
def bBackslash : UInt8 := 92
def bHash : UInt8 := 35
def bNl : UInt8 := 10
def bSlash : UInt8 := 47
def bStar : UInt8 := 42
def isOpen (b : UInt8) : Bool := b == 40 || b == 91 || b == 123
def isClose (b : UInt8) : Bool := b == 41 || b == 93 || b == 125

/-- inside a string: `while i < len { if bytes[i] == b'\\' { i += 2; continue } if bytes[i] == b'"' { i += 1; break } i += 1 }` -/
def skipString (b : Array UInt8) : Nat → Nat → Outcome Nat
  | 0, _ => .panic "diverged"
  | fuel + 1, i =>
    if i < b.size then
      match b[i]? with
      | none => .panic "index out of bounds"
      | some c =>
        if c == bBackslash then skipString b fuel (i + 2)
        else if c == bQuote then .ok (i + 1)
        else skipString b fuel (i + 1)
    else .ok i

/-- `while i < len && bytes[i] != b'\n' { i += 1 }` -/
def skipLineComment (b : Array UInt8) : Nat → Nat → Outcome Nat
  | 0, _ => .panic "diverged"
  | fuel + 1, i =>
    if i < b.size then
      match b[i]? with
      | none => .panic "index out of bounds"
      | some c => if c != bNl then skipLineComment b fuel (i + 1) else .ok i
    else .ok i

/-- `while i + 1 < len { if bytes[i] == b'*' && bytes[i + 1] == b'/' { i += 2; break } i += 1 }` -/
def skipBlockComment (b : Array UInt8) : Nat → Nat → Outcome Nat
  | 0, _ => .panic "diverged"
  | fuel + 1, i =>
    if i + 1 < b.size then
      match b[i]?, b[i + 1]? with
      | some c, some d => if c == bStar && d == bSlash then .ok (i + 2) else skipBlockComment b fuel (i + 1)
      | _, _ => .panic "index out of bounds"
    else .ok i

/-- "Track bracket depth": new `(depth, max_depth, max_depth_pos)` for byte `c` at index `i`
(`depth.saturating_sub(1)` is subtraction on `Nat`) -/
def bracketStep (c : UInt8) (i depth maxDepth maxPos : Nat) : Nat × Nat × Nat :=
  if isOpen c then
    if depth + 1 > maxDepth then (depth + 1, depth + 1, i) else (depth + 1, maxDepth, maxPos)
  else if isClose c then (depth - 1, maxDepth, maxPos)
  else (depth, maxDepth, maxPos)

/-- the main `while i < len` loop; `.ok (some p)` = rejected at position `p` -/
def nestLoop (b : Array UInt8) : Nat → Nat → Nat → Nat → Nat → Outcome (Option Nat)
  | 0, _, _, _, _ => .panic "diverged"
  | fuel + 1, i, depth, maxDepth, maxPos =>
    if i < b.size then
      match b[i]? with
      | none => .panic "index out of bounds"
      | some c =>
        if c == bQuote then
          match skipString b (b.size + 1) (i + 1) with
          | .ok j => nestLoop b fuel j depth maxDepth maxPos
          | .err k => .err k
          | .panic w => .panic w
        else if c == bHash then
          match skipLineComment b (b.size + 1) (i + 1) with
          | .ok j => nestLoop b fuel j depth maxDepth maxPos
          | .err k => .err k
          | .panic w => .panic w
        else if c == bSlash && i + 1 < b.size && b[i + 1]? == some bStar then
          match skipBlockComment b (b.size + 1) (i + 2) with
          | .ok j => nestLoop b fuel j depth maxDepth maxPos
          | .err k => .err k
          | .panic w => .panic w
        else
          let t := bracketStep c i depth maxDepth maxPos
          if t.2.1 > MAX_NESTING_DEPTH then .ok (some t.2.2)
          else nestLoop b fuel (i + 1) t.1 t.2.1 t.2.2
    else .ok none

/-- `check_nesting_depth`: `.ok none` accepted, `.ok (some p)` rejected with position `p` -/
def checkNesting (bytes : List UInt8) : Outcome (Option Nat) :=
  let b := bytes.toArray
  nestLoop b (b.size + 1) 0 0 0 0

/-! ## `SourceLocation::from_position` (with `char_indices`, after the fix) -/

/-- `for (i, ch) in source.char_indices() { if i >= position { break } … }`; `i` = byte offset of `ch` -/
def fromPosGo (pos : Nat) : Text → Nat → Nat → Nat → Nat × Nat
  | [], _, line, col => (line, col)
  | c :: cs, i, line, col =>
    if i ≥ pos then (line, col)
    else if c = '\n' then fromPosGo pos cs (i + c.utf8Size) (line + 1) 1
    else fromPosGo pos cs (i + c.utf8Size) line (col + 1)

/-- `SourceLocation::from_position`: (line, column), both 1-based -/
def fromPosition (source : Text) (pos : Nat) : Nat × Nat := fromPosGo pos source 0 1 1

/-! ## `source_location` (the position map added by the fix) -/

/-- `source.split_inclusive('\n')` -/
def segGo : Text → List Char → List Text
  | [], acc => if acc.isEmpty then [] else [acc.reverse]
  | c :: rest, acc => if c = '\n' then (c :: acc).reverse :: segGo rest [] else segGo rest (c :: acc)

def segments (s : Text) : List Text := segGo s []

/-- the line of a segment: `strip_suffix('\n')` then `strip_suffix('\r')` -/
def segLine (seg : Text) : Line :=
  match seg.reverse with
  | '\n' :: '\r' :: r => r.reverse
  | '\n' :: r => r.reverse
  | _ => seg

/-- `source_line`: byte offset and text of line `idx` -/
def sourceLine : List Text → Nat → Nat → Option (Nat × Line)
  | [], _, _ => none
  | seg :: rest, idx, start => if idx = 0 then some (start, segLine seg) else sourceLine rest (idx - 1) (start + byteLen seg)

/-- the marker-skipping `loop` of `source_location` on the bytes from `content_start` on -/
def skipMarkers : Nat → List UInt8 → Nat → Outcome Nat
  | 0, _, _ => .panic "diverged"
  | fuel + 1, rest, cs =>
    if (utf8 INDENT).isPrefixOf rest then skipMarkers fuel (rest.drop (utf8 INDENT).length) (cs + (utf8 INDENT).length)
    else if (utf8 DEDENT).isPrefixOf rest then skipMarkers fuel (rest.drop (utf8 DEDENT).length) (cs + (utf8 DEDENT).length)
    else .ok cs

/-- `str::is_char_boundary` -/
def isBoundary (t : Text) (off : Nat) : Bool := (byteDrop off t).isSome

/-- `while !src_line.is_char_boundary(offset) { offset -= 1 }` -/
def backToBoundary (t : Text) : Nat → Nat → Outcome Nat
  | 0, _ => .panic "diverged"
  | fuel + 1, off =>
    if isBoundary t off then .ok off
    else match usizeSub off 1 with
      | .ok o => backToBoundary t fuel o
      | .err k => .err k
      | .panic w => .panic w

/-- `source_location`: (line, column, byte offset) in `source` for a byte position of the preprocessed text -/
def sourceLocation (source : Text) (origins : List Nat) (pre : List UInt8) (position : Nat) :
    Outcome (Nat × Nat × Nat) :=
  let position := min position pre.length
  match sliceC pre 0 position with
  | .ok before =>
    let lineIdx := before.count bNl
    let lineStart := before.length - (before.reverse.takeWhile (· != bNl)).length
    match sliceC pre lineStart pre.length with
    | .ok rest =>
      match skipMarkers (pre.length + 1) rest lineStart with
      | .ok contentStart =>
        let inLine := position - contentStart    -- saturating_sub
        let eof : Nat × Nat × Nat :=
          ((fromPosition source (byteLen source)).1, (fromPosition source (byteLen source)).2, byteLen source)
        match (origins[lineIdx]?).bind fun i => sourceLine (segments source) i 0 with
        | none => .ok eof
        | some (srcStart, srcLine) =>
          match indentC srcLine with
          | .ok indent =>
            match backToBoundary srcLine (min (indent + inLine) (byteLen srcLine) + 1) (min (indent + inLine) (byteLen srcLine)) with
            | .ok off =>
              .ok ((fromPosition source (srcStart + off)).1, (fromPosition source (srcStart + off)).2, srcStart + off)
            | .err k => .err k
            | .panic w => .panic w
          | .err k => .err k
          | .panic w => .panic w
      | .err k => .err k
      | .panic w => .panic w
    | .err k => .err k
    | .panic w => .panic w
  | .err k => .err k
  | .panic w => .panic w

/-! ## `helpers::parse_timestamp` (arithmetic and table access; the splitting of the literal is not modelled) -/

/-- `is_leap_year` -/
def isLeapYear (y : Int) : Bool := (y % 4 == 0 && y % 100 != 0) || y % 400 == 0

def DAYS_IN_MONTH : List Nat := [31, 28, 31, 30, 31, 30, 31, 31, 30, 31, 30, 31]

def yearDays (y : Int) : Int := if isLeapYear y then 366 else 365

/-- `for y in 1970..year { days += … }  for y in (year..1970).rev() { days -= … }` -/
def daysBeforeYear (year : Int) : Int :=
  ((intRange 1970 year).map yearDays).sum - ((intRange year 1970).map yearDays).sum

/-- `for m in 1..month { days += days_in_month[(m - 1) as usize] as i64; if m == 2 && leap { days += 1 } }` -/
def monthDays (year : Int) : List Nat → Outcome Int
  | [] => .ok 0
  | m :: ms =>
    match idx DAYS_IN_MONTH (m - 1), monthDays year ms with
    | .ok d, .ok rest => .ok ((d : Int) + (if m = 2 ∧ isLeapYear year then 1 else 0) + rest)
    | .panic w, _ => .panic w
    | _, .panic w => .panic w
    | .err k, _ => .err k
    | _, .err k => .err k

def i64Sat (x : Int) : Int := if x > i64Max then i64Max else if x < i64Min then i64Min else x

/-- `parse_timestamp` after the literal is split into its numbers: `month`/`day` as parsed (`u32`),
`tod` = seconds of the time of day, `tz` = signed hour offset; result in nanoseconds.
After the fix: month clamped to 1..=12, day to ≥ 1, the final multiplication saturates. -/
def timestampNs (year : Int) (month day : Nat) (tod tzHours : Int) : Outcome Int :=
  let month := max 1 (min month 12)
  let day := max 1 day
  match monthDays year ((List.range (month - 1)).map (· + 1)), usizeSub day 1 with
  | .ok md, .ok d1 =>
    let days := daysBeforeYear year + md + (d1 : Int)
    .ok (i64Sat ((days * 86400 + tod - tzHours * 3600) * 1000000000))
  | .panic w, _ => .panic w
  | _, .panic w => .panic w
  | .err k, _ => .err k
  | _, .err k => .err k

/-! ### `helpers::parse_timestamp`: the splitting of the literal's text -/

/-- `str::split(c)` -/
def splitChar (c : Char) : Text → List Char → List Text
  | [], acc => [acc.reverse]
  | x :: xs, acc => if x = c then acc.reverse :: splitChar c xs [] else splitChar c xs (x :: acc)

/-- text behind the first `c` (`&s[s.find(c)? + 1..]`) -/
def afterChar (c : Char) : Text → Option Text
  | [] => none
  | x :: xs => if x = c then some xs else afterChar c xs

/-- `str::parse::<u32>()` / `parse::<i32>()` / `parse::<i64>()` of the pieces: `parseI64` restricted to the type's range -/
def parseRange (lo hi : Int) (t : Text) : Option Int :=
  match parseI64 t with
  | some v => if lo ≤ v ∧ v ≤ hi then some v else none
  | none => none

def parseU32 (t : Text) : Option Nat := (parseRange 0 4294967295 t).map Int.toNat
def parseI32 (t : Text) : Option Int := parseRange (-2147483648) 2147483647 t

/-- `time_str.trim_end_matches('Z')` -/
def trimEndZ (t : Text) : Text := (t.reverse.dropWhile (· = 'Z')).reverse

/-- the time of day `HH:MM[:SS]` in seconds -/
def timeOfDay (timeStr : Text) : Int :=
  let timeOnly := ((trimEndZ timeStr).takeWhile (· ≠ '+')).takeWhile (· ≠ '-')
  match splitChar ':' timeOnly [] with
  | h :: m :: rest =>
    (parseI64 h).getD 0 * 3600 + (parseI64 m).getD 0 * 60 +
      (match rest with | s :: _ => (parseI64 s).getD 0 | [] => 0)
  | _ => 0

/-- hours of a `+HH:MM` / `-HH:MM` suffix, signed as they enter the result (`seconds -= …` for `+`);
`time_str[1..]` is the one slicing that can fail -/
def tzSeconds (timeStr : Text) : Outcome Int :=
  let hoursOf (tz : Text) : Int := if tz.contains ':' then (parseI64 (tz.takeWhile (· ≠ ':'))).getD 0 else 0
  match afterChar '+' timeStr with
  | some tz => .ok (-(hoursOf tz * 3600))
  | none =>
    match byteDrop 1 timeStr with
    | none => .panic "byte index 1 is out of bounds or not a char boundary"
    | some rest =>
      match afterChar '-' rest with
      | some tz => .ok (hoursOf tz * 3600)
      | none => .ok 0

/-- `parse_timestamp` on the text of a literal (after the fix) -/
def timestampText (lit : Text) : Outcome Int :=
  let s := match lit with | '@' :: r => r | r => r
  let datePart := s.takeWhile (· ≠ 'T')
  let timePart := afterChar 'T' s
  match splitChar '-' datePart [] with
  | [y, m, d] =>
    let year := (parseI32 y).getD 1970
    let month := (parseU32 m).getD 1
    let day := (parseU32 d).getD 1
    match timePart with
    | none => timestampNs year month day 0 0
    | some ts =>
      match tzSeconds ts with
      | .ok tz =>
        -- `timestampNs` takes the zone as signed hours; here the seconds are already signed
        timestampNs year month day (timeOfDay ts + tz) 0
      | .err k => .err k
      | .panic w => .panic w
  | _ => .ok 0

/-- the time part of a literal, if any, starts with a one-byte character (the grammar: a digit) -/
def timePartOk (lit : Text) : Bool :=
  match afterChar 'T' (match lit with | '@' :: r => r | r => r) with
  | none => true
  | some [] => false
  | some (c :: _) => c.utf8Size == 1

/-! ## the modelled prefix of `parse_inner` and the property verdict on reported locations -/

/-- what the text stages hand to pest, or the error they raise (kind, byte position in the source) -/
inductive Pre where
  | toPest (pre : Text) (origins : List Nat)
  | rejected (kind : String) (pos : Nat)
  deriving DecidableEq

/-- `parse_inner` up to the call of the pest recogniser -/
def preParse (src : Text) : Outcome Pre :=
  match expandC src with
  | .err k => .ok (.rejected k 0)
  | .panic w => .panic w
  | .ok (expanded, origins) =>
    match preprocessC expanded with
    | .err k => .err k
    | .panic w => .panic w
    | .ok pre =>
      match checkNesting (utf8 pre) with
      | .err k => .err k
      | .panic w => .panic w
      | .ok none => .ok (.toPest pre origins)
      | .ok (some p) =>
        match sourceLocation src origins (utf8 pre) p with
        | .ok (_, _, off) => .ok (.rejected "nesting" off)
        | .err k => .err k
        | .panic w => .panic w

/-- lengths (in characters) of the lines of a text; a final `\n` is followed by one more, empty,
line — that is where an end-of-input position lies. `n` = length of the current line so far. -/
def lineLensGo : Text → Nat → List Nat
  | [], n => [n]
  | c :: cs, n => if c = '\n' then n :: lineLensGo cs 0 else lineLensGo cs (n + 1)

/-- number of characters of line `l` (1-based) of the source, if that line exists -/
def lineLen (source : Text) (l : Nat) : Option Nat :=
  if l = 0 then none else (lineLensGo source 0)[l - 1]?

/-- "line/column lies within the input": the line exists and the column is on it or just behind it -/
def locWithin (source : Text) (line col : Nat) : Bool :=
  match lineLen source line with
  | some n => 1 ≤ col && col ≤ n + 1
  | none => false

/-- "offset lies within the input" -/
def posWithin (source : Text) (pos : Nat) : Bool := pos ≤ byteLen source

end Varpulis.ParserText
