import Varpulis.Model.RaftSM
/-!
# M-RAFTSM (storage half) — log stores and the persistent store's disk

* `LogStore` + `append/deleteConflictSince/purgeUpto/saveVote/getLogState/tryGet` mirror the log half
  of `raft/store.rs MemStore` (a `BTreeMap<u64, Entry>` = list sorted by index) and of
  `raft/persistent_store.rs RocksStore` (default column family keyed by the big-endian index, so
  RocksDB's ordered iteration is the same sorted list).
* `Disk`, `Prim`, `Write`, `Node`, `writesOf`, `step`, `reopen`, `crashDisks` mirror `RocksStore`
  operation by operation: which keys each operation writes, in which order, grouped into which atomic
  RocksDB writes (`put_cf` = one key, `WriteBatch` = several keys at once), and
  `RocksStore::open_with_shared_state` (`recover_metadata` + `replay_log`).
  Crash model (DESIGN §12.5): the disk is a key→value map, a write is atomic, a process crash keeps
  exactly a prefix of the writes issued so far and loses the in-memory state machine.
-/
namespace Varpulis.RaftStore
open Varpulis.RaftSM

/-- `openraft::Vote` (leader id = term+node, committed flag) -/
structure Vote where
  term : Nat
  node : Nat
  committed : Bool
  deriving DecidableEq, Repr

/-- vote, log and purge marker of a store -/
structure LogStore where
  vote : Option Vote := none
  log : List Entry := []
  lastPurged : Option LogId := none
  deriving DecidableEq, Repr

/-- `BTreeMap::insert(index, entry)` / RocksDB `put(index_key, entry)` on the sorted log -/
def insertEntry : List Entry → Entry → List Entry
  | [], e => [e]
  | x :: xs, e =>
    if e.id.index < x.id.index then e :: x :: xs
    else if e.id.index = x.id.index then e :: xs
    else x :: insertEntry xs e

/-- `append_to_log` -/
def appendLog (log : List Entry) (es : List Entry) : List Entry := es.foldl insertEntry log

/-- `delete_conflict_logs_since(log_id)`: removes every entry with index ≥ `log_id.index` -/
def truncLog (log : List Entry) (i : Nat) : List Entry := log.filter (fun e => e.id.index < i)

/-- the deletions of `purge_logs_upto(log_id)`: removes every entry with index ≤ `log_id.index` -/
def purgeLog (log : List Entry) (i : Nat) : List Entry := log.filter (fun e => i < e.id.index)

def LogStore.saveVote (s : LogStore) (v : Vote) : LogStore := { s with vote := some v }
def LogStore.append (s : LogStore) (es : List Entry) : LogStore := { s with log := appendLog s.log es }
def LogStore.deleteConflictSince (s : LogStore) (id : LogId) : LogStore := { s with log := truncLog s.log id.index }
def LogStore.purgeUpto (s : LogStore) (id : LogId) : LogStore :=
  { s with log := purgeLog s.log id.index, lastPurged := some id }

/-- `get_log_state`: (last_purged_log_id, last_log_id); the last log id is that of the last entry and,
when no entry is left, the purge marker -/
def LogStore.getLogState (s : LogStore) : Option LogId × Option LogId :=
  (s.lastPurged, match s.log.getLast? with
    | some e => some e.id
    | none => s.lastPurged)

/-- `try_get_log_entries(lo..hi)` -/
def LogStore.tryGet (s : LogStore) (lo hi : Nat) : List Entry :=
  s.log.filter (fun e => lo ≤ e.id.index && e.id.index < hi)

/-- the storage operations openraft issues on the log half -/
inductive LogOp where
  | saveVote (v : Vote)
  | append (es : List Entry)
  | deleteConflictSince (id : LogId)
  | purgeUpto (id : LogId)
  deriving Repr

def LogStore.step (s : LogStore) : LogOp → LogStore
  | .saveVote v => s.saveVote v
  | .append es => s.append es
  | .deleteConflictSince id => s.deleteConflictSince id
  | .purgeUpto id => s.purgeUpto id

def LogStore.run (s : LogStore) (ops : List LogOp) : LogStore := ops.foldl LogStore.step s

/-! ### the persistent store -/

/-- index of an optional log id as an optional number -/
def oidx : Option LogId → Option Nat
  | some l => some l.index
  | none => none

/-- `n` lies strictly above the optional bound (no bound: everything does) -/
def above (o : Option Nat) (n : Nat) : Bool :=
  match o with
  | none => true
  | some k => k < n

/-- `n` lies at or below the optional bound (no bound: nothing does) -/
def upto (o : Option Nat) (n : Nat) : Bool :=
  match o with
  | none => false
  | some k => n ≤ k

/-- the key→value content of the RocksDB directory: default CF (log), `meta` CF (`vote`, `last_purged`,
`last_applied`, `last_membership`), `snapshots` CF (`snapshot_data`, `snapshot_meta`) -/
structure Disk where
  ls : LogStore := {}
  lastApplied : Option LogId := none
  membership : Option StoredMembership := none
  snapData : Option Snapshot := none
  snapMeta : Option Snapshot := none
  deriving DecidableEq, Repr

/-- a single-key put or delete -/
inductive Prim where
  | putLog (e : Entry)
  | delLog (i : Nat)
  | putVote (v : Vote)
  | putPurged (id : LogId)
  | putApplied (la : Option LogId)
  | putMembership (m : StoredMembership)
  | putSnapData (s : Snapshot)
  | putSnapMeta (s : Snapshot)
  deriving Repr

/-- one atomic RocksDB write: a single `put_cf` or a `WriteBatch` -/
abbrev Write := List Prim

def applyPrim (d : Disk) : Prim → Disk
  | .putLog e => { d with ls := { d.ls with log := insertEntry d.ls.log e } }
  | .delLog i => { d with ls := { d.ls with log := d.ls.log.filter (fun e => e.id.index ≠ i) } }
  | .putVote v => { d with ls := { d.ls with vote := some v } }
  | .putPurged id => { d with ls := { d.ls with lastPurged := some id } }
  | .putApplied la => { d with lastApplied := la }
  | .putMembership m => { d with membership := some m }
  | .putSnapData s => { d with snapData := some s }
  | .putSnapMeta s => { d with snapMeta := some s }

def applyWrite (d : Disk) (w : Write) : Disk := w.foldl applyPrim d
def applyWrites (d : Disk) (ws : List Write) : Disk := ws.foldl applyWrite d

/-- a running `RocksStore`: in-memory state machine + the directory + the snapshot captured by a
`RocksSnapshotBuilder` that has not persisted it yet (openraft runs `build_snapshot` in a spawned task
while the store keeps applying) -/
structure Node where
  mem : SM := {}
  disk : Disk := {}
  pending : Option Snapshot := none
  deriving DecidableEq, Repr

/-- the operations of a history (the `RaftStorage` calls openraft makes on a `RocksStore`) -/
inductive Op where
  | saveVote (v : Vote)
  | append (es : List Entry)
  /-- read the entries after the applied position up to index `j` from the log and apply them -/
  | applyTo (j : Nat)
  /-- `get_snapshot_builder`: capture the state machine (no write) -/
  | beginSnapshot
  /-- `build_snapshot` on the captured builder: persist the captured snapshot (one batch) -/
  | finishSnapshot
  | installSnapshot (s : Snapshot)
  | purge (id : LogId)
  | deleteConflict (id : LogId)
  deriving Repr

/-- index of the persisted snapshot as read from `snapshot_meta` -/
def storedSnapIndex (d : Disk) : Option Nat :=
  match d.snapMeta with
  | some t => oidx t.metaLast
  | none => none

/-- `build_snapshot`'s guard: the persisted snapshot is newer than the one this builder captured
(`stored_index > captured index` on `Option<u64>`, `None` smallest) — then nothing is written -/
def staleBuild (d : Disk) (s : Snapshot) : Bool :=
  match storedSnapIndex d, oidx s.metaLast with
  | some y, some x => x < y
  | some _, none => true
  | none, _ => false

/-- the entries `apply` hands to `apply_to_state_machine`: `try_get_log_entries(last_applied+1 ..= j)` -/
def toApply (nd : Node) (j : Nat) : List Entry :=
  nd.disk.ls.log.filter (fun e => above (oidx nd.mem.lastApplied) e.id.index && e.id.index ≤ j)

/-- in-memory effect of an operation (`apply_to_state_machine`, `install_snapshot`; total versions) -/
def memAfter (nd : Node) : Op → SM
  | .applyTo j => applyEntriesT nd.mem (toApply nd j)
  | .installSnapshot s => installSnapshot nd.mem s
  | _ => nd.mem

/-- the atomic writes an operation issues, in order -/
def writesOf (nd : Node) : Op → List Write
  | .saveVote v => [[.putVote v]]
  | .append es => [es.map .putLog]
  | .applyTo j =>
      let m := memAfter nd (.applyTo j)
      [[.putApplied m.lastApplied, .putMembership m.membership]]
  | .beginSnapshot => []
  | .finishSnapshot =>
      match nd.pending with
      | some s => if staleBuild nd.disk s then [] else [[.putSnapData s, .putSnapMeta s]]
      | none => []
  | .installSnapshot s =>
      [[.putApplied s.metaLast, .putMembership s.metaMembership, .putSnapData s, .putSnapMeta s]]
  | .purge id =>
      [((nd.disk.ls.log.filter (fun e => e.id.index ≤ id.index)).map (fun e => Prim.delLog e.id.index))
        ++ [.putPurged id]]
  | .deleteConflict id =>
      [(nd.disk.ls.log.filter (fun e => id.index ≤ e.id.index)).map (fun e => Prim.delLog e.id.index)]

/-- the captured, not yet persisted snapshot after an operation -/
def pendingAfter (nd : Node) : Op → Option Snapshot
  | .beginSnapshot => some (buildSnapshot nd.mem)
  | .finishSnapshot => none
  | _ => nd.pending

def step (nd : Node) (op : Op) : Node :=
  { mem := memAfter nd op, disk := applyWrites nd.disk (writesOf nd op), pending := pendingAfter nd op }

def run (nd : Node) (ops : List Op) : Node := ops.foldl step nd

/-- the disks a crash can leave while `ws` are being written to `d`: after 0, 1, … all writes -/
def prefixDisks (d : Disk) : List Write → List Disk
  | [] => [d]
  | w :: ws => d :: prefixDisks (applyWrite d w) ws

/-- every disk a crash at any point of the history can leave -/
def crashDisks (nd : Node) : List Op → List Disk
  | [] => [nd.disk]
  | op :: ops => prefixDisks nd.disk (writesOf nd op) ++ crashDisks (step nd op) ops

/-- state of the stored snapshot (`snapshot_data`), the empty state when there is none -/
def snapBase (d : Disk) : State :=
  match d.snapData with
  | some s => s.dataState
  | none => {}

/-- position of the stored snapshot: log entries up to it are skipped by the replay -/
def snapFrom (d : Disk) : Option Nat :=
  match d.snapData with
  | some s => oidx s.dataLast
  | none => none

/-- loop body of `replay_log`: only `Normal` entries are applied -/
def replayStep (acc : Outcome State) (e : Entry) : Outcome State :=
  acc.bind fun st =>
    match e.payload with
    | .normal c => applyCmd st c
    | _ => .ok st

/-- `replay_log`: start from the stored snapshot (if any), then apply the `Normal` entries of the log
above the snapshot's position and up to the recorded applied position, in index order -/
def replayState (d : Disk) : Outcome State :=
  match d.lastApplied with
  | none => .ok (snapBase d)
  | some la =>
    (d.ls.log.filter (fun e => above (snapFrom d) e.id.index && decide (e.id.index ≤ la.index))).foldl
      replayStep (.ok (snapBase d))

/-- `RocksStore::open_with_shared_state`: `recover_metadata` (applied position, membership) and `replay_log` -/
def reopen (d : Disk) : Outcome Node :=
  (replayState d).bind fun st =>
    .ok { mem := { lastApplied := d.lastApplied, membership := d.membership.getD {}, state := st }, disk := d }

/-- the disk a crash leaves after exactly `n` completed writes of the history (all of it when the
history issues fewer) — what the harness produces with the crash hook armed at `n` -/
def crashDiskAt (nd : Node) : List Op → Nat → Disk
  | [], _ => nd.disk
  | op :: ops, n =>
    if n < (writesOf nd op).length then applyWrites nd.disk ((writesOf nd op).take n)
    else crashDiskAt (step nd op) ops (n - (writesOf nd op).length)

/-- SPEC of recovery: the state machine of the committed log `G` up to the applied position `la` -/
def specSM (G : List Entry) (la : Option LogId) : SM :=
  applyEntriesT {} (G.filter (fun e => upto (oidx la) e.id.index))

/-- `RocksStore::open` on its own: `recover_metadata` only — the applied position and membership are
read back, `replay_log` is NOT run, the state stays empty. It is the first half of
`open_with_shared_state` (`reopen`); nothing but `open_with_shared_state` (and tests) calls it. -/
def openOnly (d : Disk) : Node :=
  { mem := { lastApplied := d.lastApplied, membership := d.membership.getD {}, state := {} }, disk := d }

end Varpulis.RaftStore
