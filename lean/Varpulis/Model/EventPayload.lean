import Varpulis.Model.EventFile
/-!
# M-TEXT (event payloads) — the `.evt` payload grammar shared by both event-file readers
(`crates/varpulis-runtime/src/event_file.rs`: `parse_event_line`, `split_fields`,
`parse_value` / `parse_value_bounded`)

Both readers hand the payload text of a line to one function: `parse_jsonl_line` when the text
starts with `{`, `parse_event_line` otherwise. This file models the second one completely
(nesting, quotes, escapes, semicolons, positional form, arrays with the depth bound); the JSONL
branch (`serde_json`) stays an oracle. Strings are `List Char`; Rust scans bytes in `split_fields`,
which is the same for the ASCII delimiters it looks for (a skipped escape byte of a multi-byte
character leaves only non-ASCII bytes behind). Float *values* are not modelled: a text Rust's
`f64::from_str` accepts becomes `.float text`.
-/
namespace Varpulis.EventFile

/-- `varpulis_core::Value` as far as `.evt` text can produce it -/
inductive Val where
  | null
  | bool (b : Bool)
  | int (i : Int)
  | float (text : List Char)
  | str (s : List Char)
  | arr (items : List Val)
  deriving Repr, BEq, Inhabited

/-- a parsed event: type name and the fields in `IndexMap` order -/
structure Evt where
  type : List Char
  fields : List (List Char × Val)
  deriving Repr, BEq, Inhabited

/-- `limits::MAX_JSON_DEPTH` -/
def maxJsonDepth : Nat := 32

/-- state of the scan in `split_fields` -/
structure Scan where
  fields : List (List Char) := []     -- finished fields, newest first
  cur : List Char := []               -- current field, reversed
  depth : Int := 0
  inString : Bool := false
  escapeNext : Bool := false

/-- `EventFileParser::split_fields(content)`: split at commas outside strings and outside any
`{[(` nesting; fields are trimmed, empty ones dropped. -/
def splitFields (content : List Char) : List (List Char) :=
  let push (fs : List (List Char)) (cur : List Char) : List (List Char) :=
    let f := trimL cur.reverse
    if f.isEmpty then fs else f :: fs
  let st := content.foldl (fun (s : Scan) c =>
    if s.escapeNext then { s with escapeNext := false, cur := c :: s.cur }
    else if c == '\\' then { s with escapeNext := true, cur := c :: s.cur }
    else if c == '"' then { s with inString := !s.inString, cur := c :: s.cur }
    else if (c == '{' || c == '[' || c == '(') && !s.inString then { s with depth := s.depth + 1, cur := c :: s.cur }
    else if (c == '}' || c == ']' || c == ')') && !s.inString then { s with depth := s.depth - 1, cur := c :: s.cur }
    else if c == ',' && !s.inString && s.depth == 0 then { s with fields := push s.fields s.cur, cur := [] }
    else { s with cur := c :: s.cur }) ({} : Scan)
  (push st.fields st.cur).reverse

/-- `str::parse::<i64>()`: optional sign, at least one ASCII digit, range of i64 -/
def parseI64 (s : List Char) : Option Int :=
  let (neg, ds) := match s with
    | '-' :: r => (true, r)
    | '+' :: r => (false, r)
    | _ => (false, s)
  if ds.isEmpty || !ds.all Char.isDigit then none
  else
    let n : Nat := ds.foldl (fun acc c => acc * 10 + (c.toNat - 48)) 0
    if neg then (if n ≤ 2 ^ 63 then some (-(n : Int)) else none)
    else (if n < 2 ^ 63 then some (n : Int) else none)

/-- does Rust's `f64::from_str` accept the text? optional sign, then `inf`/`infinity`/`nan`
(any case) or `digits [. digits] [e [sign] digits]` with at least one mantissa digit. -/
def isF64 (s : List Char) : Bool :=
  let body := match s with
    | '-' :: r => r
    | '+' :: r => r
    | _ => s
  let low := body.map Char.toLower
  if low == "inf".toList || low == "infinity".toList || low == "nan".toList then true
  else
    let (ip, r1) := body.span Char.isDigit
    let (fp, r2, dot) := match r1 with
      | '.' :: r => let (f, r') := r.span Char.isDigit; (f, r', true)
      | _ => ([], r1, false)
    let _ := dot
    if ip.isEmpty && fp.isEmpty then false
    else match r2 with
      | [] => true
      | e :: r =>
        if e == 'e' || e == 'E' then
          let ds := match r with
            | '-' :: r' => r'
            | '+' :: r' => r'
            | _ => r
          !ds.isEmpty && ds.all Char.isDigit
        else false

/-- the escape processing of quoted strings in `parse_value_bounded` -/
def unescape : List Char → List Char
  | [] => []
  | '\\' :: c :: rest =>
    (if c == 'n' then ['\n'] else if c == 't' then ['\t'] else if c == '"' then ['"']
     else if c == '\'' then ['\''] else if c == '\\' then ['\\'] else ['\\', c]) ++ unescape rest
  | ['\\'] => ['\\']
  | c :: rest => c :: unescape rest

/-- UTF-8 length in bytes (`str::len`) -/
def byteLen (s : List Char) : Nat := (String.ofList s).utf8ByteSize

/-- `EventFileParser::parse_value_bounded(s, depth)`; `none` = `Err("Array nesting too deep")`.
The fuel `depth + 1` is the recursion bound of the Rust function itself. -/
def parseValue : Nat → List Char → Option Val
  | 0, _ => none
  | fuel + 1, s0 =>
    let s := trimL s0
    if s == "true".toList then some (.bool true)
    else if s == "false".toList then some (.bool false)
    else if s == "null".toList || s == "nil".toList then some .null
    else if byteLen s ≥ 2 && ((s.head? == some '"' && s.getLast? == some '"') || (s.head? == some '\'' && s.getLast? == some '\'')) then
      let inner := (s.drop 1).dropLast
      some (.str (if inner.contains '\\' then unescape inner else inner))
    else match parseI64 s with
      | some i => some (.int i)
      | none =>
        if isF64 s then some (.float s)
        else if s.head? == some '[' && s.getLast? == some ']' then
          if fuel = 0 then none      -- depth == 0: "Array nesting too deep"
          else ((splitFields ((s.drop 1).dropLast)).mapM (parseValue fuel)).map .arr
        else some (.str s)

/-- `IndexMap::insert`: an existing key keeps its position and gets the new value -/
def insertField (fs : List (List Char × Val)) (k : List Char) (v : Val) : List (List Char × Val) :=
  if fs.any (·.1 == k) then fs.map fun p => if p.1 == k then (k, v) else p else fs ++ [(k, v)]

/-- `str::trim_end_matches(c)` / `trim_start_matches(c)` for a single char -/
def trimEndChar (c : Char) (s : List Char) : List Char := (s.reverse.dropWhile (· == c)).reverse
def trimStartChar (c : Char) (s : List Char) : List Char := s.dropWhile (· == c)

/-- `EventFileParser::parse_event_line(line)`: `Type { f: v, … }` or `Type(v, …)`; `none` = `Err`. -/
def parseEventLine (line0 : List Char) : Option Evt :=
  let line := trimEndChar ';' (trimL line0)
  let cut (p : Char) : Option (List Char × List Char) :=
    let (a, b) := line.span (· != p)
    if b.isEmpty then none else some (a, b)
  match (cut '{').orElse (fun _ => cut '(') with
  | none => none                                           -- "Invalid event format"
  | some (tyRaw, rest) =>
    let ty := trimL tyRaw
    if rest.head? == some '{' then
      let content := trimL (trimEndChar '}' (trimStartChar '{' rest))
      let step (acc : Option (List (List Char × Val))) (f : List Char) : Option (List (List Char × Val)) :=
        acc.bind fun fs =>
          let f := trimL f
          if f.isEmpty then some fs
          else
            let (name, r) := f.span (· != ':')
            match r with
            | [] => none                                     -- "Invalid field format"
            | _ :: v => (parseValue (maxJsonDepth + 1) (trimL v)).map fun val => insertField fs (trimL name) val
      ((splitFields content).foldl step (some [])).map fun fs => { type := ty, fields := fs }
    else
      let content := trimL (trimEndChar ')' (trimStartChar '(' rest))
      let fields := splitFields content
      let rec go (i : Nat) (fs : List (List Char × Val)) : List (List Char) → Option (List (List Char × Val))
        | [] => some fs
        | f :: r =>
          let f := trimL f
          if f.isEmpty then go (i + 1) fs r
          else match parseValue (maxJsonDepth + 1) f with
            | some v => go (i + 1) (insertField fs ("field_".toList ++ (toString i).toList) v) r
            | none => none
      (go 0 [] fields).map fun fs => { type := ty, fields := fs }

end Varpulis.EventFile
