/-!
# M-RBAC — access control of the HTTP surfaces (C29)

Executable model of

* `crates/varpulis-cluster/src/rbac.rs` (`Role::has_permission`, `RbacConfig::authenticate`,
  `RbacConfig::any_admin_key`),
* the access filters `with_rbac` (cluster/api.rs), `with_optional_raft_auth` (raft/routes.rs),
  `with_api_key` / `with_admin_key` (cli/api.rs) and the guards the tenant/admin handlers run first
  (`get_tenant_by_api_key … None => 401`, `validate_admin_key`),
* warp's composition: a route is an `and`-chain (path, method, access filters …, handler); routes are
  tried in `or` order and a *rejection* falls through to the next route, a handler *reply* is final;
  the collected rejections are turned into a status by `handle_rejection`
  (cluster/api.rs and cli/auth.rs — `err.find::<T>()` in a fixed order).

The route tables themselves are not written here: `Varpulis.Generated.codeRoutes` /
`docRoutes` are regenerated from the source by `tools/extract_routes.py` on every run.
-/
namespace Varpulis.Rbac

/-! ## Vocabulary shared with the generated tables -/

/-- `rbac.rs enum Role { Viewer = 0, Operator = 1, Admin = 2 }` -/
inductive Role | viewer | operator | admin
  deriving DecidableEq, Repr

def Role.rank : Role → Nat
  | .viewer => 0 | .operator => 1 | .admin => 2

/-- `Role::has_permission`: `(*self as u8) >= (required as u8)` -/
def Role.hasPermission (self required : Role) : Bool := Nat.ble required.rank self.rank

inductive Method | get | post | put | delete | patch | head | options
  deriving DecidableEq, Repr

/-- one segment of a route's path pattern: `warp::path("lit")` or `warp::path::param::<String>()` -/
inductive Seg | lit (s : String) | param
  deriving DecidableEq, Repr

/-- the two servers: coordinator (`cluster_routes_with_raft`) and SaaS/worker (`api_routes`) -/
inductive App | cluster | cli
  deriving DecidableEq, Repr

/-- access filters that can appear in a route's `and`-chain -/
inductive AuthFilter
  | rbac (required : Role)   -- `with_rbac(rbac, Role::X)`
  | raft                     -- `with_optional_raft_auth(admin_key)`
  | apiKeyHeader             -- `with_api_key()` = `warp::header::<String>("x-api-key")`
  | adminKeyHeader           -- `with_admin_key()` = `warp::header::<String>("x-admin-key")`
  deriving DecidableEq, Repr

/-- what a handler does before anything else (extracted from the handler's body) -/
inductive Guard
  | none
  | tenantLookup    -- `match mgr.get_tenant_by_api_key(&api_key) { None => return 401 … }`
  | adminValidate   -- `if let Err(resp) = validate_admin_key(&admin_key, &configured_key) { return Ok(resp) }`
  deriving DecidableEq, Repr

structure Route where
  app : App
  name : String
  method : Method
  path : List Seg
  auth : List AuthFilter
  guard : Guard
  handler : String
  body : Bool
  query : Bool
  rateLimited : Bool
  /-- every access filter of the `and`-chain stands before the first body filter
  (`body::content_length_limit` / `body::json`) -/
  authBeforeBody : Bool
  deriving DecidableEq, Repr

/-- a closure route of `crates/varpulis-cli/src/main.rs` (`/health`, `/ready`, `/metrics`, `/ws`) -/
structure MainRoute where
  fn : String               -- enclosing function (server mode / coordinator mode)
  name : String
  method : Option Method
  path : List Seg
  ended : Bool               -- `path::end()` present (otherwise the pattern is a prefix)
  access : List String       -- access filters in the chain, e.g. `auth::with_auth`
  rateLimited : Bool
  deriving DecidableEq, Repr

/-- the access an endpoint requires (the vocabulary of docs/api/openapi.yaml) -/
inductive Req
  | open                 -- "No authentication required"
  | role (r : Role)      -- ApiKeyAuth + "Requires X role"
  | raftKey              -- raft/routes.rs: the admin key, when one is configured
  | tenantKey            -- ApiKeyAuth on the SaaS surface: the key of some tenant
  | adminKey             -- AdminKeyAuth
  | other                -- a shape the model does not recognise / a documentation gap: never granted
  deriving DecidableEq, Repr

structure DocRoute where
  method : Method
  path : List Seg
  req : Req
  deriving DecidableEq, Repr

/-! ## Configurations, credentials, requests -/

/-- `rbac.rs RbacConfig` (`keys` is a `HashMap`; the model needs no uniqueness assumption) -/
structure RbacConfig where
  keys : List (String × Role)
  allowAnonymous : Bool
  anonymousRole : Role
  deriving Repr

/-- `RbacConfig::authenticate` — the scan visits every stored key and keeps the last match -/
def RbacConfig.authenticate (c : RbacConfig) (provided : Option String) : Option Role :=
  if c.allowAnonymous && c.keys.isEmpty then some c.anonymousRole
  else match provided with
    | some key => c.keys.foldl (fun m kr => if kr.1 == key then some kr.2 else m) none
    | none => if c.allowAnonymous then some c.anonymousRole else none

/-- `RbacConfig::any_admin_key` picks *some* admin key (hash-map order): the model states what every
possible result satisfies. -/
def RbacConfig.anyAdminKeyOk (c : RbacConfig) : Option String → Bool
  | none => c.keys.all fun kr => kr.2 != .admin
  | some k => c.keys.any fun kr => kr.1 == k && kr.2 == .admin

/-- everything the access decision of either server depends on -/
structure Cfg where
  rbac : RbacConfig
  /-- `raft_routes(raft, admin_key)`; production passes `rbac.any_admin_key()` -/
  raftKey : Option String
  /-- `TenantManager::api_key_index` : api key → tenant id -/
  tenantKeys : List (String × String)
  /-- `api_routes(manager, admin_key)` -/
  adminKey : Option String
  deriving Repr

/-- the two credential headers of a request -/
structure Cred where
  apiKey : Option String     -- `x-api-key`
  adminKey : Option String   -- `x-admin-key`
  deriving Repr, DecidableEq

structure Request where
  app : App
  method : Method
  path : List String
  cred : Cred
  deriving Repr

/-! ## One route -/

/-- warp path matching: literal segments must be equal, `param::<String>()` takes any non-empty
segment, `path::end()` demands that nothing is left -/
def matchPath : List Seg → List String → Bool
  | [], [] => true
  | .lit s :: ps, x :: xs => s == x && matchPath ps xs
  | .param :: ps, x :: xs => x != "" && matchPath ps xs
  | _, _ => false

/-- rejections a route can answer with (they fall through to the next `or` branch) -/
inductive Rej | notFound | methodNotAllowed | unauthorized | forbidden | raftUnauthorized | missingHeader
  deriving DecidableEq, Repr

/-- `TenantManager::get_tenant_by_api_key` -/
def tenantOf (cfg : Cfg) (key : String) : Option String := cfg.tenantKeys.lookup key

/-- the access filters; `none` = the filter lets the request through -/
def authFilter (cfg : Cfg) (c : Cred) : AuthFilter → Option Rej
  | .rbac required =>            -- with_rbac
    match cfg.rbac.authenticate c.apiKey with
    | some role => if role.hasPermission required then none else some .forbidden
    | none => some .unauthorized
  | .raft =>                     -- with_optional_raft_auth
    match cfg.raftKey with
    | none => none
    | some expected => if c.apiKey == some expected then none else some .raftUnauthorized
  | .apiKeyHeader => if c.apiKey.isSome then none else some .missingHeader
  | .adminKeyHeader => if c.adminKey.isSome then none else some .missingHeader

/-- the route's filter chain up to (not including) the handler: path, method, access filters in
their order; the first rejection wins -/
def Route.filters (cfg : Cfg) (r : Route) (q : Request) : Option Rej :=
  if !matchPath r.path q.path then some .notFound
  else if r.method != q.method then some .methodNotAllowed
  else r.auth.findSome? (authFilter cfg q.cred)

/-- `validate_admin_key(provided, configured)`: status of the error reply, `none` = Ok -/
def validateAdminKey (provided : String) : Option String → Option Nat
  | none => some 403
  | some key => if key == provided then none else some 401

/-- the check a handler performs before it touches anything; `some status` = it replies with that
status and returns -/
def guardCheck (cfg : Cfg) (c : Cred) : Guard → Option Nat
  | .none => none
  | .tenantLookup =>
    match c.apiKey with
    | some k => if (tenantOf cfg k).isSome then none else some 401
    | none => some 401
  | .adminValidate =>
    match c.adminKey with
    | some k => validateAdminKey k cfg.adminKey
    | none => some 401

/-- route `r` lets request `q` through to its handler's body -/
def Route.serves (cfg : Cfg) (r : Route) (q : Request) : Bool :=
  (r.filters cfg q).isNone && (guardCheck cfg q.cred r.guard).isNone

/-! ## The `or` chain and `recover(handle_rejection)` -/

inductive Outcome
  | served (r : Route)          -- the body of `r.handler` runs
  | denied (status : Nat)       -- a handler's guard replied (final)
  | rejected (rejs : List Rej)  -- every route rejected
  deriving Repr

def Outcome.isServed : Outcome → Bool
  | .served _ => true
  | _ => false

/-- warp `a.or(b).or(c)…`: first route whose filters pass answers; rejections accumulate -/
def dispatchAux (cfg : Cfg) (q : Request) : List Route → List Rej → Outcome
  | [], rejs => .rejected rejs
  | r :: rs, rejs =>
    match r.filters cfg q with
    | some rej => dispatchAux cfg q rs (rej :: rejs)
    | none =>
      match guardCheck cfg q.cred r.guard with
      | some st => .denied st
      | none => .served r

def appRoutes (table : List Route) (a : App) : List Route := table.filter (·.app == a)

def dispatch (cfg : Cfg) (table : List Route) (q : Request) : Outcome :=
  dispatchAux cfg q (appRoutes table q.app) []

/-- `handle_rejection`: cluster/api.rs for the coordinator, cli/auth.rs for the SaaS server.
`Rejection::combine` drops `NotFound` next to anything else; `find::<T>()` is asked in a fixed order. -/
def recoverStatus (a : App) (rejs : List Rej) : Nat :=
  match a with
  | .cluster =>
    if rejs.contains .unauthorized then 401
    else if rejs.contains .forbidden then 403
    else if rejs.contains .missingHeader then 401
    else if rejs.contains .methodNotAllowed then 405
    else if rejs.all (· == .notFound) then 404
    else 500
  | .cli =>
    if rejs.contains .methodNotAllowed then 405
    else if rejs.all (· == .notFound) then 404
    else 500

/-- what the client sees, as far as access is concerned: `none` = served, `some status` = refused -/
def Outcome.status (a : App) : Outcome → Option Nat
  | .served _ => none
  | .denied st => some st
  | .rejected rejs => some (recoverStatus a rejs)

/-! ## The specification side: who is the caller, what is he granted -/

/-- what a credential proves under a configuration -/
structure Principal where
  role : Option Role     -- cluster RBAC role of the `x-api-key`
  raftOk : Bool          -- no raft key configured, or the `x-api-key` equals it
  tenant : Option String -- tenant owning the `x-api-key`
  admin : Bool           -- an admin key is configured and the `x-admin-key` equals it
  deriving Repr

def authenticate (cfg : Cfg) (c : Cred) : Principal where
  role := cfg.rbac.authenticate c.apiKey
  raftOk := match cfg.raftKey with
    | none => true
    | some k => c.apiKey == some k
  tenant := c.apiKey.bind (tenantOf cfg)
  admin := match cfg.adminKey, c.adminKey with
    | some k, some p => k == p
    | _, _ => false

def grants (p : Principal) : Req → Bool
  | .open => true
  | .role required => match p.role with
    | some r => r.hasPermission required
    | none => false
  | .raftKey => p.raftOk
  | .tenantKey => p.tenant.isSome
  | .adminKey => p.admin
  | .other => false

/-- the access a route effectively demands, read off its filters and its handler's guard.
Only the five shapes the code base uses are recognised; anything else is `.other`, which no
documented requirement equals. -/
def required (r : Route) : Req :=
  match r.auth, r.guard with
  | [], .none => .open
  | [.rbac x], .none => .role x
  | [.raft], .none => .raftKey
  | [.apiKeyHeader], .tenantLookup => .tenantKey
  | [.adminKeyHeader], .adminValidate => .adminKey
  | _, _ => .other

/-- do two path patterns accept a common path? -/
def unifiable : List Seg → List Seg → Bool
  | [], [] => true
  | .lit a :: ps, .lit b :: qs => a == b && unifiable ps qs
  | _ :: ps, _ :: qs => unifiable ps qs
  | _, _ => false

/-- two routes that one request can reach (same method, overlapping patterns). The server is
deliberately not compared: openapi.yaml documents one requirement per (method, path) whichever
server answers. -/
def overlap (r₁ r₂ : Route) : Bool :=
  r₁.method == r₂.method && unifiable r₁.path r₂.path

/-- table check behind `no_weaker_overlap` -/
def overlapOk (table : List Route) : Bool :=
  table.all fun r₁ => table.all fun r₂ => !overlap r₁ r₂ || required r₁ == required r₂

/-- raft endpoints are not in openapi.yaml; their documented rule is the doc comment of
`raft_routes`: "all mutating Raft endpoints require the `x-api-key` header. The `/raft/metrics`
endpoint stays unauthenticated". -/
def raftRule (m : Method) : Req := if m == .get then .open else .raftKey

def isRaftPath (p : List Seg) : Bool := p.head? == some (.lit "raft")

/-- the documented requirement of a code route -/
def docReqOf (docs : List DocRoute) (r : Route) : Option Req :=
  if isRaftPath r.path then some (raftRule r.method)
  else (docs.find? fun d => d.method == r.method && d.path == r.path).map (·.req)

/-- table check behind `doc_code_agree` (code ⊆ doc) -/
def codeDocumented (docs : List DocRoute) (table : List Route) : Bool :=
  table.all fun r => required r != .other && docReqOf docs r == some (required r)

def isApiPath (p : List Seg) : Bool := p.head? == some (.lit "api")

/-- table check behind `doc_code_agree` (doc ⊆ code): every documented operation is a code route with
the same method and pattern — except operations no code route's pattern can even overlap (`/health`
and `/ready`: closures in the binaries' `main.rs`, outside the three route files), and nothing under
`/api/` is excepted -/
def docImplemented (docs : List DocRoute) (table : List Route) : Bool :=
  docs.all fun d =>
    (table.any fun r => r.method == d.method && r.path == d.path) ||
    (!isApiPath d.path && table.all fun r => !unifiable r.path d.path)

/-- every pattern starts with a literal segment (so `/raft/…` requests reach only `/raft/…` routes) -/
def headsLiteral (docs : List DocRoute) (table : List Route) : Bool :=
  (table.all fun r => match r.path with | .lit _ :: _ => true | _ => false) &&
  (docs.all fun d => match d.path with | .lit _ :: _ => true | _ => false)

def docsUnambiguous (docs : List DocRoute) : Bool :=
  docs.all fun d => docs.all fun e => !(d.method == e.method && d.path == e.path) || d.req == e.req

/-! ### the closure routes of main.rs -/

/-- every documented operation outside `/api/` (`/health`, `/ready`) is a closure route of main.rs with the
same method, no access filter, and is documented as open -/
def closureDocAgree (docs : List DocRoute) (mains : List MainRoute) : Bool :=
  docs.all fun d => isApiPath d.path || (d.req == .open &&
    mains.any fun m => m.path == d.path && m.method == some d.method && m.access.isEmpty)

/-- the closure routes are GET probes without access filter, except `/ws`, which carries `auth::with_auth` -/
def closureAccessOk (mains : List MainRoute) : Bool :=
  mains.all fun m =>
    if m.path == [.lit "ws"] then m.access == ["auth::with_auth"]
    else m.access.isEmpty && m.method == some .get

/-- the closure routes are mounted BEFORE the route trees and most of them are prefix patterns (no
`path::end()`): none of them may start like a route of the trees, or it would answer in its place -/
def closureDisjoint (mains : List MainRoute) (table : List Route) : Bool :=
  mains.all fun m => table.all fun r => r.path.head? != m.path.head?

/-- the documented requirement of a *request* (first documented pattern that matches; raft by rule) -/
def docReqOfRequest (docs : List DocRoute) (q : Request) : Option Req :=
  if q.path.head? == some "raft" then some (raftRule q.method)
  else (docs.find? fun d => d.method == q.method && matchPath d.path q.path).map (·.req)

/-! ## A server with state: handlers are arbitrary state transformers -/

/-- one request against a server whose handler bodies are `h` (arbitrary): only a served request
runs a handler body. Handler guards (`tenantLookup`, `adminValidate`) reply before the body. -/
def step {σ : Type} (cfg : Cfg) (table : List Route) (h : Route → Request → σ → σ) (s : σ) (q : Request) :
    σ × Option Nat :=
  match dispatch cfg table q with
  | .served r => (h r q s, none)
  | o => (s, o.status q.app)

def run {σ : Type} (cfg : Cfg) (table : List Route) (h : Route → Request → σ → σ) (s : σ) : List Request → σ
  | [] => s
  | q :: qs => run cfg table h (step cfg table h s q).1 qs

end Varpulis.Rbac
