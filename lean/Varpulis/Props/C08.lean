import Varpulis.Lemmas.Expr
/-!
# C08 — numeric comparisons are mathematically correct for every int/float mix

Model: `Model/Expr.lean`. An `i64` denotes the integer `a.toInt` (`intExt`), a non-NaN `f64`
denotes the dyadic rational `±m·2^e` or ±∞ (`F.ext`); `numExt` is that denotation for a `Value`.
`Ext.cmp` is the mathematical order of the denoted numbers (dyadic rationals compared after
scaling to their common smaller exponent). `mathCmp op x y` is the truth of `x op y`.

Contexts (`Ctx`): `.expr` = the `Binary` arm of `eval_expr_with_functions` (`.where`, `.having`,
`.emit`), `.pattern` = `eval_binary_op` (`.pattern` lambdas), `.sase` = sase.rs `compare_values`
(sequence-step filters). `Mode.fixed` is the tree after the two C08 `fix:` commits (which leave
`eval_binary_op`'s `<=`/`>=` alone because the repo's tests pin its behaviour — known finding),
`Mode.old` the unchanged tree. No magnitude guard anywhere: the statements hold for every `i64`
and every non-NaN `f64`, including beyond 2^53, ±0, ±∞.
Float arithmetic (`fo`) is universally quantified: comparisons do not depend on it.
-/
namespace Varpulis.Props.C08
open Varpulis.Expr

/-- In every context, each of `<`, `<=`, `>`, `>=` on two numeric operands (int/int, float/float,
int/float, float/int) yields exactly the mathematical truth of the comparison — except in the one
place still unrepaired (`patternGap`: `<=`/`>=` on an integer and a float inside a `.pattern`
lambda, see `pattern_le_ge_mixed_counterexample`). -/
theorem cmp_correct (fo : FOps) (ctx : Ctx) (op : CmpOp) (l r : Value) (x y : Ext)
    (hl : numExt l = some x) (hr : numExt r = some y) (hgap : patternGap ctx op l r = false) :
    evalCmp fo .fixed ctx op l r = some (mathCmp op x y) := by
  cases ctx <;> cases op <;>
    first
    | (simp [evalCmp, CmpOp.toBinOp, binop, patternBinop, saseCmp, mathCmp, cmpValsExpr_num _ l r x y hl hr,
        cmpVals_fixed _ l r x y hl hr, saseCompare_fixed l r x y hl hr]; done)
    | (simp [patternGap] at hgap
       simp [evalCmp, CmpOp.toBinOp, patternBinop, mathCmp, cmpValsSameKind_exact _ l r x y hl hr hgap])

/-- full strength (no exception) outside `.pattern` lambdas: `.where`, `.having`, `.emit` and
sequence-step filters -/
theorem cmp_correct_where_emit_having_steps (fo : FOps) (ctx : Ctx) (hctx : ctx ≠ .pattern) (op : CmpOp)
    (l r : Value) (x y : Ext) (hl : numExt l = some x) (hr : numExt r = some y) :
    evalCmp fo .fixed ctx op l r = some (mathCmp op x y) :=
  cmp_correct fo ctx op l r x y hl hr (by cases ctx <;> simp_all [patternGap])

/-- The known finding: the full-strength statement is false in the `.pattern` context.
`5 >= 4.0` has no value there (`eval_binary_op` lacks the mixed `Ge`/`Le` arms and the repo's
tests/evaluator_pattern_tests.rs asserts that), although it is mathematically true. -/
theorem pattern_le_ge_mixed_counterexample (fo : FOps) :
    ¬ (∀ (ctx : Ctx) (op : CmpOp) (l r : Value) (x y : Ext), numExt l = some x → numExt r = some y →
        evalCmp fo .fixed ctx op l r = some (mathCmp op x y)) := by
  intro h
  have := h .pattern .ge (.int 5) (.float (.fin false 1 2)) (intExt 5) (.fin ⟨1, 2⟩) rfl
    (by simp [numExt, F.ext, F.snum])
  simp [evalCmp, CmpOp.toBinOp, patternBinop, cmpValsSameKind] at this

/-- `a >= b` holds exactly when `a > b` or the values are numerically equal. -/
theorem ge_iff_gt_or_eq (fo : FOps) (ctx : Ctx) (l r : Value) (x y : Ext)
    (hl : numExt l = some x) (hr : numExt r = some y) (hgap : patternGap ctx .ge l r = false) :
    evalCmp fo .fixed ctx .ge l r = some true ↔
      (evalCmp fo .fixed ctx .gt l r = some true ∨ Ext.cmp x y = .eq) := by
  rw [cmp_correct fo ctx .ge l r x y hl hr hgap,
    cmp_correct fo ctx .gt l r x y hl hr (by simp [patternGap])]
  cases h : Ext.cmp x y <;> simp [mathCmp, CmpOp.holds, h]

/-- `a <= b` holds exactly when `a < b` or the values are numerically equal. -/
theorem le_iff_lt_or_eq (fo : FOps) (ctx : Ctx) (l r : Value) (x y : Ext)
    (hl : numExt l = some x) (hr : numExt r = some y) (hgap : patternGap ctx .le l r = false) :
    evalCmp fo .fixed ctx .le l r = some true ↔
      (evalCmp fo .fixed ctx .lt l r = some true ∨ Ext.cmp x y = .eq) := by
  rw [cmp_correct fo ctx .le l r x y hl hr hgap,
    cmp_correct fo ctx .lt l r x y hl hr (by simp [patternGap])]
  cases h : Ext.cmp x y <;> simp [mathCmp, CmpOp.holds, h]

/-- The same on whole expressions: if the operands of `l op r` evaluate to numbers, a `.where` /
`.having` keeps the event iff the comparison is mathematically true, and `.emit` emits that truth
value. -/
theorem where_keeps_iff (fo : FOps) (env : Env) (op : CmpOp) (l r : Expr) (lv rv : Value) (x y : Ext)
    (hl : eval fo .fixed env l = .val lv) (hr : eval fo .fixed env r = .val rv)
    (hx : numExt lv = some x) (hy : numExt rv = some y) :
    eval fo .fixed env (.bin op.toBinOp l r) = .val (.bool (mathCmp op x y)) ∧
      keeps (eval fo .fixed env (.bin op.toBinOp l r)) = mathCmp op x y := by
  have h : eval fo .fixed env (.bin op.toBinOp l r) = .val (.bool (mathCmp op x y)) := by
    cases op <;>
      simp [eval, hl, hr, Res.bind, CmpOp.toBinOp, binop, mathCmp, cmpValsExpr_num _ lv rv x y hx hy,
        cmpVals_fixed _ lv rv x y hx hy]
  refine ⟨h, ?_⟩
  rw [h]; cases mathCmp op x y <;> rfl

/-- The `.pattern` context on whole lambda bodies (`eval_pattern_expr`, model `evalPat`): if the two
sides evaluate to numbers, the comparison is the mathematical one (outside the known gap). -/
theorem pattern_expr_cmp_correct (fo : FOps) (vars : List (String × Value)) (op : CmpOp) (l r : Expr)
    (lv rv : Value) (x y : Ext)
    (hl : evalPat fo .fixed vars l = .val lv) (hr : evalPat fo .fixed vars r = .val rv)
    (hx : numExt lv = some x) (hy : numExt rv = some y) (hgap : patternGap .pattern op lv rv = false) :
    evalPat fo .fixed vars (.bin op.toBinOp l r) = .val (.bool (mathCmp op x y)) := by
  cases op <;>
    first
    | (simp [evalPat, hl, hr, Res.bind, CmpOp.toBinOp, patternBinop, mathCmp, cmpVals_fixed _ lv rv x y hx hy]; done)
    | (simp [patternGap] at hgap
       simp [evalPat, hl, hr, Res.bind, CmpOp.toBinOp, patternBinop, mathCmp,
         cmpValsSameKind_exact _ lv rv x y hx hy hgap])

/-- The order used is a genuine order on the denoted numbers: reflexive-equal, antisymmetric,
so `>`/`<` and `>=`/`<=` are mirror images. -/
theorem cmp_swap (fo : FOps) (ctx : Ctx) (hctx : ctx ≠ .pattern) (l r : Value) (x y : Ext)
    (hl : numExt l = some x) (hr : numExt r = some y) :
    evalCmp fo .fixed ctx .gt l r = evalCmp fo .fixed ctx .lt r l ∧
      evalCmp fo .fixed ctx .ge l r = evalCmp fo .fixed ctx .le r l := by
  rw [cmp_correct_where_emit_having_steps fo ctx hctx .gt l r x y hl hr,
    cmp_correct_where_emit_having_steps fo ctx hctx .lt r l y x hr hl,
    cmp_correct_where_emit_having_steps fo ctx hctx .ge l r x y hl hr,
    cmp_correct_where_emit_having_steps fo ctx hctx .le r l y x hr hl]
  simp only [mathCmp, Ext.cmp_rev x y]
  cases Ext.cmp x y <;> simp [CmpOp.holds, Ordering.rev]

/-- `Ext.cmp` on finite values is the order of the rational numbers `num · 2^exp` (Lean's `Rat`):
the oracle is the mathematical order. -/
theorem order_is_the_rational_order (x y : Dy) :
    (Ext.cmp (.fin x) (.fin y) = .lt ↔ x.toRat < y.toRat) ∧
      (Ext.cmp (.fin x) (.fin y) = .eq ↔ x.toRat = y.toRat) ∧
      (Ext.cmp (.fin x) (.fin y) = .gt ↔ y.toRat < x.toRat) :=
  ⟨Dy.cmp_lt_iff x y, Dy.cmp_eq_iff x y, Dy.cmp_gt_iff x y⟩

/-- The exact integer/float comparison added by the repair (`cmp_int_float`) computes the
mathematical order of an arbitrary `i64` and an arbitrary non-NaN `f64`. -/
theorem cmp_int_float_exact (a : Int64) (b : F) (y : Ext) (hb : b.ext = some y) :
    cmpIntFloat a b = some (Ext.cmp (intExt a) y) := cmpIntFloat_exact a b y hb

/-- NaN is not a number: every ordering comparison with it is false (not "no value"). -/
theorem nan_compares_false (fo : FOps) (op : CmpOp) (a : Int64) (s : Bool) :
    evalCmp fo .fixed .expr op (.int a) (.float (.nan s)) = some false ∧
      evalCmp fo .fixed .expr op (.float (.nan s)) (.int a) = some false := by
  cases op <;> simp [evalCmp, CmpOp.toBinOp, binop, cmpValsExpr, cmpVals, cmpIntFloat_nan, CmpOp.holds]

/-! ### the two defects of the unchanged tree (repaired by the `fix:` commits) -/

/-- `.where(temp >= 30)` with `temp = 31.5`: the `Ge` arm had no Float × Int case, the filter had
no value and the event was dropped; `>` on the same operands was fine. -/
theorem old_ge_mixed_has_no_value (fo : FOps) :
    evalCmp fo .old .expr .ge (.float (.fin false 63 (-1))) (.int 30) = none ∧
      evalCmp fo .old .expr .gt (.float (.fin false 63 (-1))) (.int 30) = some true ∧
      evalCmp fo .fixed .expr .ge (.float (.fin false 63 (-1))) (.int 30) = some true := by
  refine ⟨by simp [evalCmp, CmpOp.toBinOp, binop, cmpValsExpr, cmpVals], ?_, ?_⟩
  · simp only [evalCmp, CmpOp.toBinOp, binop, cmpValsExpr, cmpVals]; decide
  · rw [cmp_correct fo .expr .ge _ _ (.fin ⟨63, -1⟩) (intExt 30) (by simp [numExt, F.ext, F.snum]) rfl rfl]
    decide

/-- Beyond 2^53 the cast `(a as f64)` rounds: `2^53 + 1 > 2^53.0` came out false in the old tree
(and `<=` — once added with the same cast — true); exact since the repair. -/
theorem old_cast_is_not_the_order (fo : FOps) :
    F.ofI64 9007199254740993 = .fin false 4503599627370496 1 ∧
      evalCmp fo .old .expr .gt (.int 9007199254740993) (.float (.fin false 1 53)) = some false ∧
      evalCmp fo .fixed .expr .gt (.int 9007199254740993) (.float (.fin false 1 53)) = some true := by
  have h : F.ofI64 9007199254740993 = .fin false 4503599627370496 1 := by decide
  refine ⟨h, ?_, ?_⟩
  · simp only [evalCmp, CmpOp.toBinOp, binop, cmpValsExpr, cmpVals, h]; decide
  · rw [cmp_correct fo .expr .gt _ _ (intExt 9007199254740993) (.fin ⟨1, 53⟩) rfl
      (by simp [numExt, F.ext, F.snum]) rfl]
    decide

/-- non-vacuity: mixed operands on both sides of 2^53, fractional, negative zero -/
example (fo : FOps) :
    evalCmp fo .fixed .sase .le (.int (-9223372036854775808)) (.float (.fin true 1 63)) = some true ∧
      evalCmp fo .fixed .pattern .lt (.float (.fin true 0 0)) (.int 0) = some false ∧
      evalCmp fo .fixed .expr .lt (.int 9007199254740992) (.float (.fin false 18014398509481985 (-1))) = some true := by
  refine ⟨?_, ?_, ?_⟩
  · rw [cmp_correct fo .sase .le _ _ (intExt (-9223372036854775808)) (.fin ⟨-1, 63⟩) rfl
      (by simp [numExt, F.ext, F.snum]) rfl]; decide
  · rw [cmp_correct fo .pattern .lt _ _ (.fin ⟨0, 0⟩) (intExt 0) (by simp [numExt, F.ext, F.snum]) rfl rfl]
    decide
  · rw [cmp_correct fo .expr .lt _ _ (intExt 9007199254740992) (.fin ⟨18014398509481985, -1⟩) rfl
      (by simp [numExt, F.ext, F.snum]) rfl]; decide

end Varpulis.Props.C08
