import Varpulis.Lemmas.SaseTight
/-!
# C05 — pattern state stays within its documented bounds and never panics

Statements over the SASE model (`Model/SaseKleene.lean`: NFA compilation, `advance_run_shared`,
`try_start_run_shared`, `KleeneCapture`, `enumerate_with_filter`; `Model/SaseBounds.lean`:
`process_shared`, the `swap_remove` loops, `handle_backpressure*`), for every pattern that is a
sequence of `Event` / `all Event` steps, every stream, every backpressure strategy and all caps ≥ 1.
`runAll nfa cfg {} evs` processes the whole stream from the initial engine; `none` is a panic
(an out-of-bounds `Vec` index).  The theorems quantify over *all* streams, hence over every prefix:
the bounds hold after every event.
-/
namespace Varpulis.Props.C05
open Varpulis.SaseK Varpulis.SaseB

/-- every state id stored by `NfaCompiler::compile` is a valid index of `nfa.states` -/
theorem compile_wf (steps : List Step) : NfaWf (compile steps) := SaseK.compile_wf steps

/-- one `process` call keeps the invariant (run vectors within `max_runs`, captures within the Kleene cap
and consistent with their ZDD), does not panic, and each completion emits at most `max_results` matches -/
theorem step_invariant (steps : List Step) (cfg : Cfg) (s : Eng) (e : Ev)
    (hm : 1 ≤ cfg.maxRuns) (hk : 1 ≤ cfg.lim.maxEvents) (h : EngInv (compile steps) cfg s) :
    ∃ s' o, step (compile steps) cfg s e = some (s', o) ∧ EngInv (compile steps) cfg s' ∧ OutOk cfg o :=
  step_ok _ cfg s e (SaseK.compile_wf steps) hm hk h

/-- processing never panics: no `nfa.states[i]`, `events[idx]`, `aliases[idx]` is out of bounds -/
theorem never_panics (steps : List Step) (cfg : Cfg) (evs : List Ev)
    (hm : 1 ≤ cfg.maxRuns) (hk : 1 ≤ cfg.lim.maxEvents) :
    runAll (compile steps) cfg {} evs ≠ none := by
  obtain ⟨s, outs, h, _, _⟩ := runAll_ok _ cfg (SaseK.compile_wf steps) hm hk evs {} (engInv_init _ _)
  simp [h]

/-- for every strategy and `max_runs ≥ 1`: after any stream, the unpartitioned run vector and the run
vector of every partition hold at most `max_runs` partial matches -/
theorem runs_bounded (steps : List Step) (cfg : Cfg) (evs : List Ev) (s : Eng) (outs : List Out)
    (hm : 1 ≤ cfg.maxRuns) (hk : 1 ≤ cfg.lim.maxEvents)
    (h : runAll (compile steps) cfg {} evs = some (s, outs)) :
    s.runs.length ≤ cfg.maxRuns ∧ ∀ p ∈ s.parts, p.2.length ≤ cfg.maxRuns := by
  obtain ⟨s', outs', h', hinv, _⟩ := runAll_ok _ cfg (SaseK.compile_wf steps) hm hk evs {} (engInv_init _ _)
  rw [h] at h'; cases h'
  exact ⟨hinv.1.1, fun p hp => (hinv.2 p hp).1⟩

/-- the backpressure decision itself, for each strategy: a vector within the limit stays within the limit -/
theorem backpressure_bounded (cfg : Cfg) (created dropped : Nat) (runs : List Run) (r : Run)
    (hm : 1 ≤ cfg.maxRuns) (hl : runs.length ≤ cfg.maxRuns) :
    (handleBp cfg created dropped runs r).1.length ≤ cfg.maxRuns :=
  handleBp_length cfg created dropped runs r hm hl

/-- every partial match keeps at most `max_kleene_events` events in its Kleene capture (and the capture's
vectors agree with its variable counter) -/
theorem kleene_events_bounded (steps : List Step) (cfg : Cfg) (evs : List Ev) (s : Eng) (outs : List Out)
    (hm : 1 ≤ cfg.maxRuns) (hk : 1 ≤ cfg.lim.maxEvents)
    (h : runAll (compile steps) cfg {} evs = some (s, outs)) :
    ∀ v ∈ s.runs :: s.parts.map (·.2), ∀ r ∈ v, ∀ k, r.kc = some k → k.events.length ≤ cfg.lim.maxEvents := by
  obtain ⟨s', outs', h', hinv, _⟩ := runAll_ok _ cfg (SaseK.compile_wf steps) hm hk evs {} (engInv_init _ _)
  rw [h] at h'; cases h'
  intro v hv r hr k hkc
  have hvi : VecInv (compile steps) cfg v := by
    rcases List.mem_cons.mp hv with rfl | hv
    · exact hinv.1
    · rcases List.mem_map.mp hv with ⟨p, hp, rfl⟩
      exact hinv.2 p hp
  have := (hvi.2 r hr).2 k hkc
  rw [this.1.lenE]; exact this.2

/-- each completion (one run reaching its accept state) emits at most `max_enumeration_results` matches -/
theorem matches_per_completion_bounded (steps : List Step) (cfg : Cfg) (evs : List Ev) (s : Eng) (outs : List Out)
    (hm : 1 ≤ cfg.maxRuns) (hk : 1 ≤ cfg.lim.maxEvents) (hr : 1 ≤ cfg.lim.maxResults)
    (h : runAll (compile steps) cfg {} evs = some (s, outs)) :
    ∀ o ∈ outs, ∀ g ∈ o.emitted, g.length ≤ cfg.lim.maxResults := by
  obtain ⟨s', outs', h', _, hout⟩ := runAll_ok _ cfg (SaseK.compile_wf steps) hm hk evs {} (engInv_init _ _)
  rw [h] at h'; cases h'
  intro o ho g hg
  exact hout o ho g hg hr

/-! ### the run's own stack (known finding `C05-trailing-all-uncapped`) -/

/-- KNOWN finding: the full-strength statement "each partial match keeps at most `max_kleene_events` Kleene
events" fails for a pattern that ends in `all`: no capture is created on that path and the cap is never consulted.
With cap 1 the run of `A -> all B` holds A and three B events. -/
theorem trailing_all_stack_counterexample :
    let steps : List Step := [{ ty := 0, alias := some 0 }, { ty := 1, alias := some 1, kleene := true }]
    let cfg : Cfg := { maxRuns := 4, lim := { maxEvents := 1, maxResults := 10 } }
    let ev (i t : Nat) : Ev := { id := i, ty := t, x := none, y := none }
    (runAll (compile steps) cfg {} [ev 0 0, ev 1 1, ev 2 1, ev 3 1]).map
      (fun r => r.1.runs.map fun x => (x.stack.length, x.kc.isSome)) = some [(4, false)] := by
  decide

/-- partial statement, guard `NoTrailingAll` (decidable on the compiled automaton: no state has an epsilon edge
to `Accept`, i.e. the pattern does not end in `all`): every stack entry is accounted for by a forward move of the
automaton or by an event of the capture, so a run never holds more than `#states + max_kleene_events` entries. -/
theorem stack_bounded_partial (steps : List Step) (cfg : Cfg) (evs : List Ev) (s : Eng) (outs : List Out)
    (hm : 1 ≤ cfg.maxRuns) (hk : 1 ≤ cfg.lim.maxEvents) (hnt : NoTrailingAll (compile steps))
    (h : runAll (compile steps) cfg {} evs = some (s, outs)) :
    ∀ v ∈ s.runs :: s.parts.map (·.2), ∀ r ∈ v,
      r.stack.length ≤ (compile steps).states.length + cfg.lim.maxEvents := by
  obtain ⟨s', outs', h', hinv, _⟩ := runAll_ok _ cfg (SaseK.compile_wf steps) hm hk evs {} (engInv_init _ _)
  rw [h] at h'; cases h'
  have hst := runAll_stack _ cfg (compile_fwd steps) hnt evs {} s outs ⟨by simp, by simp⟩ h
  intro v hv r hr
  have hri : RunInv (compile steps) cfg.lim r ∧ StackInv r := by
    rcases List.mem_cons.mp hv with rfl | hv
    · exact ⟨hinv.1.2 r hr, hst.1 r hr⟩
    · rcases List.mem_map.mp hv with ⟨p, hp, rfl⟩
      exact ⟨(hinv.2 p hp).2 r hr, hst.2 p hp r hr⟩
  have h1 := hri.1.1
  have h2 := hri.2
  simp only [StackInv, kcN] at h2
  cases hkc : r.kc with
  | none => simp only [hkc] at h2; omega
  | some k =>
    have := (hri.1.2 k hkc).2
    simp only [hkc] at h2; omega

/-- tight form of the partial statement, with the guard on the *pattern*: if the last step is not `all`, a run never
holds more than `#steps + max_kleene_events` stack entries (one per step reached, plus the events of its capture).
Missing part (the known finding): patterns whose last step is `all` — see `trailing_all_stack_counterexample`. -/
theorem stack_bounded_tight_partial (steps : List Step) (cfg : Cfg) (evs : List Ev) (s : Eng) (outs : List Out)
    (hm : 1 ≤ cfg.maxRuns) (hk : 1 ≤ cfg.lim.maxEvents) (hlast : lastIsAll steps false = false)
    (h : runAll (compile steps) cfg {} evs = some (s, outs)) :
    ∀ v ∈ s.runs :: s.parts.map (·.2), ∀ r ∈ v, r.stack.length ≤ steps.length + cfg.lim.maxEvents := by
  obtain ⟨s', outs', h', hinv, _⟩ := runAll_ok _ cfg (SaseK.compile_wf steps) hm hk evs {} (engInv_init _ _)
  rw [h] at h'; cases h'
  have hst := runAll_tight _ cfg (compile_fwdR steps) ((noTrailingAll_iff steps).mpr hlast) evs {} s outs
    ⟨by simp, by simp⟩ h
  intro v hv r hr
  have hri : RunInv (compile steps) cfg.lim r ∧ TInv (compile steps) r := by
    rcases List.mem_cons.mp hv with rfl | hv
    · exact ⟨hinv.1.2 r hr, hst.1 r hr⟩
    · rcases List.mem_map.mp hv with ⟨p, hp, rfl⟩
      exact ⟨(hinv.2 p hp).2 r hr, hst.2 p hp r hr⟩
  have h2 := hri.2
  have h3 := rank_le_steps steps r.cur
  simp only [TInv, kcN] at h2
  cases hkc : r.kc with
  | none => simp only [hkc] at h2; omega
  | some k =>
    have := (hri.1.2 k hkc).2
    simp only [hkc] at h2; omega

/-- the guard is the intended one: the compiled automaton has no epsilon edge to `Accept` exactly when the pattern's
last step is not an `all` step (`lastIsAll steps false` = `kleene` flag of the last step, `false` for the empty pattern) —
this is the guard the C05 judge uses for the KNOWN classification -/
theorem trailing_guard_iff (steps : List Step) :
    NoTrailingAll (compile steps) ↔ lastIsAll steps false = false := noTrailingAll_iff steps

/-- the guard is satisfiable: `A -> all B -> C` does not end in `all` -/
example : NoTrailingAll (compile [{ ty := 0, alias := some 0 }, { ty := 1, alias := some 1, kleene := true, pred := some (.cmpRef 0 .gt 1 0) },
                                  { ty := 2, alias := some 2 }]) := by
  intro st hst
  simp [compile, compileStep, Nfa.addState, Nfa.addTransition, Nfa.addEpsilon, Nfa.setAccept, modifyAt, List.modify, selfRef] at hst
  rcases hst with rfl | rfl | rfl | rfl | rfl <;> rfl

/-- non-vacuity: a stream on `A -> all B where x > b.x -> C` with `max_runs = 1`, eviction, caps 2 / 3
reaches a state with a full run vector and a full capture, and enumerates up to the cap -/
example :
    let steps : List Step := [{ ty := 0, alias := some 0 }, { ty := 1, alias := some 1, kleene := true, pred := some (.cmpRef 0 .gt 1 0) },
                             { ty := 2, alias := some 2 }]
    let cfg : Cfg := { maxRuns := 1, lim := { maxEvents := 2, maxResults := 3 }, strat := .evictOldest }
    let ev (i t : Nat) (x : Int) : Ev := { id := i, ty := t, x := some x, y := none }
    (runAll (compile steps) cfg {} [ev 0 0 0, ev 1 0 0, ev 2 1 1, ev 3 1 2, ev 4 1 3]).map
        (fun r => (r.1.runs.length, r.1.evicted, r.1.runs.map fun x => x.kc.map (·.events.length))) = some (1, 1, [some 2])
    ∧ ((runAll (compile steps) cfg {} [ev 0 0 0, ev 2 1 1, ev 3 1 2, ev 4 1 3, ev 5 2 0]).map
        (fun r => r.2.map fun o => o.emitted.map List.length)) = some [[], [], [], [], [3]] := by
  decide

end Varpulis.Props.C05
