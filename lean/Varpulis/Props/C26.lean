import Varpulis.Lemmas.Ctx
/-!
# C26 — splitting a program across execution contexts does not change its output

Model: `Varpulis.Ctx` (Model/Ctx.lean), the context runtime of context.rs as a network of processes
with bounded FIFO inboxes. A run is *any* sequence of scheduler choices (`Reach`): the theorems hold
for every thread schedule. `net.blocking = true` is the runtime with an awaited `send` in
`drain_and_route_output`; `net.blocking = false` is the code as written (`try_send`, result ignored).
`sent log c q` = what context `c` produced for context `q`, `cons log (.ctx c) q` = what `q` took
from its inbox that `c` had put there, `proj (.ctx c) (inbox q)` = what is still queued on that edge.
-/
namespace Varpulis.Props.C26
open Varpulis.Ctx

variable {σ ε : Type}

/-- Inside a channel nothing is lost, duplicated or reordered, whatever the schedule and the send
discipline: consumed ++ still queued = successfully enqueued, on every edge (ingress edges too). -/
theorem edge_invariant (net : Net σ ε) (inputs : List ε) (σ0 : Nat → σ) (s : St σ ε)
    (h : Reach net (init inputs σ0) s) (p : Src) (q : Nat) :
    cons s.log p q ++ proj p (s.inbox q) = enq s.log p q :=
  reach_edgeInv net _ s (edgeInv_init inputs σ0) h p q

/-- With blocking sends, for every edge producer→consumer and every schedule:
`consumed ++ inbox|edge = produced`. -/
theorem blocking_edge_invariant (net : Net σ ε) (hb : net.blocking = true) (inputs : List ε)
    (σ0 : Nat → σ) (s : St σ ε) (h : Reach net (init inputs σ0) s) (c q : Nat) :
    cons s.log (.ctx c) q ++ proj (.ctx c) (s.inbox q) = sent s.log c q := by
  have hn : NoDrop s.log := reach_noDrop net hb _ s (by intro o ho; simp [init] at ho) h
  rw [sent_eq_enq_of_noDrop _ _ _ hn]
  exact edge_invariant net inputs σ0 s h (.ctx c) q

/-- … hence at every moment what the consumer has received is a prefix of what was produced for it
(exactly once, in production order, nothing skipped) … -/
theorem blocking_delivery_prefix (net : Net σ ε) (hb : net.blocking = true) (inputs : List ε)
    (σ0 : Nat → σ) (s : St σ ε) (h : Reach net (init inputs σ0) s) (c q : Nat) :
    cons s.log (.ctx c) q <+: sent s.log c q :=
  ⟨_, blocking_edge_invariant net hb inputs σ0 s h c q⟩

/-- … and once the consumer's inbox is drained it has received exactly the produced sequence. -/
theorem blocking_delivery_exactly_once_in_order (net : Net σ ε) (hb : net.blocking = true)
    (inputs : List ε) (σ0 : Nat → σ) (s : St σ ε) (h : Reach net (init inputs σ0) s) (c q : Nat)
    (hq : s.inbox q = []) : cons s.log (.ctx c) q = sent s.log c q := by
  have := blocking_edge_invariant net hb inputs σ0 s h c q
  rw [hq] at this; simpa [proj] using this

/-- With blocking sends no forwarding attempt is ever dropped. -/
theorem blocking_no_drop (net : Net σ ε) (hb : net.blocking = true) (inputs : List ε)
    (σ0 : Nat → σ) (s : St σ ε) (h : Reach net (init inputs σ0) s) (c q : Nat) :
    drops s.log c q = [] :=
  drops_nil_of_noDrop _ _ _ (reach_noDrop net hb _ s (by intro o ho; simp [init] at ho) h)

/-- The code as written (`try_send`, result ignored), any schedule: every event produced for an
edge is delivered, still queued, or was dropped by a failed `try_send` — and those are the only
three possibilities (as multisets). This is the narrow guard of finding `C26-try-send-drop`:
an undelivered event is exactly a recorded failed `try_send`. -/
theorem try_send_accounting (net : Net σ ε) (inputs : List ε) (σ0 : Nat → σ) (s : St σ ε)
    (h : Reach net (init inputs σ0) s) (c q : Nat) :
    (sent s.log c q).Perm (cons s.log (.ctx c) q ++ proj (.ctx c) (s.inbox q) ++ drops s.log c q) := by
  rw [edge_invariant net inputs σ0 s h (.ctx c) q]
  exact sent_perm s.log c q

/-- Full-strength statement fails for the code as written: two contexts, inbox capacity 1, the
schedule "producer forwards twice before the consumer runs" drops the second event — the system
is quiescent, context 0 produced `[11, 12]` for context 1, context 1 received `[11]`, and the
consumer's reaction to `12` (event `22`) never reaches the output. -/
theorem try_send_drop_counterexample :
    ∃ s, Reach (chain2 1 false) (init [1, 2] (fun _ => ())) s ∧
      Quiescent (chain2 1 false) s ∧ s.todo = [] ∧
      sent s.log 0 1 = [11, 12] ∧ cons s.log (.ctx 0) 1 = [11] ∧ drops s.log 0 1 = [12] ∧
      s.out = [11, 12, 21] := by
  obtain ⟨s, hr, hp⟩ := witness (chain2 1 false) (init [1, 2] (fun _ => ()))
    [.feed, .recv 0, .fwd 0, .feed, .recv 0, .fwd 0, .recv 1, .fwd 1]
    (fun s => decide (Quiescent (chain2 1 false) s ∧ s.todo = [] ∧
      sent s.log 0 1 = [11, 12] ∧ cons s.log (.ctx 0) 1 = [11] ∧ drops s.log 0 1 = [12] ∧
      s.out = [11, 12, 21])) (by decide)
  exact ⟨s, hr, of_decide_eq_true hp⟩

/-- The same program and inputs with blocking sends: every schedule that reaches quiescence
delivered `[11, 12]` (instance of `blocking_delivery_exactly_once_in_order`), e.g. -/
example : ∃ s, Reach (chain2 1 true) (init [1, 2] (fun _ => ())) s ∧ s.out = [11, 12, 21, 22] := by
  obtain ⟨s, hr, hp⟩ := witness (chain2 1 true) (init [1, 2] (fun _ => ()))
    [.feed, .recv 0, .fwd 0, .feed, .recv 0, .recv 1, .fwd 0, .fwd 1, .recv 1, .fwd 1]
    (fun s => decide (s.out = [11, 12, 21, 22])) (by decide)
  exact ⟨s, hr, of_decide_eq_true hp⟩

/-- Why the repair is not simply "await `send`": contexts may forward to each other in a cycle,
and then blocking sends can deadlock. Two contexts, capacity 1, context 0 forwards to 1 and 1 back
to 0: a reachable state in which both are blocked forever inside `drain_and_route_output`
(neither can forward nor receive) with events still undelivered. -/
theorem blocking_send_deadlock_counterexample :
    ∃ s, Reach (cycle2 1 true) (init [1, 2, 3, 4] (fun _ => ())) s ∧
      (∀ c, c < 2 → step (cycle2 1 true) s (.recv c) = none ∧ step (cycle2 1 true) s (.fwd c) = none) ∧
      s.pend 0 = [13] ∧ s.pend 1 = [21] := by
  obtain ⟨s, hr, hp⟩ := witness (cycle2 1 true) (init [1, 2, 3, 4] (fun _ => ()))
    [.feed, .recv 0, .fwd 0, .feed, .recv 0, .recv 1, .fwd 0, .feed, .recv 0, .feed]
    (fun s => (step (cycle2 1 true) s (.recv 0)).isNone && (step (cycle2 1 true) s (.fwd 0)).isNone &&
      (step (cycle2 1 true) s (.recv 1)).isNone && (step (cycle2 1 true) s (.fwd 1)).isNone &&
      decide (s.pend 0 = [13] ∧ s.pend 1 = [21])) (by decide)
  simp only [Bool.and_eq_true, Option.isNone_iff_eq_none, decide_eq_true_eq] at hp
  refine ⟨s, hr, ?_, hp.2.1, hp.2.2⟩
  intro c hc
  match c, hc with
  | 0, _ => exact ⟨hp.1.1.1.1, hp.1.1.1.2⟩
  | 1, _ => exact ⟨hp.1.1.2, hp.1.2⟩

/-- The executable successor function used to validate implementation traces is exactly the
transition relation. -/
theorem next_sound_complete (net : Net σ ε) (s s' : St σ ε) (l : Label) :
    (l, s') ∈ next net s ↔ Step net s l s' :=
  ⟨next_sound net s s' l, next_complete net s s' l⟩

end Varpulis.Props.C26
