import Varpulis.Lemmas.Ctx
/-!
# C26 — splitting a program across execution contexts does not change its output

Model: `Varpulis.Ctx` (Model/Ctx.lean), the context runtime of context.rs as a network of processes
with bounded FIFO inboxes. A run is *any* sequence of scheduler choices (`Reach`): the theorems hold
for every thread schedule. `net.blocking = true` is the runtime with an awaited `send` in
`drain_and_route_output`; `net.blocking = false` is the code as written (`try_send`, result ignored).
`sent log c q` = what context `c` produced for context `q`, `cons log (.ctx c) q` = what `q` took
from its inbox that `c` had put there, `proj (.ctx c) (inbox q)` = what is still queued on that edge.
-/
namespace Varpulis.Props.C26
open Varpulis.Ctx

variable {σ ε τ : Type}

/-- Inside a channel nothing is lost, duplicated or reordered, whatever the schedule and the send
discipline: consumed ++ still queued = successfully enqueued, on every edge (ingress edges too). -/
theorem edge_invariant (net : Net σ ε) (inputs : List ε) (σ0 : Nat → σ) (s : St σ ε)
    (h : Reach net (init inputs σ0) s) (p : Src) (q : Nat) :
    cons s.log p q ++ proj p (s.inbox q) = enq s.log p q :=
  reach_edgeInv net _ s (edgeInv_init inputs σ0) h p q

/-- With blocking sends, for every edge producer→consumer and every schedule:
`consumed ++ inbox|edge = produced`. -/
theorem blocking_edge_invariant (net : Net σ ε) (hb : net.blocking = true) (inputs : List ε)
    (σ0 : Nat → σ) (s : St σ ε) (h : Reach net (init inputs σ0) s) (c q : Nat) :
    cons s.log (.ctx c) q ++ proj (.ctx c) (s.inbox q) = sent s.log c q := by
  have hn : NoDrop s.log := reach_noDrop net hb _ s (by intro o ho; simp [init] at ho) h
  rw [sent_eq_enq_of_noDrop _ _ _ hn]
  exact edge_invariant net inputs σ0 s h (.ctx c) q

/-- … hence at every moment what the consumer has received is a prefix of what was produced for it
(exactly once, in production order, nothing skipped) … -/
theorem blocking_delivery_prefix (net : Net σ ε) (hb : net.blocking = true) (inputs : List ε)
    (σ0 : Nat → σ) (s : St σ ε) (h : Reach net (init inputs σ0) s) (c q : Nat) :
    cons s.log (.ctx c) q <+: sent s.log c q :=
  ⟨_, blocking_edge_invariant net hb inputs σ0 s h c q⟩

/-- … and once the consumer's inbox is drained it has received exactly the produced sequence. -/
theorem blocking_delivery_exactly_once_in_order (net : Net σ ε) (hb : net.blocking = true)
    (inputs : List ε) (σ0 : Nat → σ) (s : St σ ε) (h : Reach net (init inputs σ0) s) (c q : Nat)
    (hq : s.inbox q = []) : cons s.log (.ctx c) q = sent s.log c q := by
  have := blocking_edge_invariant net hb inputs σ0 s h c q
  rw [hq] at this; simpa [proj] using this

/-- With blocking sends no forwarding attempt is ever dropped. -/
theorem blocking_no_drop (net : Net σ ε) (hb : net.blocking = true) (inputs : List ε)
    (σ0 : Nat → σ) (s : St σ ε) (h : Reach net (init inputs σ0) s) (c q : Nat) :
    drops s.log c q = [] :=
  drops_nil_of_noDrop _ _ _ (reach_noDrop net hb _ s (by intro o ho; simp [init] at ho) h)

/-- The code as written (`try_send`, result ignored), any schedule: every event produced for an
edge is delivered, still queued, or was dropped by a failed `try_send` — and those are the only
three possibilities (as multisets). This is the narrow guard of finding `C26-try-send-drop`:
an undelivered event is exactly a recorded failed `try_send`. -/
theorem try_send_accounting (net : Net σ ε) (inputs : List ε) (σ0 : Nat → σ) (s : St σ ε)
    (h : Reach net (init inputs σ0) s) (c q : Nat) :
    (sent s.log c q).Perm (cons s.log (.ctx c) q ++ proj (.ctx c) (s.inbox q) ++ drops s.log c q) := by
  rw [edge_invariant net inputs σ0 s h (.ctx c) q]
  exact sent_perm s.log c q

/-- Full-strength statement fails for the code as written: two contexts, inbox capacity 1, the
schedule "producer forwards twice before the consumer runs" drops the second event — the system
is quiescent, context 0 produced `[11, 12]` for context 1, context 1 received `[11]`, and the
consumer's reaction to `12` (event `22`) never reaches the output. -/
theorem try_send_drop_counterexample :
    ∃ s, Reach (chain2 1 false) (init [1, 2] (fun _ => ())) s ∧
      Quiescent (chain2 1 false) s ∧ s.todo = [] ∧
      sent s.log 0 1 = [11, 12] ∧ cons s.log (.ctx 0) 1 = [11] ∧ drops s.log 0 1 = [12] ∧
      s.out = [11, 12, 21] := by
  obtain ⟨s, hr, hp⟩ := witness (chain2 1 false) (init [1, 2] (fun _ => ()))
    [.feed, .recv 0, .fwd 0, .feed, .recv 0, .fwd 0, .recv 1, .fwd 1]
    (fun s => decide (Quiescent (chain2 1 false) s ∧ s.todo = [] ∧
      sent s.log 0 1 = [11, 12] ∧ cons s.log (.ctx 0) 1 = [11] ∧ drops s.log 0 1 = [12] ∧
      s.out = [11, 12, 21])) (by decide)
  exact ⟨s, hr, of_decide_eq_true hp⟩

/-- The same program and inputs with blocking sends: every schedule that reaches quiescence
delivered `[11, 12]` (instance of `blocking_delivery_exactly_once_in_order`), e.g. -/
example : ∃ s, Reach (chain2 1 true) (init [1, 2] (fun _ => ())) s ∧ s.out = [11, 12, 21, 22] := by
  obtain ⟨s, hr, hp⟩ := witness (chain2 1 true) (init [1, 2] (fun _ => ()))
    [.feed, .recv 0, .fwd 0, .feed, .recv 0, .recv 1, .fwd 0, .fwd 1, .recv 1, .fwd 1]
    (fun s => decide (s.out = [11, 12, 21, 22])) (by decide)
  exact ⟨s, hr, of_decide_eq_true hp⟩

/-- Why the repair is not simply "await `send`": contexts may forward to each other in a cycle,
and then blocking sends can deadlock. Two contexts, capacity 1, context 0 forwards to 1 and 1 back
to 0: a reachable state in which both are blocked forever inside `drain_and_route_output`
(neither can forward nor receive) with events still undelivered. -/
theorem blocking_send_deadlock_counterexample :
    ∃ s, Reach (cycle2 1 true) (init [1, 2, 3, 4] (fun _ => ())) s ∧
      (∀ c, c < 2 → step (cycle2 1 true) s (.recv c) = none ∧ step (cycle2 1 true) s (.fwd c) = none) ∧
      s.pend 0 = [13] ∧ s.pend 1 = [21] := by
  obtain ⟨s, hr, hp⟩ := witness (cycle2 1 true) (init [1, 2, 3, 4] (fun _ => ()))
    [.feed, .recv 0, .fwd 0, .feed, .recv 0, .recv 1, .fwd 0, .feed, .recv 0, .feed]
    (fun s => (step (cycle2 1 true) s (.recv 0)).isNone && (step (cycle2 1 true) s (.fwd 0)).isNone &&
      (step (cycle2 1 true) s (.recv 1)).isNone && (step (cycle2 1 true) s (.fwd 1)).isNone &&
      decide (s.pend 0 = [13] ∧ s.pend 1 = [21])) (by decide)
  simp only [Bool.and_eq_true, Option.isNone_iff_eq_none, decide_eq_true_eq] at hp
  refine ⟨s, hr, ?_, hp.2.1, hp.2.2⟩
  intro c hc
  match c, hc with
  | 0, _ => exact ⟨hp.1.1.1.1, hp.1.1.1.2⟩
  | 1, _ => exact ⟨hp.1.1.2, hp.1.2⟩

/-! ### programs: with contexts = without contexts

A *program* (`Prog`) is a list of single-upstream stream declarations (name, source type, context)
with one sequential transducer per stream; its meaning on `inputs`, independent of any context or
schedule, is the unique solution `O` of the Kahn equations (`Kahn`): a raw type carries the inputs
of that type, a stream carries what its transducer emits on the sequence of its source.
`progNet P n cap blocking fuel` is the network whose contexts run the engine (`levels`, the model
of `process_inner`) on their share of `P`, routed by `routeTy` (= `ingress_routing`).
`Prog.single` puts every stream into context 0: the program without contexts. -/

/-- For every schedule: once a run in which no forwarding `try_send` failed (e.g. any run with
blocking sends) has consumed all inputs and drained all queues, the output channel holds, for every
stream, exactly the meaning of the program — provided no stream is starved by the
one-context-per-type routing table (guard of finding `C26-one-context-per-type`) and the engines'
depth limit cuts nothing off. -/
theorem contexts_compute_program_meaning (P : Prog τ ε) (hwf : ProgWF P) (n cap : Nat) (blocking : Bool)
    (fuel : Nat) (hctx : ∀ sd ∈ P.streams, sd.ctx < n)
    (hdepth : ∀ c st x, levelsDone P c fuel st [x] = true)
    (hns : ∀ sd ∈ P.streams, starved P.streams sd = false)
    (inputs : List ε) (hraw : ∀ e ∈ inputs, ∀ sd ∈ P.streams, P.ty e ≠ sd.name)
    (s : St (Nat → τ) ε) (hr : Reach (progNet P n cap blocking fuel) (init inputs (progInit P)) s)
    (hnd : NoDrop s.log) (hq : Quiescent (progNet P n cap blocking fuel) s) (ht : s.todo = []) :
    Kahn P inputs (byType P inputs s.out) :=
  progNet_kahn P hwf n cap blocking fuel hctx hdepth hns inputs hraw s hr hnd hq ht

/-- The meaning is unique (programs are acyclic: a stream's source type is declared before it). -/
theorem program_meaning_unique (P : Prog τ ε) (hacyc : ∀ sd ∈ P.streams, sd.src < sd.name)
    (inputs : List ε) (O O' : Nat → List ε) (h : Kahn P inputs O) (h' : Kahn P inputs O') :
    ∀ t, O t = O' t :=
  kahn_unique P hacyc inputs O O' h h'

/-- **Splitting a single-upstream program across contexts does not change its output**, for any
two schedules: a drop-free complete run `sC` of the program with its contexts and a complete run
`sP` of the same program without contexts emit, for every stream, the same events in the same
order, and the same multiset of events overall. -/
theorem contexts_same_outputs [DecidableEq ε] (P : Prog τ ε) (hwf : ProgWF P)
    (hacyc : ∀ sd ∈ P.streams, sd.src < sd.name)
    (n cap : Nat) (blocking : Bool) (fuel : Nat)
    (hctx : ∀ sd ∈ P.streams, sd.ctx < n)
    (hdepth : ∀ c st x, levelsDone P c fuel st [x] = true)
    (hns : ∀ sd ∈ P.streams, starved P.streams sd = false)
    (cap0 fuel0 : Nat) (hdepth0 : ∀ c st x, levelsDone P.single c fuel0 st [x] = true)
    (inputs : List ε) (hraw : ∀ e ∈ inputs, ∀ sd ∈ P.streams, P.ty e ≠ sd.name)
    (sC : St (Nat → τ) ε) (hrC : Reach (progNet P n cap blocking fuel) (init inputs (progInit P)) sC)
    (hndC : NoDrop sC.log) (hqC : Quiescent (progNet P n cap blocking fuel) sC) (htC : sC.todo = [])
    (sP : St (Nat → τ) ε) (hrP : Reach (progNet P.single 1 cap0 true fuel0) (init inputs (progInit P.single)) sP)
    (hqP : Quiescent (progNet P.single 1 cap0 true fuel0) sP) (htP : sP.todo = []) :
    (∀ t, sC.out.filter (fun e => P.ty e = t) = sP.out.filter (fun e => P.ty e = t)) ∧ sC.out.Perm sP.out := by
  have hwf0 := single_wf P hwf
  have hctx0 : ∀ sd ∈ P.single.streams, sd.ctx < 1 := by
    intro sd hsd
    simp only [Prog.single, List.mem_map] at hsd
    obtain ⟨sd', _, rfl⟩ := hsd; simp
  have hraw0 : ∀ e ∈ inputs, ∀ sd ∈ P.single.streams, P.single.ty e ≠ sd.name := by
    intro e he sd hsd
    simp only [Prog.single, List.mem_map] at hsd
    obtain ⟨sd', hsd', rfl⟩ := hsd
    exact hraw e he sd' hsd'
  have hndP : NoDrop sP.log := reach_noDrop _ rfl _ sP (by intro o ho; simp [init] at ho) hrP
  have kC := progNet_kahn P hwf n cap blocking fuel hctx hdepth hns inputs hraw sC hrC hndC hqC htC
  have kP := (single_kahn P inputs _).1
    (progNet_kahn P.single hwf0 1 cap0 true fuel0 hctx0 hdepth0 (single_not_starved P hwf) inputs hraw0 sP hrP hndP hqP htP)
  have huniq := kahn_unique P hacyc inputs _ _ kC kP
  have hfil : ∀ t, sC.out.filter (fun e => P.ty e = t) = sP.out.filter (fun e => P.ty e = t) := by
    intro t
    by_cases hany : P.streams.any (fun sd => sd.name == t) = true
    · have := huniq t
      simp only [byType, single_any, hany, if_true] at this
      exact this
    · have hno : ∀ sd ∈ P.streams, sd.name ≠ t := by
        intro sd hsd hn
        apply hany; simp only [List.any_eq_true]; exact ⟨sd, hsd, by simp [hn]⟩
      have e1 : sC.out.filter (fun e => P.ty e = t) = [] := by
        apply List.filter_eq_nil_iff.2
        intro e he hty
        obtain ⟨sd, hsd, hn⟩ := progNet_out_typed P hwf n cap blocking fuel hctx hdepth inputs hraw sC hrC e he
        exact hno sd hsd (by rw [← hn]; simpa using hty)
      have e2 : sP.out.filter (fun e => P.ty e = t) = [] := by
        apply List.filter_eq_nil_iff.2
        intro e he hty
        obtain ⟨sd, hsd, hn⟩ := progNet_out_typed P.single hwf0 1 cap0 true fuel0 hctx0 hdepth0 inputs hraw0 sP hrP e he
        simp only [Prog.single, List.mem_map] at hsd
        obtain ⟨sd', hsd', rfl⟩ := hsd
        have hty' : P.ty e = t := by simpa using hty
        exact hno sd' hsd' (hn.symm.trans hty')
      rw [e1, e2]
  exact ⟨hfil, perm_of_filter_eq P.ty _ _ hfil⟩

/-- … and with blocking sends every run is drop-free. -/
theorem blocking_runs_are_drop_free (net : Net σ ε) (hb : net.blocking = true) (inputs : List ε)
    (σ0 : Nat → σ) (s : St σ ε) (h : Reach net (init inputs σ0) s) : NoDrop s.log :=
  reach_noDrop net hb _ s (by intro o ho; simp [init] at ho) h

/-- The premises are satisfiable by a non-trivial program: three chained stateful streams, the
first two in context 0 (the second is fed inside the engine), the third in context 1; capacity 1,
blocking sends. -/
example : ProgWF (demoProg 1) ∧ (∀ sd ∈ (demoProg 1).streams, sd.src < sd.name) ∧
    (∀ sd ∈ (demoProg 1).streams, sd.ctx < 2) ∧
    (∀ c st x, levelsDone (demoProg 1) c 10 st [x] = true) ∧
    (∀ c st x, levelsDone (demoProg 1).single c 10 st [x] = true) ∧
    (∀ sd ∈ (demoProg 1).streams, starved (demoProg 1).streams sd = false) ∧
    ∃ s, Reach (progNet (demoProg 1) 2 1 true 10) (init [(0, 5), (0, 7)] (progInit (demoProg 1))) s ∧
      Quiescent (progNet (demoProg 1) 2 1 true 10) s ∧ s.todo = [] ∧
      s.out = [(1, 5), (2, 5), (1, 8), (2, 9), (3, 5), (3, 10)] := by
  refine ⟨demo_wf 1, by decide, by decide, demo_depth, demo_depth_single, by decide, ?_⟩
  obtain ⟨s, hr, hp⟩ := witness (progNet (demoProg 1) 2 1 true 10) (init [(0, 5), (0, 7)] (progInit (demoProg 1)))
    [.feed, .recv 0, .fwd 0, .fwd 0, .feed, .recv 0, .fwd 0, .recv 1, .fwd 0, .fwd 1, .recv 1, .fwd 1]
    (fun s => decide (Quiescent (progNet (demoProg 1) 2 1 true 10) s ∧ s.todo = [] ∧
      s.out = [(1, 5), (2, 5), (1, 8), (2, 9), (3, 5), (3, 10)])) (by decide)
  exact ⟨s, hr, of_decide_eq_true hp⟩

/-- Finding `C26-one-context-per-type`, the full-strength statement fails without the guard: a raw
type consumed by streams of two contexts is routed to the context of the last one only. A complete,
drop-free run with contexts never shows an event of stream `1`; the run without contexts does. -/
theorem one_context_per_type_counterexample :
    starved fanProg.streams { name := 1, src := 0, ctx := 0 } = true ∧
    (∃ sC, Reach (progNet fanProg 2 4 false 10) (init [(0, 5)] (progInit fanProg)) sC ∧
      Quiescent (progNet fanProg 2 4 false 10) sC ∧ sC.todo = [] ∧ drops sC.log 0 1 = [] ∧
      drops sC.log 1 0 = [] ∧ sC.out = [(2, 5)]) ∧
    (∃ sP, Reach (progNet fanProg.single 1 4 true 10) (init [(0, 5)] (progInit fanProg.single)) sP ∧
      Quiescent (progNet fanProg.single 1 4 true 10) sP ∧ sP.todo = [] ∧ sP.out = [(1, 5), (2, 5)]) := by
  refine ⟨by decide, ?_, ?_⟩
  · obtain ⟨s, hr, hp⟩ := witness (progNet fanProg 2 4 false 10) (init [(0, 5)] (progInit fanProg))
      [.feed, .recv 1, .fwd 1]
      (fun s => decide (Quiescent (progNet fanProg 2 4 false 10) s ∧ s.todo = [] ∧ drops s.log 0 1 = [] ∧
        drops s.log 1 0 = [] ∧ s.out = [(2, 5)])) (by decide)
    exact ⟨s, hr, of_decide_eq_true hp⟩
  · obtain ⟨s, hr, hp⟩ := witness (progNet fanProg.single 1 4 true 10) (init [(0, 5)] (progInit fanProg.single))
      [.feed, .recv 0, .fwd 0, .fwd 0]
      (fun s => decide (Quiescent (progNet fanProg.single 1 4 true 10) s ∧ s.todo = [] ∧
        s.out = [(1, 5), (2, 5)])) (by decide)
    exact ⟨s, hr, of_decide_eq_true hp⟩

/-- The executable successor function used to validate implementation traces is exactly the
transition relation. -/
theorem next_sound_complete (net : Net σ ε) (s s' : St σ ε) (l : Label) :
    (l, s') ∈ next net s ↔ Step net s l s' :=
  ⟨next_sound net s s' l, next_complete net s s' l⟩

end Varpulis.Props.C26
