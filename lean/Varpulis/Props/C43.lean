import Varpulis.Lemmas.LspText
/-!
# C43 — language-server requests never crash and report valid ranges

Statements over the model `Varpulis.LspText` (Model/LspText.lean) of the text helpers every handler
of `crates/varpulis-lsp` goes through. A `&str` is a `List Char`, byte offsets are measured with
`Char.utf8Size`, Rust panics (slice off a char boundary / out of range) are the outcome `.panic`;
the character classes (`char::is_alphanumeric`, `is_whitespace`) are arbitrary parameters.
All statements are for every document, every (line, column) and every byte offset, including
positions past the end. The handlers' use of the parser and of the validator is not modelled —
their panic-freedom and the ranges they finally report are fuzzed and judged by the harness
(*partial*). The `…_defect_witness` theorems show the panics of the unchanged tree on the model of the
unrepaired code.
-/
namespace Varpulis.Props.C43
open Varpulis.LspText

/-- `position_to_line_col` / `byte_offset_to_position`: for any byte offset (on a boundary, inside a
character, past the end) the reported (line, column) lies within the document -/
theorem position_to_line_col_within_document (source : Str) (position : Nat) :
    validPos source (posToLineCol source position) := posToLineCol_valid source position

/-- word-at-position (hover, go-to-definition, references) never panics: the `Vec<char>` range
`chars[start..end]` is always in bounds, although the guard compares the column with the byte length -/
theorem word_at_position_never_panics (isWord : Char → Bool) (text : Str) (line col : Nat) :
    wordAt isWord text line col ≠ .panic := wordAt_ne_panic isWord text line col

/-- completion: the prefix slice is on a char boundary for every position; it is the first `col`
characters of the line (the whole line when `col` is past its end, empty when the line does not exist) -/
theorem completion_prefix_never_panics (text : Str) (line col : Nat) :
    complPrefix text line col = .ok ((((lines text)[line]?).getD []).take col) :=
  complPrefix_eq text line col

/-- the whole connector-parameter context detection of `get_completions` never panics, for any
prefix and any character classes -/
theorem connector_context_never_panics (isWs isWord isAlpha : Char → Bool) (pre : Str) :
    ∃ b, connectorCtx isWs isWord isAlpha pre = .ok b := by
  have hb : ∀ after, ∃ b, connectorBranch isWs isWord isAlpha after = .ok b := by
    intro after
    unfold connectorBranch
    rw [afterConnector_eq]
    split
    · exact ⟨_, rfl⟩
    · split
      · exact ⟨_, rfl⟩
      · split <;> exact ⟨_, rfl⟩
  unfold connectorCtx
  split
  · exact hb _
  · split
    · exact hb _
    · exact ⟨_, rfl⟩

/-- non-vacuity of the context detection (blank before the connector name, identifier only, a
second word, `.from(` takes precedence over a later `.to(`) -/
example : connectorCtx (· == ' ') (fun c => c.isAlphanum || c == '_') Char.isAlpha "s.from( ab, ".toList = .ok true := by decide
example : connectorCtx (· == ' ') (fun c => c.isAlphanum || c == '_') Char.isAlpha "s.from( ab".toList = .ok true := by decide
example : connectorCtx (· == ' ') (fun c => c.isAlphanum || c == '_') Char.isAlpha "s.from( ab x".toList = .ok false := by decide
example : connectorCtx (· == ' ') (fun c => c.isAlphanum || c == '_') Char.isAlpha "s.to(k, a).from(1".toList = .ok false := by decide

/-- completion inside `.from(` / `.to(`: the slice after the connector name is on a char boundary -/
theorem connector_param_slice_never_panics (isWs isWord : Char → Bool) (after : Str) :
    afterConnector isWs isWord after = .ok ((after.dropWhile isWs).dropWhile isWord) :=
  afterConnector_eq isWs isWord after

/-- semantic tokens: the identifier slice `remaining[..byte_len]` is on a char boundary and the
token length is the number of characters of the identifier -/
theorem identifier_token_never_panics (isWord : Char → Bool) (s : Str) :
    identToken isWord s = .ok (s.takeWhile isWord).length := identToken_eq isWord s

/-- diagnostics: the end column never panics -/
theorem error_end_column_never_panics (isWord : Char → Bool) (source : Str) (line startCol : Nat) :
    errorEndColumn isWord source line startCol ≠ .panic := by
  unfold errorEndColumn
  split
  · simp only []; split <;> simp
  · simp

/-- diagnostics: whatever line/column the parser reports (it works on a preprocessed text) and
however the end is padded, the clamped position lies within the document -/
theorem clamped_position_within_document (source : Str) (line col : Nat) :
    validPos source (clampPos source line col) := clampPos_valid source line col

/-- … and clamping keeps `start ≤ end` -/
theorem clamped_range_ordered (source : Str) (l1 c1 l2 c2 : Nat) (h : posLe (l1, c1) (l2, c2)) :
    posLe (clampPos source l1 c1) (clampPos source l2 c2) := clampPos_mono source l1 c1 l2 c2 h

/-! ### The defects repaired by the `fix:` commits, on the model of the unrepaired code -/

/-- `get_completions` on the comment line `# ééé…` at character 3: byte 3 is inside the first `é` -/
theorem completion_defect_witness :
    complPrefixBuggy "# ééé…".toList 0 3 = .panic ∧ complPrefix "# ééé…".toList 0 3 = .ok "# é".toList := by
  decide

/-- `.from( aé`: the untrimmed text sliced at the length of `aé` ends inside `é` -/
theorem connector_param_defect_witness :
    afterConnectorBuggy (· == ' ') (fun c => c.isAlpha || c == 'é') " aé".toList = .panic ∧
    afterConnector (· == ' ') (fun c => c.isAlpha || c == 'é') " aé".toList = .ok [] := by
  decide

/-- semantic tokens on the identifier `aé`: 2 characters used as byte length 2 of a 3-byte text -/
theorem identifier_token_defect_witness :
    identTokenBuggy (fun c => c.isAlpha || c == 'é') "aé".toList = .panic ∧
    identToken (fun c => c.isAlpha || c == 'é') "aé".toList = .ok 2 := by
  decide

/-- diagnostics: an error at character column 14 of `let x = "日日日" )` is byte 14, inside the second `日` -/
theorem error_end_column_defect_witness :
    errorEndColumnBuggy Char.isAlphanum "let x = \"日日日\" )".toList 0 14 = .panic ∧
    errorEndColumn Char.isAlphanum "let x = \"日日日\" )".toList 0 14 = .ok 15 := by
  decide

/-- non-vacuity of the position statements: a multi-line document with multi-byte characters, a
byte offset inside a character, a position far outside -/
example : posToLineCol "é\n日本x".toList 7 = (1, 2) ∧ validPos "é\n日本x".toList (1, 2) ∧
    clampPos "é\n日本x".toList 5 9 = (1, 3) ∧ wordAt Char.isAlpha "ab cd".toList 0 4 = .ok "cd".toList := by
  decide

end Varpulis.Props.C43
