import Varpulis.Lemmas.Rbac
import Varpulis.Generated.Routes
/-!
# C29 — every API endpoint enforces its required role

`codeRoutes` / `docRoutes` (`Varpulis.Generated`) are regenerated from the *current* source by
`tools/extract_routes.py` before this file is built: the warp route tables of
`cluster/api.rs`, `cluster/raft/routes.rs`, `cli/api.rs` (method, path pattern, access filters in
order, the guard each tenant/admin handler runs first) and the operations of `docs/api/openapi.yaml`
with their stated requirement. The model (`Model/Rbac.lean`) mirrors `RbacConfig::authenticate`,
`Role::has_permission`, `with_rbac`, `with_optional_raft_auth`, `validate_admin_key`, the tenant key
lookup, warp's `or` fall-through and both `handle_rejection`s.

All theorems quantify over **every** configuration `cfg : Cfg` (arbitrary key→role list, anonymous
access on/off with any anonymous role, raft key set/unset, arbitrary tenant key index, admin key
set/unset) and every request (any path, any header strings).
A source edit that drops or weakens an access filter changes `codeRoutes` and breaks `tables_ok`.
-/
namespace Varpulis.Props.C29
open Varpulis.Rbac Varpulis.Generated

/-- **doc_code_agree**. Every code route has a recognised access shape and exactly the requirement
openapi.yaml documents for its (method, pattern) — raft routes: the rule stated in `raft_routes`' doc
comment; every documented `/api/…` operation is a code route; the documentation states one
requirement per operation. -/
theorem doc_code_agree :
    (∀ r ∈ codeRoutes, required r ≠ .other ∧ docReqOf docRoutes r = some (required r)) ∧
    (∀ d ∈ docRoutes, (∃ r ∈ codeRoutes, r.method = d.method ∧ r.path = d.path) ∨
        (isApiPath d.path = false ∧ ∀ r ∈ codeRoutes, unifiable r.path d.path = false)) ∧
    docsUnambiguous docRoutes = true := by
  refine ⟨?_, ?_, by decide +kernel⟩
  · have h : codeDocumented docRoutes codeRoutes = true := by decide +kernel
    intro r hr
    simpa using List.all_eq_true.mp h r hr
  · have h : docImplemented docRoutes codeRoutes = true := by decide +kernel
    intro d hd
    have := List.all_eq_true.mp h d hd
    simpa using this

/-- **no_weaker_overlap**. warp falls through to the next `or` branch when a route rejects, so two
routes that one request can reach must not differ in what they require: they never do. -/
theorem no_weaker_overlap :
    ∀ r₁ ∈ codeRoutes, ∀ r₂ ∈ codeRoutes, r₁.method = r₂.method → unifiable r₁.path r₂.path = true →
      required r₁ = required r₂ := by
  have h : overlapOk codeRoutes = true := by decide +kernel
  intro r₁ h₁ r₂ h₂ hm hu
  exact overlapOk_spec h h₁ h₂ (by simp [overlap, hm, hu])

/-- the five table facts the general theorems need -/
theorem tables_ok : TablesOk docRoutes codeRoutes where
  documented := by decide +kernel
  implemented := by decide +kernel
  unambiguous := by decide +kernel
  overlap := by decide +kernel
  heads := by decide +kernel

/-- every route that can change something (any method but GET) demands a credential -/
theorem mutating_routes_guarded : ∀ r ∈ codeRoutes, r.method ≠ .get → required r ≠ .open := by
  have h : (codeRoutes.all fun r => r.method == .get || required r != .open) = true := by decide +kernel
  intro r hr hm
  have := List.all_eq_true.mp h r hr
  simpa [hm] using this

/-- **served ↔ grants**, per route: a code route lets a request that matches it through to its
handler body iff the credential, authenticated under the configuration, is granted the route's
requirement. Unbounded in `cfg` and in the credential strings. -/
theorem served_iff_grants (cfg : Cfg) (q : Request) :
    ∀ r ∈ codeRoutes, matchPath r.path q.path = true → r.method = q.method →
      (r.serves cfg q = true ↔ grants (authenticate cfg q.cred) (required r) = true) :=
  fun r hr hp hm => serves_iff_grants cfg r q (tables_ok.shape hr).1 hp hm

/-- **served ↔ grants**, per server (with the `or` chain and fall-through): a request is served iff
a route of that server matches it and the caller is granted that route's requirement. -/
theorem server_serves_iff (cfg : Cfg) (q : Request) :
    (dispatch cfg codeRoutes q).isServed = true ↔
      ∃ r ∈ codeRoutes, r.app = q.app ∧ matchPath r.path q.path = true ∧ r.method = q.method ∧
        grants (authenticate cfg q.cred) (required r) = true :=
  dispatch_served_iff tables_ok cfg q

/-- the property's first sentence: **a request is served only if the credential grants the
endpoint's required access** — the requirement the documentation states for the request. -/
theorem served_only_with_documented_access (cfg : Cfg) (q : Request) (r : Route)
    (h : dispatch cfg codeRoutes q = .served r) :
    ∃ req, docReqOfRequest docRoutes q = some req ∧ grants (authenticate cfg q.cred) req = true :=
  served_has_documented_access tables_ok cfg q r h

/-- **rejected_frame**. A request that is not served reaches no handler body: whatever the handlers
do (`h` arbitrary), the state is unchanged. -/
theorem rejected_frame {σ : Type} (cfg : Cfg) (h : Route → Request → σ → σ) (s : σ) (q : Request)
    (hn : (dispatch cfg codeRoutes q).isServed = false) : (step cfg codeRoutes h s q).1 = s :=
  step_not_served cfg codeRoutes h s q hn

/-- lifted over request sequences: the final state is the one reached by the served requests alone -/
theorem rejected_requests_invisible {σ : Type} (cfg : Cfg) (h : Route → Request → σ → σ) (s : σ) (qs : List Request) :
    run cfg codeRoutes h s qs = run cfg codeRoutes h s (qs.filter fun q => (dispatch cfg codeRoutes q).isServed) :=
  run_filter_served cfg codeRoutes h s qs

/-- **filter order**: in every route's `and`-chain all access filters (`with_rbac`,
`with_optional_raft_auth`, `with_api_key`, `with_admin_key`) stand before the first body filter
(`body::content_length_limit`, `body::json`): a caller the filters refuse never makes the server read or
parse a request body. (On the SaaS routes the *header* filter stands before the body, the key itself is
validated by the handler's guard, i.e. after the body was parsed: an invalid key with a malformed body
is answered 400, not 401 — refused either way.) -/
theorem access_filters_before_body : ∀ r ∈ codeRoutes, r.authBeforeBody = true := by
  have h : (codeRoutes.all fun r => r.authBeforeBody) = true := by decide +kernel
  intro r hr
  exact List.all_eq_true.mp h r hr

/-- **closure routes of main.rs vs documentation**: the documented operations outside `/api/` (`/health`,
`/ready`) are closure routes with the documented method and no access filter, documented as open -/
theorem closure_routes_agree_with_doc :
    ∀ d ∈ docRoutes, isApiPath d.path = false →
      d.req = .open ∧ ∃ m ∈ mainRoutes, m.path = d.path ∧ m.method = some d.method ∧ m.access = [] := by
  have h : closureDocAgree docRoutes mainRoutes = true := by decide +kernel
  intro d hd hapi
  have := List.all_eq_true.mp h d hd
  simp only [hapi, Bool.false_or, Bool.and_eq_true, beq_iff_eq, List.any_eq_true, List.isEmpty_iff] at this
  obtain ⟨hreq, m, hm, ⟨hp, hmeth⟩, hacc⟩ := this
  exact ⟨hreq, m, hm, hp, hmeth, hacc⟩

/-- the closure routes are unauthenticated GET probes (`/health`, `/ready`, `/metrics`), except `/ws`,
which carries `auth::with_auth`; and none of them starts like a route of the trees mounted after them
(they are prefix patterns tried first: a clash would answer in the tree route's place, unauthenticated) -/
theorem closure_routes_access_and_disjoint :
    (∀ m ∈ mainRoutes, if m.path = [.lit "ws"] then m.access = ["auth::with_auth"]
        else m.access = [] ∧ m.method = some .get) ∧
    (∀ m ∈ mainRoutes, ∀ r ∈ codeRoutes, r.path.head? ≠ m.path.head?) := by
  constructor
  · have h : closureAccessOk mainRoutes = true := by decide +kernel
    intro m hm
    have := List.all_eq_true.mp h m hm
    split at this <;> rename_i hp
    · rw [if_pos (by simpa using hp)]; simpa using this
    · rw [if_neg (by simpa using hp)]; simpa using this
  · have h : closureDisjoint mainRoutes codeRoutes = true := by decide +kernel
    intro m hm r hr
    have := List.all_eq_true.mp (List.all_eq_true.mp h m hm) r hr
    simpa using this

/-- roles are a chain: what a role may do, every higher role may do -/
theorem role_hierarchy (a b c : Role) (hab : a.hasPermission b = true) (hbc : b.hasPermission c = true) :
    a.hasPermission c = true := by
  rw [hasPermission_iff] at *; omega

/-- without anonymous access a role comes only from a stored key equal to the presented one:
no header, or a string that is not a stored key, is nobody -/
theorem no_key_no_role (c : RbacConfig) (p : Option String) (r : Role)
    (hanon : c.allowAnonymous = false) (h : c.authenticate p = some r) : ∃ k, p = some k ∧ (k, r) ∈ c.keys :=
  authenticate_some_key hanon h

/-! Non-vacuity: a multi-key configuration with a raft key, a tenant and an admin key; the viewer
key reads, may not delete; no key is refused; the raft key opens `/raft/vote`; a tenant key is
nobody on the cluster API. -/
def exCfg : Cfg :=
  { rbac := { keys := [("v", .viewer), ("o", .operator), ("a", .admin)], allowAnonymous := false, anonymousRole := .viewer },
    raftKey := some "a", tenantKeys := [("t1", "tenant-1")], adminKey := some "adm" }

def exReq (a : App) (m : Method) (p : List String) (k : Option String) (ak : Option String := none) : Request :=
  { app := a, method := m, path := p, cred := { apiKey := k, adminKey := ak } }

example : (dispatch exCfg codeRoutes (exReq .cluster .get ["api", "v1", "cluster", "workers", "w1"] (some "v"))).isServed = true := by
  decide +kernel
example : (dispatch exCfg codeRoutes (exReq .cluster .delete ["api", "v1", "cluster", "workers", "w1"] (some "v"))).status .cluster = some 403 := by
  decide +kernel
example : (dispatch exCfg codeRoutes (exReq .cluster .delete ["api", "v1", "cluster", "workers", "w1"] none)).status .cluster = some 401 := by
  decide +kernel
example : (dispatch exCfg codeRoutes (exReq .cluster .post ["raft", "vote"] (some "o"))).status .cluster = some 500 := by
  decide +kernel
example : (dispatch exCfg codeRoutes (exReq .cluster .post ["raft", "vote"] (some "a"))).isServed = true := by
  decide +kernel
example : (dispatch exCfg codeRoutes (exReq .cluster .get ["api", "v1", "cluster", "topology"] (some "t1"))).status .cluster = some 401 := by
  decide +kernel
example : (dispatch exCfg codeRoutes (exReq .cli .get ["api", "v1", "pipelines"] (some "t1"))).isServed = true := by
  decide +kernel
example : (dispatch exCfg codeRoutes (exReq .cli .get ["api", "v1", "pipelines"] (some "a"))).status .cli = some 401 := by
  decide +kernel
example : (dispatch exCfg codeRoutes (exReq .cli .delete ["api", "v1", "tenants", "x"] none (some "adm"))).isServed = true := by
  decide +kernel

end Varpulis.Props.C29
