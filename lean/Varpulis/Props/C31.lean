import Varpulis.Lemmas.PathSec
/-!
# C31 — file paths accepted by the server always stay inside the work directory

Statements over the model `Varpulis.PathSec` (Model/PathSec.lean): `validate` mirrors
`security.rs validate_path`, `canon` is `Path::canonicalize` (= glibc `realpath`, *trusted* to be
the component walk `resolve`; the harness compares both on generated directory trees), `World` is an
arbitrary file system — any set of directories, files and symlinks (dangling, cyclic, absolute,
relative, leaving the work directory) — and any path strings (`..`, `.`, `//`, odd names).
"Inside the work directory" is meant physically: the accepted path `c` extends the *resolved* work
directory by a chain of real directories — no symlink is left anywhere in `c` — and resolving `c`
again yields `c` (the file the server then opens is the one that was checked; the file system
changing between check and use is outside the model).
-/
namespace Varpulis.Props.C31
open Varpulis.PathSec

/-- DESIGN §7 C31: an accepted path is the canonical form of the requested path, and the components
of the canonical work directory are a prefix of its components -/
theorem validate_sound (w : World) (p wd : String) (c : List String)
    (h : validate w p wd = .ok c) :
    ∃ cw, canon w wd = some cw ∧ canon w (join wd p) = some c ∧ cw <+: c := by
  unfold validate at h
  split at h
  · cases h
  · rename_i cw hcw
    split at h
    · cases h
    · rename_i c' hc
      split at h
      · rename_i hp
        cases h
        exact ⟨cw, hcw, hc, List.isPrefixOf_iff_prefix.mp hp⟩
      · cases h

/-- what `canonicalize` returns names a real node: all ancestors are real directories, the node
itself is a directory or a regular file; no symlink remains -/
theorem canon_real (w : World) (hw : WF w) (s : String) (c : List String)
    (h : canon w s = some c) : Real w.fs c := by
  unfold canon at h
  split at h
  · cases h
  · refine resolve_real _ _ _ _ c ?_ h
    split
    · exact realDir_nil _
    · exact hw.1

/-- … and is a fixed point of resolution (with any symlink budget): opening it reaches exactly it -/
theorem canon_fixpoint (w : World) (hw : WF w) (s : String) (c : List String)
    (h : canon w s = some c) (fuel : Nat) : resolve w.fs fuel [] c = some c := by
  have hr := canon_real w hw s c h
  unfold canon at h
  split at h
  · cases h
  · have hn : ∀ n ∈ c, ValidName n := by
      refine resolve_names _ _ _ _ c ?_ h
      split
      · intro n hn; cases hn
      · exact hw.2
    simpa using resolve_fix w.fs fuel c [] (realDir_nil _) hn (by simpa using hr)

/-- The property: whatever the tree and the request, an accepted path lies physically below the
resolved work directory: `c = cw ++ rel`, every node strictly between `cw` and `c` is a real
directory, `c` is a real directory or file, and `c` re-resolves to itself. -/
theorem accepted_path_inside_workdir (w : World) (hw : WF w) (p wd : String) (c : List String)
    (h : validate w p wd = .ok c) :
    ∃ cw rel, canon w wd = some cw ∧ Real w.fs cw ∧ c = cw ++ rel ∧
      (∀ k, k < rel.length → look w.fs (cw ++ rel.take k) = some .dir) ∧
      (look w.fs c = some .dir ∨ look w.fs c = some .file) ∧
      ∀ fuel, resolve w.fs fuel [] c = some c := by
  obtain ⟨cw, hcw, hc, ⟨rel, hrel⟩⟩ := validate_sound w p wd c h
  have hreal := canon_real w hw _ c hc
  refine ⟨cw, rel, hcw, canon_real w hw _ cw hcw, hrel.symm, ?_, hreal.2, canon_fixpoint w hw _ c hc⟩
  intro k hk
  apply hreal.1
  subst hrel
  have hne : rel ≠ [] := by intro e; subst e; simp at hk
  rw [List.dropLast_append_of_ne_nil hne]
  refine (List.prefix_append_right_inj cw).mpr ?_
  rw [List.dropLast_eq_take]
  exact List.take_prefix_take_left (by omega)

/-- every error outcome is a rejection: nothing but `.ok` hands a path to the caller (by
construction of `Res`); and the three checks happen in the order of the Rust code -/
theorem rejected_outside (w : World) (p wd : String) (cw c : List String)
    (hcw : canon w wd = some cw) (hc : canon w (join wd p) = some c) (hout : ¬ cw <+: c) :
    validate w p wd = .errTraversal := by
  simp [validate, hcw, hc, List.isPrefixOf_iff_prefix, hout]

/-! ### Why both ingredients are needed (the two seeded changes, as theorems) -/

/-- checking the prefix before canonicalising accepts a path that leaves through a symlink;
`validate` rejects it -/
theorem lexical_prefix_check_unsound :
    validateLexical wEscape "l/passwd" "/wd" = .ok ["etc", "passwd"] ∧
    validate wEscape "l/passwd" "/wd" = .errTraversal := by
  constructor <;>
  simp +decide [validateLexical, validate, canon, resolve, comps, splitSlash, join, look, wEscape,
    maxSymlinks, List.lookup]

/-- comparing rendered strings instead of components accepts `/wd-evil/x` for work directory `/wd` -/
theorem string_prefix_check_unsound :
    validateStr wSibling "/wd-evil/x" "/wd" = .ok ["wd-evil", "x"] ∧
    validate wSibling "/wd-evil/x" "/wd" = .errTraversal := by
  constructor <;>
  simp +decide [validateStr, validate, canon, resolve, comps, splitSlash, join, look, wSibling,
    maxSymlinks, List.lookup]

/-- non-vacuity: a request through `..`, a relative symlink and a duplicate slash that is accepted,
in a world (`wOk`) whose work directory is itself reached through a symlink -/
example : WF wOk := ⟨realDir_nil _, by intro n hn; cases hn⟩
example : validate wOk "cur//../cur/f.vpl" "/work" = .ok ["srv", "data", "a", "f.vpl"] := by
  simp +decide [validate, canon, resolve, comps, splitSlash, join, look, wOk, maxSymlinks, List.lookup]

end Varpulis.Props.C31
