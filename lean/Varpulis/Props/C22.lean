import Varpulis.Lemmas.TenantStore
/-!
# C22 — tenant and pipeline metadata survive restarts exactly as acknowledged

Model: `Varpulis.TenantStore` (Model/TenantStore.lean): the in-memory manager (`mem`), the state
store (`tenant:<id>` snapshots + `tenants:index`), the store writes of each acknowledged
management operation, `TenantManager::recover`. A crash happens after any number of store writes
of the in-flight operation. `MapEq` = same tenants with the same name, API key and pipelines
(id ↦ name, source, status).
-/
namespace Varpulis.Props.C22
open Varpulis.TenantStore

/-- without a crash: a restarted server recovers exactly the acknowledged metadata -/
theorem restart_recovers_acknowledged (ops : List Op) :
    MapEq (recover (run ops).store) (run ops).mem := recover_eq_of_sync _ (run_sync ops)

/-- each recovered tenant is recovered once -/
theorem recovered_once (ops : List Op) : ((recover (run ops).store).map (·.1)).Nodup :=
  recover_keys_nodup _ (run_sync ops).nodup

/-- crash at any point of any history: after acknowledged operations `ops`, if the process dies
after `n` store writes of the next operation `op`, a restarted server recovers the acknowledged
state, or the acknowledged state with exactly the in-flight operation applied — nothing else -/
theorem crash_recovers_acknowledged_or_inflight (ops : List Op) (op : Op) (n : Nat) :
    MapEq (recover (crashStore (run ops) op n)) (run ops).mem ∨
    ∃ m', applyMem (run ops).mem op = some m' ∧ MapEq (recover (crashStore (run ops) op n)) m' :=
  crash_atomic _ (run_sync ops) op n

/-- histories with any number of crashes and restarts: at every point the store recovers to the
manager's view, and every further crash again yields the acknowledged state or the acknowledged
state plus the single in-flight operation -/
theorem multi_crash (evs : List Ev) (op : Op) (n : Nat) :
    MapEq (recover (runEv evs).store) (runEv evs).mem ∧
    (MapEq (recover (crashStore (runEv evs) op n)) (runEv evs).mem ∨
     ∃ m', applyMem (runEv evs).mem op = some m' ∧ MapEq (recover (crashStore (runEv evs) op n)) m') :=
  ⟨recover_eq_of_sync _ (runEv_sync evs), crash_atomic _ (runEv_sync evs) op n⟩

/-- a rejected (not acknowledged) operation writes nothing -/
theorem rejected_writes_nothing (s : Sys) (op : Op) (h : applyMem s.mem op = none) (n : Nat) :
    crashStore s op n = s.store ∧ (step s op).store = s.store := by
  simp [crashStore, step, h]

/-- non-vacuity: create, deploy twice, reload, delete a pipeline, create and remove another tenant -/
example :
    let ops := [Op.createTenant 1 10 100, .deploy 1 7 70 700, .deploy 1 8 80 800, .reload 1 7 701,
                .deletePipe 1 8, .createTenant 2 20 200, .removeTenant 2]
    (recover (run ops).store) = [(1, { name := 10, key := 100, pipes := [(7, { name := 70, src := 701, status := 0 })] })] := by
  decide

end Varpulis.Props.C22
