import Varpulis.Lemmas.Ckpt
/-!
# C20 — checkpoints survive serialisation unchanged

Statements over `Varpulis.Ckpt` (Model/Ckpt.lean): the checkpoint structs of `persistence.rs` with
the JSON representation `serde` derives for them, `wire` = what `serde_json` does to a tree on the
way to text and back (a non-finite float becomes `null`), `serialize`/`deserialize` = `codec.rs`
including the format auto-detection, and the `Event` ↔ `SerializableEvent` conversion.
All statements are for every value tree: any nesting depth, any string, any float including
NaN/±∞/−0.0.  Event timestamps: see `event_roundtrip_counterexample` / `event_roundtrip_partial`.
-/
namespace Varpulis.Props.C20
open Varpulis.Ckpt

/-- no encoder ever hands a non-finite float to the JSON writer (so `wire` is the identity on
everything the engine writes) -/
theorem writer_never_sees_nonfinite (c : Ckpt) : Clean (encCkpt c) = true := clean_encCkpt c

/-- an engine checkpoint reads back equal -/
theorem engine_checkpoint_roundtrip (c : EngineCkpt) : decEngine (wire (encEngine c)) = some c := by
  rw [wire_clean _ (clean_encEngine c), decEngine_encEngine]

/-- a store checkpoint (`Checkpoint`, engine states per context inside) reads back equal -/
theorem checkpoint_roundtrip (c : Ckpt) : decCkpt (wire (encCkpt c)) = some c := by
  rw [wire_clean _ (clean_encCkpt c), decCkpt_encCkpt]

/-- through `codec::serialize` / `codec::deserialize`: the auto-detection recognises what the JSON
writer produced, whether or not the `binary-codec` feature is compiled in -/
theorem codec_roundtrip (binaryCodec : Bool) (c : Ckpt) :
    deserialize binaryCodec decCkpt (serialize (encCkpt c)) = .ok c := by
  have h : (encCkpt c).firstByte = '{' := rfl
  simp only [serialize, wire_clean _ (clean_encCkpt c)]
  simp [deserialize, isJson, h, decCkpt_encCkpt]

theorem codec_roundtrip_engine (binaryCodec : Bool) (c : EngineCkpt) :
    deserialize binaryCodec decEngine (serialize (encEngine c)) = .ok c := by
  have h : (encEngine c).firstByte = '{' := rfl
  simp only [serialize, wire_clean _ (clean_encEngine c)]
  simp [deserialize, isJson, h, decEngine_encEngine]

/-- leading ASCII whitespace does not disturb the detection -/
theorem codec_roundtrip_leading_whitespace (binaryCodec : Bool) (ws : Nat) (c : EngineCkpt) :
    deserialize binaryCodec decEngine (.json ws (wire (encEngine c))) = .ok c := by
  have h : (encEngine c).firstByte = '{' := rfl
  simp only [wire_clean _ (clean_encEngine c)]
  simp [deserialize, isJson, h, decEngine_encEngine]

/-- empty data is an error, never a checkpoint -/
theorem empty_data_is_an_error (binaryCodec : Bool) : deserialize binaryCodec decEngine .empty = .error .emptyData := rfl

/-- every value — NaN, ±∞, −0.0, nested arrays and maps, any string — survives
`Value → SerializableValue → JSON → SerializableValue → Value` -/
theorem value_roundtrip (v : Val) : (decSV (wire (encSV (v2s v)))).map s2v = some v := by
  rw [wire_clean _ (clean_encSV _), decSV_encSV]; simp [s2v_v2s]

/-! ### events: the full-strength statement is false (finding `C20-submillisecond-event-timestamps`)

The property asks for `∀ e, (decSE (wire (encSE (serOfEvent e)))).map eventOfSer = some e`.
`SerializableEvent` carries the timestamp in whole milliseconds only (the repair needs a new public
field, which an existing test's struct literal forbids), so this holds exactly for the events
whose timestamp is a whole number of milliseconds. -/

/-- what does come back, for **every** event: the same event with its timestamp cut down to the
millisecond (floor, also before 1970) -/
theorem event_roundtrip_truncates (e : Event) :
    (decSE (wire (encSE (serOfEvent e)))).map eventOfSer = some e.truncMs := by
  rw [wire_clean _ (clean_encSE _), decSE_encSE]
  simp [eventOfSer_serOfEvent]

/-- the negation of the full-strength statement, with its witnesses: 1 ns after the epoch comes
back at the epoch, 1 ns before it a whole millisecond earlier -/
theorem event_roundtrip_counterexample :
    ¬ (∀ e : Event, (decSE (wire (encSE (serOfEvent e)))).map eventOfSer = some e)
    ∧ (eventOfSer (serOfEvent { etype := "A", ts := 1, data := [] })).ts = 0
    ∧ (eventOfSer (serOfEvent { etype := "A", ts := -1, data := [] })).ts = -1000000 := by
  refine ⟨?_, by simp [eventOfSer, serOfEvent, ofMs, msOf], by simp [eventOfSer, serOfEvent, ofMs, msOf]⟩
  intro h
  have h1 := h { etype := "A", ts := 1, data := [] }
  rw [event_roundtrip_truncates] at h1
  have := congrArg (fun o => o.map Event.ts) h1
  simp [Event.truncMs, ofMs, msOf] at this

/-- the guarded statement: every event whose timestamp is a whole number of milliseconds — any
values, any strings, negative timestamps included — is restored equal -/
theorem event_roundtrip_partial (e : Event) (h : e.whole = true) :
    (decSE (wire (encSE (serOfEvent e)))).map eventOfSer = some e := by
  rw [wire_clean _ (clean_encSE _), decSE_encSE]
  simp [event_rt_whole e h]

/-- the guard is satisfiable by a non-trivial event -/
example : ({ etype := "T", ts := -1700000000123000000, data := [("x", .float .nan), ("m", .map [("k", .arr [.null])])] } : Event).whole = true := by
  decide

/-- a checkpoint written before the repair (`{"Float":null}` for NaN/±∞) is readable again: NaN -/
theorem legacy_null_float_is_readable : decSV (.obj [("Float", .null)]) = some (.float .nan) := by
  simp [decSV, decF]

/-- The defect repaired by `fix: non-finite floats in checkpoints`: with the derived
representation the writer turns NaN/±∞ into `null`, which the derived reader rejects. -/
theorem derived_float_representation_defect :
    decFOld (wire (encFOld .nan)) = none ∧ decFOld (wire (encFOld .pinf)) = none
      ∧ decFOld (wire (encFOld .ninf)) = none := by
  simp [decFOld, encFOld, wire, F64.isFinite]

/-- non-vacuity: a nested value with every awkward ingredient goes through the encoder and back -/
example :
    let v : Val := .map [("a", .arr [.float .nan, .float .ninf, .float (.fin 0x8000000000000000)]),
                         ("ключ", .str " 😀"), ("t", .ts (-9223372036854775808))]
    (decSV (wire (encSV (v2s v)))).map s2v = some v := by
  intro v; exact value_roundtrip v

end Varpulis.Props.C20
