import Varpulis.Lemmas.Ckpt
/-!
# C20 — checkpoints survive serialisation unchanged

Statements over `Varpulis.Ckpt` (Model/Ckpt.lean): the checkpoint structs of `persistence.rs` with
the JSON representation `serde` derives for them, `wire` = what `serde_json` does to a tree on the
way to text and back (a non-finite float becomes `null`), `serialize`/`deserialize` = `codec.rs`
including the format auto-detection, and the `Event` ↔ `SerializableEvent` conversion.
All statements are for every value tree: any nesting depth, any string, any float including
NaN/±∞/−0.0, any timestamp including sub-millisecond and negative ones.
-/
namespace Varpulis.Props.C20
open Varpulis.Ckpt

/-- no encoder ever hands a non-finite float to the JSON writer (so `wire` is the identity on
everything the engine writes) -/
theorem writer_never_sees_nonfinite (c : Ckpt) : Clean (encCkpt c) = true := clean_encCkpt c

/-- an engine checkpoint reads back equal -/
theorem engine_checkpoint_roundtrip (c : EngineCkpt) : decEngine (wire (encEngine c)) = some c := by
  rw [wire_clean _ (clean_encEngine c), decEngine_encEngine]

/-- a store checkpoint (`Checkpoint`, engine states per context inside) reads back equal -/
theorem checkpoint_roundtrip (c : Ckpt) : decCkpt (wire (encCkpt c)) = some c := by
  rw [wire_clean _ (clean_encCkpt c), decCkpt_encCkpt]

/-- through `codec::serialize` / `codec::deserialize`: the auto-detection recognises what the JSON
writer produced, whether or not the `binary-codec` feature is compiled in -/
theorem codec_roundtrip (binaryCodec : Bool) (c : Ckpt) :
    deserialize binaryCodec decCkpt (serialize (encCkpt c)) = .ok c := by
  have h : (encCkpt c).firstByte = '{' := rfl
  simp only [serialize, wire_clean _ (clean_encCkpt c)]
  simp [deserialize, isJson, h, decCkpt_encCkpt]

theorem codec_roundtrip_engine (binaryCodec : Bool) (c : EngineCkpt) :
    deserialize binaryCodec decEngine (serialize (encEngine c)) = .ok c := by
  have h : (encEngine c).firstByte = '{' := rfl
  simp only [serialize, wire_clean _ (clean_encEngine c)]
  simp [deserialize, isJson, h, decEngine_encEngine]

/-- leading ASCII whitespace does not disturb the detection -/
theorem codec_roundtrip_leading_whitespace (binaryCodec : Bool) (ws : Nat) (c : EngineCkpt) :
    deserialize binaryCodec decEngine (.json ws (wire (encEngine c))) = .ok c := by
  have h : (encEngine c).firstByte = '{' := rfl
  simp only [wire_clean _ (clean_encEngine c)]
  simp [deserialize, isJson, h, decEngine_encEngine]

/-- empty data is an error, never a checkpoint -/
theorem empty_data_is_an_error (binaryCodec : Bool) : deserialize binaryCodec decEngine .empty = .error .emptyData := rfl

/-- every value — NaN, ±∞, −0.0, nested arrays and maps, any string — survives
`Value → SerializableValue → JSON → SerializableValue → Value` -/
theorem value_roundtrip (v : Val) : (decSV (wire (encSV (v2s v)))).map s2v = some v := by
  rw [wire_clean _ (clean_encSV _), decSV_encSV]; simp [s2v_v2s]

/-- every event — any timestamp, sub-millisecond and negative included — is restored equal -/
theorem event_roundtrip (e : Event) : (decSE (wire (encSE (serOfEvent e)))).map eventOfSer = some e := by
  rw [wire_clean _ (clean_encSE _), decSE_encSE]
  obtain ⟨ty, t, d⟩ := e
  simp only [eventOfSer, serOfEvent, s2vM_v2sM, Option.map_some, ofMs_msOf_add]

/-- a checkpoint written before the repair (`{"Float":null}` for NaN/±∞) is readable again: NaN -/
theorem legacy_null_float_is_readable : decSV (.obj [("Float", .null)]) = some (.float .nan) := by
  simp [decSV, decF]

/-- a `SerializableEvent` written before the repair (no sub-millisecond field) is still readable -/
theorem legacy_event_is_readable :
    decSE (.obj [("event_type", .str "A"), ("timestamp_ms", .int 5), ("fields", .obj [])])
      = some { etype := "A", tsMs := 5, subNs := 0, fields := [] } := by
  simp [decSE, req, dflt, List.lookup, decStr, decInt, decMap]

/-- The defect repaired by `fix: non-finite floats in checkpoints`: with the derived
representation the writer turns NaN/±∞ into `null`, which the derived reader rejects. -/
theorem derived_float_representation_defect :
    decFOld (wire (encFOld .nan)) = none ∧ decFOld (wire (encFOld .pinf)) = none
      ∧ decFOld (wire (encFOld .ninf)) = none := by
  simp [decFOld, encFOld, wire, F64.isFinite]

/-- The defect repaired by `fix: sub-millisecond part of event timestamps`: the old conversion
restored an event stamped 1 ns after the epoch at the epoch, and one stamped 1 ns before it a
whole millisecond earlier. -/
theorem millisecond_truncation_defect :
    (eventOfSerOld (serOfEvent { etype := "A", ts := 1, data := [] })).ts = 0
      ∧ (eventOfSerOld (serOfEvent { etype := "A", ts := -1, data := [] })).ts = -1000000 := by
  simp [eventOfSerOld, serOfEvent, ofMs, msOf]

/-- non-vacuity: a nested value with every awkward ingredient goes through the encoder and back -/
example :
    let v : Val := .map [("a", .arr [.float .nan, .float .ninf, .float (.fin 0x8000000000000000)]),
                         ("ключ", .str " 😀"), ("t", .ts (-9223372036854775808))]
    (decSV (wire (encSV (v2s v)))).map s2v = some v := by
  intro v; exact value_roundtrip v

end Varpulis.Props.C20
