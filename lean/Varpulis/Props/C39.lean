import Varpulis.Lemmas.Connector
/-!
# C39 — injected connector declarations carry exactly the stored parameters

Model: `Model/Connector.lean` mirrors `to_vpl_declaration`, `validate_connector`, `inject_connectors`
(`connector_config.rs`, after the fixes) and the grammar rules that read a connector declaration
(`connector_decl`, `connector_type`, `connector_params`, `config_value`, `integer`, `float`, `duration`,
`string`, `boolean`, `identifier`, implicit `WHITESPACE`/`COMMENT`) with `parse_config_value` and the
runtime's `ConfigValue → String` conversion.

**Partial**: the grammar mirror covers the connector declaration only. That the *whole* injected
program parses and that the other statements keep their meaning is a statement about the complete
pest grammar, which is not modelled; on that side the theorem is `inject_only_prepends` (the
pipeline's own text follows the preamble unchanged, line by line) and the tie compares the real
ASTs of `parse(source)` and `parse(injected)` statement by statement.
-/
namespace Varpulis.Props.C39
open Varpulis.Connector

/-- every connector that validation accepts renders to a declaration from which the grammar reads
back the connector's name, its type, and — through the conversion the runtime applies — **exactly**
the stored parameter strings, in order; nothing is left over. This covers numeric-looking values
(`007`, `1e3`, `-5`, `inf`), quotes, backslashes, the empty string and any Unicode text without
line breaks. -/
theorem declaration_carries_stored_parameters (c : Connector) (h : validate c = true) :
    (∃ d, connectorDecl (render c) = some (d, []) ∧ d.name = c.name ∧ d.ctype = c.ctype) ∧
    lexParams (render c) = some c.params :=
  ⟨⟨_, connectorDecl_render c h, rfl, rfl⟩, lexParams_render c h⟩

/-- injection (without the `client_id_mode = append_pipeline` rewriting) only prepends complete
declaration lines: the text of the pipeline follows unchanged … -/
theorem inject_only_prepends (source : Text) (store : Store) (h : noAppendMode store = true) :
    ∃ decls : List Text, inject source store = (decls.map fun d => d ++ ['\n']).flatten ++ source ∧
      decls = (findMissing source).filterMap fun n => (store.find? fun e => e.1 == n).map fun e => render e.2 :=
  ⟨_, inject_eq source store h, rfl⟩

/-- … and so do its lines (as `str::lines` — which the parser's preprocessing works on — sees them) -/
theorem inject_keeps_lines (source : Text) (store : Store) (h : noAppendMode store = true) :
    ∃ pre : List Text, Varpulis.Expand.rustLines (inject source store) = pre ++ Varpulis.Expand.rustLines source := by
  rw [inject_eq source store h, rustLines_preamble]
  exact ⟨_, rfl⟩

/-- with `client_id_mode = append_pipeline` a line is either unchanged or one reference
`.from(name,` / `.to(name,` outside any string literal received a `client_id` parameter (quote and
backslash of the stored id escaped); lines that are no `stream …` lines are never touched -/
theorem append_pipeline_touches_one_reference (cname baseId line : Text) :
    (("stream ".toList.isPrefixOf (Varpulis.Expand.trim line) = false) → appendLine cname baseId line = line) ∧
    (appendLine cname baseId line = line ∨
      ∃ a b p ins, line = a ++ p ++ b ∧ appendLine cname baseId line = a ++ ins ++ b ∧
        (p = ".from(".toList ++ cname ++ [','] ∨ p = ".to(".toList ++ cname ++ [',']) ∧
        ∃ pname, ins = p.dropLast ++ ", client_id: \"".toList ++ escape baseId ++ ['-'] ++ pname ++ "\",".toList) :=
  ⟨appendLine_other cname baseId line, appendLine_shape cname baseId line⟩

/-! The defects of the unchanged tree, on the model's reading of the grammar: what the old rendering
(unquoted whenever `parse::<i64>()` or `parse::<f64>()` succeeds, no escaping) produced. -/

/-- `007` rendered unquoted is read back as the integer 7 -/
theorem leading_zeros_witness : (configValue "007)".toList).map (fun r => valueText r.1) = some (some "7".toList) := by
  decide

/-- `1e3` rendered unquoted: the integer `1` is read and `e3)` is left over — the declaration does not parse -/
theorem exponent_witness : (configValue "1e3)".toList).map (·.2) = some "e3)".toList := by decide

/-- `a"b` rendered as `"a"b"` ends the string after `a` -/
theorem quote_witness : lexStringBody "a\"b\")".toList = some ("a".toList, "b\")".toList) := by decide

/-- the repaired rendering of the same values -/
example : renderValue "007".toList = "\"007\"".toList ∧ renderValue "1e3".toList = "\"1e3\"".toList ∧
    renderValue "a\"b".toList = "\"a\\\"b\"".toList ∧ renderValue "1883".toList = "1883".toList ∧
    renderValue [] = "\"\"".toList := by decide

example : validate ⟨"mqtt_in".toList, "mqtt".toList,
    [("host".toList, "a\"b\\".toList), ("port".toList, "007".toList)]⟩ = true := by decide

end Varpulis.Props.C39
