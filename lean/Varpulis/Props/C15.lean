import Varpulis.Lemmas.Join
/-!
# C15 — joins correlate exactly the same-key events that are within the window

Statements over the model `Varpulis.Join` (Model/Join.lean), which mirrors `JoinBuffer`
(`join.rs`: `add_event`, `try_correlate`, `cleanup_expired` incl. the GC-interval gate and the
per-key cap). `specJoin c hist key t` is the property's oracle: for every source the most recently
arrived event of that key with `ts ≥ t − window` among *all* arrivals `hist`; defined iff every
source has one. `addEvent` is the code since the `fix:` commit (`retain`), `addEventLegacy` the
code before it (`partition_point` + `drain` on a vector in arrival order).

The unrestricted statement (`∀ ops a, result = specJoin`) is false for two reasons that no small
repair removes, each shown by a `_counterexample` and excluded by a narrow decidable premise:
* the per-key cap evicts the oldest *arrived* event even if it is inside the window (`noCapHit`);
* a bounded buffer expires events relative to the newest timestamps seen, so an arrival that is
  more than a window older than an earlier arrival may find its partner already expired
  (`expirable`).
-/
namespace Varpulis.Props.C15
open Varpulis.Join

/-- The oracle says "join" iff every source has an event of that key within the window. -/
theorem spec_defined_iff (c : Cfg) (hist : List Arr) (key : Nat) (t : Int) :
    (specJoin c hist key t).isSome ↔
      ∀ src ∈ c.sources, ∃ e ∈ histOf hist src key, e.ts ≥ t - c.window := by
  unfold specJoin
  induction c.sources with
  | nil => simp
  | cons s rest ih =>
    simp only [List.mapM_cons, List.mem_cons, forall_eq_or_imp]
    rw [← ih]
    have hpick : (specPick c.window hist s key t).isSome ↔ ∃ e ∈ histOf hist s key, e.ts ≥ t - c.window := by
      unfold specPick
      rw [List.getLast?_isSome]
      constructor
      · intro h
        obtain ⟨e, he⟩ := List.exists_mem_of_ne_nil _ h
        rw [List.mem_filter] at he
        exact ⟨e, he.1, by simpa using he.2⟩
      · intro ⟨e, he, ht⟩ hn
        have : e ∈ (histOf hist s key).filter fun e => decide (e.ts ≥ t - c.window) :=
          List.mem_filter.mpr ⟨he, by simpa using ht⟩
        simp [hn] at this
    rw [← hpick]
    cases specPick c.window hist s key t <;> cases List.mapM (fun src => Option.map (fun e => (src, e)) (specPick c.window hist src key t)) rest <;> simp

/-- The oracle's choice for a source is the most recently arrived in-window event: it is in the
window and every later arrival of that (source, key) is outside the window. -/
theorem spec_picks_most_recent (w : Int) (hist : List Arr) (src key : Nat) (t : Int) (e : Ev)
    (h : specPick w hist src key t = some e) :
    ∃ pre post, histOf hist src key = pre ++ e :: post ∧ e.ts ≥ t - w ∧ ∀ x ∈ post, x.ts < t - w := by
  unfold specPick at h
  obtain ⟨l', hl'⟩ := List.getLast?_eq_some_iff.mp h
  obtain ⟨l₁, l₂, h1, _, h3⟩ := List.filter_eq_append_iff.mp hl'
  obtain ⟨m₁, m₂, h4, h5, h6, h7⟩ := List.filter_eq_cons_iff.mp h3
  refine ⟨l₁ ++ m₁, m₂, by rw [h1, h4]; simp, by simpa using h6, ?_⟩
  intro x hx
  have : x ∉ m₂.filter fun e => decide (e.ts ≥ t - w) := by rw [h7]; simp
  rw [List.mem_filter] at this
  have h8 : ¬ (x.ts ≥ t - w) := fun hh => this ⟨hx, by simpa using hh⟩
  omega

/-- **Main theorem (code since the repair).** For every history `ops` of arrivals (any sources,
keys, timestamps in any order) and every arriving event `a`: if no push reached the per-key cap and
no in-window candidate partner is expirable (some arrival is more than a window ahead of it), then
`add_event` returns exactly the oracle's answer: a joined event iff every source has a same-key
event with `ts ≥ t − window`, built from the most recently arrived such event of each source. -/
theorem add_event_correlates_exactly (c : Cfg) (ops : List Arr) (a : Arr)
    (hcap : noCapHit c St.init (ops ++ [a]) = true)
    (hfresh : ∀ src ∈ c.sources, ∀ e ∈ histOf (ops ++ [a]) src a.key, e.ts ≥ a.ev.ts - c.window →
      expirable c.window (ops ++ [a]) e = false) :
    (addEvent c (run c St.init ops) a).2 = specJoin c (ops ++ [a]) a.key a.ev.ts := by
  obtain ⟨h1, h2⟩ := noCapHit_append c ops St.init a hcap
  have hinv := run_inv c ops [] St.init (inv_init c) h1
  simp only [List.nil_append] at hinv
  have hinv' := add_inv c ops _ a hinv h2
  exact correlate_eq_spec c (ops ++ [a]) (addEvent c (run c St.init ops) a).1 a.key a.ev.ts hinv' hfresh

/-- **The same with the cap in force.** `evictedBy c St.init hist` lists exactly the events the cap
removed (`remove(0)`: the oldest *arrivals* of the hot (source, key)). Whatever the cap did before —
hit any number of times, on any key — `add_event` still returns the oracle's answer as long as no
in-window candidate of *this* key is expirable or is one of the evicted events. So the known limit
`C15-cap-evicts-in-window` is confined to arrivals one of whose in-window candidates was itself
evicted; which events those are is fixed by the modelled code (and compared exactly by the tie). -/
theorem add_event_correlates_exactly_unless_evicted (c : Cfg) (ops : List Arr) (a : Arr)
    (hfresh : ∀ src ∈ c.sources, ∀ e ∈ histOf (ops ++ [a]) src a.key, e.ts ≥ a.ev.ts - c.window →
      expirable c.window (ops ++ [a]) e = false ∧ e ∉ evictedBy c St.init (ops ++ [a])) :
    (addEvent c (run c St.init ops) a).2 = specJoin c (ops ++ [a]) a.key a.ev.ts := by
  have hinv := run_invE c (ops ++ [a]) [] [] St.init (invE_init c)
  simp only [List.nil_append] at hinv
  rw [run_snoc] at hinv
  exact correlate_eq_specE c (ops ++ [a]) _ (addEvent c (run c St.init ops) a).1 a.key a.ev.ts hinv hfresh

/-- Corollary: it suffices that the arriving event is not older than the earlier arrivals — the
buffered events themselves may have arrived in any timestamp order (this is what the repair buys;
the old code needed each key's vector to be sorted). -/
theorem add_event_correlates_exactly_of_not_late (c : Cfg) (ops : List Arr) (a : Arr)
    (hcap : noCapHit c St.init (ops ++ [a]) = true)
    (hnl : ∀ b ∈ ops, b.ev.ts ≤ a.ev.ts) :
    (addEvent c (run c St.init ops) a).2 = specJoin c (ops ++ [a]) a.key a.ev.ts := by
  apply add_event_correlates_exactly c ops a hcap
  intro src _ e _ hw
  unfold expirable
  rw [List.any_eq_false]
  intro b hb
  have hle : b.ev.ts ≤ a.ev.ts := by
    rcases List.mem_append.mp hb with h | h
    · exact hnl b h
    · simp at h; subst h; exact Int.le_refl _
  simp; omega

/-- The defect repaired by the `fix:` commit (window 10 s; A@90, A@105, A@91, B@101, then B@112):
the old cleanup drained A@105 although it lies in [102, 112] and returned no join; the repaired
code returns the join the oracle demands. -/
theorem legacy_cleanup_lost_in_window_correlation :
    let c : Cfg := { sources := [0, 1], window := 10000, maxPerKey := 1000 }
    let ops : List Arr := [⟨0, 0, ⟨90000, 0⟩⟩, ⟨0, 0, ⟨105000, 1⟩⟩, ⟨0, 0, ⟨91000, 2⟩⟩, ⟨1, 0, ⟨101000, 3⟩⟩]
    let a : Arr := ⟨1, 0, ⟨112000, 4⟩⟩
    (addEventLegacy c (runWith expireVecLegacy c St.init ops) a).2 = none
    ∧ (addEvent c (run c St.init ops) a).2 = some [(0, ⟨105000, 1⟩), (1, ⟨112000, 4⟩)]
    ∧ specJoin c (ops ++ [a]) 0 112000 = some [(0, ⟨105000, 1⟩), (1, ⟨112000, 4⟩)] := by
  decide

/-- Known limit 1 (cap): with `with_max_events(2)`, A@108, A@95, A@96, B@110 — the cap evicts
A@108 (oldest arrival) although it is inside B@110's window: no join, the oracle demands one. -/
theorem cap_eviction_counterexample :
    let c : Cfg := { sources := [0, 1], window := 10000, maxPerKey := 2 }
    let ops : List Arr := [⟨0, 0, ⟨108000, 0⟩⟩, ⟨0, 0, ⟨95000, 1⟩⟩, ⟨0, 0, ⟨96000, 2⟩⟩]
    let a : Arr := ⟨1, 0, ⟨110000, 3⟩⟩
    (addEvent c (run c St.init ops) a).2 = none
    ∧ specJoin c (ops ++ [a]) 0 110000 = some [(0, ⟨108000, 0⟩), (1, ⟨110000, 3⟩)]
    ∧ noCapHit c St.init (ops ++ [a]) = false := by
  decide

/-- Known limit 2 (late arrival): A(k0)@90, B(k1)@105 runs the GC with cutoff 95 and expires
A@90; the late B(k0)@91 then finds no partner although A@90 ∈ [81, 91]. The premise `hfresh`
of the main theorem fails exactly there (A@90 is expirable because of B@105). -/
theorem late_arrival_counterexample :
    let c : Cfg := { sources := [0, 1], window := 10000, maxPerKey := 1000 }
    let ops : List Arr := [⟨0, 0, ⟨90000, 0⟩⟩, ⟨1, 1, ⟨105000, 1⟩⟩]
    let a : Arr := ⟨1, 0, ⟨91000, 2⟩⟩
    (addEvent c (run c St.init ops) a).2 = none
    ∧ specJoin c (ops ++ [a]) 0 91000 = some [(0, ⟨90000, 0⟩), (1, ⟨91000, 2⟩)]
    ∧ expirable c.window (ops ++ [a]) ⟨90000, 0⟩ = true
    ∧ noCapHit c St.init (ops ++ [a]) = true := by
  decide

/-- The expiry heap is modelled as a list: the GC loop's effect on every `(source, key)` vector is
the per-entry action iterated as often as that `(source, key)` was popped, so any other pop order
(any permutation of the expired entries) leaves every vector the same — for the repaired and for
the legacy action alike. -/
theorem cleanup_independent_of_heap_order (act : List Ev → List Ev) (qs qs' : List (Int × Nat × Nat))
    (hp : qs.Perm qs') (b : List (SK × List Ev)) (sk : SK) :
    get (gcFold act qs b) sk = get (gcFold act qs' b) sk := gcFold_perm act qs qs' hp b sk

/-- An event without the join-key field is not an arrival at all (`add_event` returns `None`
before any state change) — modelled by not being an `Arr`; an arrival from a source that is not
joined is never buffered. -/
theorem unknown_source_not_buffered (c : Cfg) (s : St) (a : Arr) (h : a.src ∉ c.sources) :
    (addEvent c s a).1 = cleanupWith expireVec c s a.ev.ts := by
  simp [addEvent, addWith, h]

/-- non-vacuity: a 3-way join over a history with disorder satisfies both premises and joins -/
example :
    let c : Cfg := { sources := [0, 1, 2], window := 3000, maxPerKey := 1000 }
    let ops : List Arr := [⟨0, 7, ⟨1000, 0⟩⟩, ⟨1, 7, ⟨500, 1⟩⟩, ⟨0, 7, ⟨200, 2⟩⟩, ⟨1, 8, ⟨2500, 3⟩⟩]
    let a : Arr := ⟨2, 7, ⟨2600, 4⟩⟩
    noCapHit c St.init (ops ++ [a]) = true
    ∧ (∀ b ∈ ops, b.ev.ts ≤ a.ev.ts)
    ∧ (addEvent c (run c St.init ops) a).2 = some [(0, ⟨200, 2⟩), (1, ⟨500, 1⟩), (2, ⟨2600, 4⟩)] := by
  decide

/-- non-vacuity of the cap-aware theorem: cap 3 overflowed twice (A@10 and A@11 evicted), the second
time by an old-timestamp arrival; B@14 still joins with A@13, the most recently arrived in-window A,
and that candidate is neither expirable nor evicted -/
example :
    let c : Cfg := { sources := [0, 1], window := 5000, maxPerKey := 3 }
    let ops : List Arr := [⟨0, 0, ⟨10000, 0⟩⟩, ⟨0, 0, ⟨11000, 1⟩⟩, ⟨0, 0, ⟨12000, 2⟩⟩, ⟨0, 0, ⟨13000, 3⟩⟩, ⟨0, 0, ⟨1000, 4⟩⟩]
    let a : Arr := ⟨1, 0, ⟨14000, 5⟩⟩
    evictedBy c St.init (ops ++ [a]) = [⟨10000, 0⟩, ⟨11000, 1⟩]
    ∧ noCapHit c St.init (ops ++ [a]) = false
    ∧ (addEvent c (run c St.init ops) a).2 = some [(0, ⟨13000, 3⟩), (1, ⟨14000, 5⟩)] := by
  decide

end Varpulis.Props.C15
