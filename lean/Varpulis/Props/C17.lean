import Varpulis.Lemmas.EngineRoute
/-!
# C17 — each stream processes each routed event exactly once

Model: `Model/EngineRoute.lean`. Streams are arbitrary step functions; `hist s` is the list of events
handed to stream `s`'s pipeline; `popped` is the list of all events taken from the engine's queue below
`MAX_CHAIN_DEPTH` (external inputs at depth 0, the renamed outputs of depth-`d` invocations at depth
`d+1`), in the order they were taken. `consumes E s e`: `s` is loaded and registered for `e`'s type or
stream name. `sync = false`: `process`, `process_batch`, `process_batch_shared`; `sync = true`:
`process_batch_sync`.
-/
namespace Varpulis.Props.C17
open Varpulis.EngineRoute

/-- For every engine (any streams, any router table without duplicate entries), every input and every
stream `s`: the events handed to `s` during the run are exactly the queue events (inputs and derived
outputs within the chain depth) that `s` consumes — each once, in queue order, and nothing else. -/
theorem handed_exactly_once (sync : Bool) (E : Eng) (hN : RouterNodup E.router) (evs : List Ev) (s : Ty) :
    (processSeq sync E evs).eng.hist s = E.hist s ++ (processSeq sync E evs).popped.filter (consumes E s) :=
  processSeq_hist sync evs E hN s

/-- the same for a loaded program on every entry point and every batch split -/
theorem handed_exactly_once_entry_points (P : List SDef) (split : List (List Ev)) (s : Ty) :
    (perEvent (load P) split.flatten).eng.hist s =
        (perEvent (load P) split.flatten).popped.filter (consumes (load P) s) ∧
    (batch (load P) split).eng.hist s = (batch (load P) split).popped.filter (consumes (load P) s) ∧
    (batchSync (load P) split).eng.hist s = (batchSync (load P) split).popped.filter (consumes (load P) s) := by
  have h0 : (load P).hist s = [] := by
    unfold load
    generalize emptyEng_def : emptyEng = E0
    have : E0.hist s = [] := by subst emptyEng_def; rfl
    clear emptyEng_def
    induction P generalizing E0 with
    | nil => exact this
    | cons d ds ih =>
      apply ih
      simp only [register, setHist]
      split <;> simp [this]
  have hN := load_router_nodup P
  refine ⟨?_, ?_, ?_⟩
  · have := processSeq_hist false split.flatten (load P) hN s
    rw [h0] at this; simpa [perEvent] using this
  · have := processSeq_hist false split.flatten (load P) hN s
    rw [h0] at this
    have hb : batch (load P) split = processSeq false (load P) split.flatten := by
      simp only [batch]; exact calls_processSeq false split (load P)
    rw [hb]; simpa using this
  · have := processSeq_hist true split.flatten (load P) hN s
    rw [h0] at this
    have hb : batchSync (load P) split = processSeq true (load P) split.flatten := by
      simp only [batchSync]; exact calls_processSeq true split (load P)
    rw [hb]; simpa using this

/-- the queue within the chain depth: a drain with budget 0 takes nothing; with budget `n+1` it takes the
current level and then drains, with budget `n`, what the level's invocations pushed (their outputs renamed
to the producing stream's name) -/
theorem popped_levels (sync : Bool) (n : Nat) (E : Eng) (q : List Ev) :
    (drain sync 0 E q).popped = [] ∧
    (drain sync (n + 1) E q).popped = q ++ (drain sync n (level sync E q).eng (level sync E q).next).popped :=
  ⟨rfl, rfl⟩

/-- the engine's loop as written — a FIFO of `(event, depth)` entries, `pop_front`, entries of depth
`>= MAX_CHAIN_DEPTH` dropped, outputs pushed to the back with `depth + 1` — computes exactly the level-wise
`drain` the other theorems speak about (given enough fuel for the `while`: `pops` many pops or more) -/
theorem queue_loop_is_levelwise (sync : Bool) (E : Eng) (e : Ev) (fuel : Nat) :
    fifo sync (pops sync maxChainDepth E [e] + fuel) E [(e, 0)] = processOne sync E e := fifo_processOne sync E e fuel

/-- the same for a queue that starts with a whole batch at depth 0 (the pre-repair batch entry points) -/
theorem queue_loop_is_levelwise_batch (sync : Bool) (E : Eng) (chunk : List Ev) (fuel : Nat) :
    fifo sync (pops sync maxChainDepth E chunk + fuel) E (tag 0 chunk) = legacyBatchCall sync E chunk := by
  have := fifo_eq_drain sync maxChainDepth (Nat.le_refl _) E chunk fuel
  simpa [legacyBatchCall] using this

/-- every external input is taken from the queue -/
theorem inputs_popped (sync : Bool) (E : Eng) (evs : List Ev) (e : Ev) (h : e ∈ evs) :
    e ∈ (processSeq sync E evs).popped := by
  induction evs generalizing E with
  | nil => cases h
  | cons x xs ih =>
    simp only [processSeq, processOne, maxChainDepth, drain, List.mem_append]
    rcases List.mem_cons.mp h with h | h
    · subst h; left; simp
    · right; exact ih _ h

/-- `add_route` is idempotent -/
theorem add_route_idempotent (r : Router) (t s u : Ty) :
    routesOf (addRoute (addRoute r t s) t s) u = routesOf (addRoute r t s) u := routesOf_addRoute_idem r t s u

/-- the router built by `Engine::load` never lists a stream twice for an event type -/
theorem loaded_router_no_duplicates (P : List SDef) (t : Ty) : (routesOf (load P).router t).Nodup :=
  load_router_nodup P t

/-- non-vacuity: a diamond `F = A.emit`, `G = A.emit`, `X` fed by `A`, `F` and `G` (registered twice for `A`):
`X` is handed the input and both derived events once each -/
example :
    let P := [emitStream 10 [0], emitStream 11 [0], passStream 12 [0, 10, 11, 0]]
    (perEvent (load P) [⟨0, 5⟩]).eng.hist 12 = [⟨0, 5⟩, ⟨10, 5⟩, ⟨11, 5⟩] ∧
    (perEvent (load P) [⟨0, 5⟩]).popped = [⟨0, 5⟩, ⟨10, 5⟩, ⟨11, 5⟩, ⟨12, 5⟩, ⟨12, 5⟩, ⟨12, 5⟩] := by decide

/-- non-vacuity: a self-feeding stream is cut off at `MAX_CHAIN_DEPTH` -/
example : ((perEvent (load [emitStream 0 [0]]) [⟨0, 1⟩]).eng.hist 0).length = 10 := by decide

end Varpulis.Props.C17
