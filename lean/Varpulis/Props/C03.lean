import Varpulis.Lemmas.SaseMulti2
/-!
# C03 — Kleene closures report every admissible combination, up to the documented caps

Model: `Model/SaseKleene.lean` (NFA compilation, `KleeneCapture` over the ZDD tree model of C06/C07,
`advance_run_shared`, `enumerate_with_filter`) and `Model/SaseBounds.lean` (`process_shared`).
`emittedAll nfa cfg evs` lists, event by event, the matches emitted by a fresh engine
(grouped per completing run); `none` would be a panic.

Pattern: `midSteps pa pb pc` = `A as a [where pa] -> all B as b [where pb] -> C as c [where pc]`
(event types 0, 1, 2; aliases 0, 1, 2).  Streams: `A B^n C` (`eA :: bs ++ [eC]`), arbitrary attributes.
The specification side (`SaseK.Spec`) enumerates subsets by brute force and does not mention the ZDD.
-/
namespace Varpulis.Props.C03
open Varpulis.Zdd Varpulis.SaseK Varpulis.SaseB

/-! ### the ZDD of a capture -/

/-- `KleeneCapture::extend` is "every old combination, and every old combination with the new event"
(the C06 specification of `product_with_optional`, instantiated) -/
theorem extend_spec (k : KCap) (e : Ev) (al : Option Nat) (h : Ord 0 k.handle) (s : List Nat) :
    s ∈ sets (k.extend e al).handle ↔
      s ∈ sets k.handle ∨ ∃ t ∈ sets k.handle, s = insertSorted k.nextVar t :=
  mem_pwo k.handle k.nextVar 0 h s

/-- key lemma: after the events `kept` were accumulated under a postponed filter, the handle denotes the full
powerset of `{0..k-1}` — listed by the iterator exactly in the order of `Spec.subsets 0 k`; the capture keeps the
events in arrival order -/
theorem capture_is_powerset (p : Pred) (kept : List Ev) :
    let k := kept.foldl (fun k e => k.add e (some 1)) (KCap.init (some p))
    sets k.handle = Spec.subsets 0 kept.length ∧ k.events = kept ∧
    ∀ s, s ∈ sets k.handle ↔ s.Pairwise (· < ·) ∧ ∀ x ∈ s, x < kept.length := by
  have key : ∀ (l acc : List Ev),
      l.foldl (fun k e => k.add e (some 1)) (kcOf (some p) acc) = kcOf (some p) (acc ++ l) := by
    intro l
    induction l with
    | nil => intro acc; simp
    | cons e l ih => intro acc; simp only [List.foldl_cons, kcOf_add, ih]; simp
  have h0 : KCap.init (some p) = kcOf (some p) [] := by simp [KCap.init, kcOf, full]
  intro k
  have hk : k = kcOf (some p) kept := by simp only [k, h0, key]; simp
  rw [hk]
  refine ⟨by simp [kcOf, sets_full], rfl, ?_⟩
  intro s
  simp only [kcOf, Option.isSome_some, if_true, sets_full, mem_subsets]
  constructor
  · rintro ⟨h1, h2⟩; exact ⟨h1, fun x hx => by have := h2 x hx; omega⟩
  · rintro ⟨h1, h2⟩; exact ⟨h1, fun x hx => by have := h2 x hx; omega⟩

/-- the brute-force oracle lists exactly the ordered subsets of `{0..n-1}`, each once (via C07 `sets_nodup`) -/
theorem subsets_spec (n : Nat) :
    (∀ s, s ∈ Spec.subsets 0 n ↔ s.Pairwise (· < ·) ∧ ∀ x ∈ s, x < n) ∧ (Spec.subsets 0 n).Nodup := by
  refine ⟨fun s => ?_, ?_⟩
  · rw [mem_subsets]
    constructor
    · rintro ⟨h1, h2⟩; exact ⟨h1, fun x hx => by have := h2 x hx; omega⟩
    · rintro ⟨h1, h2⟩; exact ⟨h1, fun x hx => by have := h2 x hx; omega⟩
  · rw [← sets_full]; exact sets_nodup (ord_full 0 n)

/-! ### (a) consistent filter: one match listing all accumulated B events -/

/-- With a filter that does not compare B with itself, `A B^n C` yields nothing before C, and at C exactly one
match whose stack is A, the B events that satisfy the filter (at most `maxKleene`, in arrival order), C —
provided at least one B was kept and C passes its own filter. -/
theorem consistent_one_match (pa pb pc : Option Pred) (cfg : Cfg) (eA eC : Ev) (bs : List Ev)
    (hcons : ∀ p, pb = some p → selfRef (some 1) p = false)
    (hp : cfg.partitioned = false) (hm : 1 ≤ cfg.maxRuns) (hk : 1 ≤ cfg.lim.maxEvents)
    (hA : eA.ty = 0) (hpa : predOk pa eA [] = true) (hB : ∀ b ∈ bs, b.ty = 1) (hC : eC.ty = 2) :
    emittedAll (compile (midSteps pa pb pc)) cfg (eA :: (bs ++ [eC])) =
      some ([] :: (bs.map fun _ => []) ++
        [match ((bs.filter fun b => predOk pb b [(0, eA)]).take cfg.lim.maxEvents).getLast? with
         | none => []
         | some l =>
           if predOk pc eC (capAB eA l) then
             [[{ captured := capC eA l eC,
                 stack := stackOf eA ((bs.filter fun b => predOk pb b [(0, eA)]).take cfg.lim.maxEvents) eC }]]
           else []]) := by
  have hnfa : compile (midSteps pa pb pc) = nfaMid pa pb none pc := by
    cases pb with
    | none => exact compile_mid_nofilter pa pc
    | some p => exact compile_mid_consistent pa pc p (hcons p rfl)
  have hkept := foldl_keep_consistent pb cfg.lim.maxEvents eA hcons bs []
  simp only [List.length_nil, Nat.sub_zero, List.nil_append] at hkept
  rw [hnfa, emitted_mid pa pb none pc cfg eA eC bs hp hm hk hA hpa hB hC, hkept]
  cases ((bs.filter fun b => predOk pb b [(0, eA)]).take cfg.lim.maxEvents).getLast? with
  | none => rfl
  | some l => simp [completeRun, runAt4, kcOf]

/-! ### (b) self-referencing filter: the first `maxResults` admissible subsets, in iteration order -/

/-- With a filter that compares B with itself, every B is accumulated (at most `maxKleene`), nothing is emitted
before C, and the completion emits one match per element of
`Spec.expectedSets` = the first `maxResults` members, in the order of `Spec.subsets`, of
`{S ⊆ {0..k-1} | S ≠ ∅ ∧ consecutive members of S satisfy the filter}`: same index sets, same order,
pairwise distinct, every match carrying the full stack A, kept B events, C. -/
theorem selfref_emits_admissible (pa pc : Option Pred) (p : Pred) (cfg : Cfg) (eA eC : Ev) (bs : List Ev) (l : Ev)
    (hself : selfRef (some 1) p = true)
    (hp : cfg.partitioned = false) (hm : 1 ≤ cfg.maxRuns) (hk : 1 ≤ cfg.lim.maxEvents) (hr : 1 ≤ cfg.lim.maxResults)
    (hA : eA.ty = 0) (hpa : predOk pa eA [] = true) (hB : ∀ b ∈ bs, b.ty = 1) (hC : eC.ty = 2)
    (hl : (bs.take cfg.lim.maxEvents).getLast? = some l) (hpc : predOk pc eC (capAB eA l) = true) :
    ∃ ms : List Match,
      emittedAll (compile (midSteps pa (some p) pc)) cfg (eA :: (bs ++ [eC])) =
        some ([] :: (bs.map fun _ => []) ++ [[ms]]) ∧
      ms.map (·.enum) =
        (Spec.expectedSets p (some 1) (capC eA l eC) (bs.take cfg.lim.maxEvents) cfg.lim.maxResults).map
          (fun s => some ((bs.take cfg.lim.maxEvents).length, s)) ∧
      (ms.map (·.enum)).Nodup ∧
      (∀ m ∈ ms, m.stack = stackOf eA (bs.take cfg.lim.maxEvents) eC) ∧
      ms.length ≤ cfg.lim.maxResults := by
  have hkept := foldl_keep_none cfg.lim.maxEvents eA bs []
  simp only [List.length_nil, Nat.sub_zero, List.nil_append] at hkept
  have hem := emitted_mid pa none (some p) pc cfg eA eC bs hp hm hk hA hpa hB hC
  rw [hkept, hl] at hem
  simp only [hpc, if_true] at hem
  generalize hkd : bs.take cfg.lim.maxEvents = kept at hem hl ⊢
  -- the completion enumerates
  have hcomb := combos_eq (kinv_kcOf (some p) kept)
  have hsets : sets (kcOf (some p) kept).handle = Spec.subsets 0 kept.length := by simp [kcOf, sets_full]
  have hcr : completeRun (runAt4 (some p) eA kept l eC) cfg.lim =
      .multi (enumLoop (runAt4 (some p) eA kept l eC) (kcOf (some p) kept) p cfg.lim.maxResults
        ((Spec.subsets 0 kept.length).map fun s => (s, entriesOf (kcOf (some p) kept) s)) []) := by
    have hd : (kcOf (some p) kept).deferred = some p := rfl
    simp only [completeRun, runAt4, hd, enumerate, hcomb, hsets, Option.map_some]
  rw [hcr] at hem
  refine ⟨_, by rw [compile_mid_selfref pa pc p hself]; exact hem, ?_⟩
  rw [enumLoop_eq _ _ _ _ _ [] (by simp; omega)]
  simp only [List.nil_append, List.length_nil, Nat.sub_zero]
  -- the filter of the loop is admissibility
  have hfilter : (((Spec.subsets 0 kept.length).map fun s => (s, entriesOf (kcOf (some p) kept) s)).filter
        (comboOk (runAt4 (some p) eA kept l eC) p)) =
      ((Spec.subsets 0 kept.length).filter (Spec.admissible p (some 1) (capC eA l eC) kept)).map
        fun s => (s, entriesOf (kcOf (some p) kept) s) := by
    rw [List.filter_map]
    congr 1
    apply List.filter_congr
    intro s hs
    have hb : ∀ i ∈ s, i < kept.length := fun i hi => by
      have := ((mem_subsets 0 kept.length s).mp hs).2 i hi; omega
    simpa [runAt4] using comboOk_eq_admissible (runAt4 (some p) eA kept l eC) p kept s hb
  rw [hfilter]
  have hnodup : (Spec.expectedSets p (some 1) (capC eA l eC) kept cfg.lim.maxResults).Nodup := by
    unfold Spec.expectedSets
    exact ((subsets_spec kept.length).2.filter _).sublist (List.take_sublist _ _)
  refine ⟨?_, ?_, ?_, ?_⟩
  · simp [Spec.expectedSets, List.map_take, mkEnumMatch, kcOf, Function.comp_def]
  · have : (List.map (fun m => m.enum) (List.take cfg.lim.maxResults
          (List.map (mkEnumMatch (runAt4 (some p) eA kept l eC) (kcOf (some p) kept))
            (List.map (fun s => (s, entriesOf (kcOf (some p) kept) s))
              (List.filter (Spec.admissible p (some 1) (capC eA l eC) kept) (Spec.subsets 0 kept.length)))))) =
        (Spec.expectedSets p (some 1) (capC eA l eC) kept cfg.lim.maxResults).map (fun s => some (kept.length, s)) := by
      simp [Spec.expectedSets, List.map_take, mkEnumMatch, kcOf, Function.comp_def]
    rw [this]
    exact List.Pairwise.map _ (fun a b hab => by simpa using hab) hnodup
  · intro m hm
    have := List.mem_of_mem_take hm
    simp only [List.mem_map] at this
    obtain ⟨c, _, rfl⟩ := this
    simp [mkEnumMatch, runAt4]
  · simp [List.length_take]; omega

/-- what "admissible" means, without the enumeration: the listed index sets are exactly the non-empty ordered
subsets of the kept events whose consecutive members satisfy the filter (later event tested with the earlier
one bound to the Kleene alias) -/
theorem admissible_spec (p : Pred) (cap : Cap) (kept : List Ev) (s : List Nat) :
    s ∈ (Spec.subsets 0 kept.length).filter (Spec.admissible p (some 1) cap kept) ↔
      s ≠ [] ∧ s.Pairwise (· < ·) ∧ (∀ x ∈ s, x < kept.length) ∧ Spec.chainOk p (some 1) cap (Spec.pick kept s) = true := by
  rw [List.mem_filter, (subsets_spec kept.length).1]
  simp only [Spec.admissible, Bool.and_eq_true, Bool.not_eq_true', List.isEmpty_eq_false_iff]
  constructor
  · rintro ⟨⟨h1, h2⟩, h3, h4⟩; exact ⟨h3, h1, h2, h4⟩
  · rintro ⟨h3, h1, h2, h4⟩; exact ⟨⟨h1, h2⟩, h3, h4⟩

/-! ### several concurrent runs (streams with several A events) -/

/-- the loop over the runs of a partition treats every run on its own: if no run panics it terminates normally, and
the surviving runs / the reported groups are, up to the order induced by `swap_remove`, those of each run taken
alone (`contrib` = `advance` of that run on the event) -/
theorem runs_processed_independently (nfa : Nfa) (lim : Limits) (e : Ev) (runs : List Run)
    (h : ∀ r ∈ runs, advance nfa lim r e ≠ .panic) :
    ∃ runs' ms, processRuns nfa lim e runs.length runs 0 [] = some (runs', ms) ∧
      runs'.Perm (runs.filterMap fun r => (contrib nfa lim e r).1) ∧
      ms.Perm (runs.flatMap fun r => (contrib nfa lim e r).2) := by
  simpa using processRuns_perm nfa lim e runs.length [] runs [] (Nat.le_refl _) h

/-- `A -> all B -> C` on a stream with any number of A events (and B / other events in any interleaving) followed by
C, all started runs fitting under `max_runs` (no backpressure): nothing is emitted before C; the completion reports, up to
order, the concatenation over the accepted A events (`starts`: each with the B events that arrive *after it*) of that run's
own report `ownReport` — and this is exactly what the single-run stream "that A, its own B events, C" reports (third
conjunct), whose content is described by `consistent_one_match` (all its accumulated B events) and
`selfref_emits_admissible` (its own admissible subsets). The runs do not influence one another. -/
theorem kleene_runs_independent (pa pb pc : Option Pred) (cfg : Cfg) (es : List Ev) (eC : Ev)
    (hp : cfg.partitioned = false) (hm : 1 ≤ cfg.maxRuns) (hk : 1 ≤ cfg.lim.maxEvents)
    (h2 : ∀ e ∈ es, e.ty ≠ 2) (hC : eC.ty = 2) (hcap : (es.filter (accepts pa)).length ≤ cfg.maxRuns) :
    ∃ groups,
      emittedAll (compile (midSteps pa pb pc)) cfg (es ++ [eC]) = some (es.map (fun _ => []) ++ [groups]) ∧
      groups.Perm ((starts pa es).flatMap fun x =>
        ownReport (postOf pb) pc cfg.lim eC (soloOpen (eagerOf pb) cfg.lim.maxEvents x)) ∧
      ∀ x ∈ starts pa es,
        emittedAll (compile (midSteps pa pb pc)) cfg (x.1 :: (x.2 ++ [eC])) =
          some ([] :: (x.2.map fun _ => []) ++
            [ownReport (postOf pb) pc cfg.lim eC (soloOpen (eagerOf pb) cfg.lim.maxEvents x)]) := by
  rw [compile_mid]
  obtain ⟨groups, h1, h3⟩ := emitted_mid_multi pa (eagerOf pb) (postOf pb) pc cfg es eC hp hk h2 hC hcap
  refine ⟨groups, h1, h3, ?_⟩
  intro x hx
  obtain ⟨ha, hb⟩ := starts_mem pa es x hx
  exact solo_report pa (eagerOf pb) (postOf pb) pc cfg x.1 eC x.2 hp hm hk ha hb hC

/-- non-vacuity: two A events, interleaved B events, `x > b.x`: the first run (B.x = 5, 3, 9) reports its five admissible
subsets, the second run (B.x = 3, 9) its three -/
example :
    let p : Pred := .cmpRef 0 .gt 1 0
    let ev (i t : Nat) (x : Int) : Ev := { id := i, ty := t, x := some x, y := none }
    let evs := [ev 0 0 0, ev 1 1 5, ev 2 0 0, ev 3 1 3, ev 4 1 9, ev 5 2 0]
    ((((emittedAll (compile (midSteps none (some p) none)) { maxRuns := 4, lim := ⟨20, 10000⟩ } evs).getD []).getLastD []).map
      fun g => g.map fun m => m.enum.map (·.2)) =
        [[some [2], some [1], some [1, 2], some [0], some [0, 2]], [some [1], some [0], some [0, 1]]] := by
  decide

/-- **several completions.** `A -> all B -> C` on an *arbitrary* stream — A, B, C and other events in any order, so C events
interleaved with new A events — all started runs fitting under `max_runs` (no backpressure).  The output is, event by event
and up to the `swap_remove` permutation inside one event (`EachPerm`), `specRun`: a non-C event reports nothing, advances
every open run on its own (`Open.adv`: a B is kept iff it passes that run's eager filter and its cap) and may open a run; a C
event reports the concatenation, over the runs open at that moment, of each run's own report (`ownReport`, the expression
of the single-run theorems: all its accumulated B events / its own admissible subsets) and removes exactly the runs that
complete (`survives`: a run without a kept B, or whose C filter fails, stays open unchanged). -/
theorem kleene_completions_independent (pa pb pc : Option Pred) (cfg : Cfg) (es : List Ev)
    (hp : cfg.partitioned = false) (hk : 1 ≤ cfg.lim.maxEvents)
    (hcap : (es.filter (accepts pa)).length ≤ cfg.maxRuns) :
    ∃ outs, emittedAll (compile (midSteps pa pb pc)) cfg es = some outs ∧
      EachPerm outs (specRun pa (eagerOf pb) (postOf pb) pc cfg.lim [] 0 es) := by
  rw [compile_mid]
  exact emitted_mid_stream pa (eagerOf pb) (postOf pb) pc cfg es hp hk hcap

/-- non-vacuity: two completions; the run opened by the second A is not affected by the first completion and reports
only its own B events (`x > b.x`: B.x = 1, 2 | 3, 4 → 3 admissible subsets each) -/
example :
    let p : Pred := .cmpRef 0 .gt 1 0
    let ev (i t : Nat) (x : Int) : Ev := { id := i, ty := t, x := some x, y := none }
    let evs := [ev 0 0 0, ev 1 1 1, ev 2 1 2, ev 3 2 0, ev 4 0 0, ev 5 1 3, ev 6 1 4, ev 7 2 0]
    ((emittedAll (compile (midSteps none (some p) none)) { maxRuns := 4, lim := ⟨20, 10000⟩ } evs).getD []).map
      (fun e => e.map fun g => g.map fun m => (m.stack.map (·.ev.id), m.enum.map (·.2))) =
      [[], [], [], [[([0, 1, 2, 3], some [1]), ([0, 1, 2, 3], some [0]), ([0, 1, 2, 3], some [0, 1])]],
       [], [], [], [[([4, 5, 6, 7], some [1]), ([4, 5, 6, 7], some [0]), ([4, 5, 6, 7], some [0, 1])]]] := by
  decide

/-! ### backpressure: eviction / dropping never alters a surviving run -/

/-- For **every** backpressure strategy (Drop, Error, EvictOldest, EvictLeastProgress, Sample) and every `max_runs`,
on an arbitrary stream: processing returns normally, nothing is reported at non-C events, and every group reported at a C
is (up to order) the own report `ownReport` of a run that is open at that C in the *backpressure-free* run of the same
stream (`subSpec`; the reference opens follow `specStep`) — its own accumulated B events / its own admissible subsets, never
a mixture with an evicted or dropped run's capture.
Not characterised here (strategy specific, covered by the C05 correspondence only): *which* runs are evicted or dropped,
i.e. which of the reference runs are still present. -/
theorem kleene_runs_isolated_under_backpressure (pa pb pc : Option Pred) (cfg : Cfg) (es : List Ev)
    (hp : cfg.partitioned = false) (hk : 1 ≤ cfg.lim.maxEvents) :
    ∃ outs, emittedAll (compile (midSteps pa pb pc)) cfg es = some outs ∧
      subSpec pa (eagerOf pb) (postOf pb) pc cfg.lim outs [] 0 es := by
  rw [compile_mid]
  exact emitted_mid_bp pa (eagerOf pb) (postOf pb) pc cfg es hp hk

/-- non-vacuity: `max_runs = 1`, EvictOldest: the run of the first A (which had kept B(1)) is evicted by the second A; the
completion reports only the second run's own closure B(2), B(3) — B(1) does not leak into it -/
example :
    let p : Pred := .cmpRef 0 .gt 1 0
    let ev (i t : Nat) (x : Int) : Ev := { id := i, ty := t, x := some x, y := none }
    let evs := [ev 0 0 0, ev 1 1 1, ev 2 0 0, ev 3 1 2, ev 4 1 3, ev 5 2 0]
    ((emittedAll (compile (midSteps none (some p) none)) { maxRuns := 1, lim := ⟨20, 10000⟩, strat := .evictOldest } evs).getD []).map
      (fun e => e.map fun g => g.map fun m => (m.stack.map (·.ev.id), m.enum.map (·.2))) =
      [[], [], [], [], [], [[([2, 3, 4, 5], some [1]), ([2, 3, 4, 5], some [0]), ([2, 3, 4, 5], some [0, 1])]]] := by
  decide

/-! ### patterns that *start* with `all` (outside C03's pattern shape, recorded) -/

/-- `try_start_run_shared` creates no `KleeneCapture`, so for a pattern whose **first** step is `all` the start event is on
the run's stack but never enters the capture: with `all A where x > a.x as a -> B` and A.x = 1, 2, 3 the run holds three A
events, its capture only the last two, and the completion enumerates the 3 non-empty chains over {A(2), A(3)} instead of the
7 admissible subsets of {A(1), A(2), A(3)} — no reported combination contains the start event.
C03's statement and quantifier fix the shape `A -> all B [-> C]` (closure preceded by a plain step), so this is not a C03
violation; it concerns completeness of leading closures, which no property of the list states (C01 is about genuineness of
what *is* reported). Recorded for the maintainers / C01 owner. -/
theorem leading_all_drops_first_event :
    let steps : List Step := [{ ty := 0, alias := some 0, kleene := true, pred := some (.cmpRef 0 .gt 0 0) }, { ty := 1, alias := some 1 }]
    let ev (i t : Nat) (x : Int) : Ev := { id := i, ty := t, x := some x, y := none }
    let cfg : Cfg := { maxRuns := 1, lim := ⟨20, 10000⟩ }
    (runAll (compile steps) cfg {} [ev 0 0 1, ev 1 0 2, ev 2 0 3]).map
        (fun r => r.1.runs.map fun x => (x.stack.map (·.ev.id), x.kc.map (·.events.map (·.id)))) = some [([0, 1, 2], some [1, 2])] ∧
    ((emittedAll (compile steps) cfg [ev 0 0 1, ev 1 0 2, ev 2 0 3, ev 3 1 0]).getD []).map
        (fun e => e.map fun g => g.map fun m => m.enum.map (·.2)) = [[], [], [], [[some [1], some [0], some [0, 1]]]] ∧
    (Spec.expectedSets (.cmpRef 0 .gt 0 0) (some 0) [] [ev 0 0 1, ev 1 0 2, ev 2 0 3] 10000).length = 7 := by
  decide

/-! ### patterns whose last step is `all` (consistent filter) -/

/-- `A -> all B` on `A` followed by any events that do not start a new run: an event reports the closure so far
(`matchT`: A and every B kept up to and including this one, alias b = this event) exactly when it is a B that
passes the filter (`outT`); any other event reports nothing and leaves the closure open (since the repair
`fix: … trailing all …`).  Successive reports carry strictly longer stacks, hence are pairwise distinct.
No cap is consulted on this path (`keepT`) — the known finding `C03-trailing-all-uncapped`. -/
theorem trailing_reports_each_extension (pa pb : Option Pred) (cfg : Cfg) (eA : Ev) (es : List Ev)
    (hcons : ∀ p, pb = some p → selfRef (some 1) p = false)
    (hp : cfg.partitioned = false) (hm : 1 ≤ cfg.maxRuns)
    (hA : eA.ty = 0) (hpa : predOk pa eA [] = true) (he : ∀ e ∈ es, e.ty ≠ 0) :
    emittedAll (compile (trailSteps pa pb)) cfg (eA :: es) = some ([] :: outsT pb eA [] es) ∧
    ((outsT pb eA [] es).flatten.flatten.map (·.stack.length)).Pairwise (· < ·) := by
  have hnfa : compile (trailSteps pa pb) = nfaTrail pa pb := by
    cases pb with
    | none => exact compile_trail_nofilter pa
    | some p => exact compile_trail_consistent pa p (hcons p rfl)
  exact ⟨by rw [hnfa]; exact emitted_trail pa pb cfg eA es hp hm hA hpa he, (outsT_stacks pb eA es []).2⟩

/-- reading of `outT` / `keepT`: with a consistent filter the decision for an event only looks at the event and A -/
theorem trailing_decision (pb : Option Pred) (eA e : Ev) (kept : List Ev)
    (hcons : ∀ p, pb = some p → selfRef (some 1) p = false) :
    outT pb eA kept e = (if e.ty = 1 ∧ predOk pb e [(0, eA)] = true then [[matchT eA (kept ++ [e]) e]] else []) ∧
    keepT pb eA kept e = (if e.ty = 1 ∧ predOk pb e [(0, eA)] = true then kept ++ [e] else kept) := by
  simp only [outT, keepT, predOk_capOf pb e eA kept hcons, and_self]

/-! ### (c) caps, for all cap values ≥ 1 and all streams -/

/-- On every stream (not only `A B^n C`) and every pattern of `Event` / `all Event` steps: no capture keeps
more than `maxKleene` events and no completion emits more than `maxResults` matches. -/
theorem caps_hold (steps : List Step) (cfg : Cfg) (evs : List Ev) (s : Eng) (outs : List Out)
    (hm : 1 ≤ cfg.maxRuns) (hk : 1 ≤ cfg.lim.maxEvents) (hr : 1 ≤ cfg.lim.maxResults)
    (h : runAll (compile steps) cfg {} evs = some (s, outs)) :
    (∀ v ∈ s.runs :: s.parts.map (·.2), ∀ r ∈ v, ∀ k, r.kc = some k → k.events.length ≤ cfg.lim.maxEvents) ∧
    (∀ o ∈ outs, ∀ g ∈ o.emitted, g.length ≤ cfg.lim.maxResults) := by
  obtain ⟨s', outs', h', hinv, hout⟩ := runAll_ok _ cfg (SaseK.compile_wf steps) hm hk evs {} (engInv_init _ _)
  rw [h] at h'; cases h'
  refine ⟨?_, fun o ho g hg => hout o ho g hg hr⟩
  intro v hv r hrv k hkc
  have hvi : VecInv (compile steps) cfg v := by
    rcases List.mem_cons.mp hv with rfl | hv
    · exact hinv.1
    · rcases List.mem_map.mp hv with ⟨q, hq, rfl⟩
      exact hinv.2 q hq
  have := (hvi.2 r hrv).2 k hkc
  rw [this.1.lenE]; exact this.2

/-! ### findings -/

/-- repaired (`fix: … trailing all …`): with the old ε→Accept arm (`skipAccept = false`) a run sitting in the
trailing Kleene state of `A -> all B` completes on a non-extending event, i.e. re-emits its current stack and is
removed; the repaired arm (`true`) leaves the run alone. -/
theorem trailing_all_reemit_witness :
    let nfa := compile [{ ty := 0, alias := some 0 }, { ty := 1, alias := some 1, kleene := true }]
    let eA : Ev := { id := 0, ty := 0, x := none, y := none }
    let eB : Ev := { id := 1, ty := 1, x := none, y := none }
    let eA' : Ev := { id := 2, ty := 0, x := none, y := none }
    let r : Run := { cur := 2, stack := [⟨eA, some 0⟩, ⟨eB, some 1⟩], captured := [(1, eB), (0, eA)] }
    (tryEps nfa ⟨20, 10000⟩ r eA' false [2, 3]).isSome = true ∧ tryEps nfa ⟨20, 10000⟩ r eA' true [2, 3] = none := by
  decide

/-- repaired (`fix: … Kleene alias …`): binding the previous event to the first alias mentioned by the filter
(`extract_ref_alias`) instead of the Kleene alias mis-evaluates `x < a.x and y >= b.x`. -/
theorem deferred_alias_witness :
    let p : Pred := .and (.cmpRef 0 .lt 0 0) (.cmpRef 1 .ge 1 0)
    let eA : Ev := { id := 0, ty := 0, x := some 5, y := none }
    let b1 : Ev := { id := 1, ty := 1, x := some 1, y := some 0 }
    let b2 : Ev := { id := 2, ty := 1, x := some 2, y := some 1 }
    let cap : Cap := [(1, b2), (0, eA)]
    evalDeferred p (extractRefAlias p) cap [b1, b2] = false ∧ Spec.chainOk p (some 1) cap [b1, b2] = true := by
  decide

/-- KNOWN finding `C03-trailing-all-uncapped`: a closure that is the *last* step (`A -> all B`) never creates
a capture, so `max_kleene_events` is not applied — with cap 1 the run keeps (and reports) two B events. The
full-strength cap statement therefore holds for closures followed by a further step (`caps_hold` speaks about
captures; `consistent_one_match` / `selfref_emits_admissible` about the reported stack), not for a trailing `all`. -/
theorem trailing_all_uncapped_counterexample :
    let steps : List Step := [{ ty := 0, alias := some 0 }, { ty := 1, alias := some 1, kleene := true }]
    let cfg : Cfg := { maxRuns := 4, lim := { maxEvents := 1, maxResults := 10 } }
    let ev (i t : Nat) : Ev := { id := i, ty := t, x := none, y := none }
    (emittedAll (compile steps) cfg [ev 0 0, ev 1 1, ev 2 1]).map (fun o => o.map fun e => e.map fun g => g.map fun m => m.stack.length)
      = some [[], [[2]], [[3]]] := by
  decide

/-- KNOWN finding `C03-trailing-all-selfref-greedy`: on `A -> all B where x > b.x as b` (closure is the last step) the
code keeps one greedy chain.  B.x = 5, 3, 9: the second B is skipped (3 > 5 fails) and reports nothing although
the subset {B(3)} alone is admissible; the third B reports only the chain 5, 9, not {9}, {3, 9}.  The per-event
statement for trailing closures is therefore proved for consistent filters only (`trailing_reports_each_extension`). -/
theorem trailing_selfref_greedy_counterexample :
    let steps : List Step := [{ ty := 0, alias := some 0 }, { ty := 1, alias := some 1, kleene := true, pred := some (.cmpRef 0 .gt 1 0) }]
    let ev (i t : Nat) (x : Int) : Ev := { id := i, ty := t, x := some x, y := none }
    (emittedAll (compile steps) { maxRuns := 4, lim := ⟨20, 10000⟩ } [ev 0 0 0, ev 1 1 5, ev 2 1 3, ev 3 1 9]).map
      (fun o => o.map fun e => e.map fun g => g.map fun m => m.stack.map (·.ev.id))
      = some [[], [[[0, 1]]], [], [[[0, 1, 3]]]] := by
  decide

/-- non-vacuity (the DESIGN.md probe): B.x = 5, 3, 9 with `x > b.x` yields exactly the five admissible subsets,
in iteration order; with `maxResults = 2` the first two. -/
example :
    let p : Pred := .cmpRef 0 .gt 1 0
    let ev (i t : Nat) (x : Int) : Ev := { id := i, ty := t, x := some x, y := none }
    let evs := [ev 0 0 0, ev 1 1 5, ev 2 1 3, ev 3 1 9, ev 4 2 0]
    ((((emittedAll (compile (midSteps none (some p) none)) { maxRuns := 1, lim := ⟨20, 10000⟩ } evs).getD []).getLastD []).map
      fun g => g.map fun m => m.enum.map (·.2)) = [[some [2], some [1], some [1, 2], some [0], some [0, 2]]] ∧
    ((((emittedAll (compile (midSteps none (some p) none)) { maxRuns := 1, lim := ⟨20, 2⟩ } evs).getD []).getLastD []).map
      fun g => g.map fun m => m.enum.map (·.2)) = [[some [2], some [1]]] := by
  decide

end Varpulis.Props.C03
