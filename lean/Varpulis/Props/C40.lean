import Varpulis.Lemmas.Value
/-!
# C40 — Value equality is an equivalence consistent with hashing

Statements over `Varpulis.Val` (Model/Value.lean): `veq` mirrors `impl PartialEq for Value`
(`float_eq`, `Vec ==`, `IndexMap ==`), `hashToks` is the exact sequence of `Hasher::write_*` calls of
`impl Hash for Value`. Floats are bit patterns, so NaN (every payload), `-0.0`, subnormals and
infinities are ordinary inhabitants. `wf` is the `IndexMap` invariant (distinct keys in every map,
hereditarily); every map the program can build satisfies it (`insert_preserves_wf`), and without it
the `IndexMap` type does not exist in Rust.
-/
namespace Varpulis.Props.C40
open Varpulis.Val

/-- reflexive, for every value shape (NaN included: `float_eq` makes NaN equal to itself) -/
theorem eq_refl (v : Value) (hv : wf v = true) : veq v v = true := veq_refl v hv

/-- symmetric (for maps this needs the pigeonhole argument: equal sizes + distinct keys) -/
theorem eq_symm (a b : Value) (ha : wf a = true) (hb : wf b = true) :
    veq a b = true → veq b a = true := veq_symm a b ha hb

/-- transitive -/
theorem eq_trans (a b c : Value) : veq a b = true → veq b c = true → veq a c = true := veq_trans a b c

/-- together: an equivalence relation on the values that exist at run time -/
theorem eq_equivalence : Equivalence (fun (a b : {v : Value // wf v = true}) => veq a.1 b.1 = true) :=
  ⟨fun a => veq_refl a.1 a.2, fun {a b} h => veq_symm a.1 b.1 a.2 b.2 h, fun {a b c} h1 h2 => veq_trans a.1 b.1 c.1 h1 h2⟩

/-- equal values feed every hasher the same sequence of writes … -/
theorem eq_hash_writes (a b : Value) (ha : wf a = true) (hb : wf b = true) :
    veq a b = true → hashToks a = hashToks b := hash_eq_of_veq a b ha hb

/-- … hence have equal hashes, whatever the hasher (`finish` is an arbitrary function of the writes) -/
theorem eq_hash (finish : List Tok → Nat) (a b : Value) (ha : wf a = true) (hb : wf b = true)
    (h : veq a b = true) : hashWith finish a = hashWith finish b := by
  unfold hashWith; rw [hash_eq_of_veq a b ha hb h]

/-- float equality is exactly "same hashed bits": NaN ↦ canonical NaN, ±0 ↦ 0, else the bits -/
theorem float_eq_iff_hash_bits (a b : F64) : floatEq a b = true ↔ floatHashBits a = floatHashBits b :=
  floatEq_iff a b

/-- the map constructor of the runtime (`IndexMap::insert`) keeps maps well-formed -/
theorem insert_preserves_wf (k : String) (v : Value) (m : List (String × Value))
    (hm : wf (.map m) = true) (hv : wf v = true) : wf (.map (insertV k v m)) = true := by
  simp only [wf] at *; exact wfEntries_insertV k v m hm hv

/-- The defect repaired by the `fix:` commit in value.rs: the old `Hash` walked the entries in
insertion order, so two maps that are equal (same entries, inserted in different orders) were
hashed through different write sequences. -/
theorem old_map_hash_defect_witness :
    let a := Value.map [("a", .int 1), ("b", .int 2)]
    let b := Value.map [("b", .int 2), ("a", .int 1)]
    wf a = true ∧ wf b = true ∧ veq a b = true ∧ hashToksOld a ≠ hashToksOld b ∧ hashToks a = hashToks b := by
  refine ⟨?_, ?_, ?_, ?_, ?_⟩ <;>
    simp [wf, wfEntries, lookupV, veq, veqSub, hashToksOld, hashEntriesOld, flattenEntries, strToks,
      hashToks, hashEntries, sortByKey, List.mergeSort, List.MergeSort.Internal.splitInTwo, List.merge]
  all_goals decide

/-- special floats: NaN with different payloads and signs are equal and hash alike; so are ±0 -/
example : veq (.float ⟨0x7ff8000000000000⟩) (.float ⟨0xfff0000000000001⟩) = true
    ∧ hashToks (.float ⟨0x7ff8000000000000⟩) = hashToks (.float ⟨0xfff0000000000001⟩)
    ∧ veq (.float ⟨0⟩) (.float ⟨0x8000000000000000⟩) = true
    ∧ hashToks (.float ⟨0⟩) = hashToks (.float ⟨0x8000000000000000⟩) := by
  simp [veq, hashToks, floatEq, floatHashBits, F64.isNan, F64.isZero, F64.expo, F64.mant, F64.canonicalNan]

/-- non-vacuity: nested, permuted, well-formed maps that are equal -/
example :
    let a := Value.map [("x", .array [.float ⟨0⟩, .null]), ("y", .map [("p", .bool true), ("q", .str "s")])]
    let b := Value.map [("y", .map [("q", .str "s"), ("p", .bool true)]), ("x", .array [.float ⟨0x8000000000000000⟩, .null])]
    wf a = true ∧ wf b = true ∧ veq a b = true := by
  simp [wf, wfEntries, wfList, lookupV, veq, veqSub, veqList, floatEq, F64.isNan, F64.isZero, F64.expo, F64.mant]

end Varpulis.Props.C40
