import Varpulis.Lemmas.Zdd
/-!
# C07 — canonicity, reducedness, ordering, iteration order; gc

Tree layer: a handle is modelled by the tree it denotes, so "same root" is tree equality.
`gc` is the identity on trees (it rebuilds the same triples in a fresh table); that the
real table realises this is checked on dumped tables by the Judge (`Driver/Zdd.lean: judgeDump`).
-/
namespace Varpulis.Props.C07
open Varpulis.Zdd

/-- two ordered, reduced ZDDs denoting the same family are the same -/
theorem canonical_root (a b : Z) (ha : Ord 0 a) (hb : Ord 0 b) (ra : Red a) (rb : Red b)
    (h : ∀ s, s ∈ sets a ↔ s ∈ sets b) : a = b := canonical a b 0 ha hb ra rb h

/-- every constructor and operation yields ordered, reduced results from ordered, reduced arguments -/
theorem invariants_preserved :
    (∀ l, Ord 0 (fromSet l) ∧ Red (fromSet l)) ∧
    (∀ v, Ord 0 (Zdd.singleton v) ∧ Red (Zdd.singleton v)) ∧
    (∀ a b, Ord 0 a → Ord 0 b → Ord 0 (union a b)) ∧ (∀ a b, Red a → Red b → Red (union a b)) ∧
    (∀ a b, Ord 0 a → Ord 0 b → Ord 0 (inter a b)) ∧ (∀ a b, Red a → Red b → Red (inter a b)) ∧
    (∀ a b, Ord 0 a → Ord 0 b → Ord 0 (diff a b)) ∧ (∀ a b, Red a → Red b → Red (diff a b)) ∧
    (∀ a v, Ord 0 a → Ord 0 (pwo a v)) ∧ (∀ a v, Red a → Red (pwo a v)) ∧
    (∀ a b, Ord 0 a → Ord 0 b → Ord 0 (product a b)) ∧ (∀ a b, Red a → Red b → Red (product a b)) := by
  refine ⟨fun l => ⟨ord_fromSorted _ 0 (normalize_spec l).1 (fun _ _ => Nat.zero_le _), red_fromSorted _⟩,
    fun v => ⟨ord_mk (Nat.zero_le _) trivial trivial, red_mk trivial trivial⟩,
    fun a b => ord_union a b 0, red_union, fun a b => ord_inter a b 0, red_inter,
    fun a b => ord_diff a b 0, red_diff, fun a v h => ord_pwo a v 0 h (Nat.zero_le _), red_pwo,
    fun a b => ord_product a b 0, red_product⟩

/-- iteration yields each member once -/
theorem iter_nodup (a : Z) (ha : Ord 0 a) : (sets a).Nodup := sets_nodup ha

/-- each member is listed in ascending element order -/
theorem iter_members_ascending (a : Z) (ha : Ord 0 a) (s : List Nat) (hs : s ∈ sets a) :
    s.Pairwise (· < ·) := (mem_sorted ha hs).1

/-- a reduced diagram is empty only if it is the Empty terminal (no stored node denotes ∅) -/
theorem reduced_nonempty (a : Z) (ra : Red a) (h : a ≠ .empty) : sets a ≠ [] := red_sets_ne_nil ra h

example : Ord 0 (union (fromSet [0, 2]) (fromSet [1])) ∧ Red (union (fromSet [0, 2]) (fromSet [1])) := by
  simp [union, fromSet, normalize, insertSorted, fromSorted, mk, Zdd.Ord, Red]

end Varpulis.Props.C07
