import Varpulis.Lemmas.Zdd
import Varpulis.Lemmas.ZddTable
import Varpulis.Lemmas.ZddIter
/-!
# C07 — canonicity, reducedness, ordering, iteration order; gc

Tree layer: a handle is modelled by the tree it denotes, so "same root" is tree equality.
Table layer (`Model/ZddTable.lean`): the `Vec` of nodes with `get_or_create`, `treeOf : Table → Ref → Z`
and the invariant `TWF`; the statements of C07 are theorems about that table model, and the judge
that inspects dumped tables of the real arena (`judgeTable`) is proved sound w.r.t. them.
-/
namespace Varpulis.Props.C07
open Varpulis.Zdd

/-- two ordered, reduced ZDDs denoting the same family are the same -/
theorem canonical_root (a b : Z) (ha : Ord 0 a) (hb : Ord 0 b) (ra : Red a) (rb : Red b)
    (h : ∀ s, s ∈ sets a ↔ s ∈ sets b) : a = b := canonical a b 0 ha hb ra rb h

/-- every constructor and operation yields ordered, reduced results from ordered, reduced arguments -/
theorem invariants_preserved :
    (∀ l, Ord 0 (fromSet l) ∧ Red (fromSet l)) ∧
    (∀ v, Ord 0 (Zdd.singleton v) ∧ Red (Zdd.singleton v)) ∧
    (∀ a b, Ord 0 a → Ord 0 b → Ord 0 (union a b)) ∧ (∀ a b, Red a → Red b → Red (union a b)) ∧
    (∀ a b, Ord 0 a → Ord 0 b → Ord 0 (inter a b)) ∧ (∀ a b, Red a → Red b → Red (inter a b)) ∧
    (∀ a b, Ord 0 a → Ord 0 b → Ord 0 (diff a b)) ∧ (∀ a b, Red a → Red b → Red (diff a b)) ∧
    (∀ a v, Ord 0 a → Ord 0 (pwo a v)) ∧ (∀ a v, Red a → Red (pwo a v)) ∧
    (∀ a b, Ord 0 a → Ord 0 b → Ord 0 (product a b)) ∧ (∀ a b, Red a → Red b → Red (product a b)) := by
  refine ⟨fun l => ⟨ord_fromSorted _ 0 (normalize_spec l).1 (fun _ _ => Nat.zero_le _), red_fromSorted _⟩,
    fun v => ⟨ord_mk (Nat.zero_le _) trivial trivial, red_mk trivial trivial⟩,
    fun a b => ord_union a b 0, red_union, fun a b => ord_inter a b 0, red_inter,
    fun a b => ord_diff a b 0, red_diff, fun a v h => ord_pwo a v 0 h (Nat.zero_le _), red_pwo,
    fun a b => ord_product a b 0, red_product⟩

/-- iteration yields each member once -/
theorem iter_nodup (a : Z) (ha : Ord 0 a) : (sets a).Nodup := sets_nodup ha

/-- each member is listed in ascending element order -/
theorem iter_members_ascending (a : Z) (ha : Ord 0 a) (s : List Nat) (hs : s ∈ sets a) :
    s.Pairwise (· < ·) := (mem_sorted ha hs).1

/-- a reduced diagram is empty only if it is the Empty terminal (no stored node denotes ∅) -/
theorem reduced_nonempty (a : Z) (ra : Red a) (h : a ≠ .empty) : sets a ≠ [] := red_sets_ne_nil ra h

example : Ord 0 (union (fromSet [0, 2]) (fromSet [1])) ∧ Red (union (fromSet [0, 2]) (fromSet [1])) := by
  simp [union, fromSet, normalize, insertSorted, fromSorted, mk, Zdd.Ord, Red]

/-! ## Table layer: the hash-consed node table -/
section Table
open Varpulis.ZddT

/-- the empty arena is well-formed -/
theorem empty_table_TWF : TWF #[] := twf_empty

/-- `get_or_create` denotes `Zdd.mk` (zero-suppression rule) of the children's trees -/
theorem treeOf_getOrCreate (t : Table) (h : TWF t) (v : Nat) (lo hi : Ref) (hlo : Valid t lo) (hhi : Valid t hi) :
    treeOf (getOrCreate t v lo hi).1 (getOrCreate t v lo hi).2 = Zdd.mk v (treeOf t lo) (treeOf t hi) :=
  tree_getOrCreate h.toBelow hlo hhi

/-- `get_or_create` only appends: every stored node keeps its id, the returned ref is dereferenceable -/
theorem getOrCreate_only_appends (t : Table) (v : Nat) (lo hi : Ref) (hlo : Valid t lo) :
    Ext t (getOrCreate t v lo hi).1 ∧ Valid (getOrCreate t v lo hi).1 (getOrCreate t v lo hi).2 :=
  ⟨getOrCreate_ext t v lo hi, getOrCreate_valid hlo⟩

/-- appending never changes the tree of an existing ref (the argument written in the comment of
`ZddArena::invalidate_caches`) -/
theorem treeOf_stable (t t' : Table) (h : TWF t) (hx : Ext t t') (r : Ref) (hv : Valid t r) :
    treeOf t' r = treeOf t r := tree_stable h.toBelow hx hv

/-- `get_or_create` preserves the table invariant when the new variable is below both children
(which every caller guarantees: `Ord (v+1)` of the children's trees) -/
theorem getOrCreate_preserves_TWF (t : Table) (h : TWF t) (v : Nat) (lo hi : Ref) (hlo : Valid t lo) (hhi : Valid t hi)
    (olo : Ord (v + 1) (treeOf t lo)) (ohi : Ord (v + 1) (treeOf t hi)) : TWF (getOrCreate t v lo hi).1 :=
  twf_getOrCreate h hlo hhi olo ohi

/-- every stored node is reduced with strictly increasing variables along every path:
the tree of every valid ref is `Ord` and `Red` -/
theorem stored_nodes_reduced_ordered (t : Table) (h : TWF t) (r : Ref) (hv : Valid t r) :
    Ord 0 (treeOf t r) ∧ Red (treeOf t r) := ⟨tree_ord h hv, tree_red h hv⟩

/-- canonicity of the unique table: `treeOf` is injective on valid refs -/
theorem treeOf_inj (t : Table) (h : TWF t) (a b : Ref) (ha : Valid t a) (hb : Valid t b)
    (heq : treeOf t a = treeOf t b) : a = b := tree_inj h ha hb heq

/-- **two ZDDs in the same arena that denote the same family have the same root** -/
theorem same_family_same_root (t : Table) (h : TWF t) (a b : Ref) (ha : Valid t a) (hb : Valid t b)
    (hs : ∀ s, s ∈ sets (treeOf t a) ↔ s ∈ sets (treeOf t b)) : a = b := same_family_same_ref h ha hb hs

/-- the executable well-formedness check run on dumped tables decides `TWF` -/
theorem twf_decides_TWF (t : Table) : twf t = true ↔ TWF t := twf_iff

/-- soundness of the judge that inspects the dumped node table of the real arena -/
theorem judgeTable_sound (t : Table) (regs : List (Nat × Ref)) (model : Nat → Z)
    (h : judgeTable t regs model = .ok) :
    TWF t ∧ (∀ p ∈ regs, Valid t p.2 ∧ treeOf t p.2 = model p.1) ∧
    (∀ p ∈ regs, ∀ q ∈ regs, (p.2 = q.2 ↔ ∀ s, s ∈ sets (model p.1) ↔ s ∈ sets (model q.1))) := judge_sound h

/-! ### garbage collection (`ZddArena::gc`, `gc_caches_only`) -/

/-- the arena invariant: `TWF` table and every entry of the four persistent caches correct w.r.t. `treeOf` -/
theorem arena_invariant_initial : Arena.OK {} := Arena.ok_empty

/-- **Garbage collection returns handles that denote exactly the families the live handles denoted before**;
it cannot panic or diverge (`some`), the compacted table is well-formed, and all four caches are empty
(so no entry can refer to an id of the old table). -/
theorem gc_preserves (s : Arena) (h : TWF s.table) (live : List Ref) (hl : ∀ r ∈ live, Valid s.table r) :
    ∃ s' roots, s.gc live = some (s', roots) ∧ s'.OK ∧ roots.length = live.length ∧
      (∀ p ∈ live.zip roots, Valid s'.table p.2 ∧ treeOf s'.table p.2 = treeOf s.table p.1) ∧
      s'.ucache = [] ∧ s'.icache = [] ∧ s'.dcache = [] ∧ s'.ccache = [] := gc_spec h hl

/-- `gc_caches_only` keeps the table (hence every handle and its family) and the invariant -/
theorem gc_caches_only_preserves (s : Arena) (h : s.OK) :
    (s.gcCachesOnly).OK ∧ (s.gcCachesOnly).table = s.table ∧
      (s.gcCachesOnly).ucache = [] ∧ (s.gcCachesOnly).icache = [] ∧ (s.gcCachesOnly).dcache = [] ∧
      (s.gcCachesOnly).ccache = [] := gcCachesOnly_spec h

/-- every arena operation keeps the invariant (`TWF` table + correct caches), whatever it returns -/
theorem arena_operations_preserve_invariant (s : Arena) (hs : s.OK) (a b : Ref) (ha : Valid s.table a)
    (hb : Valid s.table b) (v : Nat) (l : List Nat) :
    (∀ s' r, s.union a b = some (s', r) → s'.OK) ∧ (∀ s' r, s.inter a b = some (s', r) → s'.OK) ∧
    (∀ s' r, s.diff a b = some (s', r) → s'.OK) ∧ (∀ s' r, s.pwo a v = some (s', r) → s'.OK) ∧
    (∀ s' k, s.count a = some (s', k) → s'.OK) ∧ (s.singleton v).1.OK ∧ (s.fromSet l).1.OK := by
  refine ⟨?_, ?_, ?_, ?_, ?_, (Arena.singleton_spec hs v).1, (Arena.fromSet_spec hs l).1⟩
  · intro s' r h; obtain ⟨s'', r'', e, ok, _⟩ := Arena.union_spec hs ha hb; rw [e] at h; cases h; exact ok
  · intro s' r h; obtain ⟨s'', r'', e, ok, _⟩ := Arena.inter_spec hs ha hb; rw [e] at h; cases h; exact ok
  · intro s' r h; obtain ⟨s'', r'', e, ok, _⟩ := Arena.diff_spec hs ha hb; rw [e] at h; cases h; exact ok
  · intro s' r h; obtain ⟨s'', r'', e, ok, _⟩ := Arena.pwo_spec hs ha v; rw [e] at h; cases h; exact ok
  · intro s' k h; obtain ⟨s'', e, ok, _⟩ := Arena.count_spec hs ha; rw [e] at h; cases h; exact ok

/-- iteration over a handle of a well-formed table yields each member once, elements ascending
(`sets (treeOf t r)` is the sequence `ArenaIterator` yields: lo branch before hi branch) -/
theorem arena_iteration_once_ascending (t : Table) (h : TWF t) (r : Ref) (hv : Valid t r) :
    (sets (treeOf t r)).Nodup ∧ ∀ s ∈ sets (treeOf t r), s.Pairwise (· < ·) :=
  ⟨sets_nodup (tree_ord h hv), fun _ hs => (mem_sorted (tree_ord h hv) hs).1⟩

/-- the judge's pairwise test "same family ⇔ same handle" can never fire once the table is well-formed
and the handles denote the model trees: canonicity is a theorem, not an observation -/
theorem judge_canonicity_test_redundant (t : Table) (regs : List (Nat × Ref)) (model : Nat → Z) :
    judgeTable t regs model ≠ .notCanonical := judge_never_notCanonical t regs model

/-! ### the iterators as step machines (`ArenaIterator` in arena.rs, `ZddIterator` in iter.rs) -/

/-- **`ArenaIterator` yields exactly `sets`.** The explicit-stack machine (`(ref, branch)` frames, one shared
path vector with push/pop), started at a valid handle of a well-formed table and run until `next()` returns
`None`, terminates within `stepsA (treeOf t r) + 1` loop iterations (three per node, one per terminal —
the fuel bound is part of the statement), never indexes out of bounds, and returns the members in
exactly the order of `Zdd.sets`: lo branch before hi branch, each member once, elements ascending
(`arena_iteration_once_ascending`). -/
theorem iterator_yields_sets (t : Table) (h : TWF t) (r : Ref) (hv : Valid t r) :
    AIter.collect t (stepsA (treeOf t r) + 1) (AIter.new r) = some (sets (treeOf t r)) := aiter_collect h hv

/-- more fuel never changes the result -/
theorem iterator_fuel_monotone (t : Table) (h : TWF t) (r : Ref) (hv : Valid t r) (k : Nat) :
    AIter.collect t (stepsA (treeOf t r) + 1 + k) (AIter.new r) = some (sets (treeOf t r)) :=
  aiter_collect_any_fuel h hv k

/-- `collect` is "call `next()` until `None`": a `next()` yielding `p` and leaving state `s'` puts `p` in front of
what collecting from `s'` gives; a `next()` returning `None` ends the collection with nothing more -/
theorem iterator_collect_is_repeated_next (t : Table) (f : Nat) (s : AIter) :
    (∀ p s', AIter.next t f s = some (some p, s') → ∀ g l, AIter.collect t g s' = some l →
      AIter.collect t (f + g) s = some (p :: l)) ∧
    (∀ s', AIter.next t f s = some (none, s') → AIter.collect t f s = some []) := anext_collect f s

/-- **`ZddIterator` (standalone `Zdd::iter`, frames own their path) yields exactly `sets`** -/
theorem zdd_iterator_yields_sets (t : Table) (h : TWF t) (r : Ref) (hv : Valid t r) :
    ZIter.collect t (stepsZ (treeOf t r) + 1) (ZIter.new r) = some (sets (treeOf t r)) := ziter_collect h hv

/-- non-vacuity: the machine on {{1},{0,1}} -/
example : AIter.collect #[⟨1, .E, .B⟩, ⟨0, .N 0, .N 0⟩] 14 (AIter.new (.N 1)) = some [[1], [0, 1]] := by decide

/-- non-vacuity: a three-node table ({{1},{0,1}} and {{1}}) is well-formed and accepted by the judge -/
example : TWF #[⟨1, .E, .B⟩, ⟨0, .N 0, .N 0⟩] ∧
    judgeTable #[⟨1, .E, .B⟩, ⟨0, .N 0, .N 0⟩] [(0, .N 1), (1, .N 0)]
      (fun r => if r = 0 then pwo (fromSet [1]) 0 else fromSet [1]) = .ok := by
  refine ⟨twf_iff.1 (by decide), by decide⟩

end Table

end Varpulis.Props.C07
