import Varpulis.Lemmas.RateLimit
/-!
# C30 — rate limiting never admits more than burst plus rate times elapsed time

Statements over `Varpulis.RateLimit` (Model/RateLimit.lean), which mirrors `TokenBucket`
and `RateLimiter::check` of `crates/varpulis-cluster/src/rate_limit.rs` on an exact (`Rat`)
virtual clock. Windows are *closed* intervals `[lo, hi]`, which is stronger than the
half-open `(t1, t2]` of the property text. `admittedIn tr lo hi` counts the admitted
requests with a time stamp in the window; `clientTrace c` projects a limiter trace onto
client `c`; `StaysTracked c l reqs` says `c`'s entry is never the eviction victim.
-/
namespace Varpulis.Props.C30
open Varpulis.RateLimit

/-- One token bucket, any monotone sequence of request times, any window: at most
`burst + rate·(hi − lo)` admissions. (Invariant `0 ≤ tokens ≤ max_tokens`, potential argument.) -/
theorem bucket_admits_at_most (burst rate : Nat) (t0 : Rat) (ts : List Rat) (lo hi : Rat)
    (hmono : (t0 :: ts).Pairwise (· ≤ ·)) (hlh : lo ≤ hi) :
    (admittedIn ((Bucket.new burst rate t0).run ts) lo hi : Rat) ≤ burst + rate * (hi - lo) := by
  have h := bucket_bound (Bucket.new burst rate t0) ts lo hi (Bucket.new_good _ _ _)
    (List.pairwise_cons.mp hmono).2 (List.pairwise_cons.mp hmono).1 hlh
  exact h

/-- The same from any bucket state satisfying the invariant (what every reachable bucket satisfies). -/
theorem bucket_admits_at_most_from (b : Bucket) (ts : List Rat) (lo hi : Rat)
    (hg : b.Good) (hmono : (b.last :: ts).Pairwise (· ≤ ·)) (hlh : lo ≤ hi) :
    (admittedIn (b.run ts) lo hi : Rat) ≤ b.maxTokens + b.rate * (hi - lo) :=
  bucket_bound b ts lo hi hg (List.pairwise_cons.mp hmono).2 (List.pairwise_cons.mp hmono).1 hlh

/-- The invariant is preserved by every `try_consume` (so it holds of every reachable bucket). -/
theorem invariant_preserved (b : Bucket) (t : Rat) (hg : b.Good) (hl : b.last ≤ t) :
    (b.tryConsume t).1.Good := (Bucket.tryConsume_spec b t hg hl).1

/-- The limiter: requests of any clients interleaved in any way, any victims chosen by the
evictions (every hash-map iteration order), monotone clock. While client `c` is tracked the
number of its requests admitted in any window is at most `burst + rate·(hi − lo)`. -/
theorem limiter_admits_at_most (cfg : Config) (c : Nat) (reqs : List Req) (lo hi : Rat)
    (he : cfg.enabled = true) (hmono : (reqs.map (·.now)).Pairwise (· ≤ ·))
    (htracked : StaysTracked c (Limiter.new cfg) reqs) (hlh : lo ≤ hi) :
    (admittedIn (clientTrace c ((Limiter.new cfg).run reqs)) lo hi : Rat) ≤ cfg.burst + cfg.rate * (hi - lo) := by
  have hwf : (Limiter.new cfg).WF reqs := by intro p hp; cases hp
  exact limiter_bound c reqs (Limiter.new cfg) lo hi he hwf hmono htracked hlh

/-- … and from any well-formed limiter state (buckets satisfying the invariant, not updated after
the first request), e.g. any state reached earlier. -/
theorem limiter_admits_at_most_from (l : Limiter) (c : Nat) (reqs : List Req) (lo hi : Rat)
    (he : l.cfg.enabled = true) (hwf : l.WF reqs) (hmono : (reqs.map (·.now)).Pairwise (· ≤ ·))
    (htracked : StaysTracked c l reqs) (hlh : lo ≤ hi) :
    (admittedIn (clientTrace c (l.run reqs)) lo hi : Rat) ≤ l.cfg.burst + l.cfg.rate * (hi - lo) :=
  limiter_bound c reqs l lo hi he hwf hmono htracked hlh

/-- The bound with an explicit rounding term instead of exact arithmetic. `ApproxRun ε b tr`: every
`try_consume` of the trace computed its capped token count within `ε` of the exact value (and inside
`[0, max_tokens]`); comparison with and subtraction of `1.0` are exact. Then every closed window holds
at most `burst + rate·(hi − lo) + ε·n` admissions, `n` = requests falling into the window. For f64
and `burst ≤ 20`, `ε ≈ 4·2⁻⁵³·(burst+1) < 10⁻¹⁴` (three roundings: `as_secs_f64`, product, sum; a
sum beyond `max_tokens + 1` is capped exactly). -/
theorem bucket_admits_at_most_with_rounding (ε : Rat) (hε : 0 ≤ ε) (b : Bucket) (tr : List (Rat × Bool))
    (lo hi : Rat) (hg : b.Good) (hrun : ApproxRun ε b tr)
    (hmono : (b.last :: tr.map (·.1)).Pairwise (· ≤ ·)) (hlh : lo ≤ hi) :
    (admittedIn tr lo hi : Rat) ≤ b.maxTokens + b.rate * (hi - lo) + ε * (requestsIn tr lo hi : Rat) :=
  approx_bucket_bound ε hε tr b lo hi hg hrun (List.pairwise_cons.mp hmono).2
    (fun p hp => (List.pairwise_cons.mp hmono).1 p.1 (List.mem_map.mpr ⟨p, hp, rfl⟩)) hlh

/-- … hence at most one admission more than the exact bound while `ε·n ≤ 1` (for f64 and bursts up
to 20: up to 10¹⁴ requests in one window). -/
theorem bucket_admits_at_most_plus_one (ε : Rat) (hε : 0 ≤ ε) (b : Bucket) (tr : List (Rat × Bool))
    (lo hi : Rat) (hg : b.Good) (hrun : ApproxRun ε b tr)
    (hmono : (b.last :: tr.map (·.1)).Pairwise (· ≤ ·)) (hlh : lo ≤ hi)
    (hsmall : ε * (requestsIn tr lo hi : Rat) ≤ 1) :
    (admittedIn tr lo hi : Rat) ≤ b.maxTokens + b.rate * (hi - lo) + 1 :=
  approx_bucket_bound_slack ε hε tr b lo hi hg hrun (List.pairwise_cons.mp hmono).2
    (fun p hp => (List.pairwise_cons.mp hmono).1 p.1 (List.mem_map.mpr ⟨p, hp, rfl⟩)) hlh hsmall

/-- The exact model is the case `ε = 0` (so the premise `ApproxRun` is satisfiable by every run). -/
theorem exact_run_is_rounding_free (b : Bucket) (ts : List Rat) (hg : b.Good)
    (hmono : (b.last :: ts).Pairwise (· ≤ ·)) : ApproxRun 0 b (b.run ts) :=
  exact_is_approx b ts hg (List.pairwise_cons.mp hmono).2 (List.pairwise_cons.mp hmono).1

/-- The tracked-IP map never exceeds its capacity (`max_tracked_ips`, but at least the requesting
client itself), and holds one bucket per client: eviction really makes room. -/
theorem tracked_clients_bounded (l : Limiter) (ip : Nat) (now : Rat)
    (hn : (keys l.buckets).Nodup) (hlen : l.buckets.length ≤ max l.cfg.cap 1) :
    (keys (l.check ip now).1.buckets).Nodup ∧ (l.check ip now).1.buckets.length ≤ max l.cfg.cap 1 :=
  check_capacity l ip now hn hlen

/-- `check` never panics: every configuration (rate 0, burst 0, capacity 0, disabled), every state,
every client, every clock reading, every eviction victim. -/
theorem check_never_panics (l : Limiter) (ip : Nat) (now : Rat) (victim : Option Nat) :
    (l.checkWith ip now victim).2 ≠ .panic := by
  unfold Limiter.checkWith
  split
  · simp
  · simp only [Bucket.resetAfter_ok]; simp

/-- A rejected request gets a finite retry-after: non-negative and at most `MAX_RESET_AFTER`. -/
theorem retry_after_finite (l : Limiter) (ip : Nat) (now : Rat) (victim : Option Nat) (d : Rat)
    (h : (l.checkWith ip now victim).2 = .ok (.limited d)) (hg : ∀ p ∈ l.buckets, p.2.Good ∧ p.2.last ≤ now) :
    0 ≤ d ∧ d ≤ maxResetAfter := by
  by_cases he : l.cfg.enabled = true
  · have hstep := checkWith_enabled l ip now victim he
    simp only at hstep
    rw [hstep] at h
    generalize hb : (lookup (evictFor l.cfg l.buckets ip victim) ip).getD (Bucket.new l.cfg.burst l.cfg.rate now) = b at h
    have hgood : b.Good ∧ b.last ≤ now := by
      rw [← hb]
      cases hlk : lookup (evictFor l.cfg l.buckets ip victim) ip with
      | none => exact ⟨Bucket.new_good _ _ _, le_refl _⟩
      | some b0 =>
        have hm := lookup_mem _ _ _ hlk
        have : (ip, b0) ∈ l.buckets := by
          unfold evictFor at hm
          split at hm
          · split at hm
            · exact (List.mem_filter.mp hm).1
            · exact hm
          · exact hm
        exact hg _ this
    have hg' := (Bucket.tryConsume_spec b now hgood.1 hgood.2).1
    cases hflag : (b.tryConsume now).2
    · simp only [hflag, Bool.false_eq_true, if_false, Outcome.ok.injEq, Result.limited.injEq] at h
      rw [← h]
      unfold Bucket.resetSecs maxResetAfter
      have h0 := hg'.tok_nonneg; have hr := hg'.rate_nonneg
      split
      · constructor <;> norm_num
      · rename_i hlt
        split
        · constructor <;> norm_num
        · rename_i hr0
          have hrpos : 0 < (b.tryConsume now).1.rate := lt_of_le_of_ne hr (Ne.symm hr0)
          constructor
          · exact le_min (div_nonneg (by linarith) hr) (by norm_num)
          · exact min_le_right _ _
    · simp [hflag] at h
  · simp [Limiter.checkWith, he] at h

/-- For a positive integer rate the retry-after is exact: it is `(1 − tokens)/rate ≤ 1 s`, and a
request made that much later is admitted (if the client sent nothing in between). -/
theorem retry_after_sufficient (b : Bucket) (hg : b.Good) (hmax : 1 ≤ b.maxTokens) (hr : 1 ≤ b.rate)
    (hlt : b.tokens < 1) :
    b.resetSecs = (1 - b.tokens) / b.rate ∧ b.resetSecs ≤ 1 ∧ (b.tryConsume (b.last + b.resetSecs)).2 = true := by
  have h0 := hg.tok_nonneg
  have hrpos : 0 < b.rate := by linarith
  have hq1 : (1 - b.tokens) / b.rate ≤ 1 := by
    rw [div_le_one hrpos]; linarith
  have hq0 : 0 ≤ (1 - b.tokens) / b.rate := div_nonneg (by linarith) (le_of_lt hrpos)
  have hrs : b.resetSecs = (1 - b.tokens) / b.rate := by
    unfold Bucket.resetSecs maxResetAfter
    rw [if_neg (not_le.mpr hlt), if_neg (ne_of_gt hrpos)]
    exact min_eq_left (by linarith)
  refine ⟨hrs, by rw [hrs]; exact hq1, ?_⟩
  rw [hrs]
  have hle : b.last ≤ b.last + (1 - b.tokens) / b.rate := by linarith
  have hmul : (b.last + (1 - b.tokens) / b.rate - b.last) * b.rate = 1 - b.tokens := by
    rw [add_sub_cancel_left, div_mul_cancel₀ _ (ne_of_gt hrpos)]
  simp only [Bucket.tryConsume, Bucket.refill, hle, if_true, hmul]
  have : b.tokens + (1 - b.tokens) = 1 := by ring
  rw [this, min_eq_left hmax]
  simp

/-- The defect repaired by the `fix:` commit: on the unchanged tree `reset_after` evaluated
`Duration::from_secs_f64(needed / 0.0)`; with rate 0 the request that uses up the burst panics
(here burst 1: the very first request), and so does every request with burst 0. -/
theorem old_check_panics_at_rate_zero :
    ((Limiter.new { rate := 0, burst := 1, cap := 2 }).checkOld 1 0).2 = .panic ∧
    ((Limiter.new { rate := 0, burst := 0, cap := 1 }).checkOld 1 0).2 = .panic := by
  constructor <;>
  norm_num [Limiter.new, Limiter.checkOld, evictFor, lookup, Bucket.new, Bucket.tryConsume, Bucket.refill,
    Bucket.resetAfterOld, pickVictim, minLastKeys]

/-- non-vacuity: a history at capacity 1 in which client 1 is evicted by client 2 (so client 1 does
not stay tracked) while client 2 stays tracked, is admitted twice (burst 2) and then rejected with
retry-after 1/4 s at rate 2; the premises of `limiter_admits_at_most` hold for client 2. -/
example :
    Witness.cfg0.enabled = true ∧ (Witness.reqs.map (·.now)).Pairwise (· ≤ ·) ∧
    StaysTracked 2 (Limiter.new Witness.cfg0) Witness.reqs ∧ ¬ StaysTracked 1 (Limiter.new Witness.cfg0) Witness.reqs ∧
    ((Limiter.new Witness.cfg0).run Witness.reqs).map (·.2)
      = [.ok (.allowed 1 0), .ok (.allowed 1 0), .ok (.allowed 0 (1/2)), .ok (.limited (1/4))] := by
  refine ⟨rfl, ?_, Witness.history⟩
  norm_num [Witness.reqs]

end Varpulis.Props.C30
