import Varpulis.Lemmas.EngineRoute
/-!
# C16 — all event-processing entry points produce the same outputs

Model: `Model/EngineRoute.lean` (streams arbitrary step functions with arbitrary join / process flags,
router an arbitrary table). `perEvent` = `Engine::process` once per event; `batch` = `process_batch`
(and `process_batch_shared`) once per chunk of the split; `batchSync` = `process_batch_sync` once per
chunk. `sent` is the sequence of events put on the output channel.

The statements are about the entry points *after* the three repairs (see notes/C16.md); what the
pre-repair entry points did is stated on the `legacy*` definitions in `Lemmas/EngineRoute.lean`
(`legacy_batch_order_differs`, `legacy_batch_content_differs`, `legacy_sync_rename_duplicates`,
`legacy_sync_join_starves`, `legacy_sync_process_type`).
-/
namespace Varpulis.Props.C16
open Varpulis.EngineRoute

/-- For every engine state, every event sequence and every batch split: the async batch path and the
synchronous batch path put exactly the same sequence on the output channel as the per-event path, and
leave every stream in the same state (so the agreement continues over any further calls, also when the
entry points are mixed). -/
theorem entry_points_agree (E : Eng) (split : List (List Ev)) :
    (batch E split).sent = (perEvent E split.flatten).sent ∧
    (batch E split).eng = (perEvent E split.flatten).eng ∧
    (batchSync E split).sent = (perEvent E split.flatten).sent ∧
    (batchSync E split).eng = (perEvent E split.flatten).eng := by
  have hb : batch E split = perEvent E split.flatten := by
    simp only [batch, perEvent]; exact calls_processSeq false split E
  have hs : batchSync E split = processSeq true E split.flatten := by
    simp only [batchSync]; exact calls_processSeq true split E
  have h := processSeq_sync_async split.flatten E
  refine ⟨by rw [hb], by rw [hb], ?_, ?_⟩
  · rw [hs]; exact h.2
  · rw [hs]; exact h.1

/-- two splits of the same sequence give the same outputs on every batch path -/
theorem split_irrelevant (E : Eng) (s1 s2 : List (List Ev)) (h : s1.flatten = s2.flatten) :
    (batch E s1).sent = (batch E s2).sent ∧ (batchSync E s1).sent = (batchSync E s2).sent ∧
    (batch E s1).sent = (batchSync E s2).sent := by
  have a := entry_points_agree E s1
  have b := entry_points_agree E s2
  rw [h] at a
  exact ⟨a.1.trans b.1.symm, a.2.2.1.trans b.2.2.1.symm, a.1.trans b.2.2.1.symm⟩

/-- the rename skipping of the synchronous path is unobservable: skipping the rename (and the queueing)
of outputs nobody consumes changes neither the channel output nor any stream state -/
theorem sync_rename_skipping_unobservable (E : Eng) (evs : List Ev) :
    (processSeq true E evs).eng = (processSeq false E evs).eng ∧
    (processSeq true E evs).sent = (processSeq false E evs).sent := processSeq_sync_async evs E

/-- non-vacuity: join, derived chain, a stream without emit and a `.process` stream in one program;
the output is non-trivial and the same on all paths for the split `[[a,b],[a]]` -/
example :
    let P := [joinStream 10 [0, 1], emitStream 11 [10], passStream 12 [0], processStream 13 [12] 20]
    let evs : List Ev := [⟨0, 1⟩, ⟨1, 2⟩, ⟨0, 3⟩]
    (perEvent (load P) evs).sent = [⟨13, 1⟩, ⟨10, 2⟩, ⟨11, 2⟩, ⟨10, 3⟩, ⟨11, 3⟩, ⟨13, 3⟩] ∧
    (batchSync (load P) [[⟨0, 1⟩, ⟨1, 2⟩], [⟨0, 3⟩]]).sent = (perEvent (load P) evs).sent := by decide

end Varpulis.Props.C16
