import Varpulis.Lemmas.Watermark
/-!
# C24 — watermarks never regress per source; late data is handled as configured

Statements over the model `Varpulis.Watermark` (Model/Watermark.lean), which mirrors
`PerSourceWatermarkTracker` (`watermark.rs`: `register_source`, `observe_event`,
`advance_source_watermark`, `recompute_effective`) and the late-data gate of
`Engine::process_inner`. `wmOf t n` is the watermark of source `n` (`none` = no watermark yet,
ordered below every watermark by `wmLe`). `FreshRun t ops` says that no `register_source` of the
history names a source that is already known (the engine registers sources once, at `load`);
re-registration is the one API call that resets a watermark, see `reregistration_resets`.
-/
namespace Varpulis.Props.C24
open Varpulis.Watermark

/-- One step: no operation (registration of a new source, observation of an event of any known or
unknown source with any timestamp, external advance) lowers the watermark of any source. -/
theorem source_watermark_never_decreases_step (t : Tracker) (op : Op) (hf : Fresh t op) (n : Nat) :
    wmLe (wmOf t n) (wmOf (step t op) n) := step_mono t op hf n

/-- Any history, any two points of it: the watermark of every source after `pre ++ post` is at
least its watermark after `pre` (arbitrary interleaving of sources, arbitrary disorder of
timestamps, arbitrary out-of-orderness bounds). -/
theorem source_watermark_never_decreases (t : Tracker) (pre post : List Op)
    (hf : FreshRun t (pre ++ post)) (n : Nat) :
    wmLe (wmOf (run t pre) n) (wmOf (run t (pre ++ post)) n) := by
  rw [run_append]
  exact run_mono post _ (freshRun_append pre post t hf).2 n

/-- After any history from the empty tracker the effective watermark is the minimum over the
sources that have a watermark: it is the watermark of some source, no source's watermark is below
it, and it is `None` exactly when no source has a watermark. -/
theorem effective_is_min_over_sources_with_watermark (ops : List Op) (hf : FreshRun Tracker.new ops) :
    (∀ m, (run Tracker.new ops).eff = some m →
        (∃ s ∈ (run Tracker.new ops).sources, s.wm = some m)
        ∧ ∀ s ∈ (run Tracker.new ops).sources, ∀ w, s.wm = some w → m ≤ w)
    ∧ ((run Tracker.new ops).eff = none → ∀ s ∈ (run Tracker.new ops).sources, s.wm = none) := by
  have h := (run_wf ops Tracker.new hf wf_new).1
  rw [h]
  exact minWm_spec _

/-- The gate lets an event through unless: there is an effective watermark `w`, the event's
timestamp is below it, some late-data configuration exists, and for *every* consuming stream that
has a configuration the timestamp is below `w − allowed_lateness` (both directions). -/
theorem gate_late_iff (eff : Option Int) (cfgs : List (Nat × Cfg)) (routes : List Nat) (ts : Int) :
    gate eff cfgs routes ts ≠ .pass ↔
      ∃ w, eff = some w ∧ ts < w ∧ cfgs ≠ [] ∧
        ∀ sn ∈ routes, ∀ c, cfgs.lookup sn = some c → ts < w - c.lateness :=
  gate_not_pass_iff eff cfgs routes ts

/-- A late event is either dropped (no consuming stream has a side output) or diverted to the side
output of a consuming stream's configuration — never anything else. -/
theorem gate_outcomes (eff : Option Int) (cfgs : List (Nat × Cfg)) (routes : List Nat) (ts : Int) :
    gate eff cfgs routes ts = .pass
    ∨ (gate eff cfgs routes ts = .drop ∧ firstSide cfgs routes = none)
    ∨ (∃ s, gate eff cfgs routes ts = .divert s ∧
        ∃ sn ∈ routes, ∃ c, cfgs.lookup sn = some c ∧ c.side = some s) := by
  rcases gate_cases eff cfgs routes ts with h | h | ⟨s, h1, h2⟩
  · exact Or.inl h
  · exact Or.inr (Or.inl h)
  · exact Or.inr (Or.inr ⟨s, h1, firstSide_some cfgs routes s h2⟩)

/-- Engine level, any event sequence: whenever `process_inner` drops or diverts an event, the
tracker's effective watermark at that moment is the minimum `w` over the sources that have a
watermark, a late-data configuration exists, and the event is below `w − allowed_lateness` for every
consuming stream with a configuration (in particular below `w`). -/
theorem engine_drops_only_late (e : Eng) (he : EngWF e) (evs : List (Nat × Int)) :
    ∀ x ∈ runEng e evs, x.2.2 ≠ .pass →
      ∃ t w, x.1.tracker = some t ∧ minWm t.sources = some w ∧ x.2.1.2 < w ∧ x.1.cfgs ≠ []
        ∧ ∀ sn ∈ x.1.routesOf x.2.1.1, ∀ c, x.1.cfgs.lookup sn = some c → x.2.1.2 < w - c.lateness :=
  runEng_late evs e he

/-- Engine level, any event sequence (passed, dropped and diverted events interleaved over any
number of event types): at every later point of the run every source's watermark is at least
what it was at the start — `process_inner` never lowers a source's watermark. -/
theorem engine_source_watermarks_never_decrease (e : Eng) (evs : List (Nat × Int)) (n : Nat) :
    ∀ x ∈ runEng e evs, wmLe (engWmOf e n) (engWmOf x.1 n) := runEng_mono evs e n

/-- A dropped/diverted event is not observed (the tracker is unchanged); a passed event is observed
under its event type. -/
theorem engine_observes_exactly_passed (e : Eng) (et : Nat) (ts : Int) :
    ((process e et ts).2 = .pass ∧
        (process e et ts).1 = { e with tracker := e.tracker.map (fun t => observe t et ts) })
    ∨ ((process e et ts).2 ≠ .pass ∧ (process e et ts).1 = e) := by
  rcases process_cases e et ts with h | ⟨h1, h2, _⟩
  · exact Or.inl h
  · exact Or.inr ⟨h1, h2⟩

/-- Observation (outside the property's quantifier, which ranges over event sequences and
configurations): `register_source` on a known source replaces its entry, so that source's watermark
goes back to `None` while the stored effective watermark stays. -/
theorem reregistration_resets :
    let t := run Tracker.new [.register 1 0, .observe 1 100]
    wmOf t 1 = some 100 ∧ wmOf (step t (.register 1 0)) 1 = none ∧ (step t (.register 1 0)).eff = some 100 := by
  decide

/-- non-vacuity: a two-source history with disorder satisfies the premises, the slower source
holds the effective watermark back, and a late event is dropped while an allowed one passes -/
example :
    let ops := [Op.register 1 2, .register 2 0, .observe 1 10, .observe 2 7, .observe 1 5, .observe 3 20]
    FreshRun Tracker.new ops ∧ (run Tracker.new ops).eff = some 7 ∧ wmOf (run Tracker.new ops) 1 = some 8
    ∧ gate (some 7) [(0, ⟨2, none⟩)] [0] 4 = .drop ∧ gate (some 7) [(0, ⟨2, none⟩)] [0] 5 = .pass := by
  decide

end Varpulis.Props.C24
