import Varpulis.Model.Expand
/-! # C42 — declaration for-loops expand to the hand-written copies (work in progress) -/
namespace Varpulis.Props.C42
open Varpulis.Expand

theorem passes_zero (b : Nat) (r : Text) : passes 0 b r = .ok r := rfl

end Varpulis.Props.C42
