import Varpulis.Lemmas.Expand
/-!
# C42 — declaration for-loops expand to the same program as writing the copies by hand

Model: `Model/Expand.lean` mirrors `expand.rs` (`expand_declaration_loops`, `expand_one_pass`,
`parse_for_range`, `is_declaration_for`, the limits `MAX_LOOP_ITERATIONS`, `MAX_EXPANSION_PASSES`,
`MAX_EXPANDED_LINES`) on text (`List Char`); C41 proves that the index-based mirror of the Rust loops
computes this list-recursive model.

A *loop program* (`Block`) is a list of declarations (a first line starting with a visible character,
then any further lines, e.g. indented `.where(…)` continuation lines) and `for v in s..e:` /
`for v in s..=e:` blocks with nested bodies. `renderList unit 0 bs` is its text with `unit` spaces of
indentation per nesting level; `handList [] bs` are the copies written by hand: every body once per
value, in order, `{v}` of the enclosing loops replaced, outermost loop first (nested loops = nested
substitution).

**Tied to the parser by the check**: the AST of `parse(loop program)` equals the AST of
`parse(hand-expanded program)` on generated programs (the pest grammar is not modelled).
-/
namespace Varpulis.Props.C42
open Varpulis.Expand

/-- **Full statement.** For every well-formed loop program — declaration lines without line breaks,
not blank and not starting with `for `; loop variables identifiers; ranges representable and at most
`MAX_LOOP_ITERATIONS` long; nesting depth below `MAX_EXPANSION_PASSES`; total expansion within
`MAX_EXPANDED_LINES`; any indentation unit ≥ 1; any range (also empty and negative), any depth, loop
variables may shadow each other — the expander returns exactly the text of the hand-written copies. -/
theorem expand_eq_hand_expansion (unit : Nat) (bs : List Block) (h : wellFormed unit bs = true) :
    expand (joinLines (renderList unit 0 bs)) = .ok (joinLines (handList [] bs)) :=
  expand_eq_hand unit bs h

/-- one pass does one level of unrolling of the structure (and accounts its lines to the budget) -/
theorem one_pass_unrolls_one_level (unit : Nat) (hu : 0 < unit) (bs : List Block) (b : Nat)
    (hs : synList bs = true) (hc : cost1 bs ≤ b) :
    onePass b (renderList unit 0 bs) = .ok (renderList unit 0 (unroll1 bs), b - cost1 bs) :=
  onePass_rendered unit hu bs b hs hc

/-- a pass over a program that still contains a loop changes the text (so the pass loop goes on) -/
theorem pass_makes_progress (unit : Nat) (hu : 0 < unit) (bs : List Block) (hs : synList bs = true)
    (hd : 1 ≤ depthList bs) : renderList unit 0 bs ≠ renderList unit 0 (unroll1 bs) :=
  render_progress unit hu bs hs hd

/-- a loop header is read back as its variable and its (exclusive) range, for both spellings -/
theorem header_recognised (v : Text) (s e : Int) (incl : Bool) (hv : varOk v = true) (hs : inI64 s = true)
    (he : inI64 e = true) (hi : incl = true → inI64 (e - 1) = true) :
    loopHeader (headerText v s e incl) = some (v, s, e) :=
  loopHeader_headerText v s e incl hv hs he hi

/-- the hand expansion does not depend on the order of unrolling: unrolling the outermost loops first
(what the passes do) yields the same copies -/
theorem hand_expansion_stable_under_unrolling (bs : List Block) : handList [] (unroll1 bs) = handList [] bs :=
  handList_unroll1 bs

/-- the budget condition of well-formedness in closed form: every loop instance costs its iterations
times (the lines of its body + what the loops inside one copy cost) -/
theorem expansion_cost_closed_form (bs : List Block) (h : depthList bs ≤ MAX_EXPANSION_PASSES) :
    cost bs = costL bs := costIter_eq_costL MAX_EXPANSION_PASSES bs h

/-- the limits the code declares **now** (regenerated into `Generated/ParserLimits.lean` on every run)
leave the programs of the property's quantifier inside the premise of the theorem: nesting depth 2,
ranges of length 6, bodies of up to 100 lines. Lowering a limit below that breaks this obligation. -/
theorem limits_cover_the_quantified_programs :
    2 < MAX_EXPANSION_PASSES ∧ (6 : Int) ≤ MAX_LOOP_ITERATIONS ∧ 6 * (100 + 6 * 100) ≤ MAX_EXPANDED_LINES := by
  decide

/-- the extended specification that the check also judges against (range bounds may be placeholders
of enclosing loops, "triangular" nests) is the same text and the same hand expansion on the programs
of the theorem above -/
theorem extended_specification_agrees (unit : Nat) (bs : List Block) (env : List (Text × Int)) :
    xrenderList unit 0 (Block.toXList bs) = renderList unit 0 bs ∧
    xhandList env (Block.toXList bs) = handList env bs ∧
    XBlock.toBlockList? (Block.toXList bs) = some bs :=
  ⟨xrenderList_toX unit 0 bs, xhandList_toX bs env, toBlockList_toX bs⟩

/-! Non-vacuity: the premise holds for the documented shape (DESIGN.md, Appendix A) and for a nested
program with a continuation line, an inclusive range, a negative start and a shadowed variable. -/

example : wellFormed 4 demo1 = true := by decide +kernel
example : wellFormed 2 demo2 = true := by decide +kernel

example : joinLines (handList [] demo1) =
    ("stream S0 = T .where(x == 0) .emit(v: x)\n" ++ "stream S1 = T .where(x == 1) .emit(v: x)\n" ++
     "stream S2 = T .where(x == 2) .emit(v: x)\n").toList := by decide +kernel

end Varpulis.Props.C42
