import Varpulis.Lemmas.Expr
/-!
# C11 — evaluating any expression on any event never panics

Model: `Model/Expr.lean`, `eval` = `eval_expr_with_functions` (and `eval_filter_expr`, the same
function with empty bindings) over the whole `Expr` type, every `Value` (integer extremes, NaN,
±∞, empty strings, nested arrays/maps) and every float arithmetic `fo`.
Outcomes are `Res.val v | .none | .panic | .diverge`. The operations that panic in Rust are
explicit in the model: slice indexing `xs[s..e]` (`sliceP`), `arr[i] = v` (`setP`), division and
remainder by zero (`idiv`, `irem`), and — in `Mode.old`, the unchanged tree under the debug
profile — checked `+ - *`, unary minus, `abs`, `MIN / -1`, `MIN % -1`, and the self-recursive
catch-all arm (`.diverge`). `Mode.fixed` is the repaired tree. `Res.safe r` means `r` is neither
`.panic` nor `.diverge`.
Outside the model: user-defined functions, the built-ins in `unmodelledBuiltins` (probed by the
harness only), range sizes (excluded by the property).
-/
namespace Varpulis.Props.C11
open Varpulis.Expr

/-- Evaluation of any expression on any event returns a value or no value: it neither panics nor
recurses without bound. -/
theorem eval_never_panics (fo : FOps) (env : Env) (e : Expr) :
    eval fo .fixed env e ≠ .panic ∧ eval fo .fixed env e ≠ .diverge := by
  have h := eval_safe fo env e
  constructor <;> intro hc <;> rw [hc] at h <;> exact h

/-- hence a `.where` / `.having` filter always decides (keeps or drops the event) -/
theorem filter_always_decides (fo : FOps) (env : Env) (e : Expr) :
    ∃ b : Bool, keeps (eval fo .fixed env e) = b ∧ (eval fo .fixed env e).safe :=
  ⟨_, rfl, eval_safe fo env e⟩

/-- every element of an array / argument list / map literal is evaluated without failure -/
theorem args_never_panic (fo : FOps) (env : Env) (es : List Expr) :
    ∀ r ∈ evalAll fo .fixed env es, r ≠ .panic ∧ r ≠ .diverge := by
  intro r hr
  have h := evalAll_safe fo env es r hr
  constructor <;> intro hc <;> rw [hc] at h <;> exact h

/-- every modelled built-in is total on every argument list -/
theorem builtins_never_panic (fo : FOps) (name : String) (args : List Value) :
    builtin fo .fixed name args ≠ .panic := by
  have h := builtin_safe fo name args
  intro hc; rw [hc] at h; exact h

/-- `.pattern` lambdas (`eval_pattern_expr`: lambdas, blocks, array methods `filter/map/flatten/
sliding_pairs/…`, aggregates, member access, comparisons) never panic either, for every binding
of the pattern variables -/
theorem pattern_expr_never_panics (fo : FOps) (vars : List (String × Value)) (e : Expr) :
    evalPat fo .fixed vars e ≠ .panic ∧ evalPat fo .fixed vars e ≠ .diverge := by
  have h := evalPat_safe fo e vars
  constructor <;> intro hc <;> rw [hc] at h <;> exact h

/-- `slice::sort_by` may panic when its comparator is not a total order. The comparator of `sort`
(after the repair; `f64::total_cmp` for floats, kind rank across kinds) is one: antisymmetric and
transitive on all values, NaN of either sign, ±0.0 and mixed kinds included. -/
theorem sort_comparator_is_total_preorder :
    (∀ a b : Value, sortCmp b a = Ordering.rev (sortCmp a b)) ∧
      (∀ a b c : Value, sortCmp a b ≠ .gt → sortCmp b c ≠ .gt → sortCmp a c ≠ .gt) :=
  ⟨sortCmp_rev, fun _ _ _ h1 h2 => sortCmp_trans h1 h2⟩

/-- the pattern-expression operator evaluation (`eval_binary_op`) is total as well -/
theorem pattern_binop_never_panics (op : BinOp) (l r : Value) :
    patternBinop .fixed op l r ≠ .panic ∧ patternBinop .fixed op l r ≠ .diverge := by
  have h := patternBinop_safe op l r
  constructor <;> intro hc <;> rw [hc] at h <;> exact h

/-! ### the defects of the unchanged tree, exhibited by the same model in `Mode.old` -/

def evMax : Env := { etype := "E", fields := [("x", .int 9223372036854775807)] }
def evMin : Env := { etype := "E", fields := [("x", .int (-9223372036854775808))] }

/-- `x + 1` at `i64::MAX` panicked (debug profile); it wraps now, as the constant folder does -/
theorem old_add_overflow_panics (fo : FOps) :
    eval fo .old evMax (.bin .add (.ident "x") (.int 1)) = .panic ∧
      eval fo .fixed evMax (.bin .add (.ident "x") (.int 1)) = .val (.int (-9223372036854775808)) := by
  constructor <;> simp [eval, evMax, Res.ofOption, Res.bind, binop, iadd, inI64] <;> decide

/-- `MIN / -1` and `MIN % -1` panicked in every profile -/
theorem old_min_div_neg_one_panics (fo : FOps) :
    eval fo .old evMin (.bin .div (.ident "x") (.int (-1))) = .panic ∧
      eval fo .old evMin (.bin .mod (.ident "x") (.int (-1))) = .panic ∧
      eval fo .fixed evMin (.bin .div (.ident "x") (.int (-1))) = .val (.int (-9223372036854775808)) ∧
      eval fo .fixed evMin (.bin .mod (.ident "x") (.int (-1))) = .val (.int 0) := by
  refine ⟨?_, ?_, ?_, ?_⟩ <;>
    simp [eval, evMin, Res.ofOption, Res.bind, binop, idiv, irem] <;> decide

/-- `-x` and `abs(x)` at `i64::MIN` panicked (debug profile) -/
theorem old_neg_abs_min_panic (fo : FOps) :
    eval fo .old evMin (.un .neg (.ident "x")) = .panic ∧
      eval fo .old evMin (.call (.ident "abs") [.ident "x"]) = .panic ∧
      eval fo .fixed evMin (.call (.ident "abs") [.ident "x"]) = .val (.int (-9223372036854775808)) := by
  refine ⟨?_, ?_, ?_⟩ <;>
    simp [eval, evalAll, collect, evMin, Res.ofOption, Res.bind, unop, ineg, builtin,
      builtinTable, bAbs, iabs] <;> decide

/-- `x?.y`, `@timestamp` literals, lambdas and blocks sent the evaluator into unbounded recursion
(the process aborted with a stack overflow); they have no value now -/
theorem old_catch_all_diverges (fo : FOps) (env : Env) (e : Expr) (m : String) (n : Int64)
    (ps ns : List String) (vs : List Expr) :
    eval fo .old env (.optMember e m) = .diverge ∧ eval fo .old env (.ts n) = .diverge ∧
      eval fo .old env (.lambda ps e) = .diverge ∧ eval fo .old env (.block ns vs e) = .diverge ∧
      eval fo .fixed env (.optMember e m) = .none ∧ eval fo .fixed env (.ts n) = .none ∧
      eval fo .fixed env (.lambda ps e) = .none ∧ eval fo .fixed env (.block ns vs e) = .none := by
  simp [eval]

/-- non-vacuity: the panicking primitives are really there, and it is the evaluator's guards that
keep them from firing: `[1, 2][3:1]` is `[]`, `set([1], 5, 0)` is `[1]`, `substring("ab", 3)` has
no value, `1 / 0` has no value -/
example (fo : FOps) :
    sliceP [1, 2] 3 1 = none ∧ idiv .fixed 1 0 = .panic ∧ setP [.int 1] 5 (.int 0) = .panic ∧
      eval fo .fixed evMax (.bin .div (.int 1) (.int 0)) = .none ∧
      bSet [.arr [.int 1], .int 5, .int 0] = .val (.arr [.int 1]) ∧
      bSubstring [.str "ab", .int 3] = .none := by
  have h5 : asUsize 5 = 5 := by decide
  have h3 : asUsize 3 = 3 := by decide
  have hb : "ab".utf8ByteSize = 2 := by decide
  refine ⟨by decide, by simp [idiv], by simp [setP], ?_, ?_, ?_⟩
  · simp [eval, Res.bind, binop]
  · simp [bSet, h5]
  · simp [bSubstring, substrCore, h3, hb]

end Varpulis.Props.C11
