import Varpulis.Lemmas.Agg
/-!
# C14 — aggregates equal their mathematical definitions on every execution path

Statements over the model `Varpulis.Agg` (Model/Agg.lean): `apply f p vs` is the result of
aggregate `f` on path `p` (`row` = `AggregateFunc::apply`, `shared` = `apply_refs`/`apply_shared`,
`columnar` = `apply_columnar`) over the field values `vs` of the window's events, in exact rational
arithmetic (IEEE rounding is trusted, not modelled), extended by `±∞` and NaN with the IEEE rules
(`∞ − ∞ = NaN`, `∞ · 0 = NaN`). `validX vs` are the numeric non-NaN values (`±∞` included), `valid vs` the
finite ones; `−0.0` is the number 0 except where it is handed through (`first`/`last`) or hashed
(`count_distinct`: same value as `0.0`).

Documented handling (docs/reference/windows-aggregations.md and the code comments): missing and
non-numeric values are skipped by every numeric aggregate; `sum`/`avg`/`min`/`max` also skip NaN;
`avg`/`min`/`max` are `null` without a valid value, `stddev` is `null` with fewer than 2 values.
The documentation is silent about NaN in `stddev` and `ema`: the code does not filter it there, so
a NaN input yields a NaN result (`stddev_nan`, `ema_nan`), and so does an infinite input to `stddev`
(`stddev_inf`: `delta2 = ∞ − ∞`) — on all three paths alike. This is IEEE
propagation, contradicts no documented behaviour and is therefore stated as a theorem, not listed
as a finding.
-/
namespace Varpulis.Props.C14
open Varpulis.Agg

/-- The row-based, shared-event and columnar paths return the same result: every function, every
batch (any length, any mix of missing / non-numeric / NaN / ±∞ / −0.0 / int / float values). -/
theorem paths_agree (f : Func) (vs : List Val) :
    apply f .row vs = apply f .shared vs ∧ apply f .shared vs = apply f .columnar vs := by
  cases f <;> simp [apply, validFill_eq, validRefs_eq]

/-- The 4-way unrolled scalar sum and the lane-wise AVX2 sum both equal the plain (extended-real)
sum, for every length and also with `±∞` among the values (a NaN result included); lane-wise
`_mm256_min_pd`/`max_pd` + horizontal reduction equal the sequential scalar loops. -/
theorem unrolled_and_lanewise_equal_plain (l : List X) :
    sumScalar l = sumX l ∧ sumAvx2 l = sumX l ∧ minAvx2 l = minScalar l ∧ maxAvx2 l = maxScalar l :=
  ⟨sumScalar_eq l, sumAvx2_eq l, minAvx2_eq l, maxAvx2_eq l⟩

theorem count_spec (p : Path) (vs : List Val) : apply .count p vs = .int vs.length := by
  cases p <;> rfl

/-- `sum` = the extended-real Σ of the valid (non-NaN) values: NaN iff `+∞` and `−∞` both occur -/
theorem sum_spec (p : Path) (vs : List Val) : apply .sum p vs = .flt (sumX (validX vs)) := by
  cases p <;> simp [apply, validFill_eq, validRefs_eq, sumAvx2_eq]

/-- without `±∞`/NaN inputs: `sum` = Σ of the valid values (0 when there is none) -/
theorem sum_spec_finite (p : Path) (vs : List Val) (h : finiteOnly vs) :
    apply .sum p vs = .flt (.num (sum (valid vs))) := by
  rw [sum_spec, validX_of_finite vs h, sumX_num]

/-- `avg` = Σ/n over the valid values (IEEE division), `null` when there is none -/
theorem avg_spec (p : Path) (vs : List Val) :
    apply .avg p vs =
      if validX vs = [] then .null else .flt (sumX (validX vs) / F.num ((validX vs).length : Nat)) := by
  cases p <;> simp [apply, avgOf, validFill_eq, validRefs_eq, sumAvx2_eq]

theorem avg_spec_finite (p : Path) (vs : List Val) (h : finiteOnly vs) :
    apply .avg p vs =
      if valid vs = [] then .null else .flt (.num (sum (valid vs) / ((valid vs).length : Nat))) := by
  rw [avg_spec, validX_of_finite vs h, sumX_num]
  simp

/-- `min` = a valid value that no valid value is below (`−∞ < q < +∞`), `null` when there is none -/
theorem min_spec (p : Path) (vs : List Val) :
    (validX vs = [] → apply .min p vs = .null) ∧
    (validX vs ≠ [] → ∃ m ∈ validX vs, apply .min p vs = .flt m.toF ∧ ∀ x ∈ validX vs, X.lt x m = false) := by
  constructor
  · intro h; cases p <;> simp [apply, minOf, validFill_eq, validRefs_eq, h]
  · intro h
    obtain ⟨hmem, hle⟩ := minScalar_spec (validX vs) h
    refine ⟨minScalar (validX vs), hmem, ?_, hle⟩
    cases p <;> simp [apply, minOf, validFill_eq, validRefs_eq, h, minAvx2_eq]

/-- `max` = a valid value that no valid value is above, `null` when there is none -/
theorem max_spec (p : Path) (vs : List Val) :
    (validX vs = [] → apply .max p vs = .null) ∧
    (validX vs ≠ [] → ∃ m ∈ validX vs, apply .max p vs = .flt m.toF ∧ ∀ x ∈ validX vs, X.lt m x = false) := by
  constructor
  · intro h; cases p <;> simp [apply, maxOf, validFill_eq, validRefs_eq, h]
  · intro h
    obtain ⟨hmem, hle⟩ := maxScalar_spec (validX vs) h
    refine ⟨maxScalar (validX vs), hmem, ?_, hle⟩
    cases p <;> simp [apply, maxOf, validFill_eq, validRefs_eq, h, maxAvx2_eq]

/-- `first` / `last` = the field of the first / last event of the window (`null` if the window is
empty or that event lacks the field) -/
theorem first_last_spec (p : Path) (vs : List Val) :
    apply .first p vs = pickVal vs.head? ∧ apply .last p vs = pickVal vs.getLast? := by
  cases p <;> exact ⟨rfl, rfl⟩

/-- `count_distinct` = the number of distinct values of the field among the events that have it
(`−0.0` and `0.0` count as one value, as `Value`'s equality says) -/
theorem count_distinct_spec (p : Path) (vs : List Val) :
    ∃ l : List Val, l.Nodup ∧ (∀ v, v ∈ l ↔ (v ∈ vs.map Val.key ∧ v ≠ .missing)) ∧
      apply .countDistinct p vs = .int l.length := by
  obtain ⟨h1, _, h3⟩ := distinct_fold (vs.map Val.key) [] List.nodup_nil (by simp)
  refine ⟨distinctSeen vs, h1, ?_, by cases p <;> rfl⟩
  intro v
  have := h3 v
  simpa [distinctSeen] using this

/-- `stddev` on finite input (no NaN, no ±∞): `null` with fewer than 2 numeric values, otherwise the Welford
loop's `m2/(n−1)` is exactly the sample variance `Σ(x−mean)²/(n−1)` (the code returns its square
root). -/
theorem stddev_spec (p : Path) (vs : List Val) (h : finiteOnly vs) :
    apply .stddev p vs =
      if (valid vs).length < 2 then .null else .flt (.num (sampleVar (valid vs))) := by
  have hp : apply .stddev p vs = stddevVar vs := by cases p <;> rfl
  rw [hp]
  unfold stddevVar
  simp only
  rw [floats_of_finite vs h, welford_num]
  by_cases hl : (valid vs).length < 2
  · simp [wState, hl]
  · have h2 : 2 ≤ (valid vs).length := by omega
    simp only [wState, hl, if_false, F.num_div]
    rw [wState_variance _ h2]

/-- the variance whose square root `stddev` returns is never negative -/
theorem stddev_variance_nonneg (l : List Rat) : 0 ≤ sampleVar l := sampleVar_nonneg l

/-- `stddev` does not filter NaN: with a NaN among at least two numeric values the result is NaN
(with fewer than two numeric values it is `null`), on every path. -/
theorem stddev_nan (p : Path) (vs : List Val) (h : Val.nan ∈ vs) :
    apply .stddev p vs = if (numeric vs).length < 2 then .null else .flt .nan := by
  have hp : apply .stddev p vs = stddevVar vs := by cases p <;> rfl
  rw [hp]
  unfold stddevVar numeric
  simp only
  have hn : (welford (floats vs)).n = (floats vs).length := by
    simp [welford, welford_n]
  have hm : (welford (floats vs)).m2 = .nan := welford_nan _ _ (nan_mem_floats vs h)
  rw [hn, hm]
  simp

/-- `stddev` with an infinite input: `delta2 = ∞ − ∞` makes `m2` NaN, so the result is NaN (null below
two numeric values), on every path. -/
theorem stddev_inf (p : Path) (vs : List Val) (s : Bool) (h : Val.inf s ∈ vs) :
    apply .stddev p vs = if (numeric vs).length < 2 then .null else .flt .nan := by
  have hp : apply .stddev p vs = stddevVar vs := by cases p <;> rfl
  rw [hp]
  unfold stddevVar numeric
  simp only
  have hn : (welford (floats vs)).n = (floats vs).length := by
    simp [welford, welford_n]
  have hm : (welford (floats vs)).m2 = .nan := welford_inf _ _ s (inf_mem_floats vs s h)
  rw [hn, hm]
  simp

/-- `ema(period)` on finite input (no NaN, no ±∞) is the closed form of its recurrence with `k = 2/(period+1)`:
`(1−k)^(n−1)·x₁ + Σ_{i≥2} k·(1−k)^(n−i)·xᵢ`; `null` without a numeric value. -/
theorem ema_spec (p : Path) (period : Nat) (vs : List Val) (h : finiteOnly vs) :
    apply (.ema period) p vs =
      match emaClosed (emaK period) (valid vs) with
      | some q => .flt (.num q)
      | none => .null := by
  have hp : apply (.ema period) p vs = emaOf period vs := by cases p <;> rfl
  rw [hp]
  unfold emaOf
  rw [floats_of_finite vs h, ema_num]
  cases emaClosed (emaK period) (valid vs) <;> rfl

/-- `ema` does not filter NaN either: a NaN input makes the result NaN. -/
theorem ema_nan (p : Path) (period : Nat) (vs : List Val) (h : Val.nan ∈ vs) :
    apply (.ema period) p vs = .flt .nan := by
  have hp : apply (.ema period) p vs = emaOf period vs := by cases p <;> rfl
  rw [hp]
  unfold emaOf
  rw [Varpulis.Agg.ema_nan _ _ _ (nan_mem_floats vs h)]

/-- non-vacuity: a finite batch with missing, non-numeric, −0.0 and numeric values meets the
premises; batches with NaN / ±∞ meet those of the NaN and ∞ theorems -/
example :
    let vs : List Val := [.int 1, .missing, .nonNum 3, .int 6, .nonNum 3, .negZero, .int 1]
    finiteOnly vs ∧ valid vs = [((1 : Int) : Rat), ((6 : Int) : Rat), 0, ((1 : Int) : Rat)]
    ∧ apply .count .row vs = .int 7 ∧ apply .countDistinct .shared vs = .int 4
    ∧ apply .first .columnar vs = .val (.int 1) ∧ apply .last .row [Val.int 1, .negZero] = .val .negZero
    ∧ Val.nan ∈ [Val.int 1, .nan, .int 2] ∧ (numeric [Val.int 1, .nan, .int 2]).length = 3 := by
  refine ⟨⟨by decide, by decide⟩, rfl, rfl, by decide, rfl, rfl, by decide, rfl⟩

/-- computed instances with infinities: `+∞ + −∞` is NaN on every summation shape, one kind of `∞`
wins over finite values, and `min`/`max` order `−∞ < q < +∞` -/
example :
    sumX [.inf false, .num 1, .inf true] = .nan ∧ sumAvx2 [.inf false, .num 1, .inf true, .num 2, .num 3] = .nan
    ∧ sumScalar [.num 1, .inf true, .num 2, .num 3, .num 4] = .inf true
    ∧ minAvx2 [.num 1, .inf true, .num 2, .inf false, .num 0] = .inf true
    ∧ maxScalar [.inf true, .inf true] = .inf true := by
  refine ⟨rfl, rfl, rfl, ?_, ?_⟩ <;> decide

/-- a computed instance: Σ and sample variance of 1, 2, 3, 6 -/
example : sum [1, 2, 3, 6] = 12 ∧ sampleVar [1, 2, 3, 6] = 14 / 3 := by
  simp [sum, sampleVar]; grind

end Varpulis.Props.C14
