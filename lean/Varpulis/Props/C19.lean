import Varpulis.Lemmas.CkptJoin
/-!
# C19 — checkpoint and restore are invisible in the output

Statements over `Varpulis.Ckpt` (Model/Ckpt.lean, part 2): every stateful component of the engine
as a state, its step function, its `checkpoint()` and its `restore()` into the freshly loaded
component, field by field as in `window.rs`, `sase.rs`, `join.rs`, `watermark.rs`,
`engine/mod.rs`; the checkpoint travels through the JSON codec of C20 (`decX (wire (encX _))`).
"Invisible" = for **all** continuations the outputs are equal (`runOps`), which follows from
`restore (decode (encode (checkpoint s))) = s`.

Three losses are **not** repaired and appear as explicit guards (`…_partial`) with
`…_counterexample` theorems for the excluded cases:
* `C20-submillisecond-event-timestamps`: every buffered event comes back with its timestamp cut to
  the millisecond (and the plain time windows their start / last-emit time) — guard `Event.whole`;
* `C19-sliding-count-counter-reset`: a plain sliding count window comes back with its slide
  counter at 0 — guard `since = 0` (the partitioned form keeps the counter);
* `C19-kleene-deferred`: a run with a deferred Kleene predicate — guard `Run.Restorable`.
Under the guards: all ten window operators with their real step functions, the join buffer,
distinct, limit, variables, watermarks, composed into the engine-level statement (structural
invariants of hash maps and heaps are premises; they hold of every reachable state).
-/
namespace Varpulis.Props.C19
open Varpulis.Ckpt Varpulis.Ckpt.Witness Varpulis.Join

/-! ## windows: all ten operators, every continuation

Full-strength statement (false, see the two counterexamples):
`∀ w, (decWC (wire (encWC w.ckpt))).map (WinSt.restore w.fresh) = some w`. -/

/-- guarded: a window checkpoint survives the codec, and restoring it into the freshly loaded
operator gives the checkpointed state back, provided no event in it has a sub-millisecond timestamp
and — plain sliding count window only — the slide counter is 0 -/
theorem window_restore_partial (w : WinSt) (h : w.Restorable = true) :
    (decWC (wire (encWC w.ckpt))).map (WinSt.restore w.fresh) = some w := by
  rw [wire_clean _ (clean_encWC _), decWC_encWC]; simp [winSt_rt w h]

/-- C19 for the window operator of a stream under that guard — tumbling, sliding, count, sliding
count, session and the five partitioned forms; events and watermark advances; any configuration,
any partition-key function: the interrupted run emits exactly what the uninterrupted one emits,
for every continuation `ops` -/
theorem window_obs_equiv_partial (c : WinCfg) (pk : Event → String) (w : WinSt) (h : w.Restorable = true)
    (ops : List WinOp) :
    (decWC (wire (encWC w.ckpt))).map (fun cp => runOps (WinSt.step c pk) (WinSt.restore w.fresh cp) ops)
      = some (runOps (WinSt.step c pk) w ops) := by
  have h' := window_restore_partial w h
  cases hd : decWC (wire (encWC w.ckpt)) with
  | none => simp [hd] at h'
  | some cp => simp only [hd, Option.map_some, Option.some.injEq] at h' ⊢; rw [h']

/-- the partitioned sliding count window needs no guard on its counter: it is checkpointed
(`PartitionedWindowCheckpoint::events_since_emit`) -/
theorem partitioned_sliding_count_keeps_counter (w : SlidingCountSt) (h : w.buf.all Event.whole = true) :
    (decPWC (wire (encPWC (slidingCountPwc w)))).map slidingCountOfPwc = some w := by
  rw [wire_clean _ (clean_encPWC _), decPWC_encPWC]; simp [slidingCount_prt w h]

/-- **counterexample** (finding `C19-sliding-count-counter-reset`): window(3, sliding: 2) holding
two events, one of them counted since the last emission. The third event fills the window and is
emitted by the uninterrupted window; the restored one has its counter at 0 and stays silent.
(`window_coverage_tests::sliding_count_window_checkpoint_restore_resets_events_since_emit` pins
this behaviour.) -/
theorem sliding_count_counter_counterexample :
    let w : SlidingCountSt := { buf := [ev 0, ev 1], since := 1 }
    (WinSt.slidingCount w).Restorable = false ∧
    ((w.add 3 2 (ev 2)).2).isSome = true ∧
    (((SlidingCountSt.restore w.ckpt).add 3 2 (ev 2)).2).isSome = false := by
  simp [WinSt.Restorable, SlidingCountSt.Whole, SlidingCountSt.add, SlidingCountSt.restore, SlidingCountSt.ckpt, emptyWC, ev]

/-- **counterexample** (finding `C20-submillisecond-event-timestamps`, window part): a 1 s tumbling
window opened at 1.5 ms; an event 999.8 ms later belongs to it, but `restore` has moved the start
to 1 ms and closes the window -/
theorem window_submillisecond_counterexample :
    let w : TumblingSt := { buf := [{ etype := "T", ts := 1500000, data := [] }], start := some 1500000 }
    let e : Event := { etype := "T", ts := 1001300000, data := [] }
    (WinSt.tumbling w).Restorable = false ∧
    ((w.add 1000000000 e).2).isSome = false ∧
    (((TumblingSt.restore w.ckpt).add 1000000000 e).2).isSome = true := by
  simp [WinSt.Restorable, TumblingSt.Whole, Event.whole, wholeTs, TumblingSt.add, TumblingSt.restore,
    TumblingSt.ckpt, emptyWC, msOf, ofMs]

/-! ## pattern runs (partial: see the counterexample below) -/

/-- a SASE engine state whose runs carry no pending negation, no deferred Kleene predicate and no
sub-millisecond event is restored equal up to the Kleene aliases, which nothing reads without a deferred predicate -/
theorem sase_restore_partial (s : SaseSt) (h : s.Restorable = true) :
    (decSase (wire (encSase s.ckpt))).map (fun c => (SaseSt.restore c).view) = some s.view := by
  rw [wire_clean _ (clean_encSase _), decSase_encSase]; simp [sase_view_rt s h]

/-- hence every continuation gives the same matches, for any step function that sees a run only
through `Run.view` (the NFA interpreter of `sase.rs` is not part of this model; this premise is
what the correspondence checks on the real engine) -/
theorem sase_obs_equiv_partial {ι ο} (step : SaseSt → ι → SaseSt × ο)
    (hstep : ∀ a b i, a.view = b.view → (step a i).2 = (step b i).2 ∧ (step a i).1.view = (step b i).1.view)
    (s : SaseSt) (h : s.Restorable = true) (ops : List ι) :
    runOps step (SaseSt.restore s.ckpt) ops = runOps step s ops := by
  have key : ∀ (ops : List ι) (a b : SaseSt), a.view = b.view → runOps step a ops = runOps step b ops := by
    intro ops
    induction ops with
    | nil => intros; rfl
    | cons i is ih =>
      intro a b hv
      simp only [runOps, List.cons.injEq]
      exact ⟨(hstep a b i hv).1, ih _ _ (hstep a b i hv).2⟩
  exact key ops _ _ (sase_view_rt s h)

/-! ## join buffer -/

/-- buffers, expiry queue and last GC time come back exactly (`WF`: a buffered pair carries its
event's own timestamp and the queue is a heap — invariants of `add_event`; `Whole`: no buffered
event with a sub-millisecond timestamp) -/
theorem join_restore_partial (c : JoinCfg) (windowNs : Int) (j : JoinSt) (h : j.WF) (hw : j.Whole) :
    (decJoin (wire (encJoin (j.ckpt c)))).map (JoinSt.restore windowNs) = some j := by
  rw [wire_clean _ (clean_encJoin _), decJoin_encJoin]; simp [join_rt c windowNs j h hw]

/-! ## join buffer, end to end over the C15 model of `add_event`

`Varpulis.Join` (agent a4, Model/Join.lean) mirrors `add_event` / `cleanup_expired` /
`try_correlate`. Over that state the two structural premises of `join_restore_partial` hold by
construction (an event carries its own timestamp; the expiry queue is a list whose order provably
does not matter), and the whole-millisecond guard is an invariant of `add_event`, so for states
*reached from the empty buffer* no premise about the state is left. -/

/-- checkpoint (queue listed in any order `qo` the heap iterates) then restore gives a state that
`add_event` cannot tell from the original: same vector per (source, key) **in arrival order**,
same pending expiries, same last GC time -/
theorem join_restore_equiv (s : Join.St) (qo : List (Int × Nat × Nat)) (hp : qo.Perm s.queue) (hw : JWhole s) :
    JEq (jrestore (jckpt s qo)) s := jrestore_jckpt s qo hp hw

/-- **C19 for joins, end to end**: after any history `hist` of `add_event` calls whose events carry
whole-millisecond timestamps, checkpointing and restoring the buffer is invisible: every
continuation `ops` (any timestamps, any arrival order, GC runs and cap evictions included) yields
the same joined outputs from the restored buffer as from the original one -/
theorem join_obs_equiv (c : Join.Cfg) (hist ops : List Arr) (hw : ∀ a ∈ hist, wholeTs a.ev.ts = true)
    (qo : List (Int × Nat × Nat)) (hp : qo.Perm (Join.run c St.init hist).queue) :
    jouts c (jrestore (jckpt (Join.run c St.init hist) qo)) ops = jouts c (Join.run c St.init hist) ops :=
  jouts_congr c ops _ _ (jrestore_jckpt _ qo hp (jwhole_run c hist St.init jwhole_init hw))

/-- **counterexample** without the guard (finding `C20-submillisecond-event-timestamps`): A@0.5 ms
is buffered; B@1000.3 ms joins it within the 1 s window — but not after a restore, which has moved
A to 0 ms, outside the cut-off 0.3 ms -/
theorem join_submillisecond_counterexample :
    let c : Join.Cfg := { sources := [0, 1], window := 1000000000, maxPerKey := 1000 }
    let s := Join.run c St.init [⟨0, 7, ⟨500000, 1⟩⟩]
    let b : Arr := ⟨1, 7, ⟨1000300000, 2⟩⟩
    jouts c s [b] = [some [(0, ⟨500000, 1⟩), (1, ⟨1000300000, 2⟩)]]
      ∧ jouts c (jrestore (jckpt s s.queue)) [b] = [none] := by
  decide

/-! ## watermark tracker, concrete -/

/-- the tracker comes back exactly — watermarks and maximum timestamps to the nanosecond (no
whole-millisecond premise: the repair `a716ea8` stores the remainders). `h0`: the sources the
program registers are among the tracker's (see `tracker_sources_stay`); `hi`: the engine records an
applied watermark as soon as there is an effective one -/
theorem tracker_restore (w : WmSt) (src0 : List (String × SrcWm))
    (h0 : ∀ kv ∈ src0, kv.1 ∈ w.sources.map (·.1)) (hi : w.lastApplied = none → w.effective = none) :
    (decWm (wire (encWm w.ckpt))).map (WmSt.restore src0) = some w := by
  rw [wire_clean _ (clean_encWm _), decWm_encWm]; simp [wm_restore_eq w src0 h0 hi]

/-- **C19 for the watermark tracker**: checkpoint → JSON → restore into the freshly loaded tracker
is invisible for every continuation of `observe_event` / `advance_source_watermark` operations:
the same effective watermark after every operation -/
theorem tracker_obs_equiv (w : WmSt) (src0 : List (String × SrcWm))
    (h0 : ∀ kv ∈ src0, kv.1 ∈ w.sources.map (·.1)) (hi : w.lastApplied = none → w.effective = none)
    (ops : List WmOp) :
    (decWm (wire (encWm w.ckpt))).map (fun c => runOps WmSt.step (WmSt.restore src0 c) ops)
      = some (runOps WmSt.step w ops) := by
  have h := tracker_restore w src0 h0 hi
  cases hd : decWm (wire (encWm w.ckpt)) with
  | none => simp [hd] at h
  | some c => simp only [hd, Option.map_some, Option.some.injEq] at h ⊢; rw [h]

/-- the premise `h0` holds of every tracker state reached from the freshly loaded one: sources are
never removed -/
theorem tracker_sources_stay (src0 : List (String × SrcWm)) (ops : List WmOp) :
    ∀ kv ∈ src0, kv.1 ∈ (ops.foldl (fun w op => (w.step op).1)
      ({ sources := src0, effective := none, lastApplied := none } : WmSt)).sources.map (·.1) := by
  intro kv hkv
  exact keys_run ops _ kv.1 (List.mem_map_of_mem (f := (·.1)) hkv)

/-- repaired by `fix: watermark tracker timestamps were truncated to milliseconds` — the
sub-millisecond counterexample against the restore before that repair (`SrcWm.ofCkptOld`): source T
has seen 1.5 ms; an event at 1.2 ms does not move the original tracker, but moved the old restored
one (maximum back at 1 ms) and dragged the effective watermark down to 1.2 ms -/
theorem tracker_submillisecond_defect :
    let w : WmSt := { sources := [("T", { watermark := some 1500000, maxTs := some 1500000, oooMs := 0 })],
                      effective := some 1500000, lastApplied := some 1500000 }
    let old : WmSt := { w with sources := w.ckpt.sources.map fun kv => (kv.1, SrcWm.ofCkptOld kv.2) }
    (w.step (.observe "T" 1200000)).2 = some 1500000
      ∧ (old.step (.observe "T" 1200000)).2 = some 1200000
      ∧ ((WmSt.restore [] w.ckpt).step (.observe "T" 1200000)).2 = some 1500000 := by
  decide

/-! ## distinct, limit -/

/-- `.distinct()`: the LRU key order comes back (`Nodup`: an LRU map has no duplicate keys), so
every continuation of keys is filtered identically -/
theorem distinct_obs_equiv (seen : List String) (h : seen.Nodup) (keys : List String) :
    (decDistinct (wire (encDistinct (distinctCkpt seen)))).map (fun c => runOps distinctStep (distinctRestore c) keys)
      = some (runOps distinctStep seen keys) := by
  rw [wire_clean _ (clean_encDistinct _), decDistinct_encDistinct]
  simp [distinct_rt seen h]

/-- `.limit(n)` / `.first()`: the counter comes back, every continuation passes the same events -/
theorem limit_obs_equiv (l : Nat × Nat) (batches : List Nat) :
    (decLimit (wire (encLimit l))).map (fun c => runOps limitStep c batches) = some (runOps limitStep l batches) := by
  rw [wire_clean _ (clean_encLimit _), decLimit_encLimit]; rfl

/-! ## the engine -/

/-- C19, engine level, under `EngineSt.Restorable` (the three guards above plus structural
invariants): checkpoint → JSON → freshly loaded engine → restore yields a state that is
`Equiv` to the checkpointed one: all window, join, distinct and limit states equal, pattern runs
equal up to unread aliases, the same variables, counters and watermark state -/
theorem engine_restore_partial (cfg : String → StreamCfg) (s : EngineSt) (vars0 : List (String × Val))
    (src0 : List (String × SrcWm)) (h : s.Restorable vars0 src0) :
    ∃ c, decEngine (wire (encEngine (s.ckpt cfg))) = some c ∧
      EngineSt.Equiv (EngineSt.restore cfg (s.fresh vars0 src0) c) s :=
  ⟨s.ckpt cfg, by rw [wire_clean _ (clean_encEngine _), decEngine_encEngine], engine_rt cfg s vars0 src0 h⟩

/-- … and therefore, for every continuation, the same outputs — for any engine step function that
cannot tell `Equiv` states apart and keeps them `Equiv` -/
theorem engine_obs_equiv {ι ο} (step : EngineSt → ι → EngineSt × ο)
    (hstep : ∀ a b i, EngineSt.Equiv a b → (step a i).2 = (step b i).2 ∧ EngineSt.Equiv (step a i).1 (step b i).1)
    (a b : EngineSt) (h : EngineSt.Equiv a b) (ops : List ι) : runOps step a ops = runOps step b ops := by
  induction ops generalizing a b with
  | nil => rfl
  | cons i is ih =>
    simp only [runOps, List.cons.injEq]
    exact ⟨(hstep a b i h).1, ih _ _ (hstep a b i h).2⟩

/-! ## further losses: repaired (witnesses of the old behaviour) and not repaired (counterexample) -/

/-- repaired by `fix: progress inside an AND pattern state`: `A AND B` after `A`; the old
`from_checkpoint` forgot the completed branch, so the next `A` was taken for branch 0 again -/
theorem and_progress_defect :
    let a : Event := { etype := "A", ts := 0, data := [] }
    let r : Run := { currentState := 1, stack := [(a, none)], captured := [], startedAt := none, deadline := none,
                     partitionKey := none, invalidated := false, pendingNegs := [], andState := some [(0, a)], kleene := none }
    r.andNext ["A", "B"] a = none ∧ (Run.fromCkptOld r.ckpt).andNext ["A", "B"] a = some 0
      ∧ (Run.fromCkpt r.ckpt).andNext ["A", "B"] a = none := by
  simp [Run.andNext, Run.fromCkptOld, Run.fromCkpt, Run.ckpt, List.range, List.range.loop, serOfEvent, eventOfSer]

/-- repaired by `fix: the engine's last applied watermark was not checkpointed`: effective
watermark 2 s after a second source lowered it, 12 s already applied; an advance to 8 s is ignored
by the original engine and was applied by the restored one -/
theorem last_applied_watermark_defect :
    let w : WmSt := { sources := [], effective := some 2000000000, lastApplied := some 12000000000 }
    w.applies 8000000000 = false ∧ (WmSt.restoreOld [] w.ckpt).applies 8000000000 = true
      ∧ (WmSt.restore [] w.ckpt).applies 8000000000 = false := by
  simp [WmSt.applies, WmSt.restoreOld, WmSt.restore, WmSt.ckpt, msOf, subOf, joinTs, ofMs]

/-- **not repaired** (finding `C19-kleene-deferred`): the full-strength statement
`∀ r, (Run.fromCkpt r.ckpt).view = r.view` is false.  A run whose Kleene capture carries a deferred
predicate (`A -> all B where x >= b.x -> C`) completes by enumerating the combinations; the
restored run has lost the predicate and completes with a single match. -/
theorem kleene_deferred_counterexample :
    let b : Event := { etype := "B", ts := 0, data := [] }
    let r : Run := { currentState := 2, stack := [], captured := [], startedAt := none, deadline := none,
                     partitionKey := none, invalidated := false, pendingNegs := [], andState := none,
                     kleene := some { events := [b, b], aliases := [some "b", some "b"], deferred := some 2 } }
    r.Restorable = false ∧ r.complete = .enumerate 3 ∧ (Run.fromCkpt r.ckpt).complete = .single := by
  simp [Run.Restorable, Run.complete, Run.fromCkpt, Run.ckpt]

/-- a pending negation is dropped as well (only its count is stored); in the model the restored
run no longer reports the violation.  (On the real engine this has no visible effect: the
`Negation` state arm repeats the check, and a confirmation coincides with the run's time-out.) -/
theorem pending_negation_state_loss :
    let n : Event := { etype := "N", ts := 0, data := [] }
    let r : Run := { currentState := 3, stack := [], captured := [], startedAt := none, deadline := none,
                     partitionKey := none, invalidated := false,
                     pendingNegs := [{ forbidden := "N", pred := none, nextState := 4, deadline := none }],
                     andState := none, kleene := none }
    r.Restorable = false ∧ r.violates (fun _ _ => true) n = true ∧ (Run.fromCkpt r.ckpt).violates (fun _ _ => true) n = false := by
  simp [Run.Restorable, Run.violates, Run.fromCkpt, Run.ckpt]

/-! ## non-vacuity -/

/-- the guard of `window_obs_equiv_partial` holds of a partitioned sliding count window in the
middle of a slide and of a plain one right after an emission -/
example :
    (WinSt.pSlidingCount [("a", { buf := [ev 1, ev 2], since := 1 })]).Restorable = true
    ∧ (WinSt.slidingCount { buf := [ev 1, ev 2, ev 3], since := 0 }).Restorable = true
    ∧ (WinSt.tumbling { buf := [ev 1], start := some 1000000000 }).Restorable = true := by
  decide

/-- the premise of `sase_restore_partial` holds of a run in the middle of `A -> all B -> C` -/
example : ({ SaseSt.empty with runs := [midRun] } : SaseSt).Restorable = true := by
  simp [SaseSt.Restorable, Run.Restorable, Run.Whole, Event.whole, wholeTs, SaseSt.empty, midRun, bEv]

end Varpulis.Props.C19
