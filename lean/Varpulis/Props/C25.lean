import Varpulis.Lemmas.Trend
/-!
# C25 — trend aggregation counts are correct and unaffected by sharing

*Property.* For every Kleene trend-aggregation query, the reported trend count equals the number
of event trends that match the query's pattern within the window. Running the query alongside
other queries that share sub-patterns reports the same value as running it alone.

What is proved here (model: `Varpulis/Model/Trend.lean`):

* the count-propagation recurrence `count(e) = start(e) + Σ_{p ≺ e} count(p)` (GRETA), per event
  (`gretaCounts`) and with one running sum per pattern position (`dpCount`), computes exactly the
  number of event trends enumerated by brute force (`Spec.trends`), for every well-formed query
  and every stream (`dp_correct`, `dp_running_correct`); several queries side by side are
  component-wise (`sharing_independent`). This is the oracle the check judges the code with.
* the code as it is (mirrored by `Hamlet.run`, `GretaImpl.run`, `EngineImpl.run`, tied by
  correspondence) does **not** have the property: seven `_counterexample` theorems with minimal
  witnesses (known findings `C25-…`), and `hamlet_partial` for the streams on which
  `HamletAggregator` is right (no event of the query's first type).
-/
namespace Varpulis.Props.C25
open Varpulis.Trend

/-- The per-event recurrence: the count of a new event is `start(e)` plus the counts of its
predecessors (earlier events of the previous step's type, and of its own type if the step is Kleene). -/
theorem recurrence (q : Query) (evs : List Ty) (t : Ty) :
    gretaCounts q (evs ++ [t]) = gretaCounts q evs ++ [(t, countFor (gretaCounts q evs) t none q)] := by
  simp [gretaCounts, gretaStep]

/-- **Core theorem.** `Σ_{e final} count(e)` of the GRETA recurrence is the number of event trends. -/
theorem dp_correct (q : Query) (hq : WF q) (evs : List Ty) :
    gretaFinal q evs = (Spec.trends q evs).length := by
  rw [gretaFinal_eq_dpCount q hq.2, dpCount_eq_cnt q hq.1 (adjChain_of_nodup q hq.2), trends_length]

/-- The linear-time form (one running sum per pattern position) counts the trends as well. -/
theorem dp_running_correct (q : Query) (hq : WF q) (evs : List Ty) :
    dpCount q evs = Spec.count q evs := by
  rw [Spec.count, dpCount_eq_cnt q hq.1 (adjChain_of_nodup q hq.2), trends_length]

/-- Sharing independence of the specification: the count reported for query `i` of a workload is
the count of that query alone, whatever the other queries are. -/
theorem sharing_independent (qs : List Query) (evs : List Ty) (i : Nat) (hi : i < qs.length)
    (hq : WF qs[i]) :
    (dpCounts qs evs)[i]? = some (Spec.count qs[i] evs) := by
  simp [dpCounts, hi, dp_running_correct _ hq]

/-! ### Non-vacuity: the oracle on a non-trivial stream (A → B+ → C over A A B B C B C: 20 trends) -/
example : WF [⟨0, false⟩, ⟨1, true⟩, ⟨2, false⟩] := by decide
example : Spec.count [⟨0, false⟩, ⟨1, true⟩, ⟨2, false⟩] [0, 0, 1, 1, 2, 1, 2] = 20 := by decide
example : gretaFinal [⟨0, false⟩, ⟨1, true⟩, ⟨2, false⟩] [0, 0, 1, 1, 2, 1, 2] = 20 := by decide
example : Spec.trends [⟨0, false⟩, ⟨1, true⟩] [0, 1, 1] =
    [[(0, 0), (1, 1), (1, 2)], [(0, 0), (1, 1)], [(0, 0), (1, 2)]] := by decide

/-! ### The code as it is: known findings (mirror models, tied by correspondence) -/

/-- `C25-hamlet-count`: `HamletAggregator` does not report the number of trends.
`A -> B+` over `A B`: one trend, `flush()` reports 3; `A+ -> B` over `A`: no trend, `flush()` reports 2. -/
theorem hamlet_count_counterexample :
    ¬ ∀ (q : Query) (evs : List Ty), WF q → flushed (Hamlet.run [q] 2 evs) 0 = Spec.count q evs := by
  intro h
  have := h [⟨0, false⟩, ⟨1, true⟩] [0, 1] (by decide)
  revert this; decide

theorem hamlet_count_counterexample_min :
    flushed (Hamlet.run [[⟨0, true⟩, ⟨1, false⟩]] 2 [0]) 0 = 2 ∧ Spec.count [⟨0, true⟩, ⟨1, false⟩] [0] = 0 := by
  decide

/-- `C25-hamlet-sharing`: the same query reports different values alone and alongside another query.
`A -> B+` alongside `A+ -> B+` over the single event `B` (sharing on): reports 1, alone nothing;
sharing off: `A+ -> B` alongside `A+ -> C` over `A C A` reports 3, alone 4. -/
theorem hamlet_sharing_counterexample :
    ¬ ∀ (q q' : Query) (m : Nat) (evs : List Ty), WF q → WF q' →
        flushed (Hamlet.run [q, q'] m evs) 0 = flushed (Hamlet.run [q] m evs) 0 := by
  intro h
  have := h [⟨0, false⟩, ⟨1, true⟩] [⟨0, true⟩, ⟨1, true⟩] 2 [1] (by decide) (by decide)
  revert this; decide

theorem hamlet_sharing_counterexample_nonshared :
    flushed (Hamlet.run [[⟨0, true⟩, ⟨1, false⟩], [⟨0, true⟩, ⟨2, false⟩]] 1000 [0, 2, 0]) 0 = 3 ∧
    flushed (Hamlet.run [[⟨0, true⟩, ⟨1, false⟩]] 1000 [0, 2, 0]) 0 = 4 := by
  decide

/-- `C25-greta-accumulates`: `GretaExecutor` adds the counts of all end events to the final count
again on every `process` call. `A -> B+` over `A B B`: 3 trends, reported 4 (the value the
repository's own test `test_executor_kleene_self_loop` pins). -/
theorem greta_accumulates_counterexample :
    ¬ ∀ (q : Query) (evs : List Ty), WF q →
        flushed (GretaImpl.run [q] evs fun _ => true) 0 = Spec.count q evs := by
  intro h
  have := h [⟨0, false⟩, ⟨1, true⟩] [0, 1, 1] (by decide)
  revert this; decide

/-- `C25-greta-shared-edges`: predecessor edges are the union over all registered queries.
`A+ -> B` over `A B B` reports 3 alone and 4 next to `A -> B+` (2 trends exist). -/
theorem greta_shared_edges_counterexample :
    ¬ ∀ (q q' : Query) (evs : List Ty), WF q → WF q' →
        flushed (GretaImpl.run [q, q'] evs fun _ => true) 0 = flushed (GretaImpl.run [q] evs fun _ => true) 0 := by
  intro h
  have := h [⟨0, true⟩, ⟨1, false⟩] [⟨0, false⟩, ⟨1, true⟩] [0, 1, 1] (by decide) (by decide)
  revert this; decide

/-- `C25-engine-count`: `.trend_aggregate(n: count_trends())` — `all A -> B` over `A B` emits `n = 2`
(one trend); `A -> all B` over `A B B` emits `n = 1` once and never again (three trends). -/
theorem engine_count_counterexample :
    ¬ ∀ (q : Query) (evs : List Ty), WF q → lastReported (EngineImpl.run [q] evs) 0 = Spec.count q evs := by
  intro h
  have := h [⟨0, true⟩, ⟨1, false⟩] [0, 1] (by decide)
  revert this; decide

theorem engine_count_counterexample_stale :
    EngineImpl.run [[⟨0, false⟩, ⟨1, true⟩]] [0, 1, 1] = [(1, 0, 1)] ∧ Spec.count [⟨0, false⟩, ⟨1, true⟩] [0, 1, 1] = 3 := by
  decide

/-- `C25-engine-sharing`: two `.trend_aggregate` streams whose Kleene steps sit at the same pattern
positions are moved to a shared aggregator that knows no event type of the program: `A -> all B`
reports `n = 1` over `A B` alone and nothing next to `C -> all B`. -/
theorem engine_sharing_counterexample :
    ¬ ∀ (q q' : Query) (evs : List Ty), WF q → WF q' →
        lastReported (EngineImpl.run [q, q'] evs) 0 = lastReported (EngineImpl.run [q] evs) 0 := by
  intro h
  have := h [⟨0, false⟩, ⟨1, true⟩] [⟨2, false⟩, ⟨1, true⟩] [0, 1] (by decide) (by decide)
  revert this; decide

/-- `C25-window-ignored`: the engine's reports do not depend on the timestamps at all (`window_ms` is
never read); `A -> all B .within(1m)` over `A` at 0 s and `B` at 100 s has no trend within 60 s and
`n = 1` is reported. -/
theorem window_ignored_counterexample :
    EngineImpl.run [[⟨0, false⟩, ⟨1, true⟩]] [0, 1] = [(1, 0, 1)] ∧
    Spec.trendsW [⟨0, false⟩, ⟨1, true⟩] 60 [(0, 0), (1, 100)] = [] := by
  decide

/-- Inside one window (all events at most `w` apart) the window condition is vacuous: the tie's
streams (1 s apart, 60 s window) are judged against `Spec.trends`. -/
theorem window_inside (q : Query) (w : Nat) (evs : List (Ty × Nat))
    (h : ∀ a ∈ evs, ∀ b ∈ evs, b.2 - a.2 ≤ w) :
    Spec.trendsW q w evs = (Spec.subseqs evs).filter (fun u => Spec.matchSteps q (u.map (·.1))) :=
  trendsW_inside q w evs h

/-- **Partial correctness of `HamletAggregator`** (the complement of the guard of
`C25-hamlet-count`): a query run alone (any sharing threshold ≥ 2, in particular the default) over
a stream without an event of its first step's type reports nothing — neither incrementally nor
at `flush()` — and there is indeed no trend. -/
theorem hamlet_partial (s : Step) (ss : Query) (hq : WF (s :: ss)) (m : Nat) (hm : 2 ≤ m)
    (evs : List Ty) (h : ∀ t ∈ evs, t ≠ s.ty) :
    Hamlet.run [s :: ss] m evs = ([], []) ∧ Spec.count (s :: ss) evs = 0 := by
  refine ⟨Hamlet.run_no_start s ss m hm evs h, ?_⟩
  rw [Spec.count, trends_length]
  exact cnt_no_start s ss (adjChain_of_nodup _ hq.2).1 evs h

/-- the premise is satisfiable by a non-trivial stream: `A -> B+ -> C` over `B C B B C` -/
example : Hamlet.run [[⟨0, false⟩, ⟨1, true⟩, ⟨2, false⟩]] 2 [1, 2, 1, 1, 2] = ([], []) :=
  (hamlet_partial ⟨0, false⟩ [⟨1, true⟩, ⟨2, false⟩] (by decide) 2 (by decide) [1, 2, 1, 1, 2] (by decide)).1

/-! ### Several windows on one aggregator (`flush()` between them) -/

/-- one window through the multi-window driver model is the single-window run the theorems above speak about -/
theorem hamlet_single_window (qs : List Query) (m : Nat) (evs : List Ty) :
    Hamlet.runWindows qs m [evs] =
      ((Hamlet.run qs m evs).1, (Hamlet.run qs m evs).2.map fun (q, v) => (0, q, v)) :=
  Hamlet.runWindows_single qs m evs

theorem greta_single_window (qs : List Query) (evs : List Ty) (known : Ty → Bool) :
    GretaImpl.runWindows qs [evs] known =
      ((GretaImpl.run qs evs known).1, (GretaImpl.run qs evs known).2.map fun (q, v) => (0, q, v)) :=
  GretaImpl.runWindows_single qs evs known

/-- **Windows are independent in the mirror of `HamletAggregator`**: whatever events a window
contained, after its `flush()` (`reset`) the aggregator is the freshly constructed one, so every
later window is counted as a first window. (A `reset` that keeps any per-query field — e.g.
`in_trend` — is visible as a disagreement in a later window.) -/
theorem hamlet_window_fresh (qs : List Query) (m : Nat) (evs : List (Ty × Nat)) (inc : List (Nat × Nat × Nat)) :
    Hamlet.reset (evs.foldl (fun (acc : Hamlet.Agg × List (Nat × Nat × Nat)) (x : Ty × Nat) =>
      match x with
      | (ty, k) =>
        let (a', reps) := Hamlet.process acc.1 ty
        (a', acc.2 ++ reps.map fun (q, v) => (k, q, v))) (Hamlet.Agg.new qs m, inc)).1 = Hamlet.Agg.new qs m :=
  Hamlet.reset_fresh qs m _ (Hamlet.core_events_fold evs _ inc)

/-- `A -> B+`, window 1 = `A B`, window 2 = `B B A B`: both windows report what a fresh aggregator
reports (3 each; 1 trend each) -/
example : Hamlet.runWindows [[⟨0, false⟩, ⟨1, true⟩]] 2 [[0, 1], [1, 1, 0, 1]] =
    ([(1, 0, 1), (5, 0, 1)], [(0, 0, 3), (1, 0, 3)]) := by decide

/-- `hamlet_partial` over several windows of one reused aggregator: no event of the query's first
type in any window — no report in any window, and no window contains a trend. -/
theorem hamlet_partial_windows (s : Step) (ss : Query) (hq : WF (s :: ss)) (m : Nat) (hm : 2 ≤ m)
    (wins : List (List Ty)) (h : ∀ w ∈ wins, ∀ t ∈ w, t ≠ s.ty) :
    Hamlet.runWindows [s :: ss] m wins = ([], []) ∧ ∀ w ∈ wins, Spec.count (s :: ss) w = 0 :=
  ⟨Hamlet.runWindows_no_start s ss m hm wins h,
   fun w hw => (hamlet_partial s ss hq m hm w (h w hw)).2⟩

end Varpulis.Props.C25
