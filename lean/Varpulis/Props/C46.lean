import Varpulis.Lemmas.EventFile
/-!
# C46 — both event-file readers read the same events from the same file

Statements over `Varpulis.EventFile` (Model/EventFile.lean): `preloadRead` mirrors
`EventFileParser::parse`, `streamRead` mirrors `StreamingEventReader` + `parse_line` as the CLI
drives it. The payload parser shared by both readers is an arbitrary function
`parseEvent : String → Option Ev`; the theorems hold for every such function.
`Outcome.ok evs` = the events, `.reject` = `Err(_)`.

Full strength would be `∀ lines, streamRead pe lines = (preloadRead pe lines).map (·.map Prod.fst)`.
That is false of the code (known finding `C46-oversized-line`): the streaming reader skips lines
longer than `MAX_LINE_LENGTH` bytes, the preloading reader does not — `readers_agree_counterexample`.
`readers_agree_partial` proves it for every file without such a line.
-/
namespace Varpulis.Props.C46
open Varpulis.EventFile

/-- Every file whose raw lines are at most `MAX_LINE_LENGTH` (1 MiB) bytes long: the streaming reader
yields exactly the events of the preloading reader (same order, time offsets dropped), or both
reject. All line forms: plain, `BATCH n`, `@…` prefixes, JSONL,
comments, blank lines. -/
theorem readers_agree_partial {Ev : Type} (parseEvent : String → Option Ev) (lines : List RawLine)
    (hlen : ∀ l ∈ lines, l.rawLen ≤ maxLineLength) :
    streamRead parseEvent lines = (preloadRead parseEvent lines).map (List.map Prod.fst) :=
  stream_eq_preload parseEvent lines hlen 0

/-- … spelled out: same event sequence -/
theorem same_events {Ev : Type} (parseEvent : String → Option Ev) (lines : List RawLine)
    (hlen : ∀ l ∈ lines, l.rawLen ≤ maxLineLength) (evs : List Ev) :
    streamRead parseEvent lines = .ok evs ↔
      ∃ timed, preloadRead parseEvent lines = .ok timed ∧ evs = timed.map Prod.fst := by
  rw [readers_agree_partial parseEvent lines hlen]
  cases preloadRead parseEvent lines with
  | ok t => simp [Outcome.map]; exact eq_comm
  | reject => simp [Outcome.map]
  | panic => simp [Outcome.map]

/-- … spelled out: one rejects iff the other does -/
theorem both_reject {Ev : Type} (parseEvent : String → Option Ev) (lines : List RawLine)
    (hlen : ∀ l ∈ lines, l.rawLen ≤ maxLineLength) :
    streamRead parseEvent lines = .reject ↔ preloadRead parseEvent lines = .reject := by
  rw [readers_agree_partial parseEvent lines hlen]
  cases preloadRead parseEvent lines <;> simp [Outcome.map]

/-- The agreement holds from every position of the file and for every pending batch time
(the line-classification lemma: `parse_line` and one iteration of `parse` decide alike). -/
theorem readers_agree_from {Ev : Type} (parseEvent : String → Option Ev) (lines : List RawLine)
    (hlen : ∀ l ∈ lines, l.rawLen ≤ maxLineLength) (batch : Nat) :
    streamWith (parseLine parseEvent) lines = (preloadFrom parseEvent batch lines).map (List.map Prod.fst) :=
  stream_eq_preload parseEvent lines hlen batch

/-- Same substring: what either reader hands to the payload parser for a line is `linePayload`, a
function of the line alone (skip / reject / exactly this text). `parse_stream_line` consults the
payload parser on nothing else … -/
theorem stream_parses_line_payload {Ev : Type} (parseEvent : String → Option Ev) (t : String) :
    parseLine parseEvent t = match linePayload t with
      | .ok none => .ok none
      | .ok (some text) => (match parseEvent (String.ofList text) with | some e => .ok (some e) | none => .reject)
      | .reject => .reject
      | .panic => .panic :=
  parseLine_factors parseEvent t

/-- … and one iteration of `parse` consults it on the very same text (the batch time only decides
the offset attached to the event). Hence the readers can differ only through which lines reach the
parser — never through the parser, as long as it is a function of its argument. -/
theorem preload_parses_line_payload {Ev : Type} (parseEvent : String → Option Ev) (batch : Nat)
    (l : RawLine) (ls : List RawLine) :
    preloadFrom parseEvent batch (l :: ls) = match linePayload l.text with
      | .ok none => preloadFrom parseEvent (nextBatch batch l.text) ls
      | .ok (some text) => (match parseEvent (String.ofList text) with
          | some e => (preloadFrom parseEvent batch ls).cons (e, lineOffset batch l.text)
          | none => .reject)
      | .reject => .reject
      | .panic => .panic :=
  preloadFrom_factors parseEvent batch l ls

/-- The agreement with the payload grammar made concrete: `.evt` payloads through the modelled
`parse_event_line` (`parseEventLine`: nesting, quotes, escapes, semicolons, positional form, arrays),
JSONL payloads (leading `{`) through any function `json` standing for `parse_jsonl_line`. -/
theorem readers_agree_concrete (json : String → Option Evt) (lines : List RawLine)
    (hlen : ∀ l ∈ lines, l.rawLen ≤ maxLineLength) :
    let parser : String → Option Evt := fun s => if s.toList.head? = some '{' then json s else parseEventLine s.toList
    streamRead parser lines = (preloadRead parser lines).map (List.map Prod.fst) :=
  stream_eq_preload _ lines hlen 0

/-- Known finding `C46-oversized-line`: a line of more than `MAX_LINE_LENGTH` bytes is an event for
the preloading reader and nothing for the streaming reader. -/
theorem readers_agree_counterexample :
    let pe : String → Option String := some
    let lines : List RawLine := [⟨"A { x: 1 }", maxLineLength + 1⟩]
    preloadRead pe lines = .ok [("A { x: 1 }", 0)] ∧ streamRead pe lines = .ok [] := by
  decide

/-- Defect repaired by the first `fix:` commit: `parse_line`, which the streaming reader used,
skips every `@`-prefixed line, so a three-event file gave three events preloaded and one streamed. -/
theorem old_streaming_skipped_timed_lines :
    let pe : String → Option String := some
    let lines : List RawLine := [⟨"@0s A { x: 1 }", 15⟩, ⟨"@1s B { x: 2 }", 15⟩, ⟨"C { x: 3 }", 11⟩]
    preloadRead pe lines = .ok [("A { x: 1 }", 0), ("B { x: 2 }", 1000), ("C { x: 3 }", 0)] ∧
    streamReadOld pe lines = .ok ["C { x: 3 }"] ∧
    streamRead pe lines = .ok ["A { x: 1 }", "B { x: 2 }", "C { x: 3 }"] := by
  decide

/-- Defect repaired by the second `fix:` commit: a malformed `BATCH` time made the preloading
reader reject the file while the unchanged streaming reader accepted it. -/
theorem old_streaming_accepted_bad_batch :
    let pe : String → Option String := some
    let lines : List RawLine := [⟨"BATCH soon", 11⟩, ⟨"A { x: 1 }", 11⟩]
    preloadRead pe lines = .reject ∧ streamReadOld pe lines = .ok ["A { x: 1 }"] ∧
    streamRead pe lines = .reject := by
  decide

/-- non-vacuity: one file using every documented line form (comment, blank, `BATCH n`, plain,
semicolon, `@Ns`, `@Nms`, bare `@N`, JSONL); both readers accept it and agree. -/
example :
    let pe : String → Option String := some
    let lines : List RawLine := [⟨"# header", 9⟩, ⟨"", 1⟩, ⟨"BATCH 100", 10⟩, ⟨"  A { x: 1 };", 14⟩,
      ⟨"// note", 8⟩, ⟨"@2s B { y: \"q\" }", 17⟩, ⟨"@250ms C(1, 2)", 15⟩, ⟨"@7 D { }", 9⟩,
      ⟨"{\"event_type\": \"E\", \"data\": {}}", 34⟩]
    (∀ l ∈ lines, l.rawLen ≤ maxLineLength) ∧
    preloadRead pe lines = .ok [("A { x: 1 };", 100), ("B { y: \"q\" }", 2000), ("C(1, 2)", 250), ("D { }", 7),
      ("{\"event_type\": \"E\", \"data\": {}}", 100)] ∧
    streamRead pe lines = .ok ["A { x: 1 };", "B { y: \"q\" }", "C(1, 2)", "D { }",
      "{\"event_type\": \"E\", \"data\": {}}"] := by
  decide

/-- non-vacuity of the reject branch: both readers reject a bad timing prefix, a time that does not
fit into u64 milliseconds, and an event the payload parser rejects (here: any text containing `!`) -/
example :
    let pe : String → Option String := fun s => if s.toList.contains '!' then none else some s
    preloadRead pe [⟨"@soon A { }", 12⟩] = .reject ∧ streamRead pe [⟨"@soon A { }", 12⟩] = .reject ∧
    preloadRead pe [⟨"@18446744073709551615s A { }", 30⟩] = .reject ∧
    streamRead pe [⟨"@18446744073709551615s A { }", 30⟩] = .reject ∧
    preloadRead pe [⟨"A { }", 6⟩, ⟨"@1s oops!", 10⟩] = .reject ∧ streamRead pe [⟨"A { }", 6⟩, ⟨"@1s oops!", 10⟩] = .reject := by
  decide

set_option maxRecDepth 100000 in
/-- non-vacuity of the grammar model: nesting, quotes with commas/braces/escapes, repeated key
(`IndexMap::insert` keeps the position), trailing semicolons, positional form, the value kinds. -/
example :
    parseEventLine "Order { id: 7, tags: [a, \"x,y\", [1, 2.5]], note: \"q{r}\\n\", id: -3 };;".toList
      = some { type := "Order".toList,
               fields := [("id".toList, .int (-3)),
                          ("tags".toList, .arr [.str "a".toList, .str "x,y".toList, .arr [.int 1, .float "2.5".toList]]),
                          ("note".toList, .str "q{r}\n".toList)] } ∧
    parseEventLine "Tick(AAPL, 1e3, true, nil, 'it''s')".toList
      = some { type := "Tick".toList,
               fields := [("field_0".toList, .str "AAPL".toList), ("field_1".toList, .float "1e3".toList),
                          ("field_2".toList, .bool true), ("field_3".toList, .null), ("field_4".toList, .str "it''s".toList)] } ∧
    parseEventLine "JustAName".toList = none ∧ parseEventLine "A { x }".toList = none := by
  refine ⟨?_, ?_, ?_, ?_⟩ <;> rfl

end Varpulis.Props.C46
