import Varpulis.Lemmas.RaftStore
/-!
# C36 — a restarted coordinator recovers exactly its applied Raft state

Model: `Model/RaftStore.lean` — `RocksStore` operation by operation (which keys, which atomic
RocksDB writes), a crash after any write (`crashDisks`), and `RocksStore::open_with_shared_state`
(`reopen` = `recover_metadata` + `replay_log`).  `G` is the committed command log of the cluster;
`smOf G o` = the state machine obtained by applying the entries of `G` up to position `o` to a fresh
store (`applyEntriesT SM.init (G.filter (index ≤ o))`) — the specification.

Histories: appends, applies, snapshot builds (capture and persist as two steps, with other calls in
between — openraft persists a snapshot in a spawned task), installs, purges, conflicting-suffix deletions, votes,
under openraft's calling discipline `OpsOk` (entries are appended/deleted only above the applied
position, applied entries are the committed ones, installed snapshots were built from a prefix of
`G` and are not older than a snapshot the node is building at that moment, the log is purged only up
to the stored snapshot).
-/
namespace Varpulis.Props.C36
open Varpulis.RaftSM Varpulis.RaftStore

/-- the specification is literally "the commands up to the recorded applied position, applied in
order to the empty state", and that replay never panics -/
theorem spec_is_replay (G : List Entry) (o : Option Nat) :
    applyEntries SM.init (G.filter (fun e => upto o e.id.index)) = .ok (smOf G o) :=
  (applyEntries_eq_T State.WF_init _).1

/-- MAIN: for every committed log `G`, every well-formed history and every crash point (after any
storage write), reopening the directory yields exactly the state machine of the commands up to the
applied position recorded on disk, with the recorded applied position and membership — and the
directory itself (vote, log, purge marker, snapshot) exactly as the crash left it -/
theorem recover_exact (G : List Entry) (hG : Sorted G) (ops : List Op) (h : OpsOk G {} ops) :
    ∀ d ∈ crashDisks {} ops, reopen d = .ok { mem := smOf G (oidx d.lastApplied), disk := d } :=
  fun d hd => reopen_spec hG (crash_inv hG (Inv.init G) ops h d hd)

/-- the crash points the harness exercises ("exactly `n` writes completed", `crashDiskAt`) are crash
disks of `recover_exact`, and the judge's specification `specSM` is `smOf`: for every `n`, the
reopened store is the specification at the applied position recorded on that disk -/
theorem recover_exact_at (G : List Entry) (hG : Sorted G) (ops : List Op) (h : OpsOk G {} ops) (n : Nat) :
    let d := crashDiskAt {} ops n
    reopen d = .ok { mem := specSM G d.lastApplied, disk := d } :=
  recover_exact G hG ops h _ (crashDiskAt_mem {} ops n)

/-- the recovered applied position is the recorded one (and it is the id of a committed entry) -/
theorem recovered_position (G : List Entry) (hG : Sorted G) (ops : List Op) (h : OpsOk G {} ops) :
    ∀ d ∈ crashDisks {} ops, (smOf G (oidx d.lastApplied)).lastApplied = d.lastApplied :=
  fun d hd => (crash_inv hG (Inv.init G) ops h d hd).applied

/-- without a crash: the running node's in-memory state machine is the specification, too
(a restart is invisible) -/
theorem running_is_spec (G : List Entry) (hG : Sorted G) (ops : List Op) (h : OpsOk G {} ops) :
    (run {} ops).mem = smOf G (oidx (run {} ops).disk.lastApplied) :=
  (run_inv hG ops {} (Inv.init G) h).mem

/-- what a crash leaves of the log half is coherent: sorted, as the log-store contract (C35) needs -/
theorem crash_log_sorted (G : List Entry) (hG : Sorted G) (ops : List Op) (h : OpsOk G {} ops) :
    ∀ d ∈ crashDisks {} ops, Sorted d.ls.log :=
  fun d hd => (crash_inv hG (Inv.init G) ops h d hd).sorted

/-- the disk-level operations are the log-store operations of C35 (so its contract theorems apply to
the persistent store's log, vote and purge marker) -/
theorem disk_ops_are_logstore_ops (nd : Node) :
    (∀ v, (step nd (.saveVote v)).disk = { nd.disk with ls := nd.disk.ls.saveVote v }) ∧
    (∀ es, (step nd (.append es)).disk = { nd.disk with ls := nd.disk.ls.append es }) ∧
    (∀ id, (step nd (.purge id)).disk = { nd.disk with ls := nd.disk.ls.purgeUpto id }) ∧
    (∀ id, (step nd (.deleteConflict id)).disk = { nd.disk with ls := nd.disk.ls.deleteConflictSince id }) :=
  ⟨disk_saveVote nd, disk_append nd, disk_purge nd, disk_deleteConflict nd⟩

/-- at every crash point the log on disk has no hole: consecutive indices, first entry right after the
persisted purge marker (under the full log discipline `OpsFull`; holds because `purge_logs_upto`
writes the deletions and the marker in ONE batch — openraft: "must not leave a hole") -/
theorem crash_log_has_no_hole (ops : List Op) (h : OpsFull {} ops) :
    ∀ d ∈ crashDisks {} ops, d.ls.NoHole :=
  crash_noHole LogStore.noHole_init ops h

/-- `RocksStore::open` alone is only the metadata half of recovery: `reopen` (= what
`bootstrap_persistent` does through `open_with_shared_state`) is `openOnly` plus the replayed state -/
theorem reopen_is_open_plus_replay (d : Disk) :
    reopen d = (replayState d).bind fun st => .ok { openOnly d with mem := { (openOnly d).mem with state := st } } := rfl

/-- … and on its own it is NOT a recovery: after one applied command it reports the applied position
with an empty state (the footgun; outside C36, which is about the restart path of a coordinator) -/
theorem open_only_is_not_recovery :
    let e : Entry := ⟨⟨1, 1, 1⟩, .normal (.groupDeployed "g" "1")⟩
    let d := (run {} [.append [e], .applyTo 1]).disk
    (openOnly d).mem.lastApplied = some ⟨1, 1, 1⟩ ∧ (openOnly d).mem.state = {} ∧
    reopen d = .ok { mem := smOf [e] (some 1), disk := d } ∧ (smOf [e] (some 1)).state ≠ {} := by
  decide

/-- the premises are satisfiable by a history with compaction and a snapshot build that overlaps an
apply: append two committed entries, apply the first, capture a snapshot, apply the second while the
build is in flight, persist the snapshot, purge up to it, append and apply a third entry — the
recovered state after the last write contains the worker registered before the purge -/
example :
    let e1 : Entry := ⟨⟨1, 1, 1⟩, .normal (.registerWorker "w" "a" "k" 1 0 1)⟩
    let e2 : Entry := ⟨⟨1, 1, 2⟩, .membership "1.2"⟩
    let e3 : Entry := ⟨⟨1, 1, 3⟩, .normal (.groupDeployed "g" "1")⟩
    let G := [e1, e2, e3]
    let ops := [Op.append [e1, e2], .applyTo 1, .beginSnapshot, .applyTo 2, .finishSnapshot,
      .purge ⟨1, 1, 1⟩, .append [e3], .applyTo 3]
    (reopen (run {} ops).disk) = .ok { mem := smOf G (some 3), disk := (run {} ops).disk } ∧
    (smOf G (some 3)).state.workers.length = 1 ∧ (run {} ops).disk.ls.log.length = 2 := by
  decide

/-- … and that history satisfies the premises of `recover_exact` (sorted committed log, calling discipline) -/
example :
    let e1 : Entry := ⟨⟨1, 1, 1⟩, .normal (.registerWorker "w" "a" "k" 1 0 1)⟩
    let e2 : Entry := ⟨⟨1, 1, 2⟩, .membership "1.2"⟩
    let e3 : Entry := ⟨⟨1, 1, 3⟩, .normal (.groupDeployed "g" "1")⟩
    Sorted [e1, e2, e3] ∧
    OpsOk [e1, e2, e3] {} [Op.append [e1, e2], .applyTo 1, .beginSnapshot, .applyTo 2, .finishSnapshot,
      .purge ⟨1, 1, 1⟩, .append [e3], .applyTo 3] := by
  intro e1 e2 e3
  refine ⟨by simp [Sorted, e1, e2, e3], ?_, ?_, trivial, ?_, trivial, ?_, ?_, ?_, trivial⟩
  · intro e _; rfl
  · show toApply _ 1 = _; decide
  · show toApply _ 2 = _; decide
  · exact ⟨_, rfl, by decide⟩
  · intro e he
    simp only [List.mem_singleton] at he
    subst he; decide
  · show toApply _ 3 = _; decide

/-- … and the full log discipline of `crash_log_has_no_hole` -/
example :
    let e1 : Entry := ⟨⟨1, 1, 1⟩, .normal (.registerWorker "w" "a" "k" 1 0 1)⟩
    let e2 : Entry := ⟨⟨1, 1, 2⟩, .membership "1.2"⟩
    let e3 : Entry := ⟨⟨1, 1, 3⟩, .normal (.groupDeployed "g" "1")⟩
    OpsFull {} [Op.append [e1, e2], .applyTo 1, .beginSnapshot, .applyTo 2, .finishSnapshot,
      .purge ⟨1, 1, 1⟩, .append [e3], .applyTo 3] := by
  intro e1 e2 e3
  refine ⟨?_, trivial, trivial, trivial, trivial, ?_, ?_, trivial, trivial⟩
  · exact ⟨⟨rfl, trivial⟩, by intro f hf; simp at hf; subst hf; intro p hp; cases hp⟩
  · intro f hf
    have : f = e1 := by
      have h : (step (step (step (step (step ({} : Node) (.append [e1, e2])) (.applyTo 1)) .beginSnapshot) (.applyTo 2)) .finishSnapshot).disk.ls.log.head? = some e1 := by decide
      rw [h] at hf; exact (Option.some.inj hf).symm
    subst this; decide
  · refine ⟨trivial, ?_⟩
    intro f hf
    simp only [List.head?_cons, Option.some.injEq] at hf
    subst hf
    have h : (step (step (step (step (step (step ({} : Node) (.append [e1, e2])) (.applyTo 1)) .beginSnapshot) (.applyTo 2)) .finishSnapshot) (.purge ⟨1, 1, 1⟩)).disk.ls.log.getLast? = some e2 := by decide
    rw [h]

end Varpulis.Props.C36
