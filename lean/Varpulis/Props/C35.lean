import Varpulis.Lemmas.RaftStore
/-!
# C35 — replicated coordinator state is deterministic and snapshot-equivalent; storage contract

Model: `Model/RaftSM.lean` (`apply_command` arm by arm, `apply_to_state_machine`, snapshot
build/install of `MemStore` and `RocksStore`) and the log half of `Model/RaftStore.lean`.
The replicated state is a function of the applied entries (`applyEntries`), so "every coordinator"
is "every evaluation of that function"; the theorems say that cutting the log into batches, or
replacing a prefix by its snapshot, does not change the result.
-/
namespace Varpulis.Props.C35
open Varpulis.RaftSM Varpulis.RaftStore

/-- applying `xs ++ ys` is applying `xs`, then `ys` (panics propagate) -/
theorem apply_append (sm : SM) (xs ys : List Entry) :
    applyEntries sm (xs ++ ys) = (applyEntries sm xs).bind (fun sm' => applyEntries sm' ys) :=
  applyEntries_append sm xs ys

/-- any cutting of a log into batches (one `apply_to_state_machine` call each) equals one call -/
theorem batching_eq_whole (sm : SM) (batches : List (List Entry)) :
    applyBatches sm batches = applyEntries sm batches.flatten :=
  applyBatches_flatten sm batches

/-- two batchings of the same log give the same state machine -/
theorem any_batching (sm : SM) (b₁ b₂ : List (List Entry)) (h : b₁.flatten = b₂.flatten) :
    applyBatches sm b₁ = applyBatches sm b₂ := by
  rw [applyBatches_flatten, applyBatches_flatten, h]

/-- from a fresh store no command log panics, and the state stays well-formed -/
theorem never_panics (log : List Entry) :
    ∃ sm, applyEntries SM.init log = .ok sm ∧ sm.state.WF :=
  ⟨_, (applyEntries_eq_T State.WF_init log).1, (applyEntries_eq_T State.WF_init log).2⟩

/-- a snapshot carries the whole state machine: installing it anywhere reproduces the builder's state -/
theorem snapshot_roundtrip (old sm : SM) : installSnapshot old (buildSnapshot sm) = sm :=
  install_build old sm

/-- for every index `i`: snapshot after `i` entries, install it into any store (whatever it held),
apply the rest of the log — same result as replaying the whole log on a fresh store -/
theorem snapshot_equivalence (log : List Entry) (i : Nat) (old : SM) :
    ∃ smi, applyEntries SM.init (log.take i) = .ok smi ∧
      applyEntries (installSnapshot old (buildSnapshot smi)) (log.drop i) = applyEntries SM.init log := by
  refine ⟨_, (applyEntries_eq_T State.WF_init (log.take i)).1, ?_⟩
  rw [install_build]
  conv => rhs; rw [← List.take_append_drop i log, applyEntries_append]
  rw [(applyEntries_eq_T State.WF_init (log.take i)).1]; rfl

/-! ### obligations over the tables regenerated from the source (`tools/extract_raft.py`) -/
section Extracted
open Varpulis.Generated.RaftCommands

/-- every `ClusterCommand` variant has exactly one arm in `apply_command`, in order, no wildcard arm -/
theorem every_variant_has_exactly_one_arm : variants.map (·.1) = arms.map (·.1) := by decide

/-- the model has exactly one constructor per variant (a new command breaks this until it is modelled) -/
theorem model_has_every_variant : variants.map (·.1) = Cmd.tags ∧ ∀ c : Cmd, c.tag ∈ Cmd.tags :=
  ⟨by decide, tag_mem⟩

/-- the model state has exactly the fields of `CoordinatorState` (so a snapshot of the model state
omits none of them) -/
theorem state_fields_mirrored : stateFields = State.fieldNames := by decide

/-- every arm ends in `ClusterResponse::Ok` -/
theorem every_arm_answers_ok : arms.all (fun a => a.2.2.2 == "Ok") = true := by decide

/-- the source arm of every command touches a single field of the state, and the model's arm changes
at most that field -/
theorem arms_touch_one_field (c : Cmd) (s : State) :
    ∃ f, armField c.tag = some f ∧ frame f s (applyCmdT s c) := arm_frame c s

end Extracted

/-! ### storage contract of the log stores (`MemStore`, `RocksStore`) -/

/-- after any sequence of storage calls that appends only above the purge marker, the reported
`last_log_id` is the maximum of the last entry and `last_purged`: it bounds every entry and the
marker, and it is one of them -/
theorem last_log_id_is_max (ops : List LogOp) (h : LogOpsOk {} ops) :
    let s := LogStore.run {} ops
    (∀ e ∈ s.log, ∃ m, s.getLogState.2 = some m ∧ e.id.index ≤ m.index) ∧
    (∀ p, s.lastPurged = some p → ∃ m, s.getLogState.2 = some m ∧ p.index ≤ m.index) ∧
    (∀ m, s.getLogState.2 = some m → (∃ e ∈ s.log, e.id = m) ∨ s.lastPurged = some m) :=
  LogStore.lastLogId_spec (LogStore.coherent_run LogStore.coherent_init ops h)

/-- … and the log stays sorted with every entry above the purge marker -/
theorem log_coherent (ops : List LogOp) (h : LogOpsOk {} ops) : (LogStore.run {} ops).Coherent :=
  LogStore.coherent_run LogStore.coherent_init ops h

/-- no holes: under openraft's full calling discipline (`LogOpsFull`: entries are appended consecutively
right after the last log id — last entry, else purge marker —, a purge never starts below the first
entry minus one) the log has consecutive indices and its first entry comes right after `last_purged` -/
theorem log_has_no_holes (ops : List LogOp) (h : LogOpsFull {} ops) : (LogStore.run {} ops).NoHole :=
  LogStore.noHole_run LogStore.noHole_init ops h

/-- purging everything leaves `last_log_id = last_purged = the purge id` -/
theorem purge_everything (s : LogStore) (id : LogId) (h : ∀ e ∈ s.log, e.id.index ≤ id.index) :
    (s.purgeUpto id).getLogState = (some id, some id) := by
  have : purgeLog s.log id.index = [] := by
    simp only [purgeLog, List.filter_eq_nil_iff, decide_eq_true_eq]
    intro e he; have := h e he; omega
  simp [LogStore.purgeUpto, LogStore.getLogState, this]

/-- `purge_logs_upto(id)`: exactly the entries with a larger index remain, the marker is `id` -/
theorem purge_post (s : LogStore) (id : LogId) :
    (s.purgeUpto id).lastPurged = some id ∧ (s.purgeUpto id).vote = s.vote ∧
    ∀ e, e ∈ (s.purgeUpto id).log ↔ e ∈ s.log ∧ id.index < e.id.index := by
  simp [LogStore.purgeUpto, purgeLog, List.mem_filter]

/-- `delete_conflict_logs_since(id)`: exactly the entries with a smaller index remain -/
theorem delete_conflict_post (s : LogStore) (id : LogId) :
    (s.deleteConflictSince id).lastPurged = s.lastPurged ∧ (s.deleteConflictSince id).vote = s.vote ∧
    ∀ e, e ∈ (s.deleteConflictSince id).log ↔ e ∈ s.log ∧ e.id.index < id.index := by
  simp [LogStore.deleteConflictSince, truncLog, List.mem_filter]

/-- `append_to_log(es)` on a coherent store: the new entries are there, an old entry survives iff no
new entry took its index, marker and vote are untouched -/
theorem append_post (s : LogStore) (hs : s.Coherent) (es : List Entry) :
    (s.append es).lastPurged = s.lastPurged ∧ (s.append es).vote = s.vote ∧
    (∀ e ∈ (s.append es).log, e ∈ es ∨ (e ∈ s.log ∧ ∀ e' ∈ es, e.id.index ≠ e'.id.index)) ∧
    (∀ e ∈ s.log, (∀ e' ∈ es, e.id.index ≠ e'.id.index) → e ∈ (s.append es).log) :=
  ⟨rfl, rfl, fun _ he => mem_appendLog_sorted hs.1 he, fun _ he hne => mem_appendLog_keep he hne⟩

/-- `save_vote`/`read_vote` round trip; no other call touches the vote -/
theorem vote_roundtrip (s : LogStore) (v : Vote) (ops : List LogOp)
    (h : ∀ op ∈ ops, ∀ v', op ≠ .saveVote v') : ((s.saveVote v).run ops).vote = some v := by
  induction ops generalizing s with
  | nil => rfl
  | cons op ops ih =>
    have hop := h op (by simp)
    have hrest : ∀ op' ∈ ops, ∀ v', op' ≠ .saveVote v' := fun op' ho => h op' (List.mem_cons_of_mem _ ho)
    cases op with
    | saveVote v' => exact absurd rfl (hop v')
    | append es => exact ih (s.append es) hrest
    | deleteConflictSince id => exact ih (s.deleteConflictSince id) hrest
    | purgeUpto id => exact ih (s.purgeUpto id) hrest

/-- the premises are satisfiable: a purge-everything history is well-formed and non-trivial -/
example :
    LogOpsOk {} [.append [⟨⟨1, 1, 0⟩, .blank⟩, ⟨⟨1, 1, 1⟩, .blank⟩], .purgeUpto ⟨1, 1, 1⟩, .append [⟨⟨1, 1, 2⟩, .blank⟩]] ∧
    (LogStore.run {} [.append [⟨⟨1, 1, 0⟩, .blank⟩, ⟨⟨1, 1, 1⟩, .blank⟩], .purgeUpto ⟨1, 1, 1⟩]).getLogState
      = (some ⟨1, 1, 1⟩, some ⟨1, 1, 1⟩) := by
  refine ⟨?_, by decide⟩
  simp [LogOpsOk, LogOp.Ok, LogStore.step, LogStore.append, LogStore.purgeUpto, above, oidx]

/-- the full discipline is satisfiable by a history with a purge-everything, a conflict deletion and re-appends -/
example :
    LogOpsFull {} [.append [⟨⟨1, 1, 0⟩, .blank⟩, ⟨⟨1, 1, 1⟩, .blank⟩], .purgeUpto ⟨1, 1, 1⟩, .append [⟨⟨1, 1, 2⟩, .blank⟩],
      .deleteConflictSince ⟨1, 1, 2⟩, .append [⟨⟨2, 1, 2⟩, .blank⟩, ⟨⟨2, 1, 3⟩, .blank⟩]] := by
  simp [LogOpsFull, LogOp.Full, Consec, LogStore.step, LogStore.append, LogStore.purgeUpto,
    LogStore.deleteConflictSince, appendLog, insertEntry, purgeLog, truncLog]

end Varpulis.Props.C35
