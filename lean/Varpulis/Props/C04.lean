import Varpulis.Lemmas.Partition
import Varpulis.Lemmas.SasePartition
/-!
# C04 — partitioned windows and aggregates act as independent per-key runs

`partitioned m route drop` (Model/Partition.lean) is the `FxHashMap<String, W>` wrapper around a step machine
`m`: routed operations (`add_shared`) go to the sub-machine of their key (created on first use), broadcast
operations (`advance_watermark`, `check_expired`, `flush_shared`) to every present sub-machine; `drop` removes
closed partitions (session variant). `proj route k ops` is the sub-sequence of `ops` that concerns key `k`
(its events and every broadcast), `forKey k` the emissions tagged `k`.
The partitioned *pattern* part (SASE `partitioned_runs`) is the last section: the generic theorem instantiated
with the one-partition machine of the SASE model (Model/Sase.lean, Lemmas/SasePartition.lean), for patterns
without global negations (`.not` acts across partitions by design).
-/
namespace Varpulis.Props.C04
open Varpulis.Window

/-- generic independence: for ANY step machine `m` whose broadcasts are no-ops on a fresh sub-state and
whose removed partitions are back in the initial state, the partitioned machine does for key `k` — state
and emissions, in order — exactly what `m` does on `k`'s sub-sequence. Nothing of another key's events
enters: `proj route k ops` does not contain them. -/
theorem partition_independent {κ σ ι β : Type} [DecidableEq κ] (m : Machine σ ι β) (route : ι → Option κ)
    (drop : ι → List β → Bool)
    (hidle : ∀ b, route b = none → m.step m.init b = (m.init, []))
    (hdrop : ∀ s b, route b = none → drop b (m.step s b).2 = true → (m.step s b).1 = m.init)
    (ops : List ι) (k : κ) :
    ((partitioned m route drop).final (partitioned m route drop).init ops).sub k = m.final m.init (proj route k ops) ∧
    forKey k ((partitioned m route drop).emits (partitioned m route drop).init ops) = m.emits m.init (proj route k ops) :=
  partition_from_init m route drop hidle hdrop ops k

/-- hence the outputs are the union (as a multiset) over the keys of the per-key runs -/
theorem partition_outputs_union {κ σ ι β : Type} [DecidableEq κ] (m : Machine σ ι β) (route : ι → Option κ)
    (drop : ι → List β → Bool)
    (hidle : ∀ b, route b = none → m.step m.init b = (m.init, []))
    (hdrop : ∀ s b, route b = none → drop b (m.step s b).2 = true → (m.step s b).1 = m.init)
    (ops : List ι) (keys : List κ) (hnd : keys.Nodup)
    (hcov : ∀ p ∈ (partitioned m route drop).emits (partitioned m route drop).init ops, p.1 ∈ keys) :
    ((partitioned m route drop).emits (partitioned m route drop).init ops).Perm
      (keys.flatMap (fun k => (m.emits m.init (proj route k ops)).map (fun b => (k, b)))) := by
  have h := perm_group keys _ hnd hcov
  refine h.trans (List.Perm.of_eq ?_)
  rw [List.flatMap_def, List.flatMap_def]
  congr 1
  apply List.map_congr_left
  intro k _
  rw [(partition_from_init m route drop hidle hdrop ops k).2]

/-- instances: every partitioned window kind of the engine -/
theorem tumbling_partitions_independent (d : Int) (ops : List Op) (k : String) :
    ((ptumbling d).final (ptumbling d).init ops).sub k = (tumbling d).final (tumbling d).init (proj winRoute k ops) ∧
    forKey k ((ptumbling d).emits (ptumbling d).init ops) = (tumbling d).emits (tumbling d).init (proj winRoute k ops) :=
  ptumbling_key d ops k

theorem sliding_partitions_independent (size slide : Int) (ops : List Op) (k : String) :
    ((psliding size slide).final (psliding size slide).init ops).sub k = (sliding size slide).final (sliding size slide).init (proj winRoute k ops) ∧
    forKey k ((psliding size slide).emits (psliding size slide).init ops) = (sliding size slide).emits (sliding size slide).init (proj winRoute k ops) :=
  psliding_key size slide ops k

theorem session_partitions_independent (g : Int) (ops : List Op) (k : String) :
    ((psession g).final (psession g).init ops).sub k = (session g).final (session g).init (proj winRoute k ops) ∧
    forKey k ((psession g).emits (psession g).init ops) = (session g).emits (session g).init (proj winRoute k ops) :=
  psession_key g ops k

theorem count_partitions_independent (n : Nat) (ops : List Op) (k : String) :
    ((pcount n).final (pcount n).init ops).sub k = (count n).final (count n).init (proj winRoute k ops) ∧
    forKey k ((pcount n).emits (pcount n).init ops) = (count n).emits (count n).init (proj winRoute k ops) :=
  pcount_key n ops k

theorem slidingCount_partitions_independent (size slide : Nat) (ops : List Op) (k : String) :
    ((pslidingCount size slide).final (pslidingCount size slide).init ops).sub k = (slidingCount size slide).final (slidingCount size slide).init (proj winRoute k ops) ∧
    forKey k ((pslidingCount size slide).emits (pslidingCount size slide).init ops) = (slidingCount size slide).emits (slidingCount size slide).init (proj winRoute k ops) :=
  pslidingCount_key size slide ops k

/-- the sub-sequence of key `k` contains exactly the events whose partition key is `k` -/
theorem sub_sequence_events (ops : List Op) (k : String) :
    adds (proj winRoute k ops) = (adds ops).filter (fun e => e.partKey = k) := adds_proj k ops

/-- events with different partition keys never appear in the same window: every event of a window emitted
for key `k` has partition key `k` (all five window kinds) -/
theorem windows_hold_one_key (ops : List Op) (k : String) :
    (∀ d, ∀ w ∈ forKey k ((ptumbling d).emits (ptumbling d).init ops), ∀ e ∈ w, e.partKey = k) ∧
    (∀ n, ∀ w ∈ forKey k ((pcount n).emits (pcount n).init ops), ∀ e ∈ w, e.partKey = k) ∧
    (∀ g, ∀ w ∈ forKey k ((psession g).emits (psession g).init ops), ∀ e ∈ w, e.partKey = k) ∧
    (∀ size slide, ∀ w ∈ forKey k ((psliding size slide).emits (psliding size slide).init ops), ∀ e ∈ w, e.partKey = k) ∧
    (∀ size slide, ∀ w ∈ forKey k ((pslidingCount size slide).emits (pslidingCount size slide).init ops), ∀ e ∈ w, e.partKey = k) := by
  have key : ∀ e, e ∈ adds (proj winRoute k ops) → e.partKey = k := by
    intro e he; rw [adds_proj] at he; simpa using (List.mem_filter.mp he).2
  refine ⟨?_, ?_, ?_, ?_, ?_⟩
  · intro d w hw e he
    rw [(ptumbling_key d ops k).2] at hw
    exact key e (by simpa [tumbling] using emits_subset (tumbling d) (·.buf) (tumbling_subset d) _ _ w hw e he)
  · intro n w hw e he
    rw [(pcount_key n ops k).2] at hw
    exact key e (by simpa [count] using emits_subset (count n) (·.buf) (count_subset n) _ _ w hw e he)
  · intro g w hw e he
    rw [(psession_key g ops k).2] at hw
    exact key e (by simpa [session] using emits_subset (session g) (·.buf) (session_subset g) _ _ w hw e he)
  · intro size slide w hw e he
    rw [(psliding_key size slide ops k).2] at hw
    exact key e (by simpa [sliding] using emits_subset (sliding size slide) (·.evs) (sliding_subset size slide) _ _ w hw e he)
  · intro size slide w hw e he
    rw [(pslidingCount_key size slide ops k).2] at hw
    exact key e (by simpa [slidingCount] using emits_subset (slidingCount size slide) (·.evs) (slidingCount_subset size slide) _ _ w hw e he)

/-- `PartitionedAggregatorState::apply`: one result per key present in the batch, each the aggregate of
that key's sub-sequence of the batch (for any aggregator `agg`) -/
theorem partitioned_aggregate {α ρ κ : Type} [DecidableEq κ] (agg : List α → ρ) (k : α → κ) (evs : List α) :
    ((papply agg k evs).map (·.1)).Nodup ∧
    (∀ key, key ∈ (papply agg k evs).map (·.1) ↔ ∃ e ∈ evs, k e = key) ∧
    (∀ p ∈ papply agg k evs, p.2 = agg (evs.filter (fun e => k e = p.1))) := by
  have hk : (papply agg k evs).map (·.1) = keysOf k evs := by simp [papply, List.map_map, Function.comp_def]
  refine ⟨hk ▸ keysOf_nodup k evs, fun key => by rw [hk]; exact mem_keysOf k key evs, ?_⟩
  intro p hp
  simp only [papply, List.mem_map] at hp
  obtain ⟨key, _, rfl⟩ := hp
  rfl

/-- engine pipeline `.partition_by(k).window(W).aggregate(..)`: the batch handed to `PartitionedAggregate` is the
concatenation of the windows completed by one call (`window_results.extend(completed)`); regrouping it by key
yields exactly one result per completed non-empty window, computed from that window alone — for every
reachable state of every partitioned window kind and any aggregator. -/
theorem partitioned_window_then_aggregate {ρ : Type} (agg : List Ev → ρ) (pre : List Op) (op : Op) :
    (∀ d, let out := ((ptumbling d).step ((ptumbling d).final (ptumbling d).init pre) op).2
      aggregateStage agg out = (out.filter (fun p => p.2 ≠ [])).map (fun p => (p.1, agg p.2))) ∧
    (∀ n, let out := ((pcount n).step ((pcount n).final (pcount n).init pre) op).2
      aggregateStage agg out = (out.filter (fun p => p.2 ≠ [])).map (fun p => (p.1, agg p.2))) ∧
    (∀ g, let out := ((psession g).step ((psession g).final (psession g).init pre) op).2
      aggregateStage agg out = (out.filter (fun p => p.2 ≠ [])).map (fun p => (p.1, agg p.2))) ∧
    (∀ a b, let out := ((psliding a b).step ((psliding a b).final (psliding a b).init pre) op).2
      aggregateStage agg out = (out.filter (fun p => p.2 ≠ [])).map (fun p => (p.1, agg p.2))) ∧
    (∀ a b, let out := ((pslidingCount a b).step ((pslidingCount a b).final (pslidingCount a b).init pre) op).2
      aggregateStage agg out = (out.filter (fun p => p.2 ≠ [])).map (fun p => (p.1, agg p.2))) :=
  ⟨fun d => Varpulis.Window.partitioned_window_then_aggregate (tumbling d) (·.buf) (tumbling_subset d) (tumbling_one d) rfl never agg pre op,
   fun n => Varpulis.Window.partitioned_window_then_aggregate (count n) (·.buf) (count_subset n) (count_one n) rfl never agg pre op,
   fun g => Varpulis.Window.partitioned_window_then_aggregate (session g) (·.buf) (session_subset g) (session_one g) rfl dropClosed agg pre op,
   fun a b => Varpulis.Window.partitioned_window_then_aggregate (sliding a b) (·.evs) (sliding_subset a b) (sliding_one a b) rfl never agg pre op,
   fun a b => Varpulis.Window.partitioned_window_then_aggregate (slidingCount a b) (·.evs) (slidingCount_subset a b) (slidingCount_one a b) rfl never agg pre op⟩

/-- `Value::to_partition_key` is injective on strings and on integers (values of one type) -/
theorem partition_key_injective :
    (∀ a b : String, (Val.str a).partitionKey = (Val.str b).partitionKey → a = b) ∧
    (∀ a b : Int, (Val.int a).partitionKey = (Val.int b).partitionKey → a = b) :=
  ⟨fun _ _ h => h, fun _ _ h => intKey_inj h⟩

/-- a present key never collides with the missing-key partition: integers never render as the placeholders
(`"default"` for windows/aggregates, `""` for SASE), strings don't under the property's premise -/
theorem partition_key_not_placeholder :
    (∀ i : Int, (Val.int i).partitionKey ≠ windowPlaceholder ∧ (Val.int i).partitionKey ≠ sasePlaceholder) ∧
    (∀ s : String, s ≠ windowPlaceholder → s ≠ sasePlaceholder →
      (Val.str s).partitionKey ≠ windowPlaceholder ∧ (Val.str s).partitionKey ≠ sasePlaceholder) :=
  ⟨fun i => ⟨intKey_ne_default i, intKey_ne_empty i⟩, fun _ h1 h2 => ⟨h1, h2⟩⟩

/-- consequently events are in the same partition iff they agree on the partition field (one value type,
placeholder excluded), and events missing the field form one extra partition -/
theorem same_partition_iff (a b : Ev)
    (hty : ∀ va vb, a.key = some va → b.key = some vb → (∃ x y, va = .str x ∧ vb = .str y) ∨ (∃ x y, va = .int x ∧ vb = .int y))
    (hph : ∀ s, a.key = some (.str s) ∨ b.key = some (.str s) → s ≠ windowPlaceholder) :
    a.partKey = b.partKey ↔ a.key = b.key := by
  constructor
  · intro h
    unfold Ev.partKey at h
    cases ha : a.key with
    | none =>
      cases hb : b.key with
      | none => rfl
      | some vb =>
        rw [ha, hb] at h
        cases vb with
        | str s => exact absurd h.symm (hph s (Or.inr hb))
        | int i => exact absurd h.symm (intKey_ne_default i)
    | some va =>
      cases hb : b.key with
      | none =>
        rw [ha, hb] at h
        cases va with
        | str s => exact absurd h (hph s (Or.inl ha))
        | int i => exact absurd h (intKey_ne_default i)
      | some vb =>
        rw [ha, hb] at h
        rcases hty va vb ha hb with ⟨x, y, rfl, rfl⟩ | ⟨x, y, rfl, rfl⟩
        · simp only [Val.partitionKey] at h; rw [h]
        · simp only [Val.partitionKey] at h; rw [intKey_inj h]
  · intro h; unfold Ev.partKey; rw [h]

/-- non-vacuity: two keys and a missing key, interleaved, count window of 2 -/
example : (pcount 2).emits (pcount 2).init
      [.add ⟨0, 0, some (.str "a")⟩, .add ⟨1, 1, some (.str "b")⟩, .add ⟨2, 2, none⟩, .add ⟨3, 3, some (.str "a")⟩, .add ⟨4, 4, none⟩]
    = [("a", [⟨0, 0, some (.str "a")⟩, ⟨3, 3, some (.str "a")⟩]), ("default", [⟨2, 2, none⟩, ⟨4, 4, none⟩])] := by
  decide


/-! ### partitioned sequence patterns (SASE `partitioned_runs`)

Over a5's step-level model of `sase.rs` (Model/Sase.lean: `stepEngine` = `process_shared`, `runAll`, `matchesOf`;
fragment: sequences of `Event` / `all` steps with `Compare`/`CompareRef`/`And`/`Or`/`Not` filters, no `.within`,
back-pressure strategy `Drop` with the per-partition cap `max_runs`, Kleene cap). Guard, stated explicitly:
`p.negs = []` — a global negation (`.not`) is by design a clause over ALL events and invalidates runs across
partitions (`negation_crosses_partitions_witness`). No premise on `max_runs`: the cap is applied per partition by
`handle_backpressure_partitioned` and to the single `runs` vector by `handle_backpressure`, so a refused run is
refused on both sides. `subStream p k evs` = the events whose key (`to_partition_key` of the field, missing field →
`""`) is `k`; `unpartitioned p` = the same pattern without `partition_by`. -/

open Varpulis.Sase in
/-- `SaseEngine` with `partition_by` IS the generic partitioned machine around the one-partition machine
`keyMachine` (run loop over one `Vec<Run>`, then `try_start_run_shared` + back-pressure), routed by `keyOf`:
from related states, partition maps and per-event matches stay equal. -/
theorem sase_engine_is_partitioned_machine (p : Pat) (hneg : p.negs = []) (cfg : Cfg) (evs : List Event)
    (s : Eng) (ps : PState String (List Run)) (hrel : ∀ k, s.parts k = ps.sub k) :
    (∀ k, (runFrom p cfg s evs).1.parts k = ((partMachine p cfg).final ps evs).sub k) ∧
    (runFrom p cfg s evs).2 = ((partMachine p cfg).emits ps evs).map (·.2) :=
  runFrom_sim hneg cfg evs s ps hrel

open Varpulis.Sase in
/-- partitioned patterns act as independent per-key runs: restricted to the events of key `k`, the per-event
matches of the partitioned engine on the whole stream are exactly those of the pattern without `partition_by`
on `k`'s sub-stream, and partition `k`'s run vector is that engine's run vector. Events of other keys do not
occur in `subStream p k evs`, so they cannot influence either. -/
theorem partitioned_patterns_independent (p : Pat) (hneg : p.negs = []) (cfg : Cfg) (evs : List Event) (k : String) :
    (runAll p cfg evs).2.filter (fun x => keyOf p x.1 = k) = (runAll (unpartitioned p) cfg (subStream p k evs)).2 ∧
    (runAll p cfg evs).1.parts k = (runAll (unpartitioned p) cfg (subStream p k evs)).1.parts "" :=
  patterns_independent hneg cfg evs k

open Varpulis.Sase in
/-- hence the matches of the whole stream are the multiset union over the keys of the per-key runs -/
theorem partitioned_patterns_union (p : Pat) (hneg : p.negs = []) (cfg : Cfg) (evs : List Event) (keys : List String)
    (hnd : keys.Nodup) (hcov : ∀ e ∈ evs, keyOf p e ∈ keys) :
    (matchesOf p cfg evs).Perm (keys.flatMap fun k => matchesOf (unpartitioned p) cfg (subStream p k evs)) :=
  patterns_union hneg cfg evs keys hnd hcov

open Varpulis.Sase in
/-- the guard is needed: `A as a -> B as b .partition_by(k) .not(N)` on `A{k:1} N{k:2} B{k:1}` — the `N` of
partition 2 kills the candidate of partition 1 (no match on the whole stream), while partition 1's own
sub-stream `A B` matches. This is C01/C02's reading of `.not` (a clause over all events), not a defect. -/
theorem negation_crosses_partitions_witness :
    let p : Pat := { steps := [⟨"A", none, some "a", false⟩, ⟨"B", none, some "b", false⟩], partition := some "k", negs := [⟨"N", none⟩] }
    let evs : List Event := [⟨0, "A", [("k", .int 1)]⟩, ⟨1, "N", [("k", .int 2)]⟩, ⟨2, "B", [("k", .int 1)]⟩]
    (matchesOf p {} evs).length = 0 ∧ (matchesOf (unpartitioned p) {} (subStream p "1" evs)).length = 1 := by
  intro p evs
  have h1 := (matches_perm_earliestNF (p := p) (cfg := {}) (evs := evs) (by decide) (noDrop_of_length (by decide))).length_eq
  have hsub : subStream p "1" evs = [⟨0, "A", [("k", .int 1)]⟩, ⟨2, "B", [("k", .int 1)]⟩] := by decide
  have h2 := (matches_perm_earliestNF (p := unpartitioned p) (cfg := {}) (evs := subStream p "1" evs) (by decide)
    (noDrop_of_length (by rw [hsub]; decide))).length_eq
  refine ⟨by rw [h1]; decide, by rw [h2, hsub]; decide⟩

open Varpulis.Sase in
/-- non-vacuity: two keys and a missing key interleaved, `A as a -> all B as b` partitioned by `k` -/
example :
    let p : Pat := { steps := [⟨"A", none, some "a", false⟩, ⟨"B", none, some "b", true⟩], partition := some "k", negs := [] }
    let evs : List Event := [⟨0, "A", [("k", .str "x")]⟩, ⟨1, "A", []⟩, ⟨2, "B", [("k", .str "y")]⟩, ⟨3, "B", [("k", .str "x")]⟩, ⟨4, "B", []⟩]
    p.negs = [] ∧ subStream p "x" evs = [⟨0, "A", [("k", .str "x")]⟩, ⟨3, "B", [("k", .str "x")]⟩] ∧
    subStream p "" evs = [⟨1, "A", []⟩, ⟨4, "B", []⟩] := by
  decide
end Varpulis.Props.C04
