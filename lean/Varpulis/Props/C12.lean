import Varpulis.Lemmas.Partition
/-!
# C12 — tumbling, count and session windows partition their input exactly

Statements over the step machines of `Model/Window.lean` (`tumbling d`, `count n`, `session g`), which mirror
`TumblingWindow`, `CountWindow`, `SessionWindow` (`add_shared`, `advance_watermark`, `check_expired`,
`flush_shared`) branch by branch. `ops` is ANY sequence of API calls: adds with arbitrary (out-of-order,
tied) timestamps, interleaved watermarks, expiry sweeps and flushes. `m.emits init ops` is the list of all
windows handed out, `(m.final init ops).buf` what is still buffered, `adds ops` the events in arrival order.
-/
namespace Varpulis.Props.C12
open Varpulis.Window

/-- tumbling: emitted windows ++ buffer = the input in arrival order (no event lost, none twice), any `ops` -/
theorem tumbling_exactly_once (d : Int) (ops : List Op) :
    ((tumbling d).emits (tumbling d).init ops).flatten ++ ((tumbling d).final (tumbling d).init ops).buf = adds ops := by
  simpa [tumbling] using conserve (tumbling d) (·.buf) (tumbling_step_conserve d) ops (tumbling d).init

/-- count: same -/
theorem count_exactly_once (n : Nat) (ops : List Op) :
    ((count n).emits (count n).init ops).flatten ++ ((count n).final (count n).init ops).buf = adds ops := by
  simpa [count] using conserve (count n) (·.buf) (count_step_conserve n) ops (count n).init

/-- session: same -/
theorem session_exactly_once (g : Int) (ops : List Op) :
    ((session g).emits (session g).init ops).flatten ++ ((session g).final (session g).init ops).buf = adds ops := by
  simpa [session] using conserve (session g) (·.buf) (session_step_conserve g) ops (session g).init

/-- partitioned variants (`PartitionedTumblingWindow`, `PartitionedWindowState`, `PartitionedSessionWindow`):
per key, the windows emitted for that key ++ that key's buffer = the events of that key in arrival order -/
theorem ptumbling_exactly_once (d : Int) (ops : List Op) (k : String) :
    (forKey k ((ptumbling d).emits (ptumbling d).init ops)).flatten ++ (((ptumbling d).final (ptumbling d).init ops).sub k).buf
      = (adds ops).filter (fun e => e.partKey = k) := by
  rw [(ptumbling_key d ops k).1, (ptumbling_key d ops k).2, ← adds_proj]
  exact tumbling_exactly_once d _

theorem pcount_exactly_once (n : Nat) (ops : List Op) (k : String) :
    (forKey k ((pcount n).emits (pcount n).init ops)).flatten ++ (((pcount n).final (pcount n).init ops).sub k).buf
      = (adds ops).filter (fun e => e.partKey = k) := by
  rw [(pcount_key n ops k).1, (pcount_key n ops k).2, ← adds_proj]
  exact count_exactly_once n _

theorem psession_exactly_once (g : Int) (ops : List Op) (k : String) :
    (forKey k ((psession g).emits (psession g).init ops)).flatten ++ (((psession g).final (psession g).init ops).sub k).buf
      = (adds ops).filter (fun e => e.partKey = k) := by
  rw [(psession_key g ops k).1, (psession_key g ops k).2, ← adds_proj]
  exact session_exactly_once g _

/-- a count window closed by an arriving event holds exactly `n` events; a flush hands back fewer than `n` -/
theorem count_closes_with_exactly_n (n : Nat) (hn : 0 < n) (ops : List Op) :
    ∀ p ∈ (count n).trace (count n).init ops, ∀ w ∈ p.2,
      (∀ e, p.1 = .add e → w.length = n) ∧ (p.1 = .flush → w.length < n) :=
  (count_trace hn ops _ (by simp [count, hn])).2

/-- in-order timeline (events and watermarks merged monotonically, ties allowed): every tumbling window —
emitted or still buffered — is in timestamp order and holds only events earlier than its first event + `d` -/
theorem tumbling_in_order (d : Int) (hd : 0 < d) (ops : List Op) (h : InOrder ops) :
    ∀ w ∈ (tumbling d).emits (tumbling d).init ops ++ [((tumbling d).final (tumbling d).init ops).buf],
      TumblingOk d w := by
  obtain ⟨now, hfrom⟩ := inOrder_exists_from h
  exact tumbling_in_order_from hd ops now _ ⟨by simp [tumbling], by simp [tumbling], by simp [tumbling], by simp [tumbling], by simp [tumbling]⟩ hfrom

/-- in-order timeline: in every session window adjacent events are at most `g` apart -/
theorem session_in_order (g : Int) (ops : List Op) (h : InOrder ops) :
    ∀ w ∈ (session g).emits (session g).init ops ++ [((session g).final (session g).init ops).buf],
      SessionOk g w := by
  obtain ⟨now, hfrom⟩ := inOrder_exists_from h
  exact session_in_order_from ops now _ ⟨by simp [session], by simp [session], by simp [session, sessionOk_nil]⟩ hfrom

/-- in-order timeline: an arriving event closes the running session only if its gap to the session's last
event exceeds `g` (sessions are maximal) -/
theorem session_closes_only_on_gap (g : Int) (pre : List Op) (e : Ev) (h : InOrder (pre ++ [.add e])) :
    ∀ w ∈ ((session g).step ((session g).final (session g).init pre) (.add e)).2,
      ∃ x, w.getLast? = some x ∧ e.ts - x.ts > g := session_close_gap pre e h

/-- the same two statements for every partition of the partitioned windows (in-order whole stream) -/
theorem ptumbling_in_order (d : Int) (hd : 0 < d) (ops : List Op) (h : InOrder ops) (k : String) :
    ∀ w ∈ forKey k ((ptumbling d).emits (ptumbling d).init ops) ++ [(((ptumbling d).final (ptumbling d).init ops).sub k).buf],
      TumblingOk d w := by
  rw [(ptumbling_key d ops k).1, (ptumbling_key d ops k).2]
  exact tumbling_in_order d hd _ (inOrder_proj k h)

theorem psession_in_order (g : Int) (ops : List Op) (h : InOrder ops) (k : String) :
    ∀ w ∈ forKey k ((psession g).emits (psession g).init ops) ++ [(((psession g).final (psession g).init ops).sub k).buf],
      SessionOk g w := by
  rw [(psession_key g ops k).1, (psession_key g ops k).2]
  exact session_in_order g _ (inOrder_proj k h)

/-- what the judge checks after every call: at any moment the events handed out so far are a prefix of the
arrivals (in order, nothing twice, nothing skipped) — immediate from `*_exactly_once` -/
theorem emitted_prefix_of_arrivals (ops : List Op) :
    (∀ d, ((tumbling d).emits (tumbling d).init ops).flatten <+: adds ops) ∧
    (∀ n, ((count n).emits (count n).init ops).flatten <+: adds ops) ∧
    (∀ g, ((session g).emits (session g).init ops).flatten <+: adds ops) :=
  ⟨fun d => ⟨_, tumbling_exactly_once d ops⟩, fun n => ⟨_, count_exactly_once n ops⟩, fun g => ⟨_, session_exactly_once g ops⟩⟩

/-- and right after a `flush` everything that arrived has been handed out -/
theorem flushed_all (ops : List Op) :
    (∀ d, ((tumbling d).emits (tumbling d).init (ops ++ [.flush])).flatten = adds ops) ∧
    (∀ n, ((count n).emits (count n).init (ops ++ [.flush])).flatten = adds ops) ∧
    (∀ g, ((session g).emits (session g).init (ops ++ [.flush])).flatten = adds ops) := by
  have hadds : adds (ops ++ [.flush]) = adds ops := by
    induction ops with
    | nil => simp [adds]
    | cons o os ih => rw [List.cons_append, adds_cons, adds_cons o os, ih]
  have hfin : ∀ {σ : Type} (m : Machine σ Op (List Ev)) (s : σ) (l : List Op) (o : Op),
      m.final s (l ++ [o]) = (m.step (m.final s l) o).1 := by
    intro σ m s l o
    induction l generalizing s with
    | nil => simp [Machine.final]
    | cons a l ih => simp [Machine.final, ih]
  refine ⟨fun d => ?_, fun n => ?_, fun g => ?_⟩
  · have h := tumbling_exactly_once d (ops ++ [.flush])
    rw [hfin] at h
    simpa [tumbling, Tumbling.step, hadds] using h
  · have h := count_exactly_once n (ops ++ [.flush])
    rw [hfin] at h
    simpa [count, Count.step, hadds] using h
  · have h := session_exactly_once g (ops ++ [.flush])
    rw [hfin] at h
    simpa [session, Session.step, hadds] using h

/-- the Boolean judges run on the implementation's own windows decide exactly the property predicates -/
theorem judges_decide_the_property (d g : Int) (w : List Ev) :
    (tumblingOkB d w = true ↔ TumblingOk d w) ∧ (sessionOkB g w = true ↔ SessionOk g w) :=
  ⟨tumblingOkB_iff d w, sessionOkB_iff g w⟩

/-- recorded behaviour (allowed by the statement): after a watermark close, a later event beyond the next
boundary makes `add_shared` hand back an empty window `Some([])` -/
theorem tumbling_empty_window_witness :
    (tumbling 3).emits (tumbling 3).init [.add ⟨0, 0, none⟩, .watermark 3, .add ⟨1, 10, none⟩] = [[⟨0, 0, none⟩], []] := by
  decide

/-- non-vacuity: an in-order timeline with a boundary tie, a watermark close and a late-free continuation -/
example : InOrder [.add ⟨0, 0, none⟩, .add ⟨1, 2, none⟩, .add ⟨2, 3, none⟩, .watermark 7, .add ⟨3, 7, none⟩, .flush] ∧
    (tumbling 3).emits (tumbling 3).init [.add ⟨0, 0, none⟩, .add ⟨1, 2, none⟩, .add ⟨2, 3, none⟩, .watermark 7, .add ⟨3, 7, none⟩, .flush]
      = [[⟨0, 0, none⟩, ⟨1, 2, none⟩], [⟨2, 3, none⟩], [⟨3, 7, none⟩]] := by
  constructor
  · simp [InOrder, Op.time, List.filterMap_cons]
  · decide

end Varpulis.Props.C12
