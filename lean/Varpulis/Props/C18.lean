import Varpulis.Lemmas.Simulate
import Std.Data.String.ToInt
/-!
# C18 — multi-worker `varpulis simulate` gives the same results as a single worker

Statements over abstract step machines (Model/Simulate.lean): an engine is any
`step : σ → E → σ × List O`; `run` is one engine on the whole event sequence; `multiRun n w` is
`n` fresh engines, worker `i` receiving (in order) the events with `w e = i`; `partsRun` is the same
for an arbitrary explicit split. `List.Perm` = equality of multisets. The interleaving chosen by
rayon/the OS among the workers' outputs is some permutation and therefore not modelled (*partial*).
`keyed key km` is an engine whose only state is one `km`-state per key — the shape of
`PartitionedWindowState`, `PartitionedSlidingCountWindowState`, SASE `partition_by`.
The facts about `Engine::is_stateless` / `Engine::partition_key` are regenerated from the source into
`Varpulis.Generated.Simulate` on every run, so the side-condition theorems below are re-checked
against the current code.
-/
namespace Varpulis.Props.C18
open Varpulis.Simulate Varpulis.Generated.Simulate

variable {E O σ τ K : Type}

/-- Key-partitioned program: if the worker of an event is a function of its partition key, the
workers together emit the same multiset as a single engine — for every per-key machine, every number
of workers, every event sequence, every assignment. -/
theorem keyed_workers_same_multiset [DecidableEq K] (key : E → K) (km : Machine E O τ) (n : Nat)
    (w : E → Nat) (hw : ∀ e, w e < n) (hk : ∀ e e', key e = key e' → w e = w e')
    (init : K → τ) (es : List E) :
    (multiRun (keyed key km) n w init es).Perm ((keyed key km).run init es) :=
  keyed_multi_perm_gen key km n w hw hk es init (fun _ => init) (fun _ => rfl)

/-- Stateless program: *any* split of the events over the workers (whose union is the input) gives
the same multiset — the assignment need not be a function of the event at all. -/
theorem stateless_any_assignment (m : Machine E O σ) (hm : m.Stateless) (init : σ)
    (parts : List (List E)) (es : List E) (h : parts.flatten.Perm es) :
    (partsRun m init parts).Perm (m.run init es) := by
  obtain ⟨f, hf⟩ := hm
  unfold partsRun
  have e1 : (parts.flatMap fun p => m.run init p) = parts.flatten.flatMap f := by
    simp only [stateless_run hf]
    clear h
    induction parts with
    | nil => simp
    | cons p ps ih => simp [List.flatMap_cons, List.flatMap_append, ih]
  rw [e1, stateless_run hf]
  exact List.Perm.flatMap_right f h

/-- … in particular the CLI's consecutive chunks of `ceil(len / n)` events -/
theorem stateless_chunks_same_multiset (m : Machine E O σ) (hm : m.Stateless) (init : σ)
    (n : Nat) (hn : 0 < n) (es : List E) :
    (partsRun m init (chunks n es)).Perm (m.run init es) :=
  stateless_any_assignment m hm init _ es (by rw [chunks_flatten n hn es])

/-- Programs with several streams: if the statement holds for two engines it holds for their
product (both see every event) -/
theorem product_workers_same_multiset (m₁ : Machine E O σ) (m₂ : Machine E O τ) (n : Nat) (w : E → Nat)
    (i₁ : σ) (i₂ : τ) (es : List E)
    (h₁ : (multiRun m₁ n w i₁ es).Perm (m₁.run i₁ es))
    (h₂ : (multiRun m₂ n w i₂ es).Perm (m₂.run i₂ es)) :
    (multiRun (prod m₁ m₂) n w (i₁, i₂) es).Perm ((prod m₁ m₂).run (i₁, i₂) es) := by
  unfold multiRun at *
  refine (flatMap_perm_pointwise _ _ _ fun i _ => prod_run_perm m₁ m₂ _ i₁ i₂).trans ?_
  refine (flatMap_append_perm _ _ _).trans ?_
  exact (h₁.append h₂).trans (prod_run_perm m₁ m₂ es i₁ i₂).symm

/-- a stateless engine is trivially fine under any key-respecting assignment as well, so mixed
programs (stateless streams next to key-partitioned ones) are covered by the product theorem -/
theorem stateless_is_keyed_for_any_key [DecidableEq K] (key : E → K) (f : E → List O) (n : Nat)
    (w : E → Nat) (hw : ∀ e, w e < n) (hk : ∀ e e', key e = key e' → w e = w e') (es : List E) :
    (multiRun (keyed key (⟨fun _ e => ((), f e)⟩ : Machine E O Unit)) n w (fun _ => ()) es).Perm
      (es.flatMap f) := by
  refine (keyed_workers_same_multiset key _ n w hw hk _ es).trans ?_
  rw [stateless_run (f := f) (by intro s e; simp [keyed])]

/-! ### The CLI hashes the `Value`, the engines key on `to_partition_key` -/

/-- Under the property's premise that the key field is present and of one type (strings), events
with the same engine key get the same worker, whatever the hash function and worker count. -/
theorem cli_assignment_respects_engine_key (disp : Val → String) (hash : Val ⊕ String → Nat)
    (field : String) (n : Nat) (e e' : Ev)
    (hs : ∃ s, e.get field = some (.str s)) (hs' : ∃ s, e'.get field = some (.str s))
    (h : engineKey disp field e = engineKey disp field e') :
    cliWorker hash field n e = cliWorker hash field n e' := by
  obtain ⟨s, hs⟩ := hs
  obtain ⟨s', hs'⟩ := hs'
  simp only [engineKey, hs, hs', toPartitionKey] at h
  simp [cliWorker, cliKey, hs, hs', h]

/-- general form of the premise "one key type": on the key values that occur, `to_partition_key`
is injective (true for strings — identity —, for integers — decimal —, for booleans; false as soon
as two types are mixed) -/
theorem cli_assignment_respects_engine_key_of_injective (disp : Val → String) (hash : Val ⊕ String → Nat)
    (field : String) (n : Nat) (S : Val → Prop)
    (hinj : ∀ v v', S v → S v' → toPartitionKey disp v = toPartitionKey disp v' → v = v')
    (e e' : Ev) (hs : ∃ v, e.get field = some v ∧ S v) (hs' : ∃ v, e'.get field = some v ∧ S v)
    (h : engineKey disp field e = engineKey disp field e') :
    cliWorker hash field n e = cliWorker hash field n e' := by
  obtain ⟨v, hv, sv⟩ := hs
  obtain ⟨v', hv', sv'⟩ := hs'
  simp only [engineKey, hv, hv'] at h
  have := hinj v v' sv sv' h
  simp [cliWorker, cliKey, hv, hv', this]

/-- decimal printing of integers is injective (`Value::Int(i).to_partition_key()` is
`i.to_string()`: an optional `-` and the decimal digits without leading zeros, as Lean's `toString`) -/
theorem int_toString_injective (a b : Int) (h : toString a = toString b) : a = b :=
  Int.repr_injective (by simpa [Int.toString_eq_repr] using h)

/-- the premise "one key type" for integer keys: events whose key field holds integers and that
share the engine key get the same worker, whatever the hash function and worker count -/
theorem cli_assignment_respects_engine_key_int (disp : Val → String) (hash : Val ⊕ String → Nat)
    (field : String) (n : Nat) (e e' : Ev)
    (hs : ∃ i, e.get field = some (.int i)) (hs' : ∃ i, e'.get field = some (.int i))
    (h : engineKey disp field e = engineKey disp field e') :
    cliWorker hash field n e = cliWorker hash field n e' := by
  obtain ⟨i, hi⟩ := hs
  obtain ⟨j, hj⟩ := hs'
  refine cli_assignment_respects_engine_key_of_injective disp hash field n (fun v => ∃ k, v = .int k)
    ?_ e e' ⟨_, hi, i, rfl⟩ ⟨_, hj, j, rfl⟩ h
  rintro v v' ⟨a, rfl⟩ ⟨b, rfl⟩ hk
  simp only [toPartitionKey] at hk
  rw [int_toString_injective a b hk]

/-- integer-keyed events, hash partitioning, a key-partitioned engine -/
theorem simulate_key_partitioned_int (disp : Val → String) (hash : Val ⊕ String → Nat) (field : String)
    (km : Machine Ev O τ) (n : Nat) (hn : 0 < n) (init : String → τ) (es : List Ev)
    (hint : ∀ e : Ev, ∃ i, e.get field = some (Val.int i)) :
    (multiRun (keyed (engineKey disp field) km) n (cliWorker hash field n) init es).Perm
      ((keyed (engineKey disp field) km).run init es) :=
  keyed_workers_same_multiset _ km n _ (fun e => Nat.mod_lt _ hn)
    (fun e e' h => cli_assignment_respects_engine_key_int disp hash field n e e' (hint e) (hint e') h) init es

/-- outside the premise they need not: `Int 1` and `Str "1"` share the engine key `"1"` but are
hashed as different values (and a missing field is keyed `"default"` by the engines while the CLI
falls back to the event type) -/
theorem mixed_key_types_counterexample :
    engineKey (fun _ => "") "k" ⟨"T", [("k", .int 1)]⟩ = engineKey (fun _ => "") "k" ⟨"T", [("k", .str "1")]⟩ ∧
    cliKey "k" ⟨"T", [("k", .int 1)]⟩ ≠ cliKey "k" ⟨"T", [("k", .str "1")]⟩ := by
  decide

/-- The theorem the CLI relies on: string-keyed events, hash partitioning, a key-partitioned engine. -/
theorem simulate_key_partitioned (disp : Val → String) (hash : Val ⊕ String → Nat) (field : String)
    (km : Machine Ev O τ) (n : Nat) (hn : 0 < n) (init : String → τ) (es : List Ev)
    (hstr : ∀ e : Ev, ∃ s, e.get field = some (Val.str s)) :
    (multiRun (keyed (engineKey disp field) km) n (cliWorker hash field n) init es).Perm
      ((keyed (engineKey disp field) km).run init es) :=
  keyed_workers_same_multiset _ km n _ (fun e => Nat.mod_lt _ hn)
    (fun e e' h => cli_assignment_respects_engine_key disp hash field n e e' (hstr e) (hstr e') h) init es

/-! ### Side conditions on `Engine::is_stateless` and `Engine::partition_key` (regenerated facts) -/

theorem allOps_complete (k : OpKind) : k ∈ allOps := by cases k <;> decide

/-- every operation `is_stateless` accepts is one whose step keeps nothing between events -/
theorem is_stateless_accepts_only_stateless_ops : ∀ k ∈ statelessAccepted, carriesState k = false := by
  decide

/-- the per-stream components that hold state outside the operation list must be absent -/
theorem is_stateless_excludes_stateful_components :
    ∀ c ∈ ["sase_engine", "join_buffer", "hamlet_aggregator", "shared_hamlet_ref"], c ∈ statelessRequiresNone := by
  decide

/-- `partition_key()` reads the key of exactly the operations that carry one — in particular of
every operation whose state is partitioned by key — and asks the SASE engine first -/
theorem partition_key_reads_the_partitioned_ops :
    (∀ k, k ∈ partitionKeyOps ↔ hasPartitionKeyField k = true) ∧
    (∀ k, keyedState k = true → k ∈ partitionKeyOps) ∧ partitionKeyReadsSase = true := by
  refine ⟨?_, ?_, by decide⟩ <;> intro k <;> cases k <;> decide

/-! ### Listed finding `C18-output-listing-loss`: what stdout shows is not what the engines emit -/

/-- full-strength statement about *stdout* is false: 2500 emitted events, one worker (channel
capacity 1000) lists 1000 of them, four workers (capacity 4000) list all — different multisets,
although the engines emit the same events (that part is the theorems above) -/
theorem stdout_listing_counterexample :
    ¬ (listedBurst (1000 * 1) (List.replicate 2500 ())).Perm (listedBurst (1000 * 4) (List.replicate 2500 ())) := by
  intro h
  have := h.length_eq
  simp only [listedBurst, List.length_take, List.length_replicate] at this
  omega

/-- partial: as long as the emitted events fit into the channel nothing is dropped by `try_send`
(the judge's guard: a run is attributed to the finding only if the engines' own counter equals the
expected number of events and the listing is a proper sub-multiset of the expected events) -/
theorem stdout_listing_partial (capacity : Nat) (burst : List O) (h : burst.length ≤ capacity) :
    listedBurst capacity burst = burst := by
  simp [listedBurst, List.take_of_length_le h]

/-! ### Why the premises are needed (the seeded changes, on the model) -/

/-- the tumbling count-window program `T.partition_by(k).window(2).aggregate(sum, count)`:
chunking it like a stateless program loses both windows, hashing by key keeps them -/
theorem chunking_a_keyed_program_is_unsound :
    partsRun (keyedCountWindow 2) (fun _ => []) (chunks 2 [("a", 1), ("b", 10), ("a", 2), ("b", 20)]) = [] ∧
    (keyedCountWindow 2).run (fun _ => []) [("a", 1), ("b", 10), ("a", 2), ("b", 20)] = [("a", 3, 2), ("b", 30, 2)] ∧
    multiRun (keyedCountWindow 2) 2 (fun e => if e.1 = "a" then 0 else 1) (fun _ => [])
      [("a", 1), ("b", 10), ("a", 2), ("b", 20)] = [("a", 3, 2), ("b", 30, 2)] := by
  decide

/-- non-vacuity of the stateless premise: the filter/projection program -/
example : (filterMap 5 3).Stateless := ⟨fun e => if e.2 > 5 then [(e.1, e.2 * 3)] else [], fun _ _ => rfl⟩
example : partsRun (filterMap 5 3) () (chunks 3 [("a", 7), ("b", 2), ("c", 9), ("a", 6)]) = [("a", 21), ("c", 27), ("a", 18)] := by
  decide

end Varpulis.Props.C18
