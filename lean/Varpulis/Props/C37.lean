import Varpulis.Lemmas.RaftAgree
/-!
# C37 — coordinators agree on the cluster state and never lose acknowledged writes (conditional)

Model: `Varpulis.RaftAgree` (Model/RaftAgree.lean) over the model of `apply_command` of Model/RaftSync.lean.
Consensus is **trusted, not proved**: openraft's guarantees are the hypothesis `RaftGuarantees c` of the
theorems below (Log Matching, Leader Completeness, entries originate at the leader of their term, nodes
apply only committed entries of their own log) — premises, not axioms. What is proved is varpulis' part:
`apply_to_state_machine` is a deterministic fold that does not depend on batching, a snapshot installed at
any index followed by the rest of the log equals applying the whole log, every state machine reachable
through apply / snapshot-install / in-memory restart holds exactly the committed prefix it has applied;
and, from the premises, State Machine Safety (derived, as in the Raft paper), equal states at equal
positions, and survival of acknowledged writes in every later leader.
-/
namespace Varpulis.Props.C37
open Varpulis.RaftSync Varpulis.RaftAgree

/-- applying a log is independent of how openraft cuts it into batches -/
theorem apply_is_batch_independent (s : RState) (batches : List (List LEntry)) :
    applyLog s batches.flatten = batches.foldl applyLog s := by
  induction batches generalizing s with
  | nil => rfl
  | cons b bs ih => simp only [List.flatten_cons, applyLog_append, List.foldl_cons, ih]

/-- **snapshot equivalence**: the state after the first `j` entries (what `build_snapshot` captures at `j`),
continued with the next entries, is the state after applying the log from the start -/
theorem snapshot_then_rest_equals_full_log (C : List LEntry) (j k : Nat) :
    applyLog (applyLog {} (C.take j)) ((C.drop j).take k) = applyLog {} (C.take (j + k)) := by
  rw [← applyLog_append, List.take_add]

/-- every state machine reachable along the committed log — by any mix of batches, snapshot installs (of
snapshots built anywhere along the same log) and in-memory restarts — holds exactly the prefix it applied -/
theorem reachable_state_is_applied_prefix (C : List LEntry) (m : SM) (h : Reach C m) :
    m.applied ≤ C.length ∧ m.state = applyLog {} (C.take m.applied) := reach_spec C m h

/-- two state machines that reached the same position of the same log are equal, whatever their paths -/
theorem same_position_same_state (C : List LEntry) (a b : SM) (ha : Reach C a) (hb : Reach C b)
    (h : a.applied = b.applied) : a.state = b.state := by
  rw [(reach_spec C a ha).2, (reach_spec C b hb).2, h]

/-- **State Machine Safety from Log Matching + Leader Completeness**: nodes agree on every log prefix that
both have applied -/
theorem applied_prefixes_agree (c : Cluster) (hg : RaftGuarantees c) (a b : Node) (ha : a ∈ c.nodes) (hb : b ∈ c.nodes)
    (i : Nat) (hia : i ≤ a.sm.applied) (hib : i ≤ b.sm.applied) : a.log.take i = b.log.take i :=
  applied_prefix_agree c hg a b ha hb i hia hib

/-- **coordinators agree**: given Raft's guarantees, two coordinators that have applied the replicated log
up to the same position have the same cluster state -/
theorem coordinators_agree (c : Cluster) (hg : RaftGuarantees c) (hr : ∀ n ∈ c.nodes, Reach n.log n.sm)
    (a b : Node) (ha : a ∈ c.nodes) (hb : b ∈ c.nodes) (h : a.sm.applied = b.sm.applied) :
    a.sm.state = b.sm.state := by
  rw [(reach_spec _ _ (hr a ha)).2, (reach_spec _ _ (hr b hb)).2, ← h,
    applied_prefix_agree c hg a b ha hb a.sm.applied (Nat.le_refl _) (by omega)]

/-- … and at every earlier position `i` both had the same state when they were there -/
theorem coordinators_agree_at_every_position (c : Cluster) (hg : RaftGuarantees c) (a b : Node)
    (ha : a ∈ c.nodes) (hb : b ∈ c.nodes) (i : Nat) (hia : i ≤ a.sm.applied) (hib : i ≤ b.sm.applied) :
    applyLog {} (a.log.take i) = applyLog {} (b.log.take i) := by
  rw [applied_prefix_agree c hg a b ha hb i hia hib]

/-- **an acknowledged write is never lost**: it sits at its index in the log of the leader of every later
term … -/
theorem acknowledged_write_in_later_leaders (c : Cluster) (hg : RaftGuarantees c) (i t : Nat) (cmd : Cmd)
    (hack : Acked c i t cmd) (t' : Nat) (L' : List LEntry) (hlt : t < t') (hL' : c.leaderLog t' = some L') :
    ∃ h : i < L'.length, L'[i] = { term := t, payload := .normal cmd } := by
  obtain ⟨L, hL, hi, hent⟩ := hack.atLeader
  obtain ⟨hi', hterm⟩ := hg.leaderCompleteness i t hack.committed t' L' hlt hL'
  refine ⟨hi', ?_⟩
  have hm := hg.logMatching L' L (.inr ⟨t', hL'⟩) (.inr ⟨t, hL⟩) i hi' hi (by rw [hterm, hent])
  have : (L'.take (i + 1))[i]'(by simp; omega) = (L.take (i + 1))[i]'(by simp; omega) := by simp only [hm]
  simpa [hent] using this

/-- … and every later leader that has applied its log beyond that index has the write in its state: its
state is the write applied to the state of the preceding prefix, followed by the rest -/
theorem acknowledged_write_in_later_leader_state (c : Cluster) (hg : RaftGuarantees c) (i t : Nat) (cmd : Cmd)
    (hack : Acked c i t cmd) (t' : Nat) (n : Node) (hlt : t < t') (hL' : c.leaderLog t' = some n.log)
    (hr : Reach n.log n.sm) (happ : i < n.sm.applied) :
    n.sm.state = applyLog (applyCmd (applyLog {} (n.log.take i)) cmd) ((n.log.drop (i + 1)).take (n.sm.applied - (i + 1))) := by
  obtain ⟨hi, hent⟩ := acknowledged_write_in_later_leaders c hg i t cmd hack t' n.log hlt hL'
  obtain ⟨hle, hs⟩ := reach_spec _ _ hr
  have h1 : n.sm.applied = (i + 1) + (n.sm.applied - (i + 1)) := by omega
  rw [hs]
  conv => lhs; rw [h1, List.take_add, applyLog_append]
  congr 1
  rw [List.take_succ_eq_append_getElem hi, applyLog_append, hent]
  rfl

/-- non-vacuity: a two-node cluster (`demo`, Lemmas/RaftAgree.lean) with a two-entry log (a registration and
a connector), one node one entry behind, satisfies the premises; the theorems then say what its state
machines hold -/
example : RaftGuarantees demo ∧ (∀ n ∈ demo.nodes, Reach n.log n.sm) ∧ Acked demo 1 1 (.connectorCreated "c" "mqtt") := by
  have hlog : ∀ l, demo.IsLog l → l = demoLog := by
    intro l h
    rcases h with ⟨n, hn, rfl⟩ | ⟨t, ht⟩
    · simp only [demo, List.mem_cons, List.not_mem_nil, or_false] at hn
      rcases hn with rfl | rfl <;> rfl
    · simp only [demo] at ht
      split at ht
      · exact (Option.some.inj ht).symm
      · cases ht
  refine ⟨⟨?_, ?_, ?_, ?_⟩, ?_, ?_⟩
  · intro a b ha hb i _ _ _
    rw [hlog a ha, hlog b hb]
  · intro i t hc t' L hlt hL
    simp only [demo] at hc hL
    split at hL
    · omega
    · cases hL
  · intro n hn i h
    have hl : n.log = demoLog := hlog _ (.inl ⟨n, hn, rfl⟩)
    refine ⟨demoLog, ?_, ?_⟩
    · have hi : i < 2 := by rw [hl] at h; exact h
      have : n.log[i].term = 1 := by
        match i, hi with
        | 0, _ => simp [hl, demoLog]
        | 1, _ => simp [hl, demoLog]
      simp [demo, this]
    · have hi : i < demoLog.length := by rw [hl] at h; exact h
      exact ⟨hi, by simp only [hl]⟩
  · intro n hn i h
    simp only [demo, List.mem_cons, List.not_mem_nil, or_false] at hn
    rcases hn with rfl | rfl
    · have hi : i < 2 := h
      refine ⟨hi, hi, ?_⟩
      match i, hi with
      | 0, _ => rfl
      | 1, _ => rfl
    · have hi : i < 1 := h
      have : i = 0 := by omega
      subst this
      exact ⟨by decide, by decide, rfl⟩
  · intro n hn
    simp only [demo, List.mem_cons, List.not_mem_nil, or_false] at hn
    rcases hn with rfl | rfl
    · exact Reach.apply {} 2 Reach.init (by decide)
    · exact Reach.apply {} 1 Reach.init (by decide)
  · exact ⟨⟨by decide, rfl⟩, demoLog, rfl, by decide, rfl⟩

end Varpulis.Props.C37
