import Varpulis.Lemmas.Zdd
import Varpulis.Lemmas.ZddTable
import Varpulis.Lemmas.ZddIter
import Varpulis.Lemmas.ZddCache
/-!
# C06 — ZDD operations implement set-family algebra exactly

Statements over the tree model `Varpulis.Zdd` (Model/Zdd.lean), whose operations mirror
`arena.rs` (`*_refs`), `ops/*.rs` (`*_rec`) and `iter.rs` branch by branch.
The family denoted by a ZDD is `sets z`, *defined* as the sequence the iterators yield.
`Ord 0 z` is the ordering invariant; it is preserved by every operation (`C07`),
and holds of every constructor, so it holds of everything reachable through the API.
-/
namespace Varpulis.Props.C06
open Varpulis.Zdd

/-- union is ∪ (no ordering premise needed) -/
theorem union_spec (a b : Z) (s : List Nat) : s ∈ sets (union a b) ↔ s ∈ sets a ∨ s ∈ sets b :=
  mem_union a b s

/-- intersection is ∩ -/
theorem inter_spec (a b : Z) (ha : Ord 0 a) (hb : Ord 0 b) (s : List Nat) :
    s ∈ sets (inter a b) ↔ s ∈ sets a ∧ s ∈ sets b := mem_inter a b 0 ha hb s

/-- difference is \ (standalone `difference_rec`, and arena `difference_refs` since the repair) -/
theorem diff_spec (a b : Z) (ha : Ord 0 a) (hb : Ord 0 b) (s : List Nat) :
    s ∈ sets (diff a b) ↔ s ∈ sets a ∧ s ∉ sets b := mem_diff a b 0 ha hb s

/-- extend-with-optional-element: S ∪ {s ∪ {v} | s ∈ S} -/
theorem pwo_spec (a : Z) (v : Nat) (ha : Ord 0 a) (s : List Nat) :
    s ∈ sets (pwo a v) ↔ s ∈ sets a ∨ ∃ t ∈ sets a, s = insertSorted v t := mem_pwo a v 0 ha s

/-- product: {s ∪ t | s ∈ A, t ∈ B} -/
theorem product_spec (a b : Z) (ha : Ord 0 a) (hb : Ord 0 b) (s : List Nat) :
    s ∈ sets (product a b) ↔ ∃ t ∈ sets a, ∃ u ∈ sets b, s = sunion t u := mem_product a b 0 ha hb s

/-- count is the number of member sets (members are pairwise distinct by C07.iter_nodup) -/
theorem count_spec (a : Z) : count a = (sets a).length := count_eq a

/-- membership query (after the `sort; dedup` normalisation of `contains`) -/
theorem contains_spec (a : Z) (ha : Ord 0 a) (q : List Nat) :
    contains a (normalize q) = true ↔ normalize q ∈ sets a := contains_iff a 0 _ ha

/-- `normalize` is sort+dedup: strictly ascending, same elements -/
theorem normalize_is_sort_dedup (q : List Nat) :
    (normalize q).Pairwise (· < ·) ∧ ∀ x, x ∈ normalize q ↔ x ∈ q := normalize_spec q

/-- `from_set` denotes the singleton family of the sorted, de-duplicated input -/
theorem fromSet_spec (l : List Nat) : sets (fromSet l) = [normalize l] := sets_fromSorted _

theorem singleton_spec (v : Nat) : sets (Zdd.singleton v) = [[v]] := by simp [Zdd.singleton, sets_mk]

/-- The defect repaired by the `fix:` commit in arena.rs: the old arm `av < bv` of
`difference_refs` computed `{{1,2}} \ {{2}} = ∅`. -/
theorem arena_difference_defect_witness :
    sets (diffBuggy (fromSet [1, 2]) (fromSet [2])) = [] ∧ sets (diff (fromSet [1, 2]) (fromSet [2])) = [[1, 2]] := by
  simp [diffBuggy, diff, fromSet, normalize, insertSorted, fromSorted, mk, sets]

/-- non-vacuity: a non-trivial reachable family meets the premises -/
example : Ord 0 (pwo (pwo (fromSet [3]) 1) 2) ∧ sets (pwo (pwo (fromSet [3]) 1) 2) = [[3], [2, 3], [1, 3], [1, 2, 3]] := by
  simp [pwo, fromSet, normalize, insertSorted, fromSorted, mk, sets, Zdd.Ord]

/-! ## Table layer: the arena operations *with their persistent caches* refine the tree operations

`Arena` (Model/ZddTable.lean) mirrors `ZddArena`: the node table plus `union_cache`, `intersection_cache`,
`difference_cache`, `count_cache`. `Arena.OK` = table invariant `TWF` + every entry of every cache is
correct w.r.t. `treeOf`. Each operation, started in an `OK` arena on dereferenceable handles,
returns (`some`: it neither panics nor runs out of the node-id fuel — the termination argument),
keeps `OK`, only appends to the table (`Ext`), and its result denotes the tree operation of
Model/Zdd.lean — whose set-family meaning is given by the theorems above. -/
section Table
open Varpulis.ZddT

/-- a table that only grew keeps every existing handle dereferenceable and denoting the same tree
(so `Ext` in the statements below means: the trees of all existing refs are unchanged) -/
theorem arena_growth_keeps_handles (t t' : Table) (hw : TWF t) (hx : Ext t t') (x : Ref) (hv : Valid t x) :
    Valid t' x ∧ treeOf t' x = treeOf t x := ext_keeps hw hx hv

theorem arena_union_refines (s : Arena) (hs : s.OK) (a b : Ref) (ha : Valid s.table a) (hb : Valid s.table b) :
    ∃ s' r, s.union a b = some (s', r) ∧ s'.OK ∧ Ext s.table s'.table ∧ Valid s'.table r ∧
      treeOf s'.table r = Zdd.union (treeOf s.table a) (treeOf s.table b) := Arena.union_spec hs ha hb

theorem arena_intersection_refines (s : Arena) (hs : s.OK) (a b : Ref) (ha : Valid s.table a) (hb : Valid s.table b) :
    ∃ s' r, s.inter a b = some (s', r) ∧ s'.OK ∧ Ext s.table s'.table ∧ Valid s'.table r ∧
      treeOf s'.table r = Zdd.inter (treeOf s.table a) (treeOf s.table b) := Arena.inter_spec hs ha hb

theorem arena_difference_refines (s : Arena) (hs : s.OK) (a b : Ref) (ha : Valid s.table a) (hb : Valid s.table b) :
    ∃ s' r, s.diff a b = some (s', r) ∧ s'.OK ∧ Ext s.table s'.table ∧ Valid s'.table r ∧
      treeOf s'.table r = Zdd.diff (treeOf s.table a) (treeOf s.table b) := Arena.diff_spec hs ha hb

/-- `product_with_optional` with its per-call cache and the shared union cache -/
theorem arena_pwo_refines (s : Arena) (hs : s.OK) (a : Ref) (ha : Valid s.table a) (var : Nat) :
    ∃ s' r, s.pwo a var = some (s', r) ∧ s'.OK ∧ Ext s.table s'.table ∧ Valid s'.table r ∧
      treeOf s'.table r = Zdd.pwo (treeOf s.table a) var := Arena.pwo_spec hs ha var

/-- `count` through the persistent `count_cache` -/
theorem arena_count_refines (s : Arena) (hs : s.OK) (a : Ref) (ha : Valid s.table a) :
    ∃ s', s.count a = some (s', Zdd.count (treeOf s.table a)) ∧ s'.OK ∧ s'.table = s.table :=
  Arena.count_spec hs ha

theorem arena_contains_refines (s : Arena) (hs : s.OK) (a : Ref) (ha : Valid s.table a) (q : List Nat) :
    s.contains a q = some (Zdd.contains (treeOf s.table a) (normalize q)) := Arena.contains_spec hs ha q

theorem arena_singleton_refines (s : Arena) (hs : s.OK) (var : Nat) :
    (s.singleton var).1.OK ∧ Ext s.table (s.singleton var).1.table ∧
      Valid (s.singleton var).1.table (s.singleton var).2 ∧
      treeOf (s.singleton var).1.table (s.singleton var).2 = Zdd.singleton var := Arena.singleton_spec hs var

theorem arena_from_set_refines (s : Arena) (hs : s.OK) (l : List Nat) :
    (s.fromSet l).1.OK ∧ Ext s.table (s.fromSet l).1.table ∧
      Valid (s.fromSet l).1.table (s.fromSet l).2 ∧
      treeOf (s.fromSet l).1.table (s.fromSet l).2 = Zdd.fromSet l := Arena.fromSet_spec hs l

/-- end to end, for one operation: the handle returned by the cached arena difference denotes exactly
the set difference of the families of its arguments, whatever the cache contents (under `OK`) -/
theorem arena_difference_family (s : Arena) (hs : s.OK) (a b : Ref) (ha : Valid s.table a) (hb : Valid s.table b) :
    ∃ s' r, s.diff a b = some (s', r) ∧ s'.OK ∧
      ∀ m, m ∈ sets (treeOf s'.table r) ↔ m ∈ sets (treeOf s.table a) ∧ m ∉ sets (treeOf s.table b) := by
  obtain ⟨s', r, e, ok, _, _, z⟩ := Arena.diff_spec hs ha hb
  exact ⟨s', r, e, ok, fun m => by
    rw [z]; exact mem_diff _ _ 0 (tree_ord hs.twf ha) (tree_ord hs.twf hb) m⟩

/-- non-vacuity: the empty arena is `OK`; a populated arena computes `{{1,2}} \ {{2}} = {{1,2}}` -/
example : Arena.OK {} := Arena.ok_empty
example : (do
    let s : Arena := {}
    let (s, a) := s.fromSet [1, 2]
    let (s, b) := s.fromSet [2]
    let (s, r) ← s.diff a b
    pure (sets (treeOf s.table r))) = some [[1, 2]] := by decide +kernel

/-! ### standalone `Zdd` (own table per value; `remap_nodes` + per-call caches) -/

/-- `remap_nodes(other)` into a clone of `self`'s table: `self`'s refs keep their trees (`Ext`), the
remapped root denotes `other`'s tree, the combined table is well-formed -/
theorem zdd_remap_nodes_preserves (self other : ZddS) (hs : self.OK) (ho : other.OK) :
    ∃ t r, self.remapInto other = some (t, r) ∧ Ext self.table t ∧ TWF t ∧ Valid t r ∧ treeOf t r = other.den :=
  ZddS.remapInto_spec hs ho

theorem zdd_constructors_refine (v : Nat) (l : List Nat) :
    (ZddS.empty.OK ∧ ZddS.empty.den = .empty) ∧ (ZddS.base.OK ∧ ZddS.base.den = .base) ∧
    ((ZddS.singleton v).OK ∧ (ZddS.singleton v).den = Zdd.singleton v) ∧
    ((ZddS.fromSet l).OK ∧ (ZddS.fromSet l).den = Zdd.fromSet l) :=
  ⟨ZddS.ok_empty, ZddS.ok_base, ZddS.singleton_spec v, ZddS.fromSet_spec l⟩

theorem zdd_union_refines (self other : ZddS) (hs : self.OK) (ho : other.OK) :
    ∃ z, self.union other = some z ∧ z.OK ∧ z.den = Zdd.union self.den other.den := ZddS.union_spec hs ho

theorem zdd_intersection_refines (self other : ZddS) (hs : self.OK) (ho : other.OK) :
    ∃ z, self.inter other = some z ∧ z.OK ∧ z.den = Zdd.inter self.den other.den := ZddS.inter_spec hs ho

theorem zdd_difference_refines (self other : ZddS) (hs : self.OK) (ho : other.OK) :
    ∃ z, self.diff other = some z ∧ z.OK ∧ z.den = Zdd.diff self.den other.den := ZddS.diff_spec hs ho

theorem zdd_product_refines (self other : ZddS) (hs : self.OK) (ho : other.OK) :
    ∃ z, self.product other = some z ∧ z.OK ∧ z.den = Zdd.product self.den other.den := ZddS.product_spec hs ho

theorem zdd_pwo_refines (self : ZddS) (hs : self.OK) (var : Nat) :
    ∃ z, self.pwo var = some z ∧ z.OK ∧ z.den = Zdd.pwo self.den var := ZddS.pwo_spec hs var

theorem zdd_count_contains_refine (self : ZddS) (hs : self.OK) (q : List Nat) :
    self.count = some (Zdd.count self.den) ∧ self.contains q = some (Zdd.contains self.den (normalize q)) :=
  ⟨ZddS.count_spec hs, ZddS.contains_spec hs q⟩

/-! ### iteration and `count_uncached` at table level -/

/-- `arena.iter(h).collect()` through the `ArenaIterator` step machine is the family in `sets` order -/
theorem arena_iteration_refines (s : Arena) (hs : s.OK) (a : Ref) (ha : Valid s.table a) :
    s.iterAll a = some (sets (treeOf s.table a)) := Arena.iterAll_spec hs ha

/-- `Zdd::iter().collect()` / `to_sets` through the `ZddIterator` step machine -/
theorem zdd_iteration_refines (z : ZddS) (hz : z.OK) : z.toSets = some (sets z.den) := ZddS.toSets_spec hz

/-- `count_uncached` (per-call cache instead of `count_cache`) is the count of the denoted tree -/
theorem arena_count_uncached_refines (s : Arena) (hs : s.OK) (a : Ref) (ha : Valid s.table a) :
    s.countUncached a = some (Zdd.count (treeOf s.table a)) := Arena.countUncached_spec hs ha

/-! ### the caches are maps: no key is ever inserted twice -/

/-- `Arena.KeysNodup`: in each of the four persistent caches every key occurs at most once. It holds initially
and is kept by every arena operation (a key is inserted only after a miss, and the recursive calls in
between only insert keys of strictly smaller node-id rank), so modelling `FxHashMap` by an association
list loses nothing — not even `len()`. -/
theorem arena_caches_functional (s : Arena) (hs : s.OK) (hk : s.KeysNodup) (a b : Ref) (ha : Valid s.table a)
    (hb : Valid s.table b) (v : Nat) (l : List Nat) (live : List Ref) :
    Arena.KeysNodup {} ∧
    (∀ s' r, s.union a b = some (s', r) → s'.KeysNodup) ∧ (∀ s' r, s.inter a b = some (s', r) → s'.KeysNodup) ∧
    (∀ s' r, s.diff a b = some (s', r) → s'.KeysNodup) ∧ (∀ s' r, s.pwo a v = some (s', r) → s'.KeysNodup) ∧
    (∀ s' k, s.count a = some (s', k) → s'.KeysNodup) ∧ (s.singleton v).1.KeysNodup ∧ (s.fromSet l).1.KeysNodup ∧
    s.gcCachesOnly.KeysNodup ∧ (∀ s' roots, s.gc live = some (s', roots) → s'.KeysNodup) := by
  refine ⟨Arena.keysNodup_empty, fun _ _ h => Arena.union_keys hs hk ha hb h, fun _ _ h => Arena.inter_keys hs hk ha hb h,
    fun _ _ h => Arena.diff_keys hs hk ha hb h, fun _ _ h => Arena.pwo_keys hs hk ha v h,
    fun _ _ h => Arena.count_keys hs hk ha h, ⟨hk.u, hk.i, hk.d, hk.c⟩, ⟨hk.u, hk.i, hk.d, hk.c⟩,
    ⟨List.nodup_nil, List.nodup_nil, List.nodup_nil, List.nodup_nil⟩, ?_⟩
  intro s' roots h
  simp only [Arena.gc] at h
  cases hr : remapAll s.table #[] [] live with
  | none => simp [hr] at h
  | some x => simp [hr] at h; obtain ⟨rfl, _⟩ := h; exact ⟨List.nodup_nil, List.nodup_nil, List.nodup_nil, List.nodup_nil⟩

/-- every tree denoted by a standalone `Zdd` or an arena handle satisfies the ordering premise
`Ord 0` of the tree-layer theorems above -/
theorem denoted_trees_ordered (t : Table) (hw : TWF t) (r : Ref) (hv : Valid t r) : Ord 0 (treeOf t r) :=
  tree_ord hw hv

end Table

end Varpulis.Props.C06
