import Varpulis.Lemmas.Zdd
/-!
# C06 — ZDD operations implement set-family algebra exactly

Statements over the tree model `Varpulis.Zdd` (Model/Zdd.lean), whose operations mirror
`arena.rs` (`*_refs`), `ops/*.rs` (`*_rec`) and `iter.rs` branch by branch.
The family denoted by a ZDD is `sets z`, *defined* as the sequence the iterators yield.
`Ord 0 z` is the ordering invariant; it is preserved by every operation (`C07`),
and holds of every constructor, so it holds of everything reachable through the API.
-/
namespace Varpulis.Props.C06
open Varpulis.Zdd

/-- union is ∪ (no ordering premise needed) -/
theorem union_spec (a b : Z) (s : List Nat) : s ∈ sets (union a b) ↔ s ∈ sets a ∨ s ∈ sets b :=
  mem_union a b s

/-- intersection is ∩ -/
theorem inter_spec (a b : Z) (ha : Ord 0 a) (hb : Ord 0 b) (s : List Nat) :
    s ∈ sets (inter a b) ↔ s ∈ sets a ∧ s ∈ sets b := mem_inter a b 0 ha hb s

/-- difference is \ (standalone `difference_rec`, and arena `difference_refs` since the repair) -/
theorem diff_spec (a b : Z) (ha : Ord 0 a) (hb : Ord 0 b) (s : List Nat) :
    s ∈ sets (diff a b) ↔ s ∈ sets a ∧ s ∉ sets b := mem_diff a b 0 ha hb s

/-- extend-with-optional-element: S ∪ {s ∪ {v} | s ∈ S} -/
theorem pwo_spec (a : Z) (v : Nat) (ha : Ord 0 a) (s : List Nat) :
    s ∈ sets (pwo a v) ↔ s ∈ sets a ∨ ∃ t ∈ sets a, s = insertSorted v t := mem_pwo a v 0 ha s

/-- product: {s ∪ t | s ∈ A, t ∈ B} -/
theorem product_spec (a b : Z) (ha : Ord 0 a) (hb : Ord 0 b) (s : List Nat) :
    s ∈ sets (product a b) ↔ ∃ t ∈ sets a, ∃ u ∈ sets b, s = sunion t u := mem_product a b 0 ha hb s

/-- count is the number of member sets (members are pairwise distinct by C07.iter_nodup) -/
theorem count_spec (a : Z) : count a = (sets a).length := count_eq a

/-- membership query (after the `sort; dedup` normalisation of `contains`) -/
theorem contains_spec (a : Z) (ha : Ord 0 a) (q : List Nat) :
    contains a (normalize q) = true ↔ normalize q ∈ sets a := contains_iff a 0 _ ha

/-- `normalize` is sort+dedup: strictly ascending, same elements -/
theorem normalize_is_sort_dedup (q : List Nat) :
    (normalize q).Pairwise (· < ·) ∧ ∀ x, x ∈ normalize q ↔ x ∈ q := normalize_spec q

/-- `from_set` denotes the singleton family of the sorted, de-duplicated input -/
theorem fromSet_spec (l : List Nat) : sets (fromSet l) = [normalize l] := sets_fromSorted _

theorem singleton_spec (v : Nat) : sets (Zdd.singleton v) = [[v]] := by simp [Zdd.singleton, sets_mk]

/-- The defect repaired by the `fix:` commit in arena.rs: the old arm `av < bv` of
`difference_refs` computed `{{1,2}} \ {{2}} = ∅`. -/
theorem arena_difference_defect_witness :
    sets (diffBuggy (fromSet [1, 2]) (fromSet [2])) = [] ∧ sets (diff (fromSet [1, 2]) (fromSet [2])) = [[1, 2]] := by
  simp [diffBuggy, diff, fromSet, normalize, insertSorted, fromSorted, mk, sets]

/-- non-vacuity: a non-trivial reachable family meets the premises -/
example : Ord 0 (pwo (pwo (fromSet [3]) 1) 2) ∧ sets (pwo (pwo (fromSet [3]) 1) 2) = [[3], [2, 3], [1, 3], [1, 2, 3]] := by
  simp [pwo, fromSet, normalize, insertSorted, fromSorted, mk, sets, Zdd.Ord]

end Varpulis.Props.C06
