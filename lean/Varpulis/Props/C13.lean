import Varpulis.Lemmas.Partition
/-!
# C13 — sliding windows contain exactly the events in range at each emission

`sliding size slide` mirrors `SlidingWindow::{add_shared, advance_watermark}`, `slidingCount size slide` mirrors
`SlidingCountWindow::{new, add_shared}` (Model/Window.lean). `pre` is the history of API calls so far, `o` the
next call; `adds pre` are the events so far in arrival order; `lastEmission none (trace init pre)` is the
time of the latest earlier call that emitted (read off the trace, not off the state).
Premise of the time-sliding statements: the timeline (event times and watermark times) is in order, ties
allowed — the property quantifies over in-order streams.
-/
namespace Varpulis.Props.C13
open Varpulis.Window

/-- time-sliding, full statement: every call emits exactly what the oracle `slidingExpected` prescribes —
for an event `e`: iff it is the first emission or `e.ts ≥ last emission + slide`, and then exactly the events
so far (incl. `e`) with `ts ≥ e.ts − size`, in arrival order; for a watermark `t`: the events with
`ts ≥ t − size` if that is non-empty and the slide has elapsed. -/
theorem sliding_emission (size slide : Int) (pre : List Op) (o : Op) (h : InOrder (pre ++ [o])) :
    ((sliding size slide).step ((sliding size slide).final (sliding size slide).init pre) o).2 =
      slidingExpected size slide (lastEmission none ((sliding size slide).trace (sliding size slide).init pre)) (adds pre) o :=
  Varpulis.Window.sliding_emission pre o h

/-- content of an emission triggered by event `e`: exactly the events within `size` of `e`, in arrival order -/
theorem sliding_content (size slide : Int) (pre : List Op) (e : Ev) (h : InOrder (pre ++ [.add e])) :
    ∀ w ∈ ((sliding size slide).step ((sliding size slide).final (sliding size slide).init pre) (.add e)).2,
      w = (adds pre ++ [e]).filter (fun x => decide (e.ts - size ≤ x.ts)) := by
  rw [sliding_emission size slide pre _ h]
  intro w hw
  simp only [slidingExpected] at hw
  split at hw <;> simp_all [inRange]

/-- timing: event `e` triggers an emission iff nothing was emitted before or the slide interval has elapsed
since the previous emission -/
theorem sliding_emits_iff (size slide : Int) (pre : List Op) (e : Ev) (h : InOrder (pre ++ [.add e])) :
    ((sliding size slide).step ((sliding size slide).final (sliding size slide).init pre) (.add e)).2 ≠ [] ↔
      (lastEmission none ((sliding size slide).trace (sliding size slide).init pre) = none ∨
       ∃ l, lastEmission none ((sliding size slide).trace (sliding size slide).init pre) = some l ∧ e.ts ≥ l + slide) := by
  rw [sliding_emission size slide pre _ h]
  simp only [slidingExpected, slideDue]
  cases lastEmission none ((sliding size slide).trace (sliding size slide).init pre) with
  | none => simp
  | some l => simp

/-- count-sliding, full statement (`0 < size`, `0 < slide`, any history): the `i`-th event emits iff
`size ≤ i` and `(i − size) % slide = 0` — i.e. first when the window is first full, then every `slide`
events — and the emission is exactly the last `size` events. Other API calls emit nothing. -/
theorem slidingCount_emission (size slide : Nat) (hsz : 0 < size) (hsl : 0 < slide) (pre : List Op) (o : Op) :
    ((slidingCount size slide).step ((slidingCount size slide).final (slidingCount size slide).init pre) o).2 =
      slidingCountExpected size slide (adds pre) o :=
  Varpulis.Window.slidingCount_emission hsz hsl pre o

/-- each emission holds exactly `size` events: the last `size` of the stream so far -/
theorem slidingCount_last_n (size slide : Nat) (hsz : 0 < size) (hsl : 0 < slide) (pre : List Op) (e : Ev) :
    ∀ w ∈ ((slidingCount size slide).step ((slidingCount size slide).final (slidingCount size slide).init pre) (.add e)).2,
      w.length = size ∧ w = (adds pre ++ [e]).drop ((adds pre).length + 1 - size) := by
  rw [slidingCount_emission size slide hsz hsl]
  intro w hw
  simp only [slidingCountExpected] at hw
  split at hw
  · simp at hw; subst hw; simp; omega
  · simp at hw

/-- emissions happen exactly at the arrival indices `size, size + slide, size + 2·slide, …` -/
theorem slidingCount_emits_iff (size slide : Nat) (hsz : 0 < size) (hsl : 0 < slide) (pre : List Op) (e : Ev) :
    ((slidingCount size slide).step ((slidingCount size slide).final (slidingCount size slide).init pre) (.add e)).2 ≠ [] ↔
      ∃ k, (adds pre).length + 1 = size + k * slide := by
  rw [slidingCount_emission size slide hsz hsl]
  simp only [slidingCountExpected]
  constructor
  · intro h
    split at h
    · rename_i hc
      refine ⟨((adds pre).length + 1 - size) / slide, ?_⟩
      have := Nat.div_add_mod ((adds pre).length + 1 - size) slide
      rw [hc.2, Nat.mul_comm] at this
      omega
    · simp at h
  · rintro ⟨k, hk⟩
    have : size ≤ (adds pre).length + 1 ∧ ((adds pre).length + 1 - size) % slide = 0 := by
      refine ⟨by omega, ?_⟩
      have : (adds pre).length + 1 - size = k * slide := by omega
      rw [this]; exact Nat.mul_mod_left k slide
    rw [if_pos this]; simp

/-- partitioned variants (`PartitionedSlidingWindow`, `PartitionedSlidingCountWindowState`): each key's
emissions are those of a plain sliding window fed with that key's sub-sequence (C04 instance), so the
statements above hold per key; an in-order stream has in-order sub-sequences. -/
theorem psliding_per_key (size slide : Int) (ops : List Op) (k : String) :
    forKey k ((psliding size slide).emits (psliding size slide).init ops) =
      (sliding size slide).emits (sliding size slide).init (proj winRoute k ops) := (psliding_key size slide ops k).2

theorem pslidingCount_per_key (size slide : Nat) (ops : List Op) (k : String) :
    forKey k ((pslidingCount size slide).emits (pslidingCount size slide).init ops) =
      (slidingCount size slide).emits (slidingCount size slide).init (proj winRoute k ops) := (pslidingCount_key size slide ops k).2

theorem sub_sequence_in_order (ops : List Op) (h : InOrder ops) (k : String) : InOrder (proj winRoute k ops) :=
  inOrder_proj k h

/-- the defect repaired by the `fix:` commit in window.rs: with `events_since_emit` starting at 0, a
window of size 2 sliding by 3 first emitted at the 3rd event (`[1,2]`) instead of when first full (`[0,1]`) -/
theorem slidingCount_slide_gt_size_defect_witness :
    (slidingCountOld 2 3).emits (slidingCountOld 2 3).init [.add ⟨0, 0, none⟩, .add ⟨1, 1, none⟩, .add ⟨2, 2, none⟩]
      = [[⟨1, 1, none⟩, ⟨2, 2, none⟩]] ∧
    (slidingCount 2 3).emits (slidingCount 2 3).init [.add ⟨0, 0, none⟩, .add ⟨1, 1, none⟩, .add ⟨2, 2, none⟩]
      = [[⟨0, 0, none⟩, ⟨1, 1, none⟩]] := by
  decide

/-- non-vacuity: in-order stream with a tie at the cutoff; size 2, slide 2 -/
example : InOrder [.add ⟨0, 0, none⟩, .add ⟨1, 1, none⟩, .add ⟨2, 2, none⟩, .add ⟨3, 2, none⟩, .add ⟨4, 4, none⟩] ∧
    (sliding 2 2).emits (sliding 2 2).init [.add ⟨0, 0, none⟩, .add ⟨1, 1, none⟩, .add ⟨2, 2, none⟩, .add ⟨3, 2, none⟩, .add ⟨4, 4, none⟩]
      = [[⟨0, 0, none⟩], [⟨0, 0, none⟩, ⟨1, 1, none⟩, ⟨2, 2, none⟩], [⟨2, 2, none⟩, ⟨3, 2, none⟩, ⟨4, 4, none⟩]] := by
  constructor
  · simp [InOrder, Op.time]
  · decide

end Varpulis.Props.C13
