import Varpulis.Lemmas.Ctx
/-!
# C27 — coordinated multi-context checkpoints form a consistent cut

Model: `Varpulis.Ctx` (Model/Ctx.lean). `CheckpointCoordinator::initiate` puts the barrier of
checkpoint `k` *directly into every inbox* (`start`, `inject c`); a context that takes the barrier
snapshots its engine and acks (`recv c`); `receive_ack` assembles the checkpoint once every context
has acked (`collect`). Each snapshot carries, as ghost data, the history at the moment it was taken.
`CutConsistent parts`: on every context→context edge, what the producer had enqueued at its
snapshot is exactly what the consumer had taken at its own — the cut has no message in flight,
which is what a checkpoint that stores no channel state needs in order to be restorable.
-/
namespace Varpulis.Props.C27
open Varpulis.Ctx

variable {σ ε : Type}

/-- Partial (narrow guard = a *quiet* checkpoint): if the barriers are injected while the network
is quiescent (all inboxes and engine output queues empty, no checkpoint pending) and the ingress
feeds nothing until the checkpoint completes, then — for any interleaving of injections, barrier
handling and ack collection — every checkpoint completed in that phase is a consistent cut, and
each context's snapshot is its engine state at injection time. -/
theorem cut_consistent_partial (net : Net σ ε) (inputs : List ε) (σ0 : Nat → σ) (s1 s2 : St σ ε)
    (h1 : Reach net (init inputs σ0) s1) (hq : Quiescent net s1) (hp : s1.pending = none)
    (ha : s1.acks = []) (labels : List Label) (hnf : Label.feed ∉ labels)
    (hrun : runL net s1 labels = some s2) :
    ∃ new, s2.done = s1.done ++ new ∧
      ∀ ck ∈ new, CutConsistent ck.2 ∧ ∀ sn ∈ ck.2, sn.ctx < net.n ∧ sn.eng = s1.eng sn.ctx := by
  have hinv := phaseInv_run net s1 labels (Or.inl hnf) s1 s2 (phaseInv_refl net s1 hq hp ha) hrun
  obtain ⟨new, hn, hg⟩ := hinv.done
  refine ⟨new, hn, fun ck hck => ⟨?_, fun sn hsn => ⟨(hg ck hck sn hsn).1, (hg ck hck sn hsn).2.1⟩⟩⟩
  exact goodSnaps_consistent net s1 (reach_edgeInv net _ s1 (edgeInv_init inputs σ0) h1) hq ck.2 (hg ck hck)

/-- … and in that phase nothing else moves: engines, outputs and the pending inputs are untouched,
so restoring the snapshots *is* going back to the state at injection time. -/
theorem quiet_checkpoint_freezes (net : Net σ ε) (s1 s2 : St σ ε) (hq : Quiescent net s1)
    (hp : s1.pending = none) (ha : s1.acks = []) (labels : List Label) (hnf : Label.feed ∉ labels)
    (hrun : runL net s1 labels = some s2) :
    s2.todo = s1.todo ∧ s2.out = s1.out ∧ (∀ c, s2.eng c = s1.eng c) ∧
      (∀ c, c < net.n → s2.pend c = [] ∧ ∀ m ∈ s2.inbox c, ∃ k, m = Msg.bar k) := by
  have hinv := phaseInv_run net s1 labels (Or.inl hnf) s1 s2 (phaseInv_refl net s1 hq hp ha) hrun
  exact ⟨hinv.todo, hinv.out, hinv.eng, fun c hc => ⟨hinv.pend c hc, hinv.bars c hc⟩⟩

/-- … and restoring every context from such a checkpoint and replaying the inputs that were not
yet consumed *is* going back to the state at injection time: the restored system has the engines,
the (empty) inboxes and exactly the pending inputs of that moment, so its runs are the
continuations of the original run — nothing passed between contexts is lost or duplicated.
(One snapshot per context: the assembled checkpoint covers all `n` contexts.) -/
theorem quiet_restore_is_rollback (net : Net σ ε) (hd : net.dflt < net.n) (inputs : List ε)
    (σ0 : Nat → σ) (s1 s2 : St σ ε) (h1 : Reach net (init inputs σ0) s1) (hq : Quiescent net s1)
    (hp : s1.pending = none) (ha : s1.acks = []) (labels : List Label) (hnf : Label.feed ∉ labels)
    (hrun : runL net s1 labels = some s2) :
    ∃ new, s2.done = s1.done ++ new ∧ ∀ ck ∈ new,
      (restore net inputs σ0 ck.2).todo = s1.todo ∧
      ∀ c, c < net.n → (restore net inputs σ0 ck.2).eng c = s1.eng c ∧
        (restore net inputs σ0 ck.2).inbox c = s1.inbox c ∧ (restore net inputs σ0 ck.2).pend c = s1.pend c :=
  quiet_restore net hd inputs σ0 s1 s2 h1 hq hp ha labels hnf hrun

/-- The full-strength statement fails. Two contexts (context 0 feeds context 1), barriers injected
while input `1` is still queued at context 0: context 1 takes its barrier first, context 0
processes the input and forwards `11`, then takes its own barrier. The completed checkpoint is not
a consistent cut: `11` was sent before the sender's snapshot and received after the receiver's —
it is in neither snapshot. -/
theorem cut_consistent_counterexample :
    ∃ s, Reach (chain2 4 false) (init [1] (fun _ => ())) s ∧
      ∃ ck ∈ s.done, ¬ CutConsistent ck.2 ∧
        ∃ a ∈ ck.2, ∃ b ∈ ck.2, a.ctx = 0 ∧ b.ctx = 1 ∧
          enq a.hist (.ctx 0) 1 = [11] ∧ cons b.hist (.ctx 0) 1 = [] := by
  obtain ⟨s, hr, hp⟩ := witness (chain2 4 false) (init [1] (fun _ => ()))
    [.feed, .start, .inject 0, .inject 1, .recv 1, .recv 0, .fwd 0, .recv 0, .collect, .collect]
    (fun s => decide (∃ ck ∈ s.done, ¬ CutConsistent ck.2 ∧
        ∃ a ∈ ck.2, ∃ b ∈ ck.2, a.ctx = 0 ∧ b.ctx = 1 ∧
          enq a.hist (.ctx 0) 1 = [11] ∧ cons b.hist (.ctx 0) 1 = [])) (by decide)
  exact ⟨s, hr, of_decide_eq_true hp⟩

/-- Restoring that checkpoint and replaying the inputs not yet consumed loses the event: input `1`
was consumed by context 0 before its snapshot, so nothing is replayed; context 1 restarts from a
snapshot taken before `11` arrived; `11` itself was only in the (lost) inbox. In *every* run of the
restored system the output stays empty, although the outputs emitted before the cut are `[11]` and
the uninterrupted run outputs `[11, 21]`: the consumer's reaction `21` is lost for good. -/
theorem restore_replay_loses_counterexample :
    ∃ s parts, Reach (chain2 4 false) (init [1] (fun _ => ())) s ∧ (1, parts) ∈ s.done ∧
      parts.flatMap (fun sn => outOf sn.hist sn.ctx) = [11] ∧
      (∀ r, Reach (chain2 4 false) (restore (chain2 4 false) [1] (fun _ => ()) parts) r → r.out = []) ∧
      ∃ u, Reach (chain2 4 false) (init [1] (fun _ => ())) u ∧ Quiescent (chain2 4 false) u ∧
        u.todo = [] ∧ u.out = [11, 21] := by
  obtain ⟨s, hr, hp⟩ := witness (chain2 4 false) (init [1] (fun _ => ()))
    [.feed, .start, .inject 0, .inject 1, .recv 1, .recv 0, .fwd 0, .recv 0, .collect, .collect]
    (fun s => match s.done with
      | [(1, parts)] => decide (parts.flatMap (fun sn => outOf sn.hist sn.ctx) = [11] ∧
          (restore (chain2 4 false) [1] (fun _ => ()) parts).todo = [])
      | _ => false) (by decide)
  obtain ⟨u, hu, hpu⟩ := witness (chain2 4 false) (init [1] (fun _ => ()))
    [.feed, .recv 0, .fwd 0, .recv 1, .fwd 1]
    (fun u => decide (Quiescent (chain2 4 false) u ∧ u.todo = [] ∧ u.out = [11, 21])) (by decide)
  split at hp
  · rename_i parts hd
    have hp := of_decide_eq_true hp
    refine ⟨s, parts, hr, by rw [hd]; simp, hp.1, ?_, u, hu, of_decide_eq_true hpu⟩
    intro r hrr
    have h0 : PhaseInv (chain2 4 false) (restore (chain2 4 false) [1] (fun _ => ()) parts)
        (restore (chain2 4 false) [1] (fun _ => ()) parts) :=
      phaseInv_refl _ _ (by intro c _; simp [restore, init]) (by simp [restore, init]) (by simp [restore, init])
    have := (phaseInv_reach _ _ r hp.2 h0 hrr).out
    simpa [restore, init] using this
  · simp at hp

/-- Non-vacuity of the partial theorem: a quiet checkpoint of the same network after the first
input went through completes and is consistent. -/
example : ∃ s, Reach (chain2 4 false) (init [1, 2] (fun _ => ())) s ∧
    ∃ ck ∈ s.done, ck.2.length = 2 ∧ CutConsistent ck.2 := by
  obtain ⟨s, hr, hp⟩ := witness (chain2 4 false) (init [1, 2] (fun _ => ()))
    [.feed, .recv 0, .fwd 0, .recv 1, .fwd 1, .start, .inject 1, .recv 1, .inject 0, .recv 0, .collect, .collect]
    (fun s => decide (∃ ck ∈ s.done, ck.2.length = 2 ∧ CutConsistent ck.2)) (by decide)
  exact ⟨s, hr, of_decide_eq_true hp⟩

end Varpulis.Props.C27
