import Varpulis.Lemmas.Sase
/-!
# C02 — sequence patterns report exactly the earliest completion of every start event

`Spec.earliest p evs` (Model/Sase.lean) is the reference semantics, written from the property text:
every event that can begin the pattern is a candidate; at every step the candidate takes the earliest
later event of its partition that satisfies the step given the captures so far; an event satisfying a
`.not` clause *before the completion* kills it. `matchesOf p cfg evs` are the matches the engine model
(`process_shared` …) emits. Premises: `p.allFree` (no `all` step) and
`(runAll p cfg evs).1.dropped = false` (backpressure never refused a run; `noDrop_of_short_stream`
gives the simple sufficient condition `evs.length ≤ max_runs`).

The full-strength statement

    theorem eq_earliest : p.allFree → (runAll p cfg evs).1.dropped = false →
        (matchesOf p cfg evs).Perm (Spec.earliest p evs)

is **false** of the engine (and of the model that mirrors it): `check_global_negations` runs before the
runs advance, so an event that both satisfies a `.not` clause and would complete a candidate kills it,
while the text only excludes negation events before the completion — `eq_earliest_counterexample`
(known finding C02-neg-at-completion). What is proved:
* `eq_earliestNF` — unconditionally, the engine emits exactly `Spec.earliestNF`, the same scan with the
  negation test first;
* `eq_earliest_partial` — the full statement under the narrow guard `noNegAtCompletion p evs`
  (no oracle match is completed by an event that satisfies a `.not` clause w.r.t. its captures);
* `emitted_at_completion` — every match is emitted while its last event is processed.
-/
namespace Varpulis.Props.C02
open Varpulis.Sase

/-- the engine emits exactly the candidates of the negation-first earliest-continuation scan
(as multisets), for every `all`-free pattern and every stream on which no run is refused. -/
theorem eq_earliestNF (p : Pat) (cfg : Cfg) (evs : List Event) (hfree : p.allFree = true)
    (hd : (runAll p cfg evs).1.dropped = false) :
    (matchesOf p cfg evs).Perm (Spec.earliestNF p evs) := matches_perm_earliestNF hfree hd

/-- every match is emitted while processing its completing (last) event. -/
theorem emitted_at_completion (p : Pat) (cfg : Cfg) (evs : List Event) (hfree : p.allFree = true) :
    ∀ x ∈ (runAll p cfg evs).2, ∀ m ∈ x.2, m.lastIdx = x.1.idx :=
  fun x hx m hm => (runFrom_emitted (cfg := cfg) hfree evs Eng.init (LiteEng_init p) x hx m hm).2

/-- `Spec.earliestNF` and the text's oracle agree unless some oracle match is completed by an event
that satisfies a `.not` clause. -/
theorem earliestNF_eq_earliest_of_guard (p : Pat) (evs : List Event) (hg : noNegAtCompletion p evs = true) :
    Spec.earliestNF p evs = Spec.earliest p evs := earliestNF_eq_earliest evs hg

/-- **C02 under the guard of the known finding**: the multiset of matches emitted equals
`Spec.earliest`, and each is emitted at its completing event. -/
theorem eq_earliest_partial (p : Pat) (cfg : Cfg) (evs : List Event) (hfree : p.allFree = true)
    (hd : (runAll p cfg evs).1.dropped = false) (hg : noNegAtCompletion p evs = true) :
    (matchesOf p cfg evs).Perm (Spec.earliest p evs) ∧
    ∀ x ∈ (runAll p cfg evs).2, ∀ m ∈ x.2, m.lastIdx = x.1.idx := by
  refine ⟨?_, emitted_at_completion p cfg evs hfree⟩
  rw [← earliestNF_eq_earliest evs hg]
  exact matches_perm_earliestNF hfree hd

/-- the premise on backpressure holds of every stream no longer than `max_runs` (default 10000). -/
theorem noDrop_of_short_stream (p : Pat) (cfg : Cfg) (evs : List Event) (h : evs.length ≤ cfg.maxRuns) :
    (runAll p cfg evs).1.dropped = false := noDrop_of_length h

/-- C05-style bound inside this model: with the default `Drop` strategy no partition ever holds more than
`max_runs` active runs, after any stream (hence after every prefix). -/
theorem runs_bounded (p : Pat) (cfg : Cfg) (evs : List Event) :
    ∀ k, ((runAll p cfg evs).1.parts k).length ≤ cfg.maxRuns := runAll_bounded p cfg evs

/-- `eq_earliestNF` and `eq_earliest_partial` without the "no run refused" premise, for every stream no longer
than `max_runs` (default 10 000): at most one run starts per event, so backpressure cannot trigger. -/
theorem eq_earliestNF_short (p : Pat) (cfg : Cfg) (evs : List Event) (hfree : p.allFree = true)
    (hlen : evs.length ≤ cfg.maxRuns) : (matchesOf p cfg evs).Perm (Spec.earliestNF p evs) :=
  matches_perm_earliestNF hfree (noDrop_of_length hlen)

theorem eq_earliest_partial_short (p : Pat) (cfg : Cfg) (evs : List Event) (hfree : p.allFree = true)
    (hlen : evs.length ≤ cfg.maxRuns) (hg : noNegAtCompletion p evs = true) :
    (matchesOf p cfg evs).Perm (Spec.earliest p evs) ∧
    ∀ x ∈ (runAll p cfg evs).2, ∀ m ∈ x.2, m.lastIdx = x.1.idx :=
  eq_earliest_partial p cfg evs hfree (noDrop_of_length hlen) hg

/-- **the full-strength statement is false**: on the witness `A as a -> B as b .not(B)` / `A B`
(`c02WitnessPat`, `c02WitnessEvs`) the oracle has one match (the `B` is not
*before* the completion), the engine emits none. -/
theorem eq_earliest_counterexample :
    c02WitnessPat.allFree = true ∧ (runAll c02WitnessPat {} c02WitnessEvs).1.dropped = false ∧
    (Spec.earliest c02WitnessPat c02WitnessEvs).length = 1 ∧
    ¬ (matchesOf c02WitnessPat {} c02WitnessEvs).Perm (Spec.earliest c02WitnessPat c02WitnessEvs) := by
  have hd : (runAll c02WitnessPat {} c02WitnessEvs).1.dropped = false := noDrop_of_length (by decide)
  have hfree : c02WitnessPat.allFree = true := by decide
  have hnf : Spec.earliestNF c02WitnessPat c02WitnessEvs = [] := by decide
  have hsp : (Spec.earliest c02WitnessPat c02WitnessEvs).length = 1 := by decide
  refine ⟨hfree, hd, hsp, ?_⟩
  intro hperm
  have h1 := (matches_perm_earliestNF (cfg := {}) hfree hd).length_eq
  have h2 := hperm.length_eq
  rw [hnf] at h1
  rw [hsp, h1] at h2
  cases h2

/-- non-vacuity of `eq_earliest_partial`: a partitioned three-step pattern with a cross-alias filter and
a `.not` clause, on a stream with a match, a killed candidate and a foreign-partition event, meets all
premises and the oracle is non-empty. -/
example :
    let p : Pat := { steps := [⟨"A", none, some "a", false⟩, ⟨"B", some (.cmpRef "x" .gt "a" "x"), some "b", false⟩,
                               ⟨"C", none, some "c", false⟩],
                     partition := some "k", negs := [⟨"D", some (.cmpRef "x" .eq "a" "x")⟩] }
    let evs : List Event := [⟨0, "A", [("x", .int 1), ("k", .int 1)]⟩, ⟨1, "A", [("x", .int 5), ("k", .int 1)]⟩,
                             ⟨2, "B", [("x", .int 2), ("k", .int 1)]⟩, ⟨3, "D", [("x", .int 5), ("k", .int 2)]⟩,
                             ⟨4, "C", [("k", .int 1)]⟩]
    p.allFree = true ∧ (runAll p {} evs).1.dropped = false ∧ noNegAtCompletion p evs = true ∧
    (Spec.earliest p evs).length = 1 := by
  refine ⟨by decide, noDrop_of_length (by decide), by decide, by decide⟩

end Varpulis.Props.C02
