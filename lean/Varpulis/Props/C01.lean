import Varpulis.Lemmas.Sase
/-!
# C01 — every reported pattern match is a genuine occurrence of the pattern

Statements over the step-level SASE model (`Model/Sase.lean`), which mirrors `process_shared`,
`process_runs_shared`/`process_partition_shared` (with `swap_remove`), `advance_run_shared`,
`try_start_run_shared`, `check_global_negations` for sequences of `Event` / `KleenePlus(Event)` steps
with `Compare`/`CompareRef`/`And`/`Or`/`Not` filters, optional partition field and `.not` clauses.

`Genuine p evs m` (Model/Sase.lean) is the property text as a decidable predicate, and is the judge
that `vmodel sase` runs on the implementation's own matches:
the match's events are a subsequence of the stream in arrival order; read in step order every event
has its step's type and alias and satisfies its step's filter against the captures at that moment
(`explains`); all events share the partition key; no event strictly between the first and the last
event of the match satisfies a `.not` clause; the reported captures are those of the stack.

Premises: `p.inFragment` — a self-referencing `all` filter occurs at most on the last step (elsewhere
the engine enumerates ZDD combinations, Model/SaseKleene); `Sorted evs` — arrival indices increase.
-/
namespace Varpulis.Props.C01
open Varpulis.Sase

/-- `RunInv` holds of the initial engine state (there are no runs). -/
theorem runInv_init (p : Pat) : EngInv p [] Eng.init := EngInv_init p

/-- `RunInv` is preserved by `process_shared`: if every active run of every partition satisfies it
after the events `seen`, every active run satisfies it after `seen ++ [e]`. -/
theorem runInv_step (p : Pat) (cfg : Cfg) (seen : List Event) (s : Eng) (e : Event)
    (hfrag : p.inFragment = true) (hlt : ∀ g ∈ seen, g.idx < e.idx) (h : EngInv p seen s) :
    EngInv p (seen ++ [e]) (stepEngine p cfg s e).1 := (stepEngine_ok hfrag hlt h).1

/-- every match emitted while processing `e` from a state satisfying the invariant is genuine
(w.r.t. the stream up to and including `e`). -/
theorem step_matches_genuine (p : Pat) (cfg : Cfg) (seen : List Event) (s : Eng) (e : Event)
    (hfrag : p.inFragment = true) (hlt : ∀ g ∈ seen, g.idx < e.idx) (h : EngInv p seen s) :
    ∀ m ∈ (stepEngine p cfg s e).2, Genuine p (seen ++ [e]) m = true := (stepEngine_ok hfrag hlt h).2

/-- the invariant holds of every reachable engine state (induction over the stream). -/
theorem runInv_reachable (p : Pat) (cfg : Cfg) (evs : List Event)
    (hfrag : p.inFragment = true) (hs : Sorted evs) : EngInv p evs (runAll p cfg evs).1 := by
  have := (runFrom_ok (cfg := cfg) hfrag evs [] Eng.init (by simpa using hs) (EngInv_init p)).1
  simpa [runAll] using this

/-- **C01**: every match the engine emits on a stream is a genuine occurrence of the pattern. -/
theorem match_genuine (p : Pat) (cfg : Cfg) (evs : List Event)
    (hfrag : p.inFragment = true) (hs : Sorted evs) :
    ∀ m ∈ matchesOf p cfg evs, Genuine p evs m = true := by
  intro m hm
  unfold matchesOf at hm
  obtain ⟨l, hl, hml⟩ := List.mem_flatten.mp hm
  obtain ⟨x, hx, rfl⟩ := List.mem_map.mp hl
  have := (runFrom_ok (cfg := cfg) hfrag evs [] Eng.init (by simpa using hs) (EngInv_init p)).2 x
    (by simpa [runAll] using hx) m hml
  simpa using this

/-- `compile_linear`: `NfaCompiler::compile` (model `compile`, mirrored statement by statement) builds, for
every pattern, exactly the chain `shape p.steps`: `start →` one event state per step (`Normal`, or `Kleene` +
self-loop + ε→self + ε→continue followed by its continue state), the last event state / continue state
being the accept state, `has_epsilon_to_accept` set on a trailing Kleene state only. -/
theorem compile_linear (p : Pat) : compile p = shape p.steps := compile_eq_shape p

/-- the step-level `advance` of the theorems above *is* `advance_run_shared` (model `advanceN`, a generic
interpreter over `Start`/`Normal`/`Kleene`/`Accept` states) run on the compiled NFA: a run at step `i` is
the NFA run in state `sid p.steps i`. -/
theorem advance_is_nfa_interpreter (p : Pat) (cfg : Cfg) (r : Run) (e : Event) (h : r.pos < p.steps.length) :
    advanceN (compile p) cfg (toN p r) e = (advance p cfg r e).mapRun (toN p) := advanceN_compile p cfg r e h

/-- likewise `tryStart` is `try_start_run_shared` on the compiled NFA. -/
theorem tryStart_is_nfa_interpreter (p : Pat) (e : Event) :
    tryStartN (compile p) e = (tryStart p e).map (toN p) := tryStartN_compile p e

/-- **C01 over the engine with enumeration** (`matchesOfK`: `complete_run` → `enumerate_with_filter` included),
first fragment: every emitted match satisfies `GenuineK` (for these patterns nothing is enumerated and `GenuineK`
is `Genuine` with the capture map compared as a map). -/
theorem match_genuine_K (p : Pat) (cfg : Cfg) (evs : List Event)
    (hfrag : p.inFragment = true) (hs : Sorted evs) :
    ∀ m ∈ matchesOfK p cfg evs, GenuineK p evs m = true := by
  intro m hm
  have hd := deferredStep_none_of_inFragment hfrag
  rw [matchesOfK_eq hd] at hm
  exact genuineK_of_genuine hd (match_genuine p cfg evs hfrag hs m hm)

/-- **self-referencing `all` filter on a non-last step — partial** (`…_partial`: see below what is missing).
Let `(i, s, q)` be the enumerated step (`p.deferredStep`), the last step carry no postponed filter. Every match `m`
the engine emits is obtained from the match `m0` of a completed run such that
* `m0` is a genuine occurrence of the pattern *without the postponed filter* (`p.strip`): subsequence of the
  stream in arrival order, every event has its step's type/alias and satisfies its step's (non-postponed) filter
  against the captures at that moment, one partition, no `.not` event between first and last — the engine
  provably never looks at the postponed filter (`matchesOf_strip`);
* `m` keeps `m0`'s stack and overlays its captures with a **non-empty subsequence `es` of the enumerated step's
  group whose consecutive members satisfy the postponed filter, the earlier member bound to the Kleene alias**
  (`evalDeferred`; the ZDD iteration is the complete diagram — a6's `pwo_full`/`sets_full`).
Missing for `GenuineK p evs m`: re-reading `take i ++ es ++ rest` with `explains p.steps` (the later steps'
filters and `.not` clauses must not depend on the Kleene alias — `Pat.deferredOK` — because the engine evaluated
them against the last *accumulated* event, not the last event of the combination). `GenuineK` is decided on every
enumerated match of the implementation by the judge of `vmodel sase`. -/
theorem enumerated_match_partial (p : Pat) (cfg : Cfg) (evs : List Event) (i : Nat) (s : Step) (q : Pred)
    (hd : p.deferredStep = some (i, s, q)) (hl : p.lastPlainB = true) (hs : Sorted evs) :
    ∀ m ∈ matchesOfK p cfg evs, ∃ m0 es,
      Genuine p.strip evs m0 = true ∧
      List.Sublist es (groupOf p i m0.stack) ∧ es ≠ [] ∧
      evalDeferred q ((es.head?.bind (·.alias)).or (extractRefAlias q)) m0.caps (es.map (·.ev)) = true ∧
      m = ⟨m0.stack, es.foldl (fun c en => bindOpt en.alias en.ev c) m0.caps⟩ := by
  intro m hm
  obtain ⟨m0, hm0, hmm⟩ := mem_matchesOfK hm
  obtain ⟨es, h1, h2, h3, h4⟩ := expand_spec hd hmm
  refine ⟨m0, es, ?_, h1, h2, h3, h4⟩
  rw [← matchesOf_strip (lastPlain_of_B hl)] at hm0
  exact match_genuine p.strip cfg evs (strip_inFragment p) hs m0 hm0

/-! The full-strength statement over everything the model mirrors,

    theorem match_genuine_K_all : p.modelled → Sorted evs → ∀ m ∈ matchesOfK p cfg evs, GenuineK p evs m = true

is **false** of the code (and of the model that mirrors it) on two pattern shapes — known findings
C01-enum-later-ref (guard `Pat.laterRefsKleene`) and C01-late-selfref-all (guard `Pat.lateSelfRef`), both confirmed
on the real code through the API and through VPL text. Proved: `match_genuine_K` (first fragment),
`enumerated_match_partial` (enumerated step), and the two counterexamples below. -/

set_option linter.unusedSimpArgs false in
/-- **C01-enum-later-ref**: `A as a -> all B where x > b.x as b -> C where x < b.x as c` on B.x = 5, 9, C.x = 7.
The completed run's match `[A, B5, B9, C7]` is a genuine occurrence of the pattern without the postponed filter
(C's filter was checked against b = B9: 7 < 9), `enumerate_with_filter` reports the combination `{B5}` with
captures b = B5, c = C7 — which no reading of the stack makes genuine (7 < 5 is false). -/
theorem enum_later_ref_counterexample :
    c01EnumPat.laterRefsKleene = true ∧ Genuine c01EnumPat.strip c01EnumEvs c01EnumBase = true ∧
    c01EnumBad ∈ expand c01EnumPat {} c01EnumBase ∧ GenuineK c01EnumPat c01EnumEvs c01EnumBad = false := by
  refine ⟨by decide, ?_, by decide, ?_⟩
  · simp [Genuine, Pat.strip, Step.strip, c01EnumPat, c01EnumEvs, c01EnumBase, explains, stepOk, Step.postponed,
      selfRef, evalPred, capsOf, Entry.binding, Event.get, cmpVals, valCompare, noNegBetween, negHit, keyOf,
      List.isSublist, List.lookup] <;> decide
  · simp [GenuineK, GenuineCore, candidates, subseqs, groupOf, capsEquiv, Pat.deferredStep, firstKleene,
      c01EnumPat, c01EnumEvs, c01EnumBad, c01EnumBase, explains, stepOk, Step.postponed,
      selfRef, evalPred, capsOf, Entry.binding, Event.get, cmpVals, valCompare, noNegBetween, negHit, keyOf,
      List.isSublist, List.lookup] <;> decide

set_option linter.unusedSimpArgs false in
/-- **C01-late-selfref-all**: `A as a -> all B as b -> all C where x > c.x as c -> D as d` on C.x = 5, 3.
The engine emits, for this pattern, exactly what it emits for the pattern without C's filter (the capture was
created by `all B` without a deferred predicate, so the filter is never evaluated); the match
`[A, B, C5, C3, D]` is genuine for that pattern and not for the written one (3 > 5 is false). -/
theorem late_selfref_counterexample :
    c01LatePat.lateSelfRef = true ∧
    (∀ cfg evs, matchesOf c01LatePat.strip cfg evs = matchesOf c01LatePat cfg evs) ∧
    Genuine c01LatePat.strip c01LateEvs c01LateMatch = true ∧ Genuine c01LatePat c01LateEvs c01LateMatch = false := by
  refine ⟨by decide, fun cfg evs => matchesOf_strip (lastPlain_of_B (by decide)) cfg evs, ?_, ?_⟩
  · simp [Genuine, Pat.strip, Step.strip, c01LatePat, c01LateEvs, c01LateMatch, explains, stepOk, Step.postponed,
      selfRef, evalPred, capsOf, Entry.binding, Event.get, cmpVals, valCompare, noNegBetween, negHit, keyOf,
      List.isSublist, List.lookup] <;> decide
  · simp [Genuine, c01LatePat, c01LateEvs, c01LateMatch, explains, stepOk, Step.postponed,
      selfRef, evalPred, capsOf, Entry.binding, Event.get, cmpVals, valCompare, noNegBetween, negHit, keyOf,
      List.isSublist, List.lookup] <;> decide

/-- what `Genuine` says, clause by clause. -/
theorem genuine_spec (p : Pat) (evs : List Event) (m : Match) (h : Genuine p evs m = true) :
    (m.stack.map (·.ev)).Sublist evs
    ∧ explains p.steps false [] m.stack = true
    ∧ (∃ en rest, m.stack = en :: rest ∧ ∀ x ∈ rest, keyOf p x.ev = keyOf p en.ev)
    ∧ (∀ f l g, m.stack.head? = some f → m.stack.getLast? = some l → g ∈ evs →
        f.ev.idx < g.idx → g.idx < l.ev.idx → negHit p g (capsBefore m.stack g.idx) = false)
    ∧ m.caps = capsOf m.stack := by
  unfold Genuine at h
  simp only [Bool.and_eq_true] at h
  obtain ⟨⟨⟨⟨h1, h2⟩, h3⟩, h4⟩, h5⟩ := h
  refine ⟨List.isSublist_iff_sublist.mp h1, h2, ?_, ?_, by simpa using h5⟩
  · cases hst : m.stack with
    | nil => simp [hst] at h3
    | cons en rest =>
      refine ⟨en, rest, rfl, ?_⟩
      intro x hx
      rw [hst] at h3
      simpa using (List.all_eq_true.mp h3) x hx
  · intro f l g hf hl hg h6 h7
    unfold noNegBetween at h4
    rw [hf, hl] at h4
    have := (List.all_eq_true.mp h4) g hg
    simpa [h6, h7] using this

/-- the witness of the repaired defect C01-trailing-all-selfref (`A as a -> all B where x > b.x as b` on
B.x = 5, 3, 9): the judge rejects the match `[A, B5, B3]` the unrepaired engine emitted and accepts `[A, B5, B9]`. -/
theorem trailing_selfref_witness :
    c01WitnessPat.inFragment = true ∧ Genuine c01WitnessPat c01WitnessEvs c01WitnessBad = false ∧
    Genuine c01WitnessPat c01WitnessEvs c01WitnessGood = true := by
  refine ⟨by decide, ?_, ?_⟩ <;>
    simp [Genuine, c01WitnessPat, c01WitnessEvs, c01WitnessBad, c01WitnessGood, explains, stepOk, Step.postponed,
      selfRef, evalPred, capsOf, Entry.binding, Event.get, cmpVals, valCompare, noNegBetween, negHit, keyOf,
      List.isSublist, List.lookup] <;> decide

/-- non-vacuity of `match_genuine`: the engine does emit matches — here exactly one, on a partitioned pattern
with a cross-alias filter and a `.not` clause (`c01ExamplePat`, `c01ExampleEvs`; counted through the C02 refinement). -/
example : c01ExamplePat.inFragment = true ∧ Sorted c01ExampleEvs ∧ (matchesOf c01ExamplePat {} c01ExampleEvs).length = 1 := by
  refine ⟨by decide, by simp [Sorted, c01ExampleEvs], ?_⟩
  have h := matches_perm_earliestNF (p := c01ExamplePat) (cfg := {}) (evs := c01ExampleEvs) (by decide)
    (noDrop_of_length (by decide))
  rw [h.length_eq]; decide

/-- non-vacuity: a partitioned three-step pattern with an `all` step, a cross-alias filter and a `.not`
clause lies in the fragment, and a stream with increasing indices is `Sorted`. -/
example :
    let p : Pat := { steps := [⟨"A", none, some "a", false⟩, ⟨"B", some (.cmpRef "x" .gt "a" "x"), some "b", true⟩,
                               ⟨"C", none, some "c", false⟩],
                     partition := some "k", negs := [⟨"D", some (.cmpRef "x" .eq "a" "x")⟩] }
    p.inFragment = true ∧ Sorted [⟨0, "A", [("x", .int 1)]⟩, ⟨1, "B", [("x", .int 2)]⟩, ⟨2, "C", []⟩] := by
  simp [Pat.inFragment, Step.postponed, selfRef, Sorted]

end Varpulis.Props.C01
