import Varpulis.Lemmas.ParserText
/-!
# C41 — the parser terminates without panicking and locates its errors inside the input

What is proved here concerns the **text stages** of `varpulis_parser::parse` as mirrored in
`Model/ParserText.lean` (declaration-loop expansion, indentation preprocessing, the nesting pre-scan,
`SourceLocation::from_position`, and the position map `source_location` that relocates every error
from the preprocessed text to the caller's source). In that mirror every Rust operation that can
panic (indexing, slicing, `usize` subtraction, `unwrap`) is an explicit failure point and every
`while` loop runs on fuel, so "`= .ok _`" means: terminates, no panic, no overflow.

**Not modelled** (partial): the pest-generated recogniser, AST construction, `fold_program`
(`optimize.rs`) and the literal helpers (`helpers.rs`); their termination/panic-freedom is covered
only by the fuzzing side of the check (`p_parsertext.rs`). Because every error of those stages is
relocated through `source_location`, `source_location_within` still covers *where* they are reported.
-/
namespace Varpulis.Props.C41
open Varpulis.Expand Varpulis.ParserText

/-- `expand_declaration_loops_with_origins` (index-based mirror) never panics, its loops terminate,
and it computes the list-recursive model `Expand.expand` that C42 is proved about -/
theorem expand_total (src : Text) :
    (∀ w, expandC src ≠ .panic w) ∧ (expandC src).map (·.1) = expand src :=
  ⟨expandC_no_panic src, expandC_eq src⟩

/-- one expansion pass emits at most its input lines plus the line budget it uses up; the budget
starts at `MAX_EXPANDED_LINES` and there are at most `MAX_EXPANSION_PASSES` passes: bounded work -/
theorem expand_pass_bounded (b : Nat) (ls out : List Line) (b' : Nat) (h : onePass b ls = .ok (out, b')) :
    out.length + b' ≤ ls.length + b := onePass_budget b ls out b' h

/-- what "bounded" means with the limits the code declares **now** (regenerated on every run): at most
10 passes, at most 10^6 lines produced by loop expansion, and a nesting limit under which the measured
doubling of the pest recogniser's backtracking per bracket level stays below 2^16 steps. Raising a
limit beyond that breaks this obligation (the nesting limit was 24 on the unchanged tree: ~15 s). -/
theorem limits_bound_the_work :
    MAX_EXPANSION_PASSES ≤ 10 ∧ MAX_EXPANDED_LINES ≤ 1000000 ∧ 2 ^ MAX_NESTING_DEPTH ≤ 65536 := by decide

/-- `preprocess_indentation` never panics (the indent stack is never empty, `usize` subtractions do not underflow) -/
theorem indent_total (src : Text) : ∃ out, preprocessC src = .ok out := preprocessC_ok src

/-- `check_nesting_depth` terminates, never indexes out of bounds, and a rejection position is a byte of its input -/
theorem nesting_total (bytes : List UInt8) :
    ∃ r, checkNesting bytes = .ok r ∧ ∀ p, r = some p → p < bytes.length := checkNesting_ok bytes

/-- `SourceLocation::from_position`: for every source and every position (even one beyond the end)
the reported line exists and the column lies on it or directly behind its last character -/
theorem from_position_within (source : Text) (pos : Nat) :
    locWithin source (fromPosition source pos).1 (fromPosition source pos).2 = true :=
  fromPosition_within source pos

/-- the position map: whatever position of the preprocessed text an error carries — for *any* origin
table, preprocessed text and position, so also for whatever pest reports — the relocated error lies
inside the caller's source: line/column exist, offset ≤ length; and the map itself cannot panic -/
theorem source_location_within (source : Text) (origins : List Nat) (pre : List UInt8) (position : Nat) :
    ∃ l c o, sourceLocation source origins pre position = .ok (l, c, o) ∧
      locWithin source l c = true ∧ posWithin source o = true :=
  sourceLocation_ok source origins pre position

/-- the whole modelled prefix of `parse_inner`: for every source it terminates without panic and
either hands a text to pest or rejects the input at an offset inside the input -/
theorem text_stages_total (src : Text) :
    ∃ r, preParse src = .ok r ∧ ∀ kind pos, r = .rejected kind pos → posWithin src pos = true :=
  preParse_ok src

/-- the calendar arithmetic of `helpers::parse_timestamp` (table access `days_in_month[month - 2]`,
`day - 1`, the nanosecond conversion) cannot panic whatever digits a `@YYYY-MM-DD…` literal holds
(the grammar admits any digits; the splitting of the literal's text is not modelled) -/
theorem timestamp_arithmetic_total (year : Int) (month day : Nat) (tod tzHours : Int) :
    ∃ r, timestampNs year month day tod tzHours = .ok r := timestampNs_ok year month day tod tzHours

/-- `parse_timestamp` on the *text* of a literal (prefix, `T` split, `-`/`:` splitting, zone suffix,
number parsing with defaults, then the calendar arithmetic): total whenever the time part, if there is
one, starts with a one-byte character — which the grammar's `timestamp` rule guarantees (a digit).
(`"@2024-01-01T"`, which the grammar cannot produce, makes the public helper panic at `time_str[1..]`.) -/
theorem timestamp_literal_total (lit : Text) (h : timePartOk lit = true) : ∃ r, timestampText lit = .ok r :=
  timestampText_ok lit h

/-! Witnesses of the defects repaired in `expand.rs` (the pre-fix behaviour, replayed on the model's
primitives): `&bl[strip..]` at a non-boundary, and the range arithmetic. -/

/-- before the fix `&bl[strip..]` was taken whenever `bl.len() >= strip`: here `strip = 1` falls
inside the 3-byte U+3000, `str::get` (the fixed code) yields `None` and falls back to `trim_start` -/
theorem strip_non_boundary_witness :
    byteLen "　y".toList ≥ 1 ∧ byteDrop 1 "　y".toList = none ∧
      stripLine 1 "　y".toList = "y".toList := by decide

/-- `for i in 0..=9223372036854775807:` — `end + 1` does not fit `i64`: not a declaration loop any more -/
theorem inclusive_max_witness :
    parseForRange "for i in 0..=9223372036854775807:".toList = none := by decide

/-- `end - start` of the extreme range does not fit `i64`: reported as too large instead of overflowing -/
theorem range_overflow_witness : tooLarge (-9223372036854775808) 9223372036854775807 = true := by decide

example : ∃ p, checkNesting (utf8 (List.replicate 17 '(')) = .ok (some p) := ⟨16, by decide⟩
example : checkNesting (utf8 (List.replicate 16 '(')) = .ok none := by decide
example : preprocessC "fn f():\n  return 1\n".toList = .ok "fn f():\n«INDENT»return 1\n«DEDENT»".toList := by decide
example : fromPosition "éé\nx".toList 5 = (2, 1) := by decide
example : timestampNs 1970 1 1 3600 0 = .ok 3600000000000 := by decide
example : timestampNs 2024 13 0 0 0 = timestampNs 2024 12 1 0 0 := by decide
example : timestampText "@1970-01-02T00:00:00+01:00".toList = .ok 82800000000000 := by decide
example : timestampText "@2024-01-01T".toList = .panic "byte index 1 is out of bounds or not a char boundary" := by decide

end Varpulis.Props.C41
