import Varpulis.Model.ParserText
/-! # C41 — the parser's text stages never panic and locate errors inside the input (work in progress) -/
namespace Varpulis.Props.C41
open Varpulis.Expand Varpulis.ParserText

theorem top_nonempty (t : Nat) (r : List Nat) : top (t :: r) = .ok t := rfl

end Varpulis.Props.C41
