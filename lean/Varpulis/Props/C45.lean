import Varpulis.Lemmas.Breaker
/-!
# C45 — a resilient sink never loses an event and its breaker follows its contract

Statements over `Varpulis.Breaker` (Model/Breaker.lean): `allow`/`recordSuccess`/`recordFailure`
mirror `CircuitBreaker::allow_request/record_success/record_failure` on a virtual clock (ms);
`start`/`finish` are the two halves of `ResilientSink::send`/`send_batch` around the `await` of the
inner sink, so any number of concurrent senders is any interleaving of `Step`s; `toDlq` is
`DeadLetterQueue::write_batch`. `finalB c {} ops` is the breaker after the calls `ops` made by
arbitrary interleaved callers; `runB` lists the answers.

One part of the contract is false of the code and stays a known finding (`C45-stale-result`): the
breaker cannot tell whose result it records, so a call admitted *before* the breaker opened and
completing while it is half-open is taken for the probe — `probe_decides_counterexample`.
`probe_decides_partial` proves the contract when no such stale call is in flight.
-/
namespace Varpulis.Props.C45
open Varpulis.Breaker

/-! ### no event is lost -/

/-- Any interleaving of any number of senders, single sends and batches, any downstream outcomes and
timings: every event handed to the resilient sink is still inside the inner sink's `send`, or was
delivered, or is in the DLQ as an entry naming the sink and an error. -/
theorem no_event_lost (cfg : Cfg) (name : String) (steps : List Step) (e : Nat) (he : e ∈ handed steps) :
    let s := runS { cfg := cfg, name := name } steps
    (∃ p ∈ s.inflight, e ∈ p.2) ∨ e ∈ s.delivered ∨
      ∃ msg, { connector := name, error := msg, event := e : DlqEntry } ∈ s.dlq := by
  intro s
  have h0 : Acc { cfg := cfg, name := name } [] := ⟨fun _ h => (by cases h), fun _ h => (by cases h)⟩
  obtain ⟨H', ha, _, h2⟩ := acc_run _ [] steps h0
  have hname : s.name = name := by
    have : ∀ (st : List Step) (s0 : Sys), (runS s0 st).name = s0.name := by
      intro st
      induction st with
      | nil => intro s0; rfl
      | cons x xs ih =>
        intro s0
        show (runS (stepS s0 x) xs).name = s0.name
        rw [ih]
        cases x with
        | start i evs now => exact (start_extends s0 i evs now).name_eq
        | finish i d now => exact (finish_extends s0 i d now).name_eq
    exact this steps _
  rcases ha.handed_ok e (h2 e he) with h | ⟨call, hc, hec⟩
  · exact Or.inl h
  · have hok := ha.log_ok call hc
    unfold CallOk InDlq at hok
    cases hr : call.2 <;> simp only [hr] at hok
    · exact Or.inr (Or.inl (hok e hec))
    · exact Or.inr (Or.inr ⟨openMsg, by rw [← hname]; exact hok e hec⟩)
    · rename_i msg
      exact Or.inr (Or.inr ⟨msg, by rw [← hname]; exact hok e hec⟩)

/-- … and what each completed call returned to its caller tells where its events are: `Ok` — all
delivered; `Err("circuit breaker open …")` — all in the DLQ with error "circuit breaker open";
`Err(msg)` from the inner sink — all in the DLQ with that `msg`. Holds for every call ever logged. -/
theorem every_call_accounted (cfg : Cfg) (name : String) (steps : List Step) :
    let s := runS { cfg := cfg, name := name } steps
    ∀ call ∈ s.log, match call.2 with
      | .ok => ∀ e ∈ call.1, e ∈ s.delivered
      | .rejected => ∀ e ∈ call.1, { connector := s.name, error := openMsg, event := e : DlqEntry } ∈ s.dlq
      | .failed msg => ∀ e ∈ call.1, { connector := s.name, error := msg, event := e : DlqEntry } ∈ s.dlq := by
  intro s call hc
  have h0 : Acc { cfg := cfg, name := name } [] := ⟨fun _ h => (by cases h), fun _ h => (by cases h)⟩
  obtain ⟨H', ha, _, _⟩ := acc_run _ [] steps h0
  exact ha.log_ok call hc

/-- what a call returns: a rejected `start` returns `Err(open)` at once and writes the events to the
DLQ; a `finish` returns `Ok` or the inner sink's own error. -/
theorem call_results (s : Sys) (i : Nat) (evs : List Nat) (now : Nat) (d : Downstream) :
    ((start s i evs now).2 = some .rejected ∨ (start s i evs now).2 = none) ∧
    (s.inflight.lookup i = some evs →
      (finish s i d now).2 = some (match d with | .ok => .ok | .fail msg _ => .failed msg)) := by
  constructor
  · unfold start; simp only; split <;> simp
  · intro h; unfold finish; simp only [h]; cases d <;> rfl

/-! ### the breaker contract -/

/-- `consecutive_failures` always equals the number of failures since the last success, whatever the
interleaving of callers. -/
theorem consecutive_failures_counted (c : Cfg) (ops : List Op) :
    (finalB c {} ops).fails = trailingFailures (resultsOf ops) := fails_eq_trailing c ops

/-- The breaker opens after exactly `failure_threshold` consecutive failures: while closed fewer than
`threshold` consecutive failures have been recorded, and the next call opens it iff it is a failure
that makes the run of consecutive failures equal to `threshold`. -/
theorem opens_after_exactly_threshold (c : Cfg) (ht : 1 ≤ c.threshold) (ops : List Op) (op : Op)
    (hc : (finalB c {} ops).state = .closed) :
    trailingFailures (resultsOf ops) < c.threshold ∧
    ((finalB c {} (ops ++ [op])).state = .opened ↔
      (∃ now, op = .failure now) ∧ trailingFailures (resultsOf (ops ++ [op])) = c.threshold) ∧
    ((finalB c {} (ops ++ [op])).state = .closed ∨ (finalB c {} (ops ++ [op])).state = .opened) := by
  have hwf := wfb_final c ops ht
  have hf := fails_eq_trailing c ops
  have hlt := hwf.closed_lt hc
  rw [hf] at hlt
  refine ⟨hlt, ?_, ?_⟩
  · rw [finalB_append, resultsOf_append]
    cases op with
    | allow now => simp [stepB, allow, hc]
    | success => simp [stepB, recordSuccess, hc]
    | failure now =>
      simp only [stepB, recordFailure, hc, trailing_snoc_false, ← hf]
      by_cases h : c.threshold ≤ (finalB c {} ops).fails + 1
      · simp only [h, if_true, true_iff]; exact ⟨⟨now, rfl⟩, by omega⟩
      · simp only [h, if_false, hc]; constructor
        · intro h'; cases h'
        · intro ⟨_, h'⟩; omega
  · rw [finalB_append]
    cases op with
    | allow now => simp [stepB, allow, hc]
    | success => simp [stepB, recordSuccess, hc]
    | failure now => simp only [stepB, recordFailure, hc]; split <;> simp [hc]

/-- Once a failure at time `t0` has left the breaker open, every request made before
`t0 + reset_timeout` is rejected and the breaker stays open — whatever else the concurrent senders
report in between (late successes, further failures). -/
theorem rejects_until_reset_timeout (c : Cfg) (ops1 : List Op) (t0 : Nat)
    (hopen : (finalB c {} (ops1 ++ [.failure t0])).state = .opened) (ops2 : List Op)
    (hwin : ∀ op ∈ ops2, ∀ n, op.time = some n → t0 ≤ n ∧ n < t0 + c.resetTimeout) :
    ∀ r ∈ runB c (finalB c {} (ops1 ++ [.failure t0])) ops2, r.2 ≠ some true ∧ r.1.state = .opened := by
  apply openSince_run c _ t0 ops2 _ hwin
  refine ⟨hopen, t0, ?_, Nat.le_refl _⟩
  rw [finalB_append]
  simp only [stepB, recordFailure]
  split <;> (try split) <;> rfl

/-- … and not longer than necessary: a reachable open breaker has a last-failure time `t`, and the
first request at or after `t + reset_timeout` is admitted as the probe (state half-open). -/
theorem admits_probe_after_reset_timeout (c : Cfg) (ht : 1 ≤ c.threshold) (ops : List Op)
    (ho : (finalB c {} ops).state = .opened) :
    ∃ t, (finalB c {} ops).lastFailure = some t ∧ ∀ now, t + c.resetTimeout ≤ now →
      (allow c (finalB c {} ops) now).2 = true ∧ (allow c (finalB c {} ops) now).1.state = .halfOpen ∧
      (allow c (finalB c {} ops) now).1.probe = true := by
  have hwf := wfb_final c ops ht
  have := hwf.open_has_time ho
  cases hl : (finalB c {} ops).lastFailure with
  | none => simp [hl] at this
  | some t =>
    refine ⟨t, rfl, ?_⟩
    intro now hn
    have : c.resetTimeout ≤ now - t := by omega
    simp [allow, ho, hl, this]

/-- While half-open exactly one probe is let through: every further request is rejected and the
state stays half-open until a result is recorded; that result closes the breaker (success, failure
count reset) or reopens it with a fresh full timeout (failure). -/
theorem half_open_single_probe (c : Cfg) (ht : 1 ≤ c.threshold) (ops : List Op)
    (hh : (finalB c {} ops).state = .halfOpen) (times : List Nat) (now : Nat) :
    (∀ r ∈ runB c (finalB c {} ops) (times.map Op.allow), r.2 = some false ∧ r.1.state = .halfOpen) ∧
    (recordSuccess (finalB c {} ops)).state = .closed ∧ (recordSuccess (finalB c {} ops)).fails = 0 ∧
    (recordFailure c (finalB c {} ops) now).state = .opened ∧
    (recordFailure c (finalB c {} ops) now).lastFailure = some now := by
  have hwf := wfb_final c ops ht
  have hp := hwf.half_iff_probe.mp hh
  refine ⟨?_, ?_, ?_, ?_, ?_⟩
  · intro r hr
    have := halfOpen_allows_run c _ times hh hp r hr
    exact ⟨this.1, this.2.1⟩
  · simp [recordSuccess, hh]
  · exact success_fails _
  · simp [recordFailure, hh]
  · simp [recordFailure, hh]

/-- Half-open is entered only by admitting a probe, and the probe flag is set exactly while half-open
(so "one probe in flight" is a state invariant, not a race). -/
theorem half_open_iff_probe_in_flight (c : Cfg) (ht : 1 ≤ c.threshold) (ops : List Op) :
    (finalB c {} ops).state = .halfOpen ↔ (finalB c {} ops).probe = true :=
  (wfb_final c ops ht).half_iff_probe

/-- The breaker inside a resilient sink only ever sees `allow_request`/`record_success`/`record_failure`
calls, so everything above holds of it for every interleaving of senders through the sink; in
particular the reachable-state invariants. -/
theorem sink_breaker_follows_contract (cfg : Cfg) (name : String) (steps : List Step) (ht : 1 ≤ cfg.threshold) :
    let b := (runS { cfg := cfg, name := name } steps).breaker
    (∃ ops, b = finalB cfg {} ops) ∧
    (b.state = .closed → b.fails < cfg.threshold) ∧ (b.state = .opened → b.lastFailure.isSome = true) ∧
    (b.state = .halfOpen ↔ b.probe = true) := by
  intro b
  obtain ⟨ops, h, _⟩ := runS_breaker steps { cfg := cfg, name := name }
  have hb : b = finalB cfg {} ops := h
  have hwf := wfb_final cfg ops ht
  rw [← hb] at hwf
  exact ⟨⟨ops, hb⟩, hwf.closed_lt, hwf.open_has_time, hwf.half_iff_probe⟩

/-- With no stale call in flight — the probe `i` is the only sender inside the inner sink — the
probe decides: every other sender is rejected (its events go to the DLQ), nobody else can complete,
and the probe's own outcome closes or reopens the breaker. -/
theorem probe_decides_partial (s : Sys) (i : Nat) (evs : List Nat)
    (hh : s.breaker.state = .halfOpen) (hp : s.breaker.probe = true) (hfl : s.inflight = [(i, evs)])
    (j : Nat) (evs' : List Nat) (now : Nat) (d : Downstream) :
    (start s j evs' now).2 = some .rejected ∧ (start s j evs' now).1.breaker.state = .halfOpen ∧
    (j ≠ i → (finish s j d now).1.breaker = s.breaker) ∧
    (finish s i .ok now).1.breaker.state = .closed ∧
    (∀ msg k, (finish s i (.fail msg k) now).1.breaker.state = .opened) := by
  refine ⟨?_, ?_, ?_, ?_, ?_⟩
  · simp [start, allow, hh, hp]
  · simp [start, allow, hh, hp]
  · intro hji
    have : (j == i) = false := by simp; exact hji
    have hl : s.inflight.lookup j = none := by simp [hfl, List.lookup, this]
    simp [finish, hl]
  · simp [finish, hfl, List.lookup, recordSuccess, hh]
  · intro msg k; simp [finish, hfl, List.lookup, recordFailure, hh]

/-- Known finding `C45-stale-result`: sender 1 is admitted while the breaker is closed and stays
inside the inner sink; sender 2 fails (threshold 1) and opens the breaker; after the timeout sender 3
is admitted as the probe; now sender 1's late success closes the breaker although the probe (sender
3) has not completed. -/
theorem probe_decides_counterexample :
    let s := runS { cfg := { threshold := 1, resetTimeout := 100 }, name := "k" }
      [.start 1 [10] 0, .start 2 [20] 0, .finish 2 (.fail "down" 0) 1, .start 3 [30] 200, .finish 1 .ok 201]
    s.breaker.state = .closed ∧ s.inflight = [(3, [30])] := by
  decide

/-- The defect repaired by the `fix:` commit: on the unchanged tree a half-open breaker admitted
every caller — three consecutive `allow_request()` all true — where the repaired one admits the
first only. -/
theorem old_half_open_admitted_every_caller :
    let c : Cfg := { threshold := 1, resetTimeout := 100 }
    let b := recordFailure c {} 0
    let r1 := allowOld c b 100
    let r2 := allowOld c r1.1 100
    let r3 := allowOld c r2.1 100
    (r1.2, r2.2, r3.2) = (true, true, true) ∧
    ((allow c b 100).2, (allow c (allow c b 100).1 100).2, (allow c (allow c (allow c b 100).1 100).1 100).2)
      = (true, false, false) := by
  decide

/-- non-vacuity: three senders; a batch fails after delivering one event, the breaker (threshold 2)
opens on the second failure, rejects, admits one probe after the timeout, closes on its success.
All seven events are delivered or in the DLQ. -/
example :
    let s := runS { cfg := { threshold := 2, resetTimeout := 100 }, name := "k" }
      [.start 1 [1, 2, 3] 0, .start 2 [4] 0, .finish 1 (.fail "boom" 1) 5, .finish 2 (.fail "down" 0) 6,
       .start 3 [5] 50, .start 1 [6] 106, .start 2 [7] 107, .finish 1 .ok 110]
    s.breaker.state = .closed ∧ s.inflight = [] ∧ s.delivered = [1, 6] ∧
    s.dlq.map (fun d => (d.error, d.event)) =
      [("boom", 1), ("boom", 2), ("boom", 3), ("down", 4), (openMsg, 5), (openMsg, 7)] := by
  decide

end Varpulis.Props.C45
