import Varpulis.Lemmas.Filter
/-!
# C09 — a filter selects the same events in `.where(...)` and as the filter of a sequence step

Model: `Varpulis.Filter` (Model/Filter.lean). `whereAccepts e ev` mirrors `RuntimeOp::WhereExpr`
(`eval_expr_with_functions` = `Some(Bool(true))`), `stepAccepts e ev` mirrors
`expr_to_sase_predicate` + `eval_predicate`. The full-strength statement

    ∀ e ev, whereAccepts e ev = stepAccepts e ev

is **false** of the code (`where_step_agree_counterexample`, four minimal witnesses, plus
`witness_fold_identity` through the front end). What holds is
`where_step_agree_partial`: agreement on every event for every expression outside two explicit,
decidable situations (`Finding`):

* `eqEpsilon`   — `field == lit` / `field != lit` where exact `Value` equality and the step's
                  `|a − b| < ε` equality with int/float mixing give different answers;
* `errorOperand`— an operand of `or` / `not` without a boolean value in the VPL evaluator
                  (missing field, incomparable types, non-boolean operand).

Two further differences were repaired by `fix:` commits: ordering comparisons of two strings had no
value in `.where` (`string_order_defect_witness`), and a step filter containing `in` / `not in` / `is`
anywhere below `and`/`or`/`not` was dropped as a whole, the step accepting every event
(`dropped_filter_defect_witness`). Mixed int/float `<=`/`>=` was repaired under C08.
-/
namespace Varpulis.Props.C09
open Varpulis.Val Varpulis.Filter

/-- **partial**: outside the two listed situations the two contexts select the same events —
for every expression of the fragment (any depth, any number of fields) and every event (any field
values, any fields missing). `agreeGuard e ev = (whyWeak e ev).isNone`. -/
theorem where_step_agree_partial (e : FExpr) (ev : Event) (h : agreeGuard e ev = true) :
    whereAccepts e ev = stepAccepts e ev := by
  unfold agreeGuard at h
  exact weak_agree e ev (Option.isNone_iff_eq_none.mp h)

/-- stronger conclusion under the stronger guard (needed below `or` / `not`): the VPL evaluator
yields a boolean and it is the step predicate's value -/
theorem same_boolean_value (e : FExpr) (ev : Event) (h : whyStrong e ev = none) :
    evalE e ev = some (.bool (evalP (toPred e) ev)) := strong_agree e ev h

/-- case table behind the `eqEpsilon` guard: for a literal a `Predicate::Compare` can carry,
`Value` equality and `values_equal` coincide on every field value unless `eqSafe` fails, i.e. except
float/float pairs where `float_eq` and the ε-test differ and int/float pairs within ε -/
theorem eq_case_table (x : Value) (l : Lit) (v : Value) (hl : l.compareValue = some v)
    (hs : eqSafe x v = true) : veq x v = valuesEqual x v :=
  veq_eq_valuesEqual x v (compareValue_kind hl) hs

/-- the `eqEpsilon` guard is not only sufficient but exact: for an atom `field == literal` on an
event that has the field, the two contexts agree **iff** the guard holds -/
theorem eq_guard_exact (f : String) (l : Lit) (v x : Value) (ev : Event)
    (hl : l.compareValue = some v) (hx : lookupV f ev = some x) :
    whereAccepts (.cmp .eq (.field f) (.lit l)) ev = stepAccepts (.cmp .eq (.field f) (.lit l)) ev
      ↔ agreeGuard (.cmp .eq (.field f) (.lit l)) ev = true := by
  have htv : l.toValue = v := by cases l <;> simp_all [Lit.compareValue]
  have hk := compareValue_kind hl
  simp only [whereAccepts, stepAccepts, agreeGuard, evalE, evalOperand, toPred, comparePath, hl, hx, htv,
    Option.map_some, evalP, evalCmp, compareValues, whyWeak, whyCmpWeak, isTrue_bool]
  rw [eqSafe_exact x v hk]
  cases eqSafe x v <;> simp

/-- the same exactness for `!=` -/
theorem ne_guard_exact (f : String) (l : Lit) (v x : Value) (ev : Event)
    (hl : l.compareValue = some v) (hx : lookupV f ev = some x) :
    whereAccepts (.cmp .ne (.field f) (.lit l)) ev = stepAccepts (.cmp .ne (.field f) (.lit l)) ev
      ↔ agreeGuard (.cmp .ne (.field f) (.lit l)) ev = true := by
  have htv : l.toValue = v := by cases l <;> simp_all [Lit.compareValue]
  have hk := compareValue_kind hl
  simp only [whereAccepts, stepAccepts, agreeGuard, evalE, evalOperand, toPred, comparePath, hl, hx, htv,
    Option.map_some, evalP, evalCmp, compareValues, whyWeak, whyCmpWeak, isTrue_bool]
  have hex := eqSafe_exact x v hk
  cases hs : eqSafe x v <;> cases hv : veq x v <;> cases hw : valuesEqual x v <;> simp_all

/-- … and for `in` / `not in` / `is`, bare operands and every comparison that is not
`field op literal`: the guard always holds and the contexts always agree, so "guard ⇔ agreement" is
exact for every atom shape (ordering atoms: `order_case_table`) -/
theorem other_guard_exact (k : OtherOp) (op : CmpOp) (l r o : Operand) (ev : Event) (h : comparePath l r = none) :
    agreeGuard (.other k l r) ev = true ∧ agreeGuard (.atom o) ev = true ∧ agreeGuard (.cmp op l r) ev = true := by
  simp [agreeGuard, whyWeak, h]

/-- ordering comparisons of a field with a literal need no guard at all: numeric pairs (mixed
included) and string pairs compute the same order in both contexts, every other pair is rejected
by both -/
theorem order_case_table (op : CmpOp) (x : Value) (l : Lit) (v : Value) (hl : l.compareValue = some v)
    (hop : op ≠ .eq ∧ op ≠ .ne) : isTrue (evalCmp op x v) = compareValues x v op := by
  apply cmp_weak op x v (compareValue_kind hl)
  cases op <;> simp_all [whyCmpWeak]

/-- `and` never adds a disagreement: it accepts iff both conjuncts accept, in both contexts -/
theorem and_accepts (a b : FExpr) (ev : Event) :
    whereAccepts (.and a b) ev = (whereAccepts a ev && whereAccepts b ev)
    ∧ stepAccepts (.and a b) ev = (stepAccepts a ev && stepAccepts b ev) :=
  ⟨isTrue_and a b ev, rfl⟩

/-- atoms that are not of the shape `field op literal` are evaluated by the same evaluator in both
contexts (`Predicate::Expr`) -/
theorem expr_path_agrees (op : CmpOp) (l r : Operand) (ev : Event) (h : comparePath l r = none) :
    whereAccepts (.cmp op l r) ev = stepAccepts (.cmp op l r) ev := by
  simp [whereAccepts, stepAccepts, toPred, h, evalP]

/-- the `null` literal needs no guard: `expr_to_value` has no `Null` arm, so a comparison with `null`
on either side is never a `Predicate::Compare` and both contexts use the same evaluator — on every
event, whether the field is missing, present with value null, or anything else -/
theorem null_literal_agrees (op : CmpOp) (o : Operand) (ev : Event) :
    whereAccepts (.cmp op o (.lit .null)) ev = stepAccepts (.cmp op o (.lit .null)) ev
    ∧ whereAccepts (.cmp op (.lit .null) o) ev = stepAccepts (.cmp op (.lit .null) o) ev := by
  constructor
  · apply expr_path_agrees; cases o <;> simp [comparePath, Lit.compareValue]
  · apply expr_path_agrees; simp [comparePath]

/-- arithmetic over the current event's fields (`x + 1 > y`, `x * 2 == y`, on either side, nested to
any depth) needs no guard: such a comparison is never a `Predicate::Compare`, so the step evaluates
it with the VPL evaluator (`Predicate::Expr`) exactly as `.where` does — whatever the arithmetic
yields (wrap-around, IEEE rounding, NaN, no value) -/
theorem arith_operand_agrees (op : CmpOp) (aop : ArithOp) (a b o : Operand) (ev : Event) :
    whereAccepts (.cmp op (.arith aop a b) o) ev = stepAccepts (.cmp op (.arith aop a b) o) ev
    ∧ whereAccepts (.cmp op o (.arith aop a b)) ev = stepAccepts (.cmp op o (.arith aop a b)) ev := by
  constructor
  · apply expr_path_agrees; simp [comparePath]
  · apply expr_path_agrees; cases o <;> simp [comparePath]

/-- the same for `in` / `not in` / `is` and for bare operands: every atom other than
`field op literal` agrees on every event -/
theorem other_atoms_agree (k : OtherOp) (l r o : Operand) (ev : Event) :
    whereAccepts (.other k l r) ev = stepAccepts (.other k l r) ev
    ∧ whereAccepts (.atom o) ev = stepAccepts (.atom o) ev := by
  simp [whereAccepts, stepAccepts, toPred, evalP]

/-- **through the front end**: `parse` constant-folds the `.where` expression but not the step filter.
If no identity rewrite (`x*1 → x`, `x+0 → x`, …) fires, folding does not change what the evaluator
computes, so the engine's `.where` (on the folded expression) and the step (on the expression as
written) agree under the same guard -/
theorem where_step_agree_frontend (e : FExpr) (ev : Event) (hf : identFree e = true)
    (h : agreeGuard e ev = true) : whereAcceptsFE e ev = stepAccepts e ev := by
  unfold whereAcceptsFE whereAccepts
  rw [foldE_eval e ev hf]
  exact where_step_agree_partial e ev h

/-- folding without identity rewrites never changes the value of a filter -/
theorem fold_preserves_value (e : FExpr) (ev : Event) (hf : identFree e = true) :
    evalE (foldE e) ev = evalE e ev := foldE_eval e ev hf

section witnesses
set_option exponentiation.threshold 3000

/-- `x == 1` on `x = 1.0`: `.where` drops the event (`Int(1) ≠ Float(1.0)`), the step accepts it -/
theorem witness_eq_int_float :
    whereAccepts (.cmp .eq (.field "x") (.lit (.int 1))) [("x", .float ⟨0x3ff0000000000000⟩)] = false
    ∧ stepAccepts (.cmp .eq (.field "x") (.lit (.int 1))) [("x", .float ⟨0x3ff0000000000000⟩)] = true := by
  decide +kernel

/-- `x == 0.5` on `x = 0.5 + 2^-53` (next double): unequal in `.where`, ε-equal in the step -/
theorem witness_eq_epsilon :
    whereAccepts (.cmp .eq (.field "x") (.lit (.float ⟨0x3fe0000000000000⟩))) [("x", .float ⟨0x3fe0000000000001⟩)] = false
    ∧ stepAccepts (.cmp .eq (.field "x") (.lit (.float ⟨0x3fe0000000000000⟩))) [("x", .float ⟨0x3fe0000000000001⟩)] = true := by
  decide +kernel

/-- the defect repaired by the `fix:` commit in evaluator.rs: `name < "m"` on `name = "a"` had no
value in `.where` (event dropped) while the step compared the strings; now both say `true` -/
theorem string_order_defect_witness :
    evalCmpOld .lt (.str "a") (.str "m") = none
    ∧ whereAccepts (.cmp .lt (.field "name") (.lit (.str "m"))) [("name", .str "a")] = true
    ∧ stepAccepts (.cmp .lt (.field "name") (.lit (.str "m"))) [("name", .str "a")] = true := by
  decide +kernel

/-- the defect repaired by the `fix:` commit in compiler.rs: `x > 1 and y in z` had no predicate
form, so the old translation returned `None` for the whole filter and the step accepted every
event — here one with `x = 0`; now both contexts reject it -/
theorem dropped_filter_defect_witness :
    let e : FExpr := .and (.cmp .gt (.field "x") (.lit (.int 1))) (.other .isIn (.field "y") (.field "z"))
    let ev : Event := [("x", .int 0), ("y", .str "b"), ("z", .str "abc")]
    toPredOld e = none ∧ stepAcceptsOld e ev = true ∧ whereAccepts e ev = false ∧ stepAccepts e ev = false := by
  decide +kernel

/-- `x == null`: accepted by both contexts when `x` is present with value null, rejected by both
when `x` is missing; `x != null` the other way round on the present-null field -/
theorem null_field_cases :
    whereAccepts (.cmp .eq (.field "x") (.lit .null)) [("x", .null)] = true
    ∧ stepAccepts (.cmp .eq (.field "x") (.lit .null)) [("x", .null)] = true
    ∧ whereAccepts (.cmp .eq (.field "x") (.lit .null)) [] = false
    ∧ stepAccepts (.cmp .eq (.field "x") (.lit .null)) [] = false
    ∧ whereAccepts (.cmp .ne (.field "x") (.lit .null)) [("x", .null)] = false
    ∧ stepAccepts (.cmp .ne (.field "x") (.lit .null)) [("x", .null)] = false := by
  decide +kernel

/-- non-vacuity of `arith_operand_agrees`: `x + 1 > y` and `x * 2 == y` on `x = 1, y = 2` evaluate
(accepted resp. accepted by both), and `i64::MAX + 1` wraps -/
theorem arith_cases :
    let ev : Event := [("x", .int 1), ("y", .int 2)]
    whereAccepts (.cmp .ge (.arith .add (.field "x") (.lit (.int 1))) (.field "y")) ev = true
    ∧ stepAccepts (.cmp .ge (.arith .add (.field "x") (.lit (.int 1))) (.field "y")) ev = true
    ∧ whereAccepts (.cmp .eq (.arith .mul (.field "x") (.lit (.int 2))) (.field "y")) ev = true
    ∧ stepAccepts (.cmp .eq (.arith .mul (.field "x") (.lit (.int 2))) (.field "y")) ev = true
    ∧ intArith .add 9223372036854775807 1 = -9223372036854775808
    ∧ (evalArith .div (.int 1) (.int 0)).isNone = true := by
  decide +kernel

/-- third known finding: `x * 1 == y` on `x = y = "a"`. `.where` sees the folded `x == y` (true); the
step evaluates `"a" * 1` (no value) and rejects. Root cause: the type-blind identity rewrite of the
parser (C10 finding `C10-identity-rewrite`) is applied to `.where` but not to step filters. -/
theorem witness_fold_identity :
    let e : FExpr := .cmp .eq (.arith .mul (.field "x") (.lit (.int 1))) (.field "y")
    let ev : Event := [("x", .str "a"), ("y", .str "a")]
    identFree e = false ∧ whereAcceptsFE e ev = true ∧ whereAccepts e ev = false ∧ stepAccepts e ev = false := by
  decide +kernel

/-- `not (x > 1)` on an event without `x`: dropped by `.where`, accepted by the step -/
theorem witness_not_missing :
    whereAccepts (.not (.cmp .gt (.field "x") (.lit (.int 1)))) [] = false
    ∧ stepAccepts (.not (.cmp .gt (.field "x") (.lit (.int 1)))) [] = true := by
  decide +kernel

/-- `x > 1 or y > 1` on `y = 5` without `x`: dropped by `.where`, accepted by the step -/
theorem witness_or_missing :
    whereAccepts (.or (.cmp .gt (.field "x") (.lit (.int 1))) (.cmp .gt (.field "y") (.lit (.int 1)))) [("y", .int 5)] = false
    ∧ stepAccepts (.or (.cmp .gt (.field "x") (.lit (.int 1))) (.cmp .gt (.field "y") (.lit (.int 1)))) [("y", .int 5)] = true := by
  decide +kernel

/-- the full-strength statement of C09 is false of the unchanged code -/
theorem where_step_agree_counterexample : ¬ ∀ (e : FExpr) (ev : Event), whereAccepts e ev = stepAccepts e ev := by
  intro h
  have := h (.cmp .eq (.field "x") (.lit (.int 1))) [("x", .float ⟨0x3ff0000000000000⟩)]
  rw [witness_eq_int_float.1, witness_eq_int_float.2] at this
  cases this

/-- each witness lies under its finding's guard, and only there -/
theorem witnesses_classified :
    whyWeak (.cmp .eq (.field "x") (.lit (.int 1))) [("x", .float ⟨0x3ff0000000000000⟩)] = some .eqEpsilon
    ∧ whyWeak (.cmp .eq (.field "x") (.lit (.float ⟨0x3fe0000000000000⟩))) [("x", .float ⟨0x3fe0000000000001⟩)] = some .eqEpsilon
    ∧ whyWeak (.not (.cmp .gt (.field "x") (.lit (.int 1)))) [] = some .errorOperand
    ∧ whyWeak (.or (.cmp .gt (.field "x") (.lit (.int 1))) (.cmp .gt (.field "y") (.lit (.int 1)))) [("y", .int 5)] = some .errorOperand := by
  decide +kernel

/-- non-vacuity: the guard holds of a depth-3 expression mixing all operators on an event with an
int, a float, a string, a bool and a missing field, and both contexts accept it -/
example :
    let e : FExpr := .and (.or (.cmp .ge (.field "i") (.lit (.float ⟨0x3ff8000000000000⟩))) (.not (.atom (.field "b"))))
                          (.and (.other .isIn (.lit (.str "a")) (.field "s")) (.cmp .lt (.field "missing") (.lit (.int 3))))
    let e' : FExpr := .and (.or (.cmp .ge (.field "i") (.lit (.float ⟨0x3ff8000000000000⟩))) (.not (.atom (.field "b"))))
                          (.cmp .ne (.field "s") (.lit (.str "x")))
    let ev : Event := [("i", .int 2), ("f", .float ⟨0x4004000000000000⟩), ("s", .str "a"), ("b", .bool true)]
    agreeGuard e ev = true ∧ whereAccepts e ev = false ∧ agreeGuard e' ev = true ∧ whereAccepts e' ev = true ∧ stepAccepts e' ev = true := by
  decide +kernel

end witnesses

end Varpulis.Props.C09
