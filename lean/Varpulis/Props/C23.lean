import Varpulis.Lemmas.EngineRoute
/-!
# C23 — hot reload keeps unchanged streams working and applies changed ones

Model: `Model/EngineRoute.lean` (`load`, `reload`). A stream is its definition (an arbitrary step
function `resp`) plus its state (`hist`, the events it has been handed); "behaves like a freshly loaded
stream" = has the definition and the (empty) state a fresh `load` of the new program gives it, and is
routed by the router a fresh load builds. `Loaded P E`: `E` is `load P` after any amount of processing
on any entry point (`loaded_load`, `loaded_after_processing`).

The statements are about `Engine::reload` *after* the two repairs (see notes/C23.md); the pre-repair
behaviour is stated on `legacyReload` in `Lemmas/EngineRoute.lean` (`legacy_reload_sequence_starves`,
`legacy_reload_join_starves`, `legacy_reload_keeps_old_ops`).
-/
namespace Varpulis.Props.C23
open Varpulis.EngineRoute

/-- the engines the identity theorem speaks about: freshly loaded ... -/
theorem loaded_initially (P : List SDef) : Loaded P (load P) := loaded_load P

/-- ... and after processing any events on any entry point -/
theorem loaded_after_processing (sync : Bool) (P : List SDef) (E : Eng) (evs : List Ev) (h : Loaded P E) :
    Loaded P (processSeq sync E evs).eng := loaded_processSeq sync P E evs h

/-- Reloading a running engine with the same program changes nothing: same streams with their state,
same router — hence the same outputs for every future input on every entry point. -/
theorem reload_same_is_identity (P : List SDef) (E : Eng) (h : Loaded P E) : reload E P = E := reload_same P E h

/-- observational form, at any point of any event sequence -/
theorem reload_same_unobservable (P : List SDef) (before after : List Ev) :
    let E := (perEvent (load P) before).eng
    (perEvent (reload E P) after).sent = (perEvent E after).sent ∧
    (batchSync (reload E P) [after]).sent = (perEvent E after).sent := by
  intro E
  have hE : Loaded P E := loaded_processSeq false P (load P) before (loaded_load P)
  rw [reload_same P E hE]
  refine ⟨rfl, ?_⟩
  have := processSeq_sync_async after E
  simp only [batchSync, calls, batchSyncCall, perEvent, List.append_nil]
  exact this.2

/-- After `reload P'`, every stream that is new or whose declaration changed is exactly what a fresh load
of `P'` makes it (new definition, empty state), whatever the old engine had processed. -/
theorem reload_changed_is_fresh (E : Eng) (P' : List SDef) (d' : SDef) (hd : (load P').find d'.name = some d')
    (hc : E.find d'.name = none ∨ ∃ d, E.find d'.name = some d ∧ changed E (load P') d d' = true) :
    (reload E P').find d'.name = (load P').find d'.name ∧ (reload E P').hist d'.name = (load P').hist d'.name := by
  have := reload_changed_fresh E P' d' hd hc
  rw [hd, load_hist_nil]; exact this

/-- every stream whose declaration did not change keeps its definition and its state -/
theorem reload_unchanged_keeps_state (E : Eng) (P' : List SDef) (d d' : SDef) (hd : (load P').find d'.name = some d')
    (hf : E.find d'.name = some d) (hch : changed E (load P') d d' = false) :
    (reload E P').find d'.name = some d ∧ (reload E P').hist d'.name = E.hist d'.name :=
  reload_unchanged_kept E P' d d' hd hf hch

/-- events are routed as in a freshly loaded engine of `P'` (all subscriptions: primary sources, sequence
step types, join sources), and streams that are no longer declared are gone -/
theorem reload_routes_like_fresh (E : Eng) (P' : List SDef) :
    (reload E P').router = (load P').router ∧ RouterNodup (reload E P').router ∧
    ∀ s, (load P').find s = none → (reload E P').find s = none :=
  ⟨rfl, load_router_nodup P', fun s h => (reload_removed E P' s h).1⟩

/-- if every stream changed (or the engine had not processed anything), reloading is loading -/
theorem reload_all_changed_is_load (E : Eng) (P' : List SDef)
    (h : ∀ d', (load P').find d'.name = some d' → E.find d'.name = none ∨ ∃ d, E.find d'.name = some d ∧ changed E (load P') d d' = true)
    (s : Ty) : (reload E P').find s = (load P').find s ∧ (reload E P').hist s = (load P').hist s := by
  cases hf : (load P').find s with
  | none => have := reload_removed E P' s hf; rw [load_hist_nil]; exact this
  | some d' =>
    have hn : d'.name = s := by have := List.find?_some hf; simpa using this
    subst hn
    have := reload_changed_fresh E P' d' hf (h d' hf)
    rw [load_hist_nil]; exact this

/-- non-vacuity: a sequence-like stream (two subscriptions) keeps completing after `reload P`, a changed
sibling is replaced, and a same-length edit is detected -/
example :
    let S : SDef := { joinStream 10 [0, 1] with prim := [0], isJoin := false }
    let old := emitStream 11 [0]
    let new : SDef := { emitStream 11 [0] with defId := 99, resp := fun _ _ => { outs := [], emitted := [] } }
    let E := (perEvent (load [S, old]) [⟨0, 1⟩]).eng
    (perEvent (reload E [S, new]) [⟨1, 2⟩, ⟨0, 3⟩]).sent = [⟨10, 2⟩, ⟨10, 3⟩] ∧
    (perEvent E [⟨1, 2⟩, ⟨0, 3⟩]).sent = [⟨10, 2⟩, ⟨10, 3⟩, ⟨11, 3⟩] := by decide

end Varpulis.Props.C23
