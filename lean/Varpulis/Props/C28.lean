import Varpulis.Lemmas.TenantApi
/-!
# C28 — tenants cannot see or affect each other's pipelines

Model: `Model/TenantApi.lean` — `TenantManager` (tenants, api-key index) and the twelve pipeline
handlers of `cli/api.rs` as functions `handle : state → key → operation → state × reply`, each
`key ↦ get_tenant_by_api_key ↦ tenant id ↦ that tenant ↦ operation on that tenant`, over an
**arbitrary** engine (`EngineOps`: whatever `load/process/checkpoint/restore/reload` do).

"Belongs to another tenant" is `m.tenantByKey key ≠ some tid`: the request's key is not a key of
tenant `tid` (it is another tenant's key, or nobody's). Pipeline ids in the request are arbitrary
strings — own ids, foreign ids, ids of nothing: they are never quantified away.
-/
namespace Varpulis.Props.C28
open Varpulis.TenantApi

variable {ε ι ο κ : Type}

/-- **cannot affect, one request.** Whatever the endpoint (deploy, list, get, delete, inject,
inject-batch, checkpoint, restore, metrics, reload, usage, logs), whatever pipeline id and body it
carries: a request whose key is not tenant `tid`'s leaves tenant `tid` — its pipelines with the
engines behind them (outputs, checkpoints), its usage counters, its quota — unchanged, and the key
index too. -/
theorem other_tenant_unchanged (ops : EngineOps ε ι ο κ) (m : Manager ε) (key : String) (op : Op ι κ) (tid : String)
    (hk : m.tenantByKey key ≠ some tid) :
    (handle ops m key op).1.getTenant tid = m.getTenant tid ∧ (handle ops m key op).1.index = m.index :=
  ⟨handle_frame ops m key op tid hk, handle_index ops m key op⟩

/-- **cannot see, one request.** The reply to a request of tenant `tid` (and what becomes of tenant
`tid`) is a function of the key index and of tenant `tid` alone: two managers that differ
arbitrarily in every *other* tenant — other pipelines, ids, sources, engines, usage — give the same
reply. So nothing of another tenant can appear in a reply: not in `list`, not in `get` with the
other tenant's pipeline id (it answers exactly as for an id that exists nowhere), not in metrics
or usage. -/
theorem reply_depends_on_own_tenant_only (ops : EngineOps ε ι ο κ) (m m' : Manager ε) (key : String) (op : Op ι κ)
    (tid : String) (hidx : m.index = m'.index) (hk : m.tenantByKey key = some tid)
    (hv : m.getTenant tid = m'.getTenant tid) :
    (handle ops m key op).2 = (handle ops m' key op).2 ∧
    (handle ops m key op).1.getTenant tid = (handle ops m' key op).1.getTenant tid :=
  handle_consistent ops m m' key op tid hidx hk hv

/-- a key that belongs to no tenant gets `401` and changes nothing at all -/
theorem unknown_key_refused (ops : EngineOps ε ι ο κ) (m : Manager ε) (key : String) (op : Op ι κ)
    (hk : m.tenantByKey key = none) : handle ops m key op = (m, .unauthorized) :=
  handle_unknown_key ops m key op hk

/-- **cannot affect, request sequences.** After any sequence of requests none of which carries a
key of tenant `tid`, tenant `tid` is exactly as before. -/
theorem other_tenant_unchanged_seq (ops : EngineOps ε ι ο κ) (m : Manager ε) (qs : List (Request ι κ)) (tid : String)
    (h : ∀ q ∈ qs, m.tenantByKey q.key ≠ some tid) : (run ops m qs).1.getTenant tid = m.getTenant tid :=
  run_frame ops tid qs m h

/-- **cannot see or affect, request sequences (non-interference).** In any interleaving of requests
of 2, 3, … tenants, the replies tenant `tid` receives are exactly the replies it would receive if
nobody else had sent anything — starting from any manager that agrees on the key index and on
tenant `tid`, i.e. whatever the others hold and whatever they do. -/
theorem replies_independent_of_other_tenants (ops : EngineOps ε ι ο κ) (m m' : Manager ε) (qs : List (Request ι κ))
    (tid : String) (hidx : m.index = m'.index) (hv : m.getTenant tid = m'.getTenant tid) :
    repliesFor ops tid m qs = repliesFor ops tid m' (qs.filter fun q => m.tenantByKey q.key == some tid) :=
  repliesFor_purge ops tid qs m m' hidx hv

/-! Non-vacuity: two tenants with one pipeline each; tenant A (key `ka`) uses B's pipeline id `pb`
on every endpoint that takes one: every reply is "pipeline not found", B is untouched, A's own
event counter moves; A's `list` shows only A's pipeline. -/
def exM : Manager ThrEngine :=
  { tenants := [
      { id := "A", name := "a", apiKey := "ka", maxPipelines := 2, usage := ⟨0, 0, 1⟩,
        pipelines := [{ id := "pa", name := "PA", source := "1", running := true, engine := ⟨1, 0⟩ }] },
      { id := "B", name := "b", apiKey := "kb", maxPipelines := 2, usage := ⟨5, 0, 1⟩,
        pipelines := [{ id := "pb", name := "PB", source := "7", running := true, engine := ⟨7, 5⟩ }] }],
    index := [("ka", "A"), ("kb", "B")] }

/-- the tie's engine with a source reader the kernel can evaluate (`String.toInt?` does not reduce) -/
def exOps : EngineOps ThrEngine Int Int Nat :=
  { thrOps with parses := fun s => s != "bad", load := fun _ => some ⟨0, 0⟩,
                reload := fun e s => if s == "bad" then none else some { e with thr := 0 } }

def foreignOps : List (Request Int Nat) :=
  [⟨"ka", .get "pb"⟩, ⟨"ka", .delete "pb"⟩, ⟨"ka", .inject "pb" 9⟩, ⟨"ka", .injectBatch "pb" [9, 10]⟩,
   ⟨"ka", .checkpoint "pb"⟩, ⟨"ka", .restore "pb" 0⟩, ⟨"ka", .metrics "pb"⟩, ⟨"ka", .reload "pb" "0"⟩, ⟨"ka", .logs "pb"⟩]

example : ((run exOps exM foreignOps).1.getTenant "B").map (fun t => (t.usage, t.pipelines.map fun p => (p.id, p.source, p.engine)))
    = some (⟨5, 0, 1⟩, [("pb", "7", ⟨7, 5⟩)]) := by decide +kernel
example : ((run exOps exM foreignOps).1.getTenant "A").map (·.usage) = some ⟨3, 0, 1⟩ := by decide +kernel
example : (match (handle exOps exM "ka" .list).2 with | .pipelines l => l.map (·.id) | _ => []) = ["pa"] := by decide +kernel
example : (match (handle exOps exM "ka" (.inject "pa" 9)).2 with | .injected o => o | _ => []) = [9] := by decide +kernel

end Varpulis.Props.C28
