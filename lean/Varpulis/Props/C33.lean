import Varpulis.Lemmas.Coord
/-!
# C33 — pipelines are only placed on available workers and failures are detected

Statements over `Varpulis.Coord` (Model/Coord.lean): `planDeploy` mirrors `Coordinator::plan_deploy_group`
(and the selection loop of `deploy_group`), `failoverCandidates` / `isLeastLoaded` the target choice of
`handle_worker_failure` and `drain_worker`, `planMigrate` mirrors `plan_migrate_pipeline`, `sweep` mirrors
`health::health_sweep`, `heartbeat` mirrors `Coordinator::heartbeat`. The placement strategy is any
`Chooser` that returns one of the workers it is offered (`Chooser.Valid`: what `RoundRobinPlacement` and
`LeastLoadedPlacement` guarantee, whatever the HashMap order). Time is the virtual clock (ms).
-/
namespace Varpulis.Props.C33
open Varpulis.Coord

/-- **every task of a deployment plan is placed on a registered worker that is Ready and below its
pipeline limit** — never on an unhealthy, draining or deregistered one — and is justified by a pipeline
of the request; **a pinned pipeline goes to its pinned worker whenever that worker is available** -/
theorem plan_places_on_available (ch : Chooser) (hv : ch.Valid) (s : St) (specs : List PSpec) (ts : List Task)
    (h : planDeploy ch s specs = .ok ts) :
    ∀ t ∈ ts, ∃ p ∈ specs,
      t.pipeline = p.name ∧ t.replica ∈ replicaNames p ∧
      (∃ w ∈ s.workers, w.id = t.worker ∧ w.status = .ready ∧ w.running < w.maxP) ∧
      (∀ a w, p.affinity = some a → s.getW a = some w → w.isAvailable = true → t.worker = a) := by
  unfold planDeploy at h
  split at h
  · cases h
  · cases hp : planPipes ch s 0 specs with
    | none => simp [hp] at h
    | some ts' =>
      simp only [hp, PlanRes.ok.injEq] at h
      subst h
      intro t ht
      obtain ⟨p, hp', h1, h2, ⟨w, hw, hid, hav⟩, h4⟩ := planPipes_ok ch hv s specs 0 ts' hp t ht
      refine ⟨p, hp', h1, h2, ⟨w, hw, hid, ?_⟩, h4⟩
      simpa [Worker.isAvailable] using hav

/-- a deployment plan is refused exactly when no worker is available -/
theorem plan_refused_iff (ch : Chooser) (hv : ch.Valid) (s : St) (specs : List PSpec) :
    (∀ ts, planDeploy ch s specs ≠ .ok ts) ↔ s.available = [] := by
  unfold planDeploy
  constructor
  · intro h
    by_cases he : s.available = []
    · exact he
    · have hs := planPipes_some ch hv s he specs 0
      cases hp : planPipes ch s 0 specs with
      | none => rw [hp] at hs; cases hs
      | some ts => exact absurd (by simp [he, hp]) (h ts)
  · intro he ts
    simp [he]

/-- failover and drain targets: a possible result of the least-loaded choice among the candidates is a
registered, available worker different from the failed / draining one, and no candidate is less loaded -/
theorem failover_target_available (s : St) (failed id : WId)
    (h : isLeastLoaded (failoverCandidates s failed) id = true) :
    ∃ w ∈ s.workers, w.id = id ∧ w.status = .ready ∧ w.running < w.maxP ∧ id ≠ failed ∧
      ∀ y ∈ failoverCandidates s failed, loadLe w y = true := by
  obtain ⟨x, hx, hid, hmin⟩ := isLeastLoaded_mem h
  simp only [failoverCandidates, List.mem_filter, Bool.and_eq_true, bne_iff_ne, ne_eq] at hx
  refine ⟨x, hx.1, hid, ?_, ?_, ?_, hmin⟩
  · have := hx.2.1; simp [Worker.isAvailable] at this; exact this.1
  · have := hx.2.1; simp [Worker.isAvailable] at this; exact this.2
  · rw [← hid]; exact hx.2.2

/-- a (manual) migration is planned only onto a registered, available worker -/
theorem migrate_target_available (s : St) (g : GId) (n : Name) (target : WId) (p : MigPlan)
    (h : planMigrate s g n target = .ok p) :
    p.target = target ∧ ∃ w ∈ s.workers, w.id = target ∧ w.status = .ready ∧ w.running < w.maxP := by
  unfold planMigrate at h
  split at h
  · cases h
  · split at h
    · cases h
    · split at h
      · cases h
      · rename_i w hw
        split at h
        · cases h
        · rename_i hav
          simp only [Except.ok.injEq] at h
          subst h
          refine ⟨rfl, w, (getW_some hw).1, (getW_some hw).2, ?_⟩
          simpa [Worker.isAvailable] using hav

/-- the monolithic `migrate_pipeline` (manual calls, failover, drain, rebalance) changes the state only when
its target is registered and available -/
theorem migrate_only_onto_available (s : St) (g : GId) (n : Name) (t : WId) (ok : Bool)
    (h : migrateAtomic s g n t ok ≠ s) :
    ∃ w ∈ s.workers, w.id = t ∧ w.status = .ready ∧ w.running < w.maxP := by
  unfold migrateAtomic at h
  cases hp : s.getP g n with
  | none => simp [hp] at h
  | some r =>
    cases hw : s.getW t with
    | none => simp [hp, hw] at h
    | some w =>
      simp only [hp, hw] at h
      by_cases hc : (w.isAvailable && s.hasGroup g && ok) = true
      · simp only [Bool.and_eq_true] at hc
        refine ⟨w, (getW_some hw).1, (getW_some hw).2, ?_⟩
        simpa [Worker.isAvailable] using hc.1.1
      · simp [hc] at h

/-- **a sweep marks a Ready worker unhealthy iff its last heartbeat is older than the timeout** (strictly);
every other worker, and every other field, is left alone -/
theorem sweep_marks_iff (timeout now : Nat) (w : Worker) :
    ((sweepWorker timeout now w).status = .unhealthy ↔
        (w.status = .ready ∧ now - w.lastHb > timeout) ∨ w.status = .unhealthy) ∧
    (¬ (w.status = .ready ∧ now - w.lastHb > timeout) → sweepWorker timeout now w = w) ∧
    (sweepWorker timeout now w).id = w.id ∧ (sweepWorker timeout now w).lastHb = w.lastHb ∧
    (sweepWorker timeout now w).running = w.running ∧ (sweepWorker timeout now w).assigned = w.assigned := by
  unfold sweepWorker
  by_cases h : w.status = .ready ∧ now - w.lastHb > timeout
  · simp [h]
  · simp [h]

/-- the ids a sweep reports are exactly the Ready workers whose heartbeat is older than the timeout -/
theorem sweep_reports (s : St) (now : Nat) (id : WId) :
    id ∈ sweepMarked s now ↔ ∃ w ∈ s.workers, w.id = id ∧ w.status = .ready ∧ now - w.lastHb > s.timeout := by
  simp [sweepMarked, List.mem_map, List.mem_filter, and_assoc, and_comm, and_left_comm]

/-- **never earlier, and at the first sweep after**: a Ready worker whose last heartbeat was at `hb` stays
Ready through any history of steps that contains no registration / heartbeat / deregistration / drain of it
and only sweeps at times `now` with `now − hb ≤ timeout`; the first sweep with `now − hb > timeout` marks it
unhealthy -/
theorem detected_exactly_at_first_late_sweep (s : St) (id : WId) (hb : Nat)
    (h : hbView s id = some (.ready, hb)) (pre : List Step)
    (hq : ∀ st ∈ pre, st.touches id = false ∨ ∃ now, st = .sweep now ∧ now - hb ≤ s.timeout) :
    hbView (run s pre) id = some (.ready, hb) ∧
    ∀ now, now - hb > s.timeout → hbView (step (run s pre) (.sweep now)) id = some (.unhealthy, hb) := by
  have key : ∀ (pre : List Step) (s : St), hbView s id = some (.ready, hb) →
      (∀ st ∈ pre, st.touches id = false ∨ ∃ now, st = .sweep now ∧ now - hb ≤ s.timeout) →
      hbView (run s pre) id = some (.ready, hb) ∧ (run s pre).timeout = s.timeout := by
    intro pre
    induction pre with
    | nil => intro s h _; exact ⟨h, rfl⟩
    | cons st rest ih =>
      intro s h hq
      have hst : hbView (step s st) id = some (.ready, hb) := by
        rcases hq st (List.mem_cons_self) with hf | ⟨now, rfl, hle⟩
        · rw [hbView_step_frame s st id hf]; exact h
        · simp only [step]
          rw [hbView_sweep, h]
          have : ¬ (now - hb > s.timeout) := by omega
          simp [this]
      have ht := timeout_step s st
      have := ih (step s st) hst (fun st' h' => by rw [ht]; exact hq st' (List.mem_cons_of_mem _ h'))
      simp only [run, List.foldl_cons] at this ⊢
      exact ⟨this.1, this.2.trans ht⟩
  obtain ⟨h1, h2⟩ := key pre s h hq
  refine ⟨h1, ?_⟩
  intro now hnow
  simp only [step]
  rw [hbView_sweep, h1, h2]
  simp [hnow]

/-- **a heartbeat makes an unhealthy worker Ready again** (a draining one stays draining), stamps the
clock and stores the reported count; an unknown worker is an error and changes nothing -/
theorem heartbeat_restores (s : St) (id n now : Nat) :
    (s.getW id = none → heartbeat s id n now = none) ∧
    (∀ w, s.getW id = some w → ∃ s', heartbeat s id n now = some s' ∧
      s'.getW id = some { w with lastHb := now, running := n,
                                 status := if w.status = .unhealthy then .ready else w.status }) := by
  constructor
  · intro h; simp [heartbeat, h]
  · intro w h
    unfold heartbeat
    rw [h]
    refine ⟨_, rfl, ?_⟩
    refine (getW_updW _ _ _ _ ?_).trans ?_
    · intro _; rfl
    · rw [h]
      simp [(getW_some h).2]

/-- hence a worker that was marked unhealthy is available again after its next heartbeat (below its limit) -/
theorem heartbeat_makes_available (s s' : St) (id n now : Nat) (w : Worker)
    (hw : s.getW id = some w) (hu : w.status = .unhealthy ∨ w.status = .ready) (hn : n < w.maxP)
    (h : heartbeat s id n now = some s') :
    ∃ w' ∈ s'.workers, w'.id = id ∧ w'.isAvailable = true ∧ w'.lastHb = now := by
  obtain ⟨s'', h1, h2⟩ := (heartbeat_restores s id n now).2 w hw
  rw [h] at h1
  cases h1
  refine ⟨_, (getW_some h2).1, (getW_some h2).2, ?_, rfl⟩
  rcases hu with hu | hu <;> simp [Worker.isAvailable, hu, hn]

/-- the two strategies of `lib.rs` in model form are valid choosers -/
theorem round_robin_valid (c0 : Nat) :
    Chooser.Valid (fun i ws => if ws.isEmpty then none else (ws[(c0 + i) % ws.length]?).map (·.id)) := by
  intro i ws
  constructor
  · intro w h
    by_cases he : ws.isEmpty = true
    · simp [he] at h
    · simp only [he] at h
      simp only [Bool.false_eq_true, if_false, Option.map_eq_some_iff] at h
      obtain ⟨x, hx, rfl⟩ := h
      exact ⟨x, List.mem_of_getElem? hx, rfl⟩
  · intro hne
    have hpos : 0 < ws.length := List.length_pos_iff.2 hne
    have he : ws.isEmpty = false := by cases ws <;> simp_all
    simp [he, List.getElem?_eq_getElem (Nat.mod_lt _ hpos)]

/-- non-vacuity: one ready worker with room, one draining; a pinned and an unpinned pipeline -/
example :
    let s : St := { workers := [⟨1, .ready, 0, 2, 4, 0, []⟩, ⟨2, .draining, 0, 2, 4, 0, []⟩] }
    (match planDeploy (fun _ ws => ws.head?.map (·.id)) s [⟨"p", some 2, 1⟩, ⟨"q", none, 2⟩] with
      | .ok ts => ts.map (fun t => (t.replica, t.worker))
      | .noWorkers => []) = [("p", 1), ("q#0", 1), ("q#1", 1)] := by decide

end Varpulis.Props.C33
