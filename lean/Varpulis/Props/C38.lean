import Varpulis.Lemmas.RaftSync
/-!
# C38 — coordinator views stay in sync with the replicated state and are not reverted

Model: `Varpulis.RaftSync` (Model/RaftSync.lean). `Sys = (l, r)`: the leader's local view `l` (the fields of
`Coordinator` that `sync_from_raft` reads or writes) and the replicated `CoordinatorState` `r`.
Every operation (`Op`: the API handlers of api.rs and the phases of the health-loop tick of main.rs) is the
pair the code performs under the coordinator's write lock: a local update (`stepL`) and the list of
`ClusterCommand`s it proposes (`emits`), applied to `r` by `applyCmd` (= `apply_command`).
Worker-call outcomes, placement choices and generated ids are inputs, so the theorems hold for all of them.

The view has six components (`Comp`): `wset` (which workers exist, address/key, cores, limit), `status`,
`book` (assigned pipelines, running count, events processed), `groups`, `conns`, `policy`.
`CompSync c l r`: component `c` of the local view is what the replicated state says.
`NoRevert c l l'`: component `c` of `l'` shows nothing different from `l`.

The property — every operation keeps every component synchronised — is **false** of the code.
`knownCell` lists the (operation, component) cells that break, grouped by call site into the known
findings; each has a machine-checked witness below, including the revert by the next `sync_from_raft`.
What is proved (`…_partial`): **every other cell** — for all states and all inputs — and therefore, for
every history that avoids the listed cells of a component, that component stays synchronised, a
re-synchronisation at any point changes nothing in it, and a follower shows the leader's view of it.
Three defects were repaired (`fix:` commits: heartbeat recovery, connector validation order, drain); the model mirrors the repaired code and `emitsPreFix` keeps the
old behaviour for the defect witnesses at the end.
-/
namespace Varpulis.Props.C38
open Varpulis.RaftSync Varpulis.RaftSync.Witness

/-- the judges used on the implementation's dumped states decide exactly `CompSync` and `NoRevert` -/
theorem judge_sound (c : Comp) (l l' : LState) (r : RState) :
    (compSyncB c l r = true ↔ CompSync c l r) ∧ (noRevertB c l l' = true ↔ NoRevert c l l') :=
  ⟨compSyncB_iff c l r, noRevertB_iff c l l'⟩

/-- **partial theorem (one operation)**: from any state, with any inputs, an operation keeps component `c`
synchronised unless the cell (operation kind, `c`) is one of the listed known findings -/
theorem operation_keeps_component_in_sync_partial (s : Sys) (op : Op) (c : Comp)
    (hcell : knownCell op.kind c = none) (h : CompSync c s.l s.r) :
    CompSync c (step s op).l (step s op).r := step_preserves s op c hcell h

/-- **partial theorem (all histories)**: from the empty coordinator, every history of API operations and
health-loop phases that avoids the listed cells of `c` keeps `c` synchronised -/
theorem history_keeps_component_in_sync_partial (ops : List Op) (c : Comp) (hclean : cleanFor c ops = true) :
    CompSync c (run {} ops).l (run {} ops).r := run_preserves c ops {} hclean (compSync_init c)

/-- **`sync_from_raft` never reverts a synchronised component**: whatever the clock, whatever the other
components look like -/
theorem resync_never_reverts (l : LState) (r : RState) (now : Nat) (c : Comp) (h : CompSync c l r) :
    NoRevert c l (sync l r now) := sync_no_revert l r now c h

/-- when the whole view is synchronised, `sync_from_raft` is the identity on it (it only refreshes the
heartbeat stamps of Ready workers) -/
theorem resync_is_identity_when_in_sync (l : LState) (r : RState) (now : Nat) (h : InSync l r) :
    ∀ c, NoRevert c l (sync l r now) ∧ CompSync c (sync l r now) r :=
  fun c => ⟨sync_no_revert l r now c (h c), pres_tickSync ⟨l, r⟩ now c (h c)⟩

/-- after any history that avoids the listed cells of `c`, a re-synchronisation changes nothing in `c` -/
theorem history_then_resync_partial (ops : List Op) (c : Comp) (now : Nat) (hclean : cleanFor c ops = true) :
    NoRevert c (run {} ops).l (sync (run {} ops).l (run {} ops).r now) :=
  sync_no_revert _ _ now c (history_keeps_component_in_sync_partial ops c hclean)

/-- **a follower's view equals the leader's**, component by component, wherever the leader is synchronised
(a follower's view is `sync_from_raft` applied to a coordinator that performed no operation itself) -/
theorem follower_view_equals_leader_partial (l : LState) (r : RState) (now : Nat) (c : Comp) (h : CompSync c l r) :
    NoRevert c l (followerView r now) := follower_matches_leader l r now c h

/-- the listed cells are exactly these twelve; status, connectors and every cell of registration,
deregistration, sweeps and `sync_from_raft` itself are inside the theorem -/
theorem known_cells :
    ([Kind.register, .heartbeat, .deregister, .deploy, .teardown, .migrate, .rebalanceApi, .drain,
      .connCreate, .connUpdate, .connDelete, .tickSync, .tickSweep, .tickFailover, .tickReconcile,
      .tickRebalance, .startupPolicy].flatMap fun k =>
        Comp.all.filterMap fun c => if (knownCell k c).isSome then some (k, c) else none) =
    [(.heartbeat, .book), (.deploy, .book), (.teardown, .book), (.migrate, .book), (.rebalanceApi, .book),
     (.drain, .book), (.tickFailover, .book), (.tickFailover, .groups),
     (.tickReconcile, .book), (.tickRebalance, .book), (.tickRebalance, .groups), (.startupPolicy, .policy)] := by
  decide

/-! ### the full statement is false: one witness per known finding (call site), with the revert -/

/-- C38-worker-bookkeeping-not-replicated (`handle_deploy_group`): the deployment is proposed
(`GroupDeployed`) but not the worker's assigned pipelines / running count; the next `sync_from_raft`
resets them -/
theorem deploy_bookkeeping_counterexample :
    let s := run {} [w1, deployP]
    compSyncB .book (run {} [w1]).l (run {} [w1]).r = true ∧ compSyncB .groups s.l s.r = true ∧
    compSyncB .book s.l s.r = false ∧ noRevertB .book s.l (sync s.l s.r 5) = false ∧
    (s.l.workers.get "w1").map (·.assigned) = some ["p"] ∧
    ((sync s.l s.r 5).workers.get "w1").map (·.assigned) = some [] := by decide

/-- C38-worker-bookkeeping-not-replicated (`handle_heartbeat`): the reported running count and event total
are overwritten with the values of the registration by the next `sync_from_raft` -/
theorem heartbeat_bookkeeping_counterexample :
    let s := run {} [w1, .heartbeat "w1" 2 700 3]
    compSyncB .book s.l s.r = false ∧ noRevertB .book s.l (sync s.l s.r 5) = false ∧
    ((sync s.l s.r 5).workers.get "w1").map (fun w => (w.running, w.events)) = some (0, 0) := by decide

/-- C38-worker-bookkeeping-not-replicated (`reconcile_placements`): it proposes the assigned pipelines but
no command carries the running count -/
theorem reconcile_running_counterexample :
    let s0 := run {} [w1, deployP, .tickSync 5]
    let s := step s0 (.tickReconcile [("w1", "p")])
    compSyncB .book s0.l s0.r = true ∧ compSyncB .book s.l s.r = false ∧
    (s.l.workers.get "w1").map (fun w => (w.assigned, w.running)) = some (["p"], 1) ∧
    ((sync s.l s.r 9).workers.get "w1").map (fun w => (w.assigned, w.running)) = some (["p"], 0) := by decide

/-- C38-failover-not-replicated (health loop): a worker times out, the sweep marks it (that is proposed),
its pipeline is moved to another worker — and the next tick's `sync_from_raft` moves it back in the
coordinator's view, onto the dead worker. (The phases sweep → failover are taken on their own here: in the
shipped loop a `sync_from_raft` always precedes the sweep and masks the time-out, see
`sync_masks_heartbeat_timeouts` below, so this call site is latent.) -/
theorem failover_counterexample :
    let s0 := run {} [w1, w2, deployP, .heartbeat "w2" 0 0 15000, .tickSweep 20000]
    let s := step s0 (.tickFailover "w1" [toW2])
    sweepMarked (run {} [w1, w2, deployP, .heartbeat "w2" 0 0 15000]).l 20000 = ["w1"] ∧
    compSyncB .groups s0.l s0.r = true ∧ compSyncB .status s0.l s0.r = true ∧
    compSyncB .groups s.l s.r = false ∧ noRevertB .groups s.l (sync s.l s.r 25000) = false ∧
    ((s.l.groups.get "g").bind (·.pls.get "p")).map (·.worker) = some "w2" ∧
    (((sync s.l s.r 25000).groups.get "g").bind (·.pls.get "p")).map (·.worker) = some "w1" := by decide

/-- C38-auto-rebalance-not-replicated (health loop `rebalance()`) -/
theorem auto_rebalance_counterexample :
    let s0 := run {} [w1, w2, deployP]
    let s := step s0 (.tickRebalance [toW2])
    compSyncB .groups s0.l s0.r = true ∧ compSyncB .groups s.l s.r = false ∧
    noRevertB .groups s.l (sync s.l s.r 9) = false := by decide

/-- the same migrations through `handle_rebalance` are proposed: the group stays synchronised -/
example :
    let s := run {} [w1, w2, deployP, .rebalanceApi [toW2]]
    compSyncB .groups s.l s.r = true ∧
    ((s.r.groups.get "g").bind (·.pls.get "p")).map (·.worker) = some "w2" := by decide

/-- C38-startup-scaling-policy-not-replicated: the policy configured at start-up is wiped by the first
`sync_from_raft` -/
theorem startup_policy_counterexample :
    let s := run {} [.startupPolicy (some "min=1,max=4")]
    compSyncB .policy s.l s.r = false ∧ (sync s.l s.r 1).policy = none := by decide

/-- C38-sync-refreshes-heartbeat-stamps: `sync_from_raft` re-stamps `last_heartbeat` of every worker whose
replicated status is Ready, and the health loop runs it right before `health_sweep`: in Raft mode a sweep
marks nobody, however long a worker has been silent (so the failover phase is never reached through the
health loop). For every state and every clock value: -/
theorem sync_masks_heartbeat_timeouts (l : LState) (r : RState) (now : Nat)
    (hst : ∀ id e, r.workers.get id = some e → parseStatus e.status ≠ .registering) :
    sweepMarked (sync l r now) now = [] := sweep_after_sync_marks_nobody l r now hst

/-- … e.g. a worker silent for ten times the time-out: a sweep alone would mark it, the loop's
sync-then-sweep does not -/
theorem sync_masks_heartbeat_timeouts_witness :
    let s := run {} [w1]
    sweepMarked s.l 150000 = ["w1"] ∧ sweepMarked (step s (.tickSync 150000)).l 150000 = [] := by decide

/-! ### the two repaired defects (witnesses on the code before the `fix:` commits) -/

/-- before the repair a heartbeat recovery Unhealthy → Ready was not proposed: the next
`sync_from_raft` made the worker Unhealthy again. The repaired handler proposes `WorkerStatusChanged{ready}` -/
theorem heartbeat_recovery_defect_witness :
    let s0 := run {} [w1, .tickSweep 20000]
    let hb : Op := .heartbeat "w1" 0 0 20001
    (s0.l.workers.get "w1").map (·.status) = some .unhealthy ∧ compSyncB .status s0.l s0.r = true ∧
    compSyncB .status (stepPreFix s0 hb).l (stepPreFix s0 hb).r = false ∧
    ((sync (stepPreFix s0 hb).l (stepPreFix s0 hb).r 20002).workers.get "w1").map (·.status) = some .unhealthy ∧
    compSyncB .status (step s0 hb).l (step s0 hb).r = true ∧
    ((sync (step s0 hb).l (step s0 hb).r 20002).workers.get "w1").map (·.status) = some .ready := by decide

/-- before the repair `handle_drain_worker` proposed nothing: after the next `sync_from_raft` the drained
worker was back, Ready, and the group pointed to it again. The repaired handler proposes `GroupUpdated` for
the groups and `DeregisterWorker` -/
theorem drain_defect_witness :
    let s0 := run {} [w1, w2, deployP]
    let d : Op := .drain "w1" [toW2]
    let s := stepPreFix s0 d
    compSyncB .wset s0.l s0.r = true ∧ compSyncB .groups s0.l s0.r = true ∧
    compSyncB .wset s.l s.r = false ∧ compSyncB .groups s.l s.r = false ∧
    s.l.workers.get "w1" = none ∧ ((sync s.l s.r 9).workers.get "w1").map (·.status) = some .ready ∧
    (((sync s.l s.r 9).groups.get "g").bind (·.pls.get "p")).map (·.worker) = some "w1" ∧
    compSyncB .wset (step s0 d).l (step s0 d).r = true ∧ compSyncB .groups (step s0 d).l (step s0 d).r = true ∧
    (sync (step s0 d).l (step s0 d).r 9).workers.get "w1" = none ∧
    (((sync (step s0 d).l (step s0 d).r 9).groups.get "g").bind (·.pls.get "p")).map (·.worker) = some "w2" := by decide

/-- before the repair connector creation / update was proposed before it was validated: a *rejected*
request reached the replicated state and the next `sync_from_raft` replaced the acknowledged connector -/
theorem connector_validation_defect_witness :
    let s0 := run {} [.connCreate "c" "mqtt{host=a}" true]
    let dup : Op := .connCreate "c" "mqtt{host=b}" true
    (stepPreFix s0 dup).l.connectors.get "c" = some "mqtt{host=a}" ∧
    compSyncB .conns (stepPreFix s0 dup).l (stepPreFix s0 dup).r = false ∧
    (sync (stepPreFix s0 dup).l (stepPreFix s0 dup).r 1).connectors.get "c" = some "mqtt{host=b}" ∧
    compSyncB .conns (step s0 dup).l (step s0 dup).r = true ∧
    compSyncB .conns (stepPreFix s0 (.connUpdate "x" "x" "kafka{}" true)).l (stepPreFix s0 (.connUpdate "x" "x" "kafka{}" true)).r = false := by
  decide

/-- the key of an update is the path parameter on both sides, whatever name the body carries: the connector
component stays synchronised (instance of the partial theorem — no cell of `connUpdate` is listed) … -/
theorem connector_update_key_in_sync (s : Sys) (name bodyName body : String) (valid : Bool)
    (h : CompSync .conns s.l s.r) :
    CompSync .conns (step s (.connUpdate name bodyName body valid)).l (step s (.connUpdate name bodyName body valid)).r :=
  step_preserves s _ .conns rfl h

/-- … whereas proposing the command under the body's name (variant `stepBodyKey`) breaks it as soon as the two
names differ: the acknowledged update is reverted by the next `sync_from_raft` and a phantom connector appears -/
theorem connector_update_under_body_name_counterexample :
    let s0 := run {} [.connCreate "mq_in" "mqtt~mq_in~host:broker-2" true]
    let upd : Op := .connUpdate "mq_in" "mq_template" "mqtt~mq_template~host:broker-3" true
    let bad := stepBodyKey s0 upd
    compSyncB .conns (step s0 upd).l (step s0 upd).r = true ∧
    bad.l.connectors.get "mq_in" = some "mqtt~mq_template~host:broker-3" ∧
    compSyncB .conns bad.l bad.r = false ∧
    (sync bad.l bad.r 1).connectors.get "mq_in" = some "mqtt~mq_in~host:broker-2" ∧
    (sync bad.l bad.r 1).connectors.get "mq_template" = some "mqtt~mq_template~host:broker-3" ∧
    compSyncB .conns (stepBodyKey s0 (.connUpdate "mq_in" "mq_in" "mqtt~mq_in~host:broker-3" true)).l
      (stepBodyKey s0 (.connUpdate "mq_in" "mq_in" "mqtt~mq_in~host:broker-3" true)).r = true := by decide

/-- non-vacuity: a history with registrations, a heartbeat recovery, a deployment with a failed replica, a
manual migration, a rebalance through the API, connector changes, a teardown, a deregistration and
re-synchronisations keeps status, groups, connectors, the worker set and the policy synchronised -/
example :
    let ops : List Op := [w1, w2, .connCreate "c" "mqtt{}" true, .connCreate "c" "dup" true, .connUpdate "c" "other" "mqtt{x}" true,
      .deploy "g" "grp" [⟨"p", "w1", true, "id1"⟩, ⟨"q", "w2", false, ""⟩], .tickSync 10,
      .migrate ⟨"g", "p", "w1", "w2", 0⟩ "id2" true, .heartbeat "w2" 1 5 15000, .tickSweep 20000,
      .heartbeat "w1" 0 0 20001, .rebalanceApi [⟨"g", "p", "w1", true, "id3"⟩], .tickSync 20002,
      .teardown "g" [("p", "w1")], .connDelete "c", .deregister "w2"]
    (∀ c ∈ [Comp.wset, .status, .groups, .conns, .policy], cleanFor c ops = true) ∧
    (∀ c ∈ [Comp.wset, .status, .groups, .conns, .policy], compSyncB c (run {} ops).l (run {} ops).r = true) ∧
    (run {} ops).l.workers.keys = ["w1"] := by decide

end Varpulis.Props.C38
