import Varpulis.Lemmas.JsonValue
/-!
# C44 — event values keep their types and contents through the REST API

Model: `Model/JsonValue.lean` (`json_to_runtime_value`, `value_to_json` = `json_from_value`, the
event-building loops of `handle_inject` / `handle_inject_batch`).

**Known finding `C44-u64-above-i64-max`** (unchanged tree): a JSON integer above `i64::MAX`
(serde_json keeps integers up to `u64::MAX` exactly) is not an `i64`, so `json_to_runtime_value`
falls to `as_f64` and the event carries a *float*, rounded to 53 bits:
`18446744073709551615 ↦ Float(1.8446744073709552e19)`. The property says "every JSON-representable
value", so the full-strength statement is false (`roundtrip_full_counterexample`); it is proved
with the narrow guard "every integer fits i64" (`roundtrip_partial`, `types_preserved_partial`).
A repair needs a wider integer variant in `varpulis_core::Value` — not a small change.
-/
namespace Varpulis.Props.C44
open Varpulis.JsonValue

/-- **what is true**: on JSON trees whose integers fit `i64` and whose floats are finite, converting
to a runtime value and back is the identity … -/
theorem roundtrip_partial (j : Json) (h : j.ok = true) : valueToJson (jsonToValue j) = j :=
  roundtrip_ok j h

/-- … and the runtime value has the same type and contents as the JSON value, at every depth
(int ↦ Int, float ↦ Float with the same bits, string ↦ Str, array ↦ Array, object ↦ Map with the
same keys in the same order, null ↦ Null, bool ↦ Bool). -/
theorem types_preserved_partial (j : Json) (h : j.ok = true) : same j (jsonToValue j) = true :=
  same_jsonToValue j h

/-- output direction: a value the pipeline produced that JSON can carry (no non-finite float; not a
`Timestamp`/`Duration`, which JSON renders as plain nanosecond numbers) is returned with the same
type and contents -/
theorem output_carries_value (v : Value) (h : v.plain = true) : same (valueToJson v) v = true :=
  same_valueToJson v h

/-- the full-strength statement (all integers serde_json represents exactly, i.e. up to `u64::MAX`)
is FALSE: the witness of the known finding -/
theorem roundtrip_full_counterexample :
    jsonToValue (.int 18446744073709551615) = .float ⟨0x43F0000000000000⟩ ∧
    valueToJson (jsonToValue (.int 18446744073709551615)) = .float ⟨0x43F0000000000000⟩ ∧
    same (.int 18446744073709551615) (jsonToValue (.int 18446744073709551615)) = false ∧
    (Json.int 18446744073709551615).hasBigInt = true :=
  ⟨rfl, rfl, rfl, rfl⟩

/-- the first integer that is affected: `i64::MAX + 1 = 2^63` becomes the float `2^63` (type lost,
value kept); `2^63 + 1` loses its value as well -/
theorem first_affected_integers :
    jsonToValue (.int 9223372036854775807) = .int 9223372036854775807 ∧
    jsonToValue (.int 9223372036854775808) = .float ⟨0x43E0000000000000⟩ ∧
    jsonToValue (.int 9223372036854775809) = .float ⟨0x43E0000000000000⟩ ∧
    jsonToValue (.int (-9223372036854775808)) = .int (-9223372036854775808) :=
  ⟨rfl, rfl, rfl, rfl⟩

/-- the guard is exactly the complement of the lossless domain as far as integers go: a payload
without an out-of-range integer and without a non-finite float is in the domain -/
theorem guard_is_narrow : ∀ n : Int, (Json.int n).ok = !(Json.int n).hasBigInt := by
  intro n; simp [Json.ok, Json.hasBigInt]

/-- inject and inject-batch build the same events, in order -/
theorem batch_builds_same_events (reqs : List InjectEventRequest) :
    injectBatchEvents reqs = reqs.map injectEvent :=
  injectBatchEvents_eq_map reqs

/-- end to end for one event with pairwise distinct field names: the event handed to the engine
carries, field by field and in request order, the converted values; rendering that event back
(a pass-through pipeline) returns exactly the request's fields -/
theorem inject_then_output_is_identity (body : InjectEventRequest)
    (hnd : (body.fields.map (·.1)).Nodup) (hok : Json.okFields body.fields = true) :
    (injectEvent body).data = jsonToValueFields body.fields ∧
    outputFields (injectEvent body) = body.fields := by
  rw [injectEvent_data body hnd]
  exact ⟨rfl, roundtrip_okFields body.fields hok⟩

/-- **through the evaluator**: with the pipeline `emit(a: f0 + 1, b: -f1, c: f2, d: f3)` between the two
conversions, an injected `{f0: n, f1: x, f2: j₂, f3: j₃}` (n and n+1 in i64, j₂ j₃ in the lossless
domain) comes back as `{a: n+1, b: -x, c: j₂, d: j₃}`: the computed fields have the JSON number kind of
their type (integer stays integer, float stays float with exactly the negated bits), nested
pass-through fields are returned unchanged -/
theorem transformed_output (ty : String) (n : Int) (x : F64) (j₂ j₃ : Json)
    (hn : fitsI64 n = true) (hn1 : fitsI64 (n + 1) = true) (hx : (negF64 x).isFinite = true)
    (h₂ : j₂.ok = true) (h₃ : j₃.ok = true) :
    (transformFields (injectEvent ⟨ty, [("f0", .int n), ("f1", .float x), ("f2", j₂), ("f3", j₃)]⟩).data).map valueToJsonFields
      = some [("a", .int (n + 1)), ("b", .float (negF64 x)), ("c", j₂), ("d", j₃)] := by
  have hd := injectEvent_data ⟨ty, [("f0", .int n), ("f1", .float x), ("f2", j₂), ("f3", j₃)]⟩
    (by show ["f0", "f1", "f2", "f3"].Nodup; decide)
  rw [hd]
  simp [jsonToValueFields, jsonToValue, numToValue_fits hn, transformFields, lookupField, List.lookup, hn1,
    valueToJsonFields, valueToJson, hx, roundtrip_ok j₂ h₂, roundtrip_ok j₃ h₃]

/-- non-vacuity: a nested payload with both `i64` boundaries, a float, a string, null, an array and an object -/
example :
    let j := Json.obj [("a", .int 9223372036854775807), ("b", .arr [.int (-9223372036854775808), .float ⟨0x3FF8000000000000⟩, .null]),
      ("c", .obj [("d", .str "x"), ("e", .bool true)])]
    j.ok = true ∧ valueToJson (jsonToValue j) = j :=
  ⟨rfl, rfl⟩

end Varpulis.Props.C44
