import Varpulis.Lemmas.Store
/-!
# C21 — checkpoint storage recovers the newest complete checkpoint after any crash

Model: `Varpulis.Store` (Model/Store.lean) mirrors `FileStore` + `CheckpointManager`
(persistence.rs). A history is any list of `save d` (completed `checkpoint()`),
`crash d k` (process dies after the k-th file-system operation of a `checkpoint()`,
including inside the non-atomic `fs::write`, then restarts) and `restart`.
`written` is the ghost list of checkpoints whose rename happened ("completely written").
`keep` is `max_checkpoints`; the theorems need `1 ≤ keep` (with 0 the code prunes everything).
-/
namespace Varpulis.Props.C21
open Varpulis.Store

/-- after any history with any crash points, recovery returns exactly the newest completely
written checkpoint (none iff none was ever completely written) -/
theorem recover_newest_complete (keep : Nat) (hk : 1 ≤ keep) (ops : List Op) :
    recover (run keep ops).disk.fin = (run keep ops).written.getLast? := by
  have hi := run_inv keep hk ops
  cases hw : (run keep ops).written.getLast? with
  | none =>
    have : (run keep ops).written = [] := List.getLast?_eq_none_iff.1 hw
    rw [hi.empty this]; rfl
  | some w => exact recover_of_last_good _ _ _ _ (hi.last w hw)

/-- never a partial one: every listed checkpoint file is complete, carries its own id, and was
fully written by some `checkpoint()` of the history (torn writes only ever hit `<id>.tmp`) -/
theorem never_partial (keep : Nat) (hk : 1 ≤ keep) (ops : List Op) :
    ∀ e ∈ (run keep ops).disk.fin, ∃ x, e = (e.1, Content.good e.1 x) ∧ (e.1, x) ∈ (run keep ops).written :=
  (run_inv keep hk ops).good

/-- at most `keep` checkpoints are kept after every completed `checkpoint()` -/
theorem bounded_after_save (keep : Nat) (hk : 1 ≤ keep) (ops : List Op) (data : Nat) :
    (run keep (ops ++ [Op.save data])).disk.fin.length ≤ keep := by
  have hi := run_inv keep hk ops
  have hrun : run keep (ops ++ [Op.save data]) = step keep (run keep ops) (Op.save data) := by
    simp [run, List.foldl_append]
  rw [hrun]
  have hlen : saveLen (run keep ops).disk (run keep ops).nextId data keep
      = (saveLen (run keep ops).disk (run keep ops).nextId data keep - 3) + 3 := by unfold saveLen; omega
  have h := saveK_renamed (run keep ops) hi data keep (saveLen (run keep ops).disk (run keep ops).nextId data keep - 3) hk
  rw [← hlen] at h
  have hl := h.2.2.2.2
  simp only [step]
  rw [hl]
  have hins : insertFin (run keep ops).disk.fin (run keep ops).nextId (Content.good (run keep ops).nextId data)
      = (run keep ops).disk.fin ++ [((run keep ops).nextId, Content.good (run keep ops).nextId data)] :=
    insertFin_gt _ _ _ hi.lt
  unfold saveLen; rw [hins]; simp; omega

/-- checkpoint ids keep increasing across restarts and crashes: the completely written
checkpoints have strictly ascending ids, all below the id the manager will use next -/
theorem ids_increase (keep : Nat) (hk : 1 ≤ keep) (ops : List Op) :
    (run keep ops).written.Pairwise (fun a b => a.1 < b.1) ∧
    ∀ w ∈ (run keep ops).written, w.1 < (run keep ops).nextId :=
  ⟨(run_inv keep hk ops).wasc, (run_inv keep hk ops).wlt⟩

/-- recovery is "newest readable first": the listing is searched from the newest id downwards
for the first file that deserialises (any disk, any corruption pattern) -/
theorem recover_is_newest_readable (fin : List (Nat × Content)) :
    recover fin = fin.reverse.findSome? (fun e => match e.2 with
      | Content.good i x => some (i, x) | Content.bad => none) := by
  induction fin with
  | nil => rfl
  | cons e rest ih =>
    obtain ⟨k, c⟩ := e
    simp only [recover, List.reverse_cons, List.findSome?_append, ← ih]
    cases recover rest <;> cases c <;> simp

/-- when the newest stored checkpoint is unreadable, recovery returns what the rest of the
directory yields -/
theorem recover_skips_unreadable_newest (fin : List (Nat × Content)) :
    recover (corruptNewest fin) = recover fin.dropLast := by
  rw [recover_is_newest_readable, recover_is_newest_readable]
  unfold corruptNewest
  cases h : fin.reverse with
  | nil => have : fin = [] := by simpa using h
           subst this; rfl
  | cons e rest =>
    obtain ⟨k, c⟩ := e
    have hf : fin = rest.reverse ++ [(k, c)] := by
      have := congrArg List.reverse h; simpa using this
    subst hf
    simp

/-- …and after a crash-free-or-not history that left at least two checkpoints, that is the
second newest completely written one: recovery succeeds -/
theorem recover_succeeds_with_older (keep : Nat) (hk : 1 ≤ keep) (ops : List Op)
    (h2 : 2 ≤ (run keep ops).disk.fin.length) :
    ∃ i x, recover (corruptNewest (run keep ops).disk.fin) = some (i, x) ∧ (i, x) ∈ (run keep ops).written := by
  rw [recover_skips_unreadable_newest]
  have hi := run_inv keep hk ops
  have hne : (run keep ops).disk.fin.dropLast ≠ [] := by
    intro hn
    have := congrArg List.length hn
    simp at this; omega
  have hmem := List.getLast_mem hne
  have hsub : (run keep ops).disk.fin.dropLast.getLast hne ∈ (run keep ops).disk.fin :=
    (List.dropLast_sublist _).subset hmem
  obtain ⟨x, hx, hw⟩ := hi.good _ hsub
  refine ⟨_, x, ?_, hw⟩
  apply recover_of_last_good _ ((run keep ops).disk.fin.dropLast.getLast hne).1
  rw [List.getLast?_eq_some_getLast hne, ← hx]

/-- The defect repaired by the `fix:` commit: at the pinned commit `load_latest_checkpoint`
(and so `recover` and `CheckpointManager::new`) returned the deserialisation error when the
newest file was unreadable although an older readable checkpoint existed. -/
theorem unreadable_newest_defect_witness :
    recoverOld (corruptNewest [(1, Content.good 1 7), (2, Content.good 2 8)]) = some none ∧
    recover (corruptNewest [(1, Content.good 1 7), (2, Content.good 2 8)]) = some (1, 7) := by
  decide

/-- non-vacuity: a history with a torn write, a crash between rename and prune, and a clean save -/
example : (run 2 [.save 10, .crash 11 1, .save 12, .crash 13 3, .save 14]).written = [(1, 10), (2, 12), (3, 13), (4, 14)]
    ∧ ((run 2 [.save 10, .crash 11 1, .save 12, .crash 13 3, .save 14]).disk.fin.map (·.1)) = [3, 4] := by
  decide

end Varpulis.Props.C21
