import Varpulis.Lemmas.Routing
/-!
# C34 — event routing to pipelines and replicas is deterministic and sticky

Statements over `Varpulis.Routing` (Model/Routing.lean), which mirrors `routing.rs`
(`event_type_matches`, `find_target_pipeline`), `pipeline_group.rs` (`ReplicaGroup::select_replica`) and the
target logic of `coordinator.rs resolve_inject_target` / `inject_batch`.
`h : Str → Nat` stands for `DefaultHasher` (SipHash-1-3, trusted), `fm : Fmt F` for serde_json's float printer and
the integer-literal→f64 conversion of the two parsers (trusted). A float key `Key.float f` is a literal that both
decimal parsers read as the same `f`: both are correctly rounded since serde_json's `float_roundtrip` feature is on
(repaired finding `C34-float-literal-rounding`; every run probes random literals of up to 17 digits through both paths).
-/
namespace Varpulis.Props.C34
open Varpulis.Routing

/-- pattern language: `*` and `p*` match by prefix, anything else is an exact match -/
theorem pattern_semantics (ty pat : Str) :
    matchesPat ty pat = true ↔
      (∃ p, pat = p ++ ['*'] ∧ p <+: ty) ∨ ((∀ p, pat ≠ p ++ ['*']) ∧ ty = pat) :=
  matchesPat_iff ty pat

/-- a route is hit iff one of its patterns matches (the inner loop) -/
theorem route_hit_iff (ty : Str) (r : Route) :
    anyPat ty r.pats = true ↔ ∃ p ∈ r.pats, matchesPat ty p = true := by
  rw [anyPat_eq_any]; simp

/-- **an event goes to the pipeline of the first route whose pattern matches its type, and to the
group's first pipeline when no route matches** -/
theorem find_target_first_match (routes : List Route) (pipelines : List Str) (ty t : Str) :
    findTarget routes pipelines ty = some t ↔
      (∃ pre r post, routes = pre ++ r :: post ∧ (∀ r' ∈ pre, r'.hit ty = false) ∧ r.hit ty = true ∧ r.to = t)
      ∨ ((∀ r ∈ routes, r.hit ty = false) ∧ pipelines.head? = some t) := by
  unfold findTarget
  cases hf : findRoute ty routes with
  | some t' =>
    have h1 := (findRoute_some_iff ty routes t').1 hf
    constructor
    · intro h; cases h; exact Or.inl h1
    · rintro (h | ⟨hno, _⟩)
      · rw [(findRoute_some_iff ty routes t).2 h] at hf; exact hf.symm
      · rw [(findRoute_none_iff ty routes).2 hno] at hf; cases hf
  | none =>
    have h1 := (findRoute_none_iff ty routes).1 hf
    constructor
    · intro h; exact Or.inr ⟨h1, h⟩
    · rintro (h | ⟨_, h⟩)
      · rw [(findRoute_some_iff ty routes t).2 h] at hf; cases hf
      · exact h

/-- routing fails only for a group without pipelines and without a matching route -/
theorem find_target_none (routes : List Route) (pipelines : List Str) (ty : Str) :
    findTarget routes pipelines ty = none ↔ (∀ r ∈ routes, r.hit ty = false) ∧ pipelines = [] := by
  unfold findTarget
  cases hf : findRoute ty routes with
  | some t' =>
    simp only [reduceCtorEq, false_iff, not_and]
    intro hno
    rw [(findRoute_none_iff ty routes).2 hno] at hf; cases hf
  | none =>
    have h1 := (findRoute_none_iff ty routes).1 hf
    simp only [List.head?_eq_none_iff]
    exact ⟨fun h => ⟨h1, h⟩, fun h => h.2⟩

/-- the chosen replica is one of the group's replicas (or the logical name when the list is empty) -/
theorem select_in_replicas (h : Str → Nat) (rg : RG) (c : Nat) (f : Fields) (hne : rg.replicas ≠ []) :
    (selectReplica h rg c f).1 ∈ rg.replicas := by
  have he : rg.replicas.isEmpty = false := by cases hr : rg.replicas <;> simp_all
  have hpos : 0 < rg.replicas.length := List.length_pos_iff.2 hne
  unfold selectReplica
  simp only [he]
  cases rg.strat with
  | roundRobin =>
    simp only [Bool.false_eq_true, if_false]
    rw [getD_lt _ _ _ (Nat.mod_lt _ hpos)]; exact List.getElem_mem _
  | hashKey fld =>
    simp only [Bool.false_eq_true, if_false]
    rw [getD_lt _ _ _ (Nat.mod_lt _ hpos)]; exact List.getElem_mem _

/-- **key-hash partitioning: the replica is a function of the key's canonical string** — independent of
the counter, of the other fields and of the injection path; the counter is left untouched -/
theorem hash_choice_function_of_key_string (h : Str → Nat) (rg : RG) (fld : Str) (hs : rg.strat = .hashKey fld)
    (c₁ c₂ : Nat) (f₁ f₂ : Fields) (hk : keyString f₁ fld = keyString f₂ fld) :
    (selectReplica h rg c₁ f₁).1 = (selectReplica h rg c₂ f₂).1 ∧ (selectReplica h rg c₁ f₁).2 = c₁ := by
  unfold selectReplica
  cases rg.replicas.isEmpty <;> simp [hs, hk]

/-- the closed form of the choice -/
theorem hash_choice_formula (h : Str → Nat) (rg : RG) (fld : Str) (hs : rg.strat = .hashKey fld)
    (hne : rg.replicas ≠ []) (c : Nat) (f : Fields) :
    (selectReplica h rg c f).1 = rg.replicas.getD (h (keyString f fld) % rg.replicas.length) rg.name := by
  have he : rg.replicas.isEmpty = false := by cases hr : rg.replicas <;> simp_all
  simp [selectReplica, he, hs]

/-- **the single-inject and the batch-inject construction yield the same key string** for every int key
in the i64 range or outside the u64 range, every float key, every string key and a missing key -/
theorem single_batch_same_string {F : Type} (fm : Fmt F) (k : Key F) (hk : k.u64Only = false) :
    singleStr fm k = batchStr fm k := keyStr_agree fm k hk

/-- hence the same replica, whichever path injects the event -/
theorem single_batch_same_replica {F : Type} (fm : Fmt F) (h : Str → Nat) (rg : RG) (fld : Str)
    (hs : rg.strat = .hashKey fld) (k : Key F) (hk : k.u64Only = false) (c₁ c₂ : Nat) (fs fb : Fields)
    (hfs : keyString fs fld = singleStr fm k) (hfb : keyString fb fld = batchStr fm k) :
    (selectReplica h rg c₁ fs).1 = (selectReplica h rg c₂ fb).1 :=
  (hash_choice_function_of_key_string h rg fld hs c₁ c₂ fs fb
    (by rw [hfs, hfb, single_batch_same_string fm k hk])).1

/-- Known divergence (finding `C34-u64-key`): an integer key in `(i64::MAX, u64::MAX]` is an integer for
serde_json's parser but a float for `event_file.rs parse_value`, so the two paths hash different strings
whenever the float printer emits a `.` or an exponent (serde_json's always does). -/
theorem single_batch_u64_counterexample {F : Type} (fm : Fmt F)
    (hfmt : ∀ f, '.' ∈ fm.fmtF f ∨ 'e' ∈ fm.fmtF f) :
    (Key.int 9223372036854775808 : Key F).u64Only = true ∧
    singleStr fm (Key.int 9223372036854775808) ≠ batchStr fm (Key.int 9223372036854775808) := by
  refine ⟨by simp [Key.u64Only, i64Max, u64Max], ?_⟩
  intro heq
  have hs : singleStr fm (Key.int 9223372036854775808) = (Nat.repr 9223372036854775808).toList := by
    simp [singleStr, singleJson, u64Max, JV.render]
  have hb : batchStr fm (Key.int 9223372036854775808) = fm.fmtF (fm.ofInt 9223372036854775808) := by
    simp [batchStr, batchValue, i64Min, i64Max, toJson, JV.render]
  rw [hs, hb] at heq
  rcases hfmt (fm.ofInt 9223372036854775808) with hd | hd <;> rw [← heq] at hd <;> revert hd <;> decide

/-- a run of round-robin selections picks the replicas at `c, c+1, … (mod n)` -/
theorem round_robin_run (h : Str → Nat) (rg : RG) (hs : rg.strat = .roundRobin) (hne : rg.replicas ≠ [])
    (evs : List Fields) (c : Nat) :
    selRun h rg c evs = (rrPicks rg.replicas.length c evs.length).map (fun i => rg.replicas.getD i rg.name) :=
  selRun_rr h rg hs hne evs c

/-- **round robin: over any run of injections (any starting counter, any length, any events) the loads of
two replicas differ by at most one** -/
theorem round_robin_balanced (h : Str → Nat) (rg : RG) (hs : rg.strat = .roundRobin)
    (hnd : rg.replicas.Nodup) (evs : List Fields) (c : Nat) (a b : Str)
    (ha : a ∈ rg.replicas) (hb : b ∈ rg.replicas) :
    (selRun h rg c evs).count a ≤ (selRun h rg c evs).count b + 1 := by
  have hne : rg.replicas ≠ [] := List.ne_nil_of_mem ha
  have hpos : 0 < rg.replicas.length := List.length_pos_iff.2 hne
  obtain ⟨j, hj, rfl⟩ := List.getElem_of_mem ha
  obtain ⟨j', hj', rfl⟩ := List.getElem_of_mem hb
  rw [selRun_rr h rg hs hne]
  have hlt := rrPicks_lt rg.replicas.length hpos evs.length c
  rw [← getD_lt rg.replicas rg.name j hj, ← getD_lt rg.replicas rg.name j' hj',
    count_map_getD _ _ hnd j hj _ hlt, count_map_getD _ _ hnd j' hj' _ hlt]
  exact rr_window_balanced _ _ _ _ _ hj hj'

/-- determinism of the whole resolution: same group, same counters, same type, same key string ⇒ same
target on the single path and the batch path (a deployed target, non-empty group) -/
theorem single_and_batch_resolve_alike (h : Str → Nat) (g : Group) (cs : Counters) (ty : Str) (f : Fields)
    (t : Str) (hr : (resolveSingle h g cs ty f).1 = .to t) : (resolveBatch h g cs ty f).1 = t := by
  unfold resolveSingle at hr
  unfold resolveBatch
  cases hf : findTarget g.routes g.pipelines ty with
  | none => simp [hf] at hr
  | some l =>
    simp only [hf, Option.getD_some] at hr ⊢
    by_cases hc : g.placements.contains (viaReplica h g cs l f).1 = true
    · simp only [hc, if_true] at hr; cases hr; rfl
    · simp only [hc] at hr; cases hr

/-- non-vacuity: a table with a wildcard, an exact route and a default; a 3-replica hash group -/
example :
    findTarget [⟨"p2".toList, ["ab*".toList]⟩, ⟨"p3".toList, ["a".toList, "*".toList]⟩] ["p1".toList] "abc".toList
      = some "p2".toList ∧
    findTarget [⟨"p2".toList, ["ab*".toList]⟩] ["p1".toList] "b".toList = some "p1".toList ∧
    (rrPicks 3 7 5) = [1, 2, 0, 1, 2] := by decide

end Varpulis.Props.C34
