import Varpulis.Lemmas.CoordAdj
/-!
# C32 — coordinator bookkeeping stays consistent under any interleaving

Model: `Varpulis.Coord` (Model/Coord.lean). The public state-changing calls of `Coordinator` are the atomic
`Step`s (`register_worker`, `heartbeat`, `deregister_worker`, `health_sweep`, the Draining mark of
`drain_worker`, `commit_deploy_group`, `commit_teardown_group`, `commit_migrate_pipeline`, and the monolithic
`migrate_pipeline` that failover / drain / rebalance run under the write lock). Plans and every worker-call
outcome are *inputs* of the commit steps, so every interleaving of concurrent plan / execute / commit phases
with every success / failure outcome is a list of steps.

`BookInv` (Lemmas/CoordBook.lean): each running placement has a pipeline id and is on a registered worker;
each worker's `assigned` list is a permutation of the running placements on it; its running count is their
number.

The full statement "every step preserves BookInv" is **false** of the code (witness theorems below, one per
call site = one known finding each). What is proved is the partial statement: every step *inside the guard*
`guardFail s st = none` preserves it, for all states, hence for all interleavings of guarded steps.
Two defects were repaired (`fix:` commits) and are inside the theorem now: stale migration commits
(`commit_migrate_pipeline` re-validates the plan) and same-named pipelines of two groups on one worker
(`retain` → remove one entry).
-/
namespace Varpulis.Props.C32
open Varpulis.Coord

/-- the judge used on the implementation's dumped states decides exactly `BookInv` -/
theorem judge_sound (s : St) : bookInvB s = true ↔ BookInv s := bookInvB_iff s

/-- what `BookInv` says, in the words of the property: a running placement sits on a registered worker;
a name is listed in a worker's assigned pipelines exactly as often as it runs there; the count matches -/
theorem book_inv_meaning (s : St) (h : BookInv s) :
    (∀ r ∈ s.placements, r.status = .running → ∃ w ∈ s.workers, w.id = r.worker) ∧
    (∀ w ∈ s.workers, ∀ n, w.assigned.count n = (s.runningOn w.id).count n) ∧
    (∀ w ∈ s.workers, w.running = (s.runningOn w.id).length) := by
  refine ⟨fun r hr hs => (h.1 r hr hs).2, fun w hw n => (h.2 w hw).1.count_eq n, fun w hw => ?_⟩
  rw [(h.2 w hw).2]; exact (h.2 w hw).1.length_eq

/-- **partial theorem (one step)**: from any state, any step inside the guards preserves the bookkeeping
invariant — whatever plan, whatever worker-call outcomes the step carries -/
theorem book_inv_step_partial (s : St) (st : Step) (h : BookInv s) (hg : guardFail s st = none) :
    BookInv (step s st) := step_preserves s st h hg

/-- **partial theorem (all interleavings)**: every history of guarded steps from the empty coordinator -/
theorem book_inv_reachable_partial (steps : List Step) (t : Nat) (hg : guardedRun { timeout := t } steps = true) :
    BookInv (run { timeout := t } steps) := guardedRun_preserves steps _ (bookInv_init t) hg

/-- sweeps, drain marks, failed migrations and failed deploy results are always inside the guard -/
theorem unguarded_steps (s : St) (now : Nat) (id : WId) (p : MigPlan) (g : GId) (n : Name) (t : WId) :
    guardFail s (.sweep now) = none ∧ guardFail s (.markDraining id) = none ∧
    guardFail s (.commitMigrate p false) = none ∧ guardFail s (.migrateAtomic g n t false) = none := by
  refine ⟨rfl, rfl, by simp [guardFail], ?_⟩
  simp only [guardFail]
  cases s.getP g n <;> cases s.getW t <;> simp

/-- **since the repair, a migration commit needs no freshness premise**: a stale plan (group gone, placement
moved or re-migrated meanwhile, target deregistered) is recognised and changes nothing -/
theorem stale_migration_commit_is_noop (s : St) (p : MigPlan) (ok : Bool) (hstale : migCurrent s p = false) :
    commitMigrate s p ok = s := by
  simp [commitMigrate, hstale]

/-- a deployment plan committed on the state it was planned on is inside the guard as far as its workers
are concerned: every planned worker is registered -/
theorem adjacent_deploy_workers_registered (ch : Chooser) (hv : ch.Valid) (s : St) (specs : List PSpec)
    (ts : List Task) (h : planDeploy ch s specs = .ok ts) : ∀ t ∈ ts, (s.getW t.worker).isSome = true := by
  intro t ht
  unfold planDeploy at h
  split at h
  · cases h
  · cases hp : planPipes ch s 0 specs with
    | none => simp [hp] at h
    | some ts' =>
      simp only [hp, PlanRes.ok.injEq] at h
      subst h
      obtain ⟨_, _, _, _, ⟨w, hw, hid, _⟩, _⟩ := planPipes_ok ch hv s specs 0 ts' hp t ht
      unfold St.getW
      cases hf : s.workers.find? (fun x => x.id == t.worker) with
      | some _ => rfl
      | none =>
        have := List.find?_eq_none.1 hf w hw
        simp [hid] at this

/-- the placement records stay a well-formed map (unique (group, name) keys; a pipeline id only on running
records) along every history, guarded or not -/
theorem records_well_formed (steps : List Step) (t : Nat) : WF (run { timeout := t } steps) :=
  wf_run steps _ (wf_init t)

/-- **plan/commit adjacency discharges the teardown guard**: a teardown plan committed on the state it was
planned on is inside the guard (needs only BookInv and the well-formedness above) -/
theorem adjacent_teardown_in_guard (s : St) (g : GId) (ts : List (Name × WId)) (hwf : WF s) (hb : BookInv s)
    (hp : planTeardown s g = some ts) : guardFail s (.commitTeardown g ts) = none := by
  simp [guardFail, tdGuard_of_planTeardown s g ts hwf hb hp]

/-- **plan/commit-adjacent histories**: operations whose commit runs on the state of their plan — teardowns,
deploys (fresh group id, distinct replica names), truthful heartbeats — interleaved with any steps that are
inside their own guard keep BookInv, from the empty coordinator, for every valid placement strategy -/
theorem book_inv_adjacent_histories (ch : Chooser) (hv : ch.Valid) (ops : List AOp) (t : Nat)
    (hs : sideAll ch { timeout := t } ops = true) : BookInv (runA ch { timeout := t } ops) :=
  (adjacent_history_preserves ch hv ops _ (bookInv_init t) (wf_init t) hs).1

/-- `reconcile_placements` changes nothing on a consistent state (it only acts after a re-registration has
wiped a worker's bookkeeping) -/
theorem reconcile_is_noop_when_consistent (s : St) (hb : BookInv s) (redeploy : Bool) : reconcile s redeploy = s :=
  reconcile_noop s hb redeploy

/-- … and it repairs the re-registration finding: the witness history becomes consistent again -/
theorem reconcile_repairs_reregistration :
    let hist : List Step := [.register 1 5 4 0 0, .commitDeploy 7 [⟨"p", none, 1⟩] [⟨"p", 1, true⟩], .register 1 5 4 0 9]
    bookInvB (run {} hist) = false ∧ bookInvB (reconcile (run {} hist) true) = true := by decide

/-! ### the full statement is false: one witness per call site (known findings) -/

/-- `deregister_worker` (and the end of `drain_worker`) leaves running placements on the removed worker -/
theorem deregister_counterexample :
    let hist : List Step := [.register 1 5 4 0 0, .commitDeploy 7 [⟨"p", none, 1⟩] [⟨"p", 1, true⟩], .deregister 1]
    bookInvB (run {} (hist.take 2)) = true ∧ bookInvB (run {} hist) = false ∧
    guardFail (run {} (hist.take 2)) (.deregister 1) = some .deregisterRunning := by decide

/-- `register_worker` of an id that still runs pipelines wipes its bookkeeping -/
theorem reregister_counterexample :
    let hist : List Step := [.register 1 5 4 0 0, .commitDeploy 7 [⟨"p", none, 1⟩] [⟨"p", 1, true⟩], .register 1 5 4 0 9]
    bookInvB (run {} hist) = false ∧ guardFail (run {} (hist.take 2)) (.register 1 5 4 0 9) = some .reregister := by
  decide

/-- a heartbeat between the execute and the commit phase of a deploy reports the new pipeline already;
the commit counts it again -/
theorem heartbeat_in_flight_counterexample :
    let hist : List Step := [.register 1 5 4 0 0, .heartbeat 1 1 3, .commitDeploy 7 [⟨"p", none, 1⟩] [⟨"p", 1, true⟩]]
    bookInvB (run {} hist) = false ∧ guardFail (run {} (hist.take 1)) (.heartbeat 1 1 3) = some .heartbeatCount := by
  decide

/-- stale deploy commit: the worker was deregistered between plan and commit -/
theorem stale_deploy_commit_counterexample :
    let hist : List Step := [.register 1 5 4 0 0, .deregister 1, .commitDeploy 7 [⟨"p", none, 1⟩] [⟨"p", 1, true⟩]]
    bookInvB (run {} hist) = false ∧
    guardFail (run {} (hist.take 2)) (.commitDeploy 7 [⟨"p", none, 1⟩] [⟨"p", 1, true⟩]) = some .deployWorkerGone := by
  decide

/-- stale teardown commit: the pipeline was migrated between the teardown's plan and commit -/
theorem stale_teardown_commit_counterexample :
    let hist : List Step := [.register 1 5 4 0 0, .register 2 5 4 0 0,
      .commitDeploy 7 [⟨"p", none, 1⟩] [⟨"p", 1, true⟩], .migrateAtomic 7 "p" 2 true, .commitTeardown 7 [("p", 1)]]
    planTeardown (run {} (hist.take 3)) 7 = some [("p", 1)] ∧
    bookInvB (run {} (hist.take 4)) = true ∧ bookInvB (run {} hist) = false ∧
    guardFail (run {} (hist.take 4)) (.commitTeardown 7 [("p", 1)]) = some .staleTeardown := by decide

/-- migrating a placement whose deployment had failed decrements the source worker although it never
counted that pipeline -/
theorem migrate_failed_placement_counterexample :
    let hist : List Step := [.register 1 5 4 0 0, .register 2 5 4 0 0,
      .commitDeploy 7 [⟨"p", none, 1⟩, ⟨"q", none, 1⟩] [⟨"p", 1, true⟩, ⟨"q", 1, false⟩], .migrateAtomic 7 "q" 2 true]
    bookInvB (run {} (hist.take 3)) = true ∧ bookInvB (run {} hist) = false ∧
    guardFail (run {} (hist.take 3)) (.migrateAtomic 7 "q" 2 true) = some .migrateFailedPlacement := by decide

/-! ### the two repaired defects (witnesses on the code before the `fix:` commits) -/

/-- before the repair a migration commit after the group's teardown booked the pipeline on the target
(orphaned assignment); the re-validating commit leaves the state consistent -/
theorem stale_migrate_commit_defect_witness :
    let pre : List Step := [.register 1 5 4 0 0, .register 2 5 4 0 0, .commitDeploy 7 [⟨"p", none, 1⟩] [⟨"p", 1, true⟩]]
    let plan : MigPlan := ⟨7, "p", 1, 2, 0⟩
    (planMigrate (run {} pre) 7 "p" 2).toOption = some plan ∧
    bookInvB (commitMigrateUnchecked (step (run {} pre) (.commitTeardown 7 [("p", 1)])) plan true) = false ∧
    bookInvB (commitMigrate (step (run {} pre) (.commitTeardown 7 [("p", 1)])) plan true) = true := by decide

/-- before the repair tearing down one of two groups that run a pipeline of the same name on the same
worker removed both entries from the worker's assigned list -/
theorem teardown_same_name_defect_witness :
    let pre : List Step := [.register 1 5 4 0 0, .commitDeploy 7 [⟨"p", none, 1⟩] [⟨"p", 1, true⟩],
      .commitDeploy 8 [⟨"p", none, 1⟩] [⟨"p", 1, true⟩]]
    bookInvB (run {} pre) = true ∧
    bookInvB (commitTeardownRetain (run {} pre) 7 [("p", 1)]) = false ∧
    bookInvB (commitTeardown (run {} pre) 7 [("p", 1)]) = true := by decide

/-- non-vacuity: a guarded history with two workers, two groups (one sharing a pipeline name), a failed
replica, a migration, a heartbeat, a sweep and a teardown stays consistent -/
example :
    let hist : List Step := [.register 1 5 4 0 0, .register 2 5 4 0 0,
      .commitDeploy 7 [⟨"p", none, 2⟩] [⟨"p#0", 1, true⟩, ⟨"p#1", 2, false⟩],
      .commitDeploy 8 [⟨"p#0", none, 1⟩] [⟨"p#0", 1, true⟩],
      .heartbeat 1 2 100, .migrateAtomic 7 "p#0" 2 true, .sweep 20000, .commitTeardown 8 [("p#0", 1)], .deregister 1]
    guardedRun {} hist = true ∧ bookInvB (run {} hist) = true := by decide

/-- non-vacuity of the adjacent-history theorem: deploy, truthful heartbeat, sweep, adjacent teardown -/
example :
    let ch : Chooser := fun _ ws => ws.head?.map (·.id)
    let ops : List AOp := [.raw (.register 1 5 4 0 0), .deploy 7 [⟨"p", none, 2⟩] [true, false], .heartbeat 1 50,
      .raw (.sweep 99999), .teardown 7]
    sideAll ch {} ops = true ∧ (runA ch {} ops).placements = [] ∧ (runA ch {} ops).workers.map (·.running) = [0] := by
  decide

end Varpulis.Props.C32
