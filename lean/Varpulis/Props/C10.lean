import Varpulis.Lemmas.Expr
/-!
# C10 — compile-time constant folding never changes what an expression computes

Model: `Model/Expr.lean`. `fold fo idents` mirrors optimize.rs `fold_expr` / `fold_binary` /
`fold_unary` rule by rule (after the two C10 `fix:` commits: `**` folded with the evaluator's own
formula, `/ % unary-` with the wrapping operations); `idents = true` is the real folder,
`idents = false` the folder without its second stage (the identity rewrites `x*0`, `0*x`, `x*1`,
`1*x`, `x+0`, `0+x`, `x-0`, `x/1`). `eval` mirrors `eval_expr_with_functions`. The statements
quantify over every expression of the AST, every event/bindings `env` and every float
arithmetic `fo` (fold and evaluator apply the same operation to the same operands).
-/
namespace Varpulis.Props.C10
open Varpulis.Expr

/-- Full strength for the folder without the identity rewrites: the folded expression evaluates to
the same value, or the same absence of a value, on every event. -/
theorem fold_sound_without_identities (fo : FOps) (env : Env) (e : Expr) :
    eval fo .fixed env (fold fo false e) = eval fo .fixed env e :=
  fold_sound fo false env e (fun h => by simp at h)

/-- The real folder, with an explicit narrow guard: whenever no identity rewrite is applied to an
operand that fails to evaluate to an integer on this event (and none turns a call target / member
object into a bare identifier), folding preserves the value. -/
theorem fold_sound_partial (fo : FOps) (env : Env) (e : Expr) (h : unsafeIdent fo env e = false) :
    eval fo .fixed env (fold fo true e) = eval fo .fixed env e :=
  fold_sound fo true env e (fun _ => h)

/-- hence `.where`/`.having` select the same events and `.emit` the same fields -/
theorem fold_keeps_same_events (fo : FOps) (env : Env) (e : Expr) (h : unsafeIdent fo env e = false) :
    keeps (eval fo .fixed env (fold fo true e)) = keeps (eval fo .fixed env e) := by
  rw [fold_sound_partial fo env e h]

def evPrice : Env := { etype := "E", fields := [("price", .float (.fin false 21 (-1))), ("name", .str "bob")] }

/-- The known finding: the unguarded statement is false for the real folder. `price * 0` with a
float price evaluates to a float, the folded program to `Int(0)`; `name + 0` has no value, the
folded program yields the string; `missing * 0` has no value, the folded program yields `0`. -/
theorem fold_identity_counterexample (fo : FOps) :
    ¬ (∀ (env : Env) (e : Expr), eval fo .fixed env (fold fo true e) = eval fo .fixed env e) := by
  intro h
  have := h evPrice (.bin .mul (.ident "price") (.int 0))
  simp [fold, foldBinary, foldConst, foldIdent, isInt0, eval, evPrice, Res.ofOption, Res.bind, binop] at this

theorem fold_identity_counterexamples (fo : FOps) :
    eval fo .fixed evPrice (fold fo true (.bin .mul (.ident "price") (.int 0))) = .val (.int 0) ∧
      eval fo .fixed evPrice (.bin .mul (.ident "price") (.int 0)) =
        .val (.float (fo.mul (.fin false 21 (-1)) (F.ofI64 0))) ∧
      eval fo .fixed evPrice (fold fo true (.bin .add (.ident "name") (.int 0))) = .val (.str "bob") ∧
      eval fo .fixed evPrice (.bin .add (.ident "name") (.int 0)) = .none ∧
      eval fo .fixed evPrice (fold fo true (.bin .mul (.ident "missing") (.int 0))) = .val (.int 0) ∧
      eval fo .fixed evPrice (.bin .mul (.ident "missing") (.int 0)) = .none ∧
      unsafeIdent fo evPrice (.bin .mul (.ident "price") (.int 0)) = true := by
  simp [fold, foldBinary, foldConst, foldIdent, isInt0, eval, evPrice, Res.ofOption, Res.bind, binop,
    unsafeIdent, unsafeAt, Res.isInt, List.lookup]

/-- literal arithmetic is folded to exactly what the evaluator computes, including the cases
repaired by the `fix:` commits: `**` (evaluator's formula), `MIN / -1`, `MIN % -1`, `-MIN` -/
theorem literal_folds (fo : FOps) (a b : Int64) (hb : b ≠ 0) :
    fold fo true (.bin .pow (.int 3) (.int 40)) = .int (ipow fo 3 40) ∧
      fold fo true (.bin .div (.int a) (.int b)) = .int (a / b) ∧
      fold fo true (.bin .mod (.int a) (.int b)) = .int (a % b) ∧
      fold fo true (.un .neg (.int a)) = .int (-a) ∧
      eval fo .fixed evPrice (.bin .div (.int a) (.int b)) = .val (.int (a / b)) := by
  simp [fold, foldBinary, foldConst, foldUnary, eval, Res.bind, binop, idiv, hb]

/-- non-vacuity: folding changes the tree while the guard holds (`(2 + 3) * price` on a float
price, `x * 1` on an integer field) -/
example (fo : FOps) :
    fold fo true (.bin .mul (.bin .add (.int 2) (.int 3)) (.ident "price")) = .bin .mul (.int 5) (.ident "price") ∧
      unsafeIdent fo evPrice (.bin .mul (.bin .add (.int 2) (.int 3)) (.ident "price")) = false ∧
      fold fo true (.bin .mul (.ident "x") (.int 1)) = .ident "x" ∧
      unsafeIdent fo { etype := "E", fields := [("x", .int 7)] } (.bin .mul (.ident "x") (.int 1)) = false := by
  simp [fold, foldBinary, foldConst, foldIdent, isInt0, isInt1, unsafeIdent, unsafeAt, eval, Res.ofOption, Res.isInt,
    List.lookup]

end Varpulis.Props.C10
