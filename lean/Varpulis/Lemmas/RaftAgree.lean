import Varpulis.Model.RaftAgree
/-! Lemmas for C37 (Props/C37.lean). -/
namespace Varpulis.RaftAgree
open Varpulis.RaftSync

theorem applyLog_append (s : RState) (xs ys : List LEntry) : applyLog s (xs ++ ys) = applyLog (applyLog s xs) ys := by
  simp [applyLog, List.foldl_append]

theorem applyLog_nil (s : RState) : applyLog s [] = s := rfl

/-- every reachable state machine holds exactly the committed prefix it has applied -/
theorem reach_spec (C : List LEntry) (m : SM) (h : Reach C m) :
    m.applied ≤ C.length ∧ m.state = applyLog {} (C.take m.applied) := by
  induction h with
  | init => exact ⟨Nat.zero_le _, rfl⟩
  | apply m k _ hk ih =>
    obtain ⟨_, hs⟩ := ih
    have hlen : ((C.drop m.applied).take k).length = k := by
      simp only [List.length_take, List.length_drop]; omega
    refine ⟨by simp only [SM.step, hlen]; exact hk, ?_⟩
    simp only [SM.step, hlen, hs, ← applyLog_append, List.take_add]
  | install m snap _ _ _ ih2 => exact ih2
  | restart m _ _ => exact ⟨Nat.zero_le _, rfl⟩

/-- the committed term of an index is unique across the applied prefixes of all nodes
(the Raft paper's argument for State Machine Safety) -/
theorem applied_terms_agree (c : Cluster) (hg : RaftGuarantees c) (a b : Node) (ha : a ∈ c.nodes) (hb : b ∈ c.nodes)
    (i : Nat) (hia : i < a.sm.applied) (hib : i < b.sm.applied) :
    ∃ (h1 : i < a.log.length) (h2 : i < b.log.length), a.log[i].term = b.log[i].term := by
  obtain ⟨h1, ca⟩ := hg.appliedCommitted a ha i hia
  obtain ⟨h2, cb⟩ := hg.appliedCommitted b hb i hib
  refine ⟨h1, h2, ?_⟩
  -- if the terms differed, the leader of the larger term would hold both entries at index i
  have key : ∀ (x y : Node) (_ : x ∈ c.nodes) (hy : y ∈ c.nodes) (hx1 : i < x.log.length) (hy1 : i < y.log.length),
      c.committed i x.log[i].term → x.log[i].term < y.log[i].term → False := by
    intro x y _ hy hx1 hy1 cx hlt
    obtain ⟨L, hL, hiL, hterm⟩ := hg.origin y hy i hy1
    obtain ⟨hiL', hterm'⟩ := hg.leaderCompleteness i _ cx _ L hlt hL
    omega
  rcases Nat.lt_trichotomy a.log[i].term b.log[i].term with hlt | heq | hgt
  · exact (key a b ha hb h1 h2 ca hlt).elim
  · exact heq
  · exact (key b a hb ha h2 h1 cb hgt).elim

/-- **State Machine Safety**, derived from the premises: two nodes agree on every prefix both have applied -/
theorem applied_prefix_agree (c : Cluster) (hg : RaftGuarantees c) (a b : Node) (ha : a ∈ c.nodes) (hb : b ∈ c.nodes)
    (i : Nat) (hia : i ≤ a.sm.applied) (hib : i ≤ b.sm.applied) : a.log.take i = b.log.take i := by
  cases i with
  | zero => simp
  | succ j =>
    obtain ⟨h1, h2, ht⟩ := applied_terms_agree c hg a b ha hb j (by omega) (by omega)
    exact hg.logMatching a.log b.log (.inl ⟨a, ha, rfl⟩) (.inl ⟨b, hb, rfl⟩) j h1 h2 ht

/-! ## a concrete cluster for the non-vacuity example of Props/C37.lean -/

def demoLog : List LEntry :=
  [⟨1, .normal (.registerWorker "w1" "a" 4 0 10)⟩, ⟨1, .normal (.connectorCreated "c" "mqtt")⟩]

def demo : Cluster :=
  { nodes := [⟨demoLog, ⟨2, applyLog {} demoLog⟩⟩, ⟨demoLog, ⟨1, applyLog {} (demoLog.take 1)⟩⟩]
    leaderLog := fun t => if t = 1 then some demoLog else none
    committed := fun i t => i < 2 ∧ t = 1 }

end Varpulis.RaftAgree
