import Varpulis.Lemmas.Sase
import Varpulis.Lemmas.Partition
/-!
# C04 for sequence patterns: `SaseEngine`'s `partitioned_runs` is a partitioned machine

`stepEngine` (a5's model of `process_shared`) keeps `parts : String → List Run`. Without global negations
it is exactly the generic `partitioned` wrapper (Model/Partition.lean) around the one-partition machine
`keyMachine` (run loop on one `Vec<Run>`, then `try_start_run_shared` + `handle_backpressure*`), routed by
`keyOf` (`to_partition_key` of the field, missing field → `""`).
-/
namespace Varpulis.Sase
open Varpulis.Window (Machine PState partitioned pstep proj forKey)

/-- one partition's share of `process_shared`: `process_partition_shared` on its `Vec<Run>`, then
`try_start_run_shared` + `handle_backpressure_partitioned`; emits the event with its matches -/
def keyStep (p : Pat) (cfg : Cfg) (runs : List Run) (e : Event) : List Run × List (Event × List Match) :=
  let res := processRuns p cfg e runs 0 []
  let sr := startRun p cfg e res.1 res.2 false
  (sr.1, [(e, sr.2.1)])

def keyMachine (p : Pat) (cfg : Cfg) : Machine (List Run) Event (Event × List Match) :=
  { init := [], step := keyStep p cfg }

def route (p : Pat) (e : Event) : Option String := some (keyOf p e)
def noDrop : Event → List (Event × List Match) → Bool := fun _ _ => false

/-- `SaseEngine` with `partition_by`, as an instance of the generic partitioned machine -/
def partMachine (p : Pat) (cfg : Cfg) := partitioned (keyMachine p cfg) (route p) noDrop

theorem startRun_indep (p : Pat) (cfg : Cfg) (e : Event) (runs : List Run) (ms : List Match) (d d' : Bool) :
    (startRun p cfg e runs ms d).1 = (startRun p cfg e runs ms d').1 ∧
    (startRun p cfg e runs ms d).2.1 = (startRun p cfg e runs ms d').2.1 := by
  unfold startRun
  cases tryStart p e with
  | none => simp
  | some r =>
    by_cases h1 : p.oneStep = true
    · simp [h1]
    · by_cases h2 : runs.length < cfg.maxRuns <;> simp [h1, h2]

theorem markNeg_of_no_negs {p : Pat} (h : p.negs = []) (e : Event) (l : List Run) : l.map (markNeg p e) = l := by
  have : ∀ r, markNeg p e r = r := by intro r; simp [markNeg, negHit, h]
  rw [List.map_congr_left (fun r _ => this r), List.map_id']

/-- one engine step = one step of the partitioned machine (no global negations) -/
theorem stepEngine_sim {p : Pat} (hneg : p.negs = []) (cfg : Cfg) (s : Eng) (ps : PState String (List Run))
    (hrel : ∀ k, s.parts k = ps.sub k) (e : Event) :
    (∀ k, (stepEngine p cfg s e).1.parts k = ((partMachine p cfg).step ps e).1.sub k) ∧
    [(e, (stepEngine p cfg s e).2)] = (((partMachine p cfg).step ps e).2).map (·.2) := by
  rw [stepEngine_eq]
  simp only [markNeg_of_no_negs hneg, partMachine, partitioned, pstep, route, keyMachine, keyStep, PState.set, hrel]
  refine ⟨?_, ?_⟩
  · intro k
    by_cases hk : k = keyOf p e
    · simp [hk, (startRun_indep p cfg e _ _ s.dropped false).1]
    · simp [hk]
  · simp [(startRun_indep p cfg e _ _ s.dropped false).2]

theorem runFrom_sim {p : Pat} (hneg : p.negs = []) (cfg : Cfg) : ∀ (evs : List Event) (s : Eng) (ps : PState String (List Run)),
    (∀ k, s.parts k = ps.sub k) →
    (∀ k, (runFrom p cfg s evs).1.parts k = ((partMachine p cfg).final ps evs).sub k) ∧
    (runFrom p cfg s evs).2 = ((partMachine p cfg).emits ps evs).map (·.2) := by
  intro evs
  induction evs with
  | nil => intro s ps h; simp [runFrom, Machine.final, Machine.emits, h]
  | cons e es ih =>
    intro s ps h
    obtain ⟨h1, h2⟩ := stepEngine_sim hneg cfg s ps h e
    obtain ⟨i1, i2⟩ := ih (stepEngine p cfg s e).1 _ h1
    simp only [runFrom, Machine.final, Machine.emits, List.map_append]
    refine ⟨i1, ?_⟩
    rw [← h2, i2]; simp
/-- the sub-stream of key `k` -/
def subStream (p : Pat) (k : String) (evs : List Event) : List Event := evs.filter (fun e => keyOf p e = k)

theorem proj_route (p : Pat) (k : String) (evs : List Event) : proj (route p) k evs = subStream p k evs := by
  simp [proj, route, subStream]

/-- a stream whose events all carry key `k0`: the engine is the one-partition machine on `parts k0` -/
theorem runFrom_single {q : Pat} (hneg : q.negs = []) (cfg : Cfg) (k0 : String) : ∀ (evs : List Event) (s : Eng),
    (∀ e ∈ evs, keyOf q e = k0) →
    (runFrom q cfg s evs).1.parts k0 = (keyMachine q cfg).final (s.parts k0) evs ∧
    (runFrom q cfg s evs).2 = (keyMachine q cfg).emits (s.parts k0) evs := by
  intro evs
  induction evs with
  | nil => intro s _; simp [runFrom, Machine.final, Machine.emits]
  | cons e es ih =>
    intro s h
    have hk : keyOf q e = k0 := h e (by simp)
    have hstep : (stepEngine q cfg s e).1.parts k0 = ((keyMachine q cfg).step (s.parts k0) e).1 ∧
        [(e, (stepEngine q cfg s e).2)] = ((keyMachine q cfg).step (s.parts k0) e).2 := by
      rw [stepEngine_eq]
      simp only [markNeg_of_no_negs hneg, keyMachine, keyStep, hk]
      exact ⟨by simp [(startRun_indep q cfg e _ _ s.dropped false).1], by simp [(startRun_indep q cfg e _ _ s.dropped false).2]⟩
    obtain ⟨i1, i2⟩ := ih (stepEngine q cfg s e).1 (fun x hx => h x (by simp [hx]))
    simp only [runFrom, Machine.final, Machine.emits]
    rw [i1, i2, hstep.1, ← hstep.2]
    simp

/-! ### the step functions do not look at `partition` -/

theorem advance_congr {p q : Pat} (h : p.steps = q.steps) (cfg : Cfg) (r : Run) (e : Event) :
    advance p cfg r e = advance q cfg r e := by
  cases p; cases q; simp only at h; subst h; rfl

theorem tryStart_congr {p q : Pat} (h : p.steps = q.steps) (e : Event) : tryStart p e = tryStart q e := by
  cases p; cases q; simp only at h; subst h; rfl

theorem processRuns_congr {p q : Pat} (h : p.steps = q.steps) (cfg : Cfg) (e : Event) :
    ∀ (n : Nat) (runs : List Run) (i : Nat) (acc : List Match), runs.length - i = n →
      processRuns p cfg e runs i acc = processRuns q cfg e runs i acc := by
  intro n
  induction n using Nat.strongRecOn with
  | _ n ih =>
    intro runs i acc hn
    rw [processRuns, processRuns.eq_1 q]
    by_cases hi : i < runs.length
    · simp only [hi, ↓reduceDIte]
      have hsw : (swapRemove runs i).length - i < n := by
        have : (swapRemove runs i).length = runs.length - 1 := by
          unfold swapRemove; split <;> simp
        omega
      by_cases hinv : runs[i].invalidated = true
      · simp only [hinv, ↓reduceIte]
        exact ih _ hsw _ _ _ rfl
      · simp only [hinv, Bool.false_eq_true, ↓reduceIte]
        rw [advance_congr h]
        cases advance q cfg runs[i] e with
        | «continue» r' => exact ih (runs.length - (i+1)) (by omega) _ _ _ (by simp)
        | complete m => exact ih _ hsw _ _ _ rfl
        | completeAndContinue r' m => exact ih (runs.length - (i+1)) (by omega) _ _ _ (by simp)
        | noMatch => exact ih (runs.length - (i+1)) (by omega) _ _ _ rfl
    · simp [hi]

theorem keyMachine_congr {p q : Pat} (h : p.steps = q.steps) (cfg : Cfg) : keyMachine p cfg = keyMachine q cfg := by
  unfold keyMachine
  congr 1
  funext runs e
  simp only [keyStep, startRun, Pat.oneStep, Pat.isLast, processRuns_congr h cfg e _ runs 0 [] rfl, tryStart_congr h, h]
  rfl

/-! ### the partitioned engine, per key and as a union -/

/-- the same pattern without `partition_by`: one `Vec<Run>` (`self.runs`, key `""`) for the whole stream -/
def unpartitioned (p : Pat) : Pat := { p with partition := none }

theorem keyOf_unpartitioned (p : Pat) (e : Event) : keyOf (unpartitioned p) e = "" := by
  simp [keyOf, unpartitioned]

theorem emits_tagged (p : Pat) (cfg : Cfg) : ∀ (evs : List Event) (ps : PState String (List Run)),
    ∀ x ∈ (partMachine p cfg).emits ps evs, x.1 = keyOf p x.2.1 := by
  intro evs
  induction evs with
  | nil => intro ps x hx; simp [Machine.emits] at hx
  | cons e es ih =>
    intro ps x hx
    simp only [Machine.emits, List.mem_append] at hx
    rcases hx with hx | hx
    · simp only [partMachine, partitioned, pstep, route, keyMachine, keyStep, List.map_cons, List.map_nil, List.mem_singleton] at hx
      subst hx; rfl
    · exact ih _ x hx

theorem route_idle (p : Pat) (cfg : Cfg) : ∀ b, route p b = none → (keyMachine p cfg).step (keyMachine p cfg).init b = ((keyMachine p cfg).init, []) := by
  intro b h; simp [route] at h
theorem route_drop (p : Pat) (cfg : Cfg) : ∀ s b, route p b = none → noDrop b ((keyMachine p cfg).step s b).2 = true → ((keyMachine p cfg).step s b).1 = (keyMachine p cfg).init := by
  intro s b h; simp [route] at h

/-- `Eng.init` is the empty partition map -/
theorem init_rel (p : Pat) (cfg : Cfg) : ∀ k, Eng.init.parts k = (partMachine p cfg).init.sub k := by
  intro k; simp [Eng.init, partMachine, partitioned, keyMachine]

/-- the partitioned engine on the whole stream, seen from key `k`: the one-partition machine on `k`'s sub-stream -/
theorem partitioned_run_key {p : Pat} (hneg : p.negs = []) (cfg : Cfg) (evs : List Event) (k : String) :
    (runAll p cfg evs).1.parts k = (keyMachine p cfg).final [] (subStream p k evs) ∧
    (runAll p cfg evs).2.filter (fun x => keyOf p x.1 = k) = (keyMachine p cfg).emits [] (subStream p k evs) := by
  obtain ⟨h1, h2⟩ := runFrom_sim hneg cfg evs Eng.init (partMachine p cfg).init (init_rel p cfg)
  have hg := Varpulis.Window.partition_from_init (keyMachine p cfg) (route p) noDrop (route_idle p cfg) (route_drop p cfg) evs k
  rw [proj_route, show (keyMachine p cfg).init = [] from rfl] at hg
  refine ⟨by rw [runAll, h1 k]; exact hg.1, ?_⟩
  rw [runAll, h2, ← hg.2]
  unfold forKey partMachine
  rw [List.filter_map]
  congr 1
  apply List.filter_congr
  intro x hx
  have := emits_tagged p cfg evs _ x hx
  simp [Function.comp, this]

/-- the un-partitioned pattern on any stream is the one-partition machine on that stream -/
theorem unpartitioned_run {p : Pat} (hneg : p.negs = []) (cfg : Cfg) (evs : List Event) :
    (runAll (unpartitioned p) cfg evs).1.parts "" = (keyMachine p cfg).final [] evs ∧
    (runAll (unpartitioned p) cfg evs).2 = (keyMachine p cfg).emits [] evs := by
  have h := runFrom_single (q := unpartitioned p) (by simpa [unpartitioned] using hneg) cfg "" evs Eng.init
    (fun e _ => keyOf_unpartitioned p e)
  rw [keyMachine_congr (p := unpartitioned p) (q := p) (by simp [unpartitioned])] at h
  simpa [runAll, Eng.init] using h

/-- **partitioned patterns are independent per key** (no global negations): restricted to the events of key
`k`, the per-event matches of the partitioned engine on the whole stream are exactly those of the same pattern
without `partition_by` on `k`'s sub-stream; so is the run state of partition `k`. -/
theorem patterns_independent {p : Pat} (hneg : p.negs = []) (cfg : Cfg) (evs : List Event) (k : String) :
    (runAll p cfg evs).2.filter (fun x => keyOf p x.1 = k) = (runAll (unpartitioned p) cfg (subStream p k evs)).2 ∧
    (runAll p cfg evs).1.parts k = (runAll (unpartitioned p) cfg (subStream p k evs)).1.parts "" := by
  obtain ⟨a1, a2⟩ := partitioned_run_key hneg cfg evs k
  obtain ⟨b1, b2⟩ := unpartitioned_run hneg cfg (subStream p k evs)
  exact ⟨by rw [a2, b2], by rw [a1, b1]⟩

theorem matchesOf_flatMap (q : Pat) (cfg : Cfg) (evs : List Event) :
    matchesOf q cfg evs = (runAll q cfg evs).2.flatMap (·.2) := by
  simp [matchesOf, List.flatMap_def]

/-- hence all matches are the union (multiset) over the keys of the per-key runs -/
theorem patterns_union {p : Pat} (hneg : p.negs = []) (cfg : Cfg) (evs : List Event) (keys : List String)
    (hnd : keys.Nodup) (hcov : ∀ e ∈ evs, keyOf p e ∈ keys) :
    (matchesOf p cfg evs).Perm (keys.flatMap fun k => matchesOf (unpartitioned p) cfg (subStream p k evs)) := by
  obtain ⟨_, h2⟩ := runFrom_sim hneg cfg evs Eng.init (partMachine p cfg).init (init_rel p cfg)
  have hmem : ∀ x ∈ (partMachine p cfg).emits (partMachine p cfg).init evs, x.1 ∈ keys := by
    have hall : ∀ (l : List Event) (ps : PState String (List Run)), (∀ e ∈ l, keyOf p e ∈ keys) →
        ∀ x ∈ (partMachine p cfg).emits ps l, x.1 ∈ keys := by
      intro l
      induction l with
      | nil => intro ps _ x hx; simp [Machine.emits] at hx
      | cons e es ih =>
        intro ps hc x hx
        simp only [Machine.emits, List.mem_append] at hx
        rcases hx with hx | hx
        · simp only [partMachine, partitioned, pstep, route, keyMachine, keyStep, List.map_cons, List.map_nil, List.mem_singleton] at hx
          subst hx; exact hc e (by simp)
        · exact ih _ (fun y hy => hc y (by simp [hy])) x hx
    exact hall evs _ hcov
  have hperm := Varpulis.Window.perm_group keys _ hnd hmem
  rw [matchesOf_flatMap, runAll, h2, List.flatMap_map]
  refine (hperm.flatMap_right _).trans (List.Perm.of_eq ?_)
  rw [List.flatMap_assoc]
  rw [List.flatMap_def, List.flatMap_def]
  congr 1
  apply List.map_congr_left
  intro k _
  rw [List.flatMap_map, matchesOf_flatMap]
  have hg := Varpulis.Window.partition_from_init (keyMachine p cfg) (route p) noDrop (route_idle p cfg) (route_drop p cfg) evs k
  rw [proj_route, show (keyMachine p cfg).init = [] from rfl] at hg
  show ((forKey k ((partMachine p cfg).emits (partMachine p cfg).init evs)).flatMap fun x => x.2) = _
  unfold partMachine
  rw [hg.2, (unpartitioned_run hneg cfg (subStream p k evs)).2]

end Varpulis.Sase
