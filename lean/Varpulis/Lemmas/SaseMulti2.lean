import Varpulis.Lemmas.SaseMulti
import Varpulis.Lemmas.SaseStack
/-!
# `A -> all B -> C` on arbitrary streams: several completions, eviction, leading `all` (C03 deepening)
-/
namespace Varpulis.SaseB
open Varpulis.SaseK Varpulis.Zdd

/-- a permutation of a mapped list is the map of a permutation -/
theorem perm_map_exists {α β : Type} (f : α → β) : ∀ (l2 : List α) (l : List β), l.Perm (l2.map f) →
    ∃ l3 : List α, l3.Perm l2 ∧ l = l3.map f := by
  intro l2
  induction l2 with
  | nil => intro l h; exact ⟨[], List.Perm.refl _, by simpa using h.eq_nil⟩
  | cons a l2 ih =>
    intro l h
    have hmem : f a ∈ l := h.mem_iff.mpr (by simp)
    obtain ⟨s, t, rfl⟩ := List.append_of_mem hmem
    have h' : (s ++ t).Perm (l2.map f) := by
      have := (List.perm_middle (a := f a) (l₁ := s) (l₂ := t)).symm.trans h
      simpa using this.cons_inv
    obtain ⟨l3, hp, heq⟩ := ih (s ++ t) h'
    obtain ⟨l3a, l3b, rfl, hsa, hsb⟩ := List.map_eq_append_iff.mp heq.symm
    refine ⟨l3a ++ a :: l3b, ?_, by simp [hsa, hsb]⟩
    exact List.perm_middle.trans (hp.cons a)

/-- the run stays open at this C: it kept no B yet, or C fails its filter -/
def survives (pc : Option Pred) (eC : Ev) (o : Open) : Bool :=
  match o.kept.getLast? with
  | none => true
  | some l => !predOk pc eC (capAB o.eA l)

theorem contrib_open_fst (pa pe pp pc : Option Pred) (lim : Limits) (eC : Ev) (o : Open) (hC : eC.ty = 2) :
    (contrib (nfaMid pa pe pp pc) lim eC (o.toRun pp)).1 = if survives pc eC o then some (o.toRun pp) else none := by
  simp only [Open.toRun]
  rcases runOf_seq_cases pp o.eA o.kept o.seq with ⟨hnil, hr⟩ | ⟨l, hl, hr⟩
  · rw [hr, contrib, adv_first_C pa pe pp pc lim o.eA eC o.seq hC]
    simp [survives, hnil]
  · rw [hr, contrib, adv_complete pa pe pp pc lim o.eA l eC o.kept o.seq hC]
    by_cases hok : predOk pc eC (capAB o.eA l) = true
    · have hr4 : ({ cur := 4, stack := (⟨o.eA, some 0⟩ :: o.kept.map (⟨·, some 1⟩)) ++ [⟨eC, some 2⟩],
                    captured := (2, eC) :: capAB o.eA l, seq := o.seq, kc := some (kcOf pp o.kept) } : Run)
          = { runAt4 pp o.eA o.kept l eC with seq := o.seq } := rfl
      simp only [hok, if_true, hr4, completeRun_seq, survives, hl]
      have hcr := completeRun_ok (nfaMid pa pe pp pc) lim (runAt4 pp o.eA o.kept l eC)
        (by intro k hk; simp [runAt4] at hk; subst hk; exact kinv_kcOf pp o.kept)
      cases hcomp : completeRun (runAt4 pp o.eA o.kept l eC) lim with
      | multi ms => simp
      | complete m => simp
      | panic => rw [hcomp] at hcr; exact absurd hcr (by simp [AdvOk])
      | cont r => simp [completeRun] at hcomp; repeat (split at hcomp <;> try simp at hcomp)
      | noMatch r => simp [completeRun] at hcomp; repeat (split at hcomp <;> try simp at hcomp)
      | completeCont r m => simp [completeRun] at hcomp; repeat (split at hcomp <;> try simp at hcomp)
    · simp [hok, survives, hl]

theorem survivors_eq (pa pe pp pc : Option Pred) (lim : Limits) (eC : Ev) (hC : eC.ty = 2) : ∀ (os : List Open),
    (List.filterMap (fun r => (contrib (nfaMid pa pe pp pc) lim eC r).1) (os.map (Open.toRun pp))) =
      (os.filter (survives pc eC)).map (Open.toRun pp) := by
  intro os
  rw [List.filterMap_map]
  induction os with
  | nil => rfl
  | cons o os ih =>
    simp only [List.filterMap_cons, Function.comp_def, contrib_open_fst pa pe pp pc lim eC o hC, List.filter_cons] at ih ⊢
    by_cases hs : survives pc eC o = true <;> simp [hs, ih]

/-- the C event: every open run reports on its own; exactly the runs that do not complete stay, unchanged -/
theorem step_close2 (pa pe pp pc : Option Pred) (cfg : Cfg) (s : Eng) (eC : Ev) (os : List Open)
    (hp : cfg.partitioned = false) (hC : eC.ty = 2) (hr : s.runs = os.map (Open.toRun pp)) :
    ∃ (s' : Eng) (o : Out) (os' : List Open), step (nfaMid pa pe pp pc) cfg s eC = some (s', o) ∧
      o.emitted.Perm (os.flatMap (ownReport pp pc cfg.lim eC)) ∧
      s'.runs = os'.map (Open.toRun pp) ∧ os'.Perm (os.filter (survives pc eC)) ∧ s'.nextSeq = s.nextSeq := by
  have hnp : ∀ r ∈ os.map (Open.toRun pp), advance (nfaMid pa pe pp pc) cfg.lim r eC ≠ .panic := by
    intro r hr'
    rcases List.mem_map.mp hr' with ⟨o, _, rfl⟩
    exact (contrib_open pa pe pp pc cfg.lim eC o hC).1
  have hacc : accepts pa eC = false := by simp [accepts, hC]
  obtain ⟨runs', ms, hpr, hruns, hperm⟩ := processRuns_perm (nfaMid pa pe pp pc) cfg.lim eC
    (os.map (Open.toRun pp)).length [] (os.map (Open.toRun pp)) [] (Nat.le_refl _) hnp
  simp only [List.nil_append, List.length_nil] at hpr hperm hruns
  have hsurv := survivors_eq pa pe pp pc cfg.lim eC hC os
  rw [hsurv] at hruns
  obtain ⟨os', hos', hruns'⟩ := perm_map_exists (Open.toRun pp) _ _ hruns
  refine ⟨{ s with runs := runs', completed := s.completed + (ms.map List.length).sum }, { emitted := ms }, os',
    by simp only [step, hp, hr, Bool.false_eq_true, if_false, Bool.false_and, hpr, tryStart_mid, hacc], ?_, ?_, hos', rfl⟩
  · refine hperm.trans ?_
    simp only [List.flatMap_map]
    have : (fun o => (contrib (nfaMid pa pe pp pc) cfg.lim eC (Open.toRun pp o)).2) = ownReport pp pc cfg.lim eC := by
      funext o; exact (contrib_open pa pe pp pc cfg.lim eC o hC).2
    simp only [this]
    exact List.Perm.refl _
  · exact hruns'

/-! ### streams with several completions -/

/-- specification of one event on the open runs (no backpressure): a C makes every open run report on its own and
removes exactly the runs that complete; any other event advances every run independently and may start one -/
def specStep (pa pe pp pc : Option Pred) (lim : Limits) (os : List Open) (next : Nat) (e : Ev) :
    List Open × Nat × List (List Match) :=
  if e.ty = 2 then (os.filter (survives pc e), next, os.flatMap (ownReport pp pc lim e))
  else (os.map (Open.adv pe lim.maxEvents e) ++ (if accepts pa e then [Open.mk e [] next] else []),
        next + (if accepts pa e then 1 else 0), [])

/-- the reports, event by event, of a whole stream -/
def specRun (pa pe pp pc : Option Pred) (lim : Limits) : List Open → Nat → List Ev → List (List (List Match))
  | _, _, [] => []
  | os, next, e :: es =>
    (specStep pa pe pp pc lim os next e).2.2 ::
      specRun pa pe pp pc lim (specStep pa pe pp pc lim os next e).1 (specStep pa pe pp pc lim os next e).2.1 es

/-- two lists of groups agree position by position up to a permutation inside each position -/
inductive EachPerm {α : Type} : List (List α) → List (List α) → Prop
  | nil : EachPerm [] []
  | cons {a b : List α} {as bs : List (List α)} : a.Perm b → EachPerm as bs → EachPerm (a :: as) (b :: bs)

theorem runAll_multi (pa pe pp pc : Option Pred) (cfg : Cfg) (hp : cfg.partitioned = false) (hk : 1 ≤ cfg.lim.maxEvents) :
    ∀ (es : List Ev) (s : Eng) (os canon : List Open), s.runs = os.map (Open.toRun pp) → os.Perm canon →
      canon.length + (es.filter (accepts pa)).length ≤ cfg.maxRuns →
      ∃ s' outs, runAll (nfaMid pa pe pp pc) cfg s es = some (s', outs) ∧
        EachPerm (outs.map (·.emitted)) (specRun pa pe pp pc cfg.lim canon s.nextSeq es) := by
  intro es
  induction es with
  | nil => intro s os canon _ _ _; exact ⟨s, [], rfl, EachPerm.nil⟩
  | cons e es ih =>
    intro s os canon hr hperm hcap
    by_cases hC : e.ty = 2
    · have hna : accepts pa e = false := by simp [accepts, hC]
      obtain ⟨s1, o1, os1, hstep, hem, hr1, hos1, hn1⟩ := step_close2 pa pe pp pc cfg s e os hp hC hr
      have hperm1 : os1.Perm (canon.filter (survives pc e)) := hos1.trans (hperm.filter _)
      have hcap1 : (canon.filter (survives pc e)).length + (es.filter (accepts pa)).length ≤ cfg.maxRuns := by
        have := List.length_filter_le (survives pc e) canon
        simp [List.filter_cons, hna] at hcap; omega
      obtain ⟨s2, outs, hrun, hall⟩ := ih s1 os1 _ hr1 hperm1 hcap1
      refine ⟨s2, o1 :: outs, by simp [runAll, hstep, hrun], ?_⟩
      simp only [List.map_cons, specRun, specStep, hC, if_true]
      refine EachPerm.cons (hem.trans (hperm.flatMap_right _)) ?_
      rw [hn1] at hall; exact hall
    · have hcap0 : accepts pa e = true → os.length < cfg.maxRuns := by
        intro ha; rw [hperm.length_eq]; simp [List.filter_cons, ha] at hcap; omega
      obtain ⟨s1, o1, hstep, hem, hr1, hn1⟩ := step_open pa pe pp pc cfg s e os hp hk hC hr hcap0
      have hperm1 : (os.map (Open.adv pe cfg.lim.maxEvents e) ++ (if accepts pa e then [Open.mk e [] s.nextSeq] else [])).Perm
          (canon.map (Open.adv pe cfg.lim.maxEvents e) ++ (if accepts pa e then [Open.mk e [] s.nextSeq] else [])) :=
        (hperm.map _).append_right _
      have hcap1 : (canon.map (Open.adv pe cfg.lim.maxEvents e) ++ (if accepts pa e then [Open.mk e [] s.nextSeq] else [])).length
          + (es.filter (accepts pa)).length ≤ cfg.maxRuns := by
        by_cases ha : accepts pa e = true <;> simp [List.filter_cons, ha] at hcap ⊢ <;> omega
      obtain ⟨s2, outs, hrun, hall⟩ := ih s1 _ _ hr1 hperm1 hcap1
      refine ⟨s2, o1 :: outs, by simp [runAll, hstep, hrun], ?_⟩
      simp only [List.map_cons, specRun, specStep, hC, if_false]
      refine EachPerm.cons (by rw [hem]) ?_
      rw [hn1] at hall; exact hall

/-- **several completions**: `A -> all B -> C` on an arbitrary stream (A, B, C and other events in any order), all started
runs fitting under `max_runs`: the output is, event by event and up to the `swap_remove` order within one event, what
`specRun` says — at every C each run open at that moment reports on its own and the completing runs are removed. -/
theorem emitted_mid_stream (pa pe pp pc : Option Pred) (cfg : Cfg) (es : List Ev)
    (hp : cfg.partitioned = false) (hk : 1 ≤ cfg.lim.maxEvents) (hcap : (es.filter (accepts pa)).length ≤ cfg.maxRuns) :
    ∃ outs, emittedAll (nfaMid pa pe pp pc) cfg es = some outs ∧
      EachPerm outs (specRun pa pe pp pc cfg.lim [] 0 es) := by
  obtain ⟨s', outs, hrun, hall⟩ := runAll_multi pa pe pp pc cfg hp hk es {} [] [] rfl (List.Perm.refl _) (by simpa using hcap)
  exact ⟨outs.map (·.emitted), by simp [emittedAll, hrun], hall⟩

/-! ### backpressure (any strategy): runs are removed, never altered -/

/-- the run loop on a non-C event: every open run advances on its own (no capacity premise) -/
theorem processRuns_open (pa pe pp pc : Option Pred) (lim : Limits) (e : Ev) (os : List Open)
    (hk : 1 ≤ lim.maxEvents) (h2 : e.ty ≠ 2) :
    processRuns (nfaMid pa pe pp pc) lim e (os.map (Open.toRun pp)).length (os.map (Open.toRun pp)) 0 [] =
      some ((os.map (Open.adv pe lim.maxEvents e)).map (Open.toRun pp), []) := by
  have key : ∀ (fuel : Nat) (pre : List Run) (rest : List Open), rest.length ≤ fuel →
      processRuns (nfaMid pa pe pp pc) lim e fuel (pre ++ rest.map (Open.toRun pp)) pre.length [] =
        some (pre ++ (rest.map (Open.adv pe lim.maxEvents e)).map (Open.toRun pp), []) := by
    intro fuel
    induction fuel with
    | zero =>
      intro pre rest hlen
      have : rest = [] := List.length_eq_zero_iff.mp (Nat.le_zero.mp hlen)
      subst this; simp [processRuns]
    | succ fuel ih =>
      intro pre rest hlen
      cases rest with
      | nil => simp [processRuns]
      | cons o rest =>
        have hget : (pre ++ (o :: rest).map (Open.toRun pp))[pre.length]? = some (o.toRun pp) := by simp
        have hset : ∀ r', (pre ++ (o :: rest).map (Open.toRun pp)).set pre.length r' = (pre ++ [r']) ++ rest.map (Open.toRun pp) := by
          intro r'; simp [List.set_append]
        have hlen' : rest.length ≤ fuel := by simp at hlen; omega
        have hpl' : (pre ++ [(o.adv pe lim.maxEvents e).toRun pp]).length = pre.length + 1 := by simp
        have := ih (pre ++ [(o.adv pe lim.maxEvents e).toRun pp]) rest hlen'
        rw [hpl'] at this
        simp only [processRuns, hget]
        rcases adv_open pa pe pp pc lim e o h2 hk with ha | ha <;> simp only [ha, hset, this] <;> simp
  have := key (os.map (Open.toRun pp)).length [] os (by simp)
  simpa using this

theorem exists_preimage {α β : Type} (f : α → β) (L : List α) : ∀ (l : List β), (∀ x ∈ l, x ∈ L.map f) →
    ∃ l3 : List α, l = l3.map f ∧ ∀ x ∈ l3, x ∈ L := by
  intro l
  induction l with
  | nil => intro _; exact ⟨[], rfl, by simp⟩
  | cons b l ih =>
    intro h
    obtain ⟨a, ha, rfl⟩ := List.mem_map.mp (h b (by simp))
    obtain ⟨l3, rfl, h3⟩ := ih (fun x hx => h x (List.mem_cons_of_mem _ hx))
    exact ⟨a :: l3, rfl, by intro x hx; rcases List.mem_cons.mp hx with rfl | hx; exact ha; exact h3 x hx⟩

/-- a non-C event under **any** backpressure strategy: nothing is emitted and every stored run is either an old run
advanced on its own or the fresh run of this event — backpressure only removes runs, it never alters one -/
theorem step_open_bp (pa pe pp pc : Option Pred) (cfg : Cfg) (s : Eng) (e : Ev) (os : List Open)
    (hp : cfg.partitioned = false) (hk : 1 ≤ cfg.lim.maxEvents) (h2 : e.ty ≠ 2)
    (hr : s.runs = os.map (Open.toRun pp)) :
    ∃ (s' : Eng) (o : Out) (os' : List Open), step (nfaMid pa pe pp pc) cfg s e = some (s', o) ∧ o.emitted = [] ∧
      s'.runs = os'.map (Open.toRun pp) ∧
      (∀ x ∈ os', x ∈ os.map (Open.adv pe cfg.lim.maxEvents e) ++ (if accepts pa e then [Open.mk e [] s.nextSeq] else [])) ∧
      s'.nextSeq = s.nextSeq + (if accepts pa e then 1 else 0) := by
  have hproc2 := processRuns_open pa pe pp pc cfg.lim e os hk h2
  have hst1 : ∀ seq, (nfaMid pa pe pp pc).states[(runAt1 e seq).cur]? =
      some { ty := .normal, evTy := some 0, pred := pa, alias := some 0, trans := [2] } := by
    intro seq; simp [nfaMid, runAt1]
  by_cases hacc : accepts pa e = true
  · -- whatever the strategy decides, the stored runs come from the advanced runs and the new run
    have hmem := handleBp_mem cfg s.created s.dropped ((os.map (Open.adv pe cfg.lim.maxEvents e)).map (Open.toRun pp)) (runAt1 e s.nextSeq)
    obtain ⟨os', hos', hsub⟩ := exists_preimage (Open.toRun pp)
      (os.map (Open.adv pe cfg.lim.maxEvents e) ++ [Open.mk e [] s.nextSeq])
      (handleBp cfg s.created s.dropped ((os.map (Open.adv pe cfg.lim.maxEvents e)).map (Open.toRun pp)) (runAt1 e s.nextSeq)).1
      (by
        intro x hx
        rcases hmem x hx with h' | rfl
        · simp only [List.map_append, List.mem_append]; left; exact h'
        · simp [Open.toRun, runOf])
    simp only [step, hp, hr, Bool.false_eq_true, if_false, Bool.false_and, hproc2, tryStart_mid, hacc, if_true, hst1]
    refine ⟨_, _, os', rfl, rfl, ?_, by simpa [hacc] using hsub, ?_⟩
    · cases (handleBp cfg s.created s.dropped ((os.map (Open.adv pe cfg.lim.maxEvents e)).map (Open.toRun pp)) (runAt1 e s.nextSeq)).2 <;> exact hos'
    · cases (handleBp cfg s.created s.dropped ((os.map (Open.adv pe cfg.lim.maxEvents e)).map (Open.toRun pp)) (runAt1 e s.nextSeq)).2 <;> rfl
  · simp only [step, hp, hr, Bool.false_eq_true, if_false, Bool.false_and, hproc2, tryStart_mid, hacc]
    exact ⟨_, _, os.map (Open.adv pe cfg.lim.maxEvents e), rfl, rfl, rfl, by simp, by simp⟩

/-- the output of a stream under backpressure, measured against the backpressure-free specification: a non-C event reports
nothing; a C event reports, up to order, the own reports of a list of runs *all of which are open at that C in the
backpressure-free run of the same stream* (`canon` follows `specStep`) -/
def subSpec (pa pe pp pc : Option Pred) (lim : Limits) :
    List (List (List Match)) → List Open → Nat → List Ev → Prop
  | [], _, _, [] => True
  | g :: gs, canon, next, e :: es =>
    (if e.ty = 2 then ∃ os : List Open, (∀ o ∈ os, o ∈ canon) ∧ g.Perm (os.flatMap (ownReport pp pc lim e)) else g = []) ∧
    subSpec pa pe pp pc lim gs (specStep pa pe pp pc lim canon next e).1 (specStep pa pe pp pc lim canon next e).2.1 es
  | _, _, _, _ => False

theorem runAll_bp (pa pe pp pc : Option Pred) (cfg : Cfg) (hp : cfg.partitioned = false) (hk : 1 ≤ cfg.lim.maxEvents) :
    ∀ (es : List Ev) (s : Eng) (os canon : List Open), s.runs = os.map (Open.toRun pp) → (∀ o ∈ os, o ∈ canon) →
      ∃ s' outs, runAll (nfaMid pa pe pp pc) cfg s es = some (s', outs) ∧
        subSpec pa pe pp pc cfg.lim (outs.map (·.emitted)) canon s.nextSeq es := by
  intro es
  induction es with
  | nil => intro s os canon _ _; exact ⟨s, [], rfl, trivial⟩
  | cons e es ih =>
    intro s os canon hr hsub
    by_cases hC : e.ty = 2
    · obtain ⟨s1, o1, os1, hstep, hem, hr1, hos1, hn1⟩ := step_close2 pa pe pp pc cfg s e os hp hC hr
      have hsub1 : ∀ o ∈ os1, o ∈ canon.filter (survives pc e) := by
        intro o ho
        have := (hos1.mem_iff.mp ho)
        rw [List.mem_filter] at this ⊢
        exact ⟨hsub o this.1, this.2⟩
      obtain ⟨s2, outs, hrun, hall⟩ := ih s1 os1 _ hr1 hsub1
      refine ⟨s2, o1 :: outs, by simp [runAll, hstep, hrun], ?_⟩
      simp only [List.map_cons, subSpec, hC, if_true]
      refine ⟨⟨os, hsub, hem⟩, ?_⟩
      rw [hn1] at hall
      simpa [specStep, hC] using hall
    · obtain ⟨s1, o1, os1, hstep, hem, hr1, hos1, hn1⟩ := step_open_bp pa pe pp pc cfg s e os hp hk hC hr
      have hsub1 : ∀ o ∈ os1, o ∈ canon.map (Open.adv pe cfg.lim.maxEvents e) ++ (if accepts pa e then [Open.mk e [] s.nextSeq] else []) := by
        intro o ho
        rcases List.mem_append.mp (hos1 o ho) with h' | h'
        · obtain ⟨o0, ho0, rfl⟩ := List.mem_map.mp h'
          exact List.mem_append.mpr (Or.inl (List.mem_map.mpr ⟨o0, hsub o0 ho0, rfl⟩))
        · exact List.mem_append.mpr (Or.inr h')
      obtain ⟨s2, outs, hrun, hall⟩ := ih s1 os1 _ hr1 hsub1
      refine ⟨s2, o1 :: outs, by simp [runAll, hstep, hrun], ?_⟩
      simp only [List.map_cons, subSpec, hC, if_false]
      refine ⟨hem, ?_⟩
      rw [hn1] at hall
      simpa [specStep, hC] using hall

/-- **eviction / dropping does not contaminate runs**: for every backpressure strategy and every `max_runs`, on an arbitrary
stream, processing does not panic, nothing is reported at non-C events, and every group reported at a C is the own report
of a run that is open at that C in the backpressure-free run of the same stream -/
theorem emitted_mid_bp (pa pe pp pc : Option Pred) (cfg : Cfg) (es : List Ev)
    (hp : cfg.partitioned = false) (hk : 1 ≤ cfg.lim.maxEvents) :
    ∃ outs, emittedAll (nfaMid pa pe pp pc) cfg es = some outs ∧ subSpec pa pe pp pc cfg.lim outs [] 0 es := by
  obtain ⟨s', outs, hrun, hall⟩ := runAll_bp pa pe pp pc cfg hp hk es {} [] [] rfl (by simp)
  exact ⟨outs.map (·.emitted), by simp [emittedAll, hrun], hall⟩

end Varpulis.SaseB
