import Varpulis.Model.ZddTable
import Varpulis.Lemmas.Zdd
/-!
# Table layer of M-ZDD: the node table refines the treeOf layer

Part A: `treeOf`, `getOrCreate`, `TWF`, canonicity (`tree_inj`), judge soundness.
-/
namespace Varpulis.ZddT
open Varpulis.Zdd

/-! ### refs -/

@[simp] theorem rank_E : Ref.rank .E = 0 := rfl
@[simp] theorem rank_B : Ref.rank .B = 0 := rfl
@[simp] theorem rank_N (i : Nat) : Ref.rank (.N i) = i + 1 := rfl

@[simp] theorem valid_E (t : Table) : Valid t .E := Nat.zero_le _
@[simp] theorem valid_B (t : Table) : Valid t .B := Nat.zero_le _
theorem valid_N {t : Table} {i : Nat} : Valid t (.N i) ↔ i < t.size := by simp [Valid]; omega

theorem valid_of_get {t : Table} {i : Nat} {nd : Node} (h : t[i]? = some nd) : Valid t (.N i) := by
  rw [valid_N]; exact (Array.getElem?_eq_some_iff.1 h).1

theorem get_of_valid {t : Table} {i : Nat} (h : Valid t (.N i)) : ∃ nd, t[i]? = some nd := by
  rw [valid_N] at h; exact ⟨t[i], Array.getElem?_eq_getElem h⟩

/-! ### Ext -/

theorem Ext.refl (t : Table) : Ext t t := fun _ _ h => h
theorem Ext.trans {a b c : Table} (h1 : Ext a b) (h2 : Ext b c) : Ext a c := fun i nd h => h2 i nd (h1 i nd h)

theorem Ext.size_le {t t' : Table} (h : Ext t t') : t.size ≤ t'.size := by
  rcases Nat.eq_zero_or_pos t.size with h0 | hp
  · omega
  · have h1 : t[t.size - 1]? = some t[t.size - 1] := Array.getElem?_eq_getElem (by omega)
    have := (Array.getElem?_eq_some_iff.1 (h _ _ h1)).1
    omega

theorem Ext.valid {t t' : Table} (h : Ext t t') {r : Ref} (hv : Valid t r) : Valid t' r :=
  Nat.le_trans hv h.size_le

theorem ext_push (t : Table) (nd : Node) : Ext t (t.push nd) := by
  intro i x h
  have hi := (Array.getElem?_eq_some_iff.1 h).1
  rw [Array.getElem?_push]
  split
  · omega
  · exact h

/-! ### treeOf -/

@[simp] theorem tree_E (t : Table) : treeOf t .E = .empty := rfl
@[simp] theorem tree_B (t : Table) : treeOf t .B = .base := rfl

/-- "children are created before parents" -/
def Below (t : Table) : Prop := ∀ (i : Nat) (nd : Node), t[i]? = some nd → nd.lo.rank ≤ i ∧ nd.hi.rank ≤ i

theorem TWF.toBelow {t : Table} (h : TWF t) : Below t := fun _ _ hg => h.below hg

/-- any fuel ≥ rank gives the same tree -/
theorem treeF_fuel {t : Table} (hb : Below t) : ∀ (f f' : Nat) (r : Ref), r.rank ≤ f → r.rank ≤ f' →
    treeF t f r = treeF t f' r := by
  intro f
  induction f with
  | zero =>
    intro f' r h _
    cases r with
    | E => cases f' <;> rfl
    | B => cases f' <;> rfl
    | N i => simp at h
  | succ f ih =>
    intro f' r h h'
    cases r with
    | E => cases f' <;> rfl
    | B => cases f' <;> rfl
    | N i =>
      cases f' with
      | zero => simp at h'
      | succ f' =>
        simp only [treeF]
        cases hg : t[i]? with
        | none => rfl
        | some nd =>
          have := hb _ _ hg
          simp only [rank_N] at h h'
          simp only
          rw [ih f' nd.lo (by omega) (by omega), ih f' nd.hi (by omega) (by omega)]

/-- unfolding `treeOf` at a stored node -/
theorem tree_N {t : Table} (hb : Below t) {i : Nat} {nd : Node} (hg : t[i]? = some nd) :
    treeOf t (.N i) = .node nd.v (treeOf t nd.lo) (treeOf t nd.hi) := by
  have := hb _ _ hg
  simp only [treeOf, rank_N, treeF, hg]
  rw [treeF_fuel hb i _ nd.lo this.1 (Nat.le_refl _), treeF_fuel hb i _ nd.hi this.2 (Nat.le_refl _)]

theorem tree_eq_treeF {t : Table} (hb : Below t) {r : Ref} {f : Nat} (h : r.rank ≤ f) : treeF t f r = treeOf t r :=
  treeF_fuel hb _ _ r h (Nat.le_refl _)

theorem Below.child_valid {t : Table} (hb : Below t) {i : Nat} {nd : Node} (hg : t[i]? = some nd) :
    Valid t nd.lo ∧ Valid t nd.hi := by
  have := hb _ _ hg
  have hi := (Array.getElem?_eq_some_iff.1 hg).1
  simp only [Valid]; omega

/-- **Appending never changes the tree of an existing ref** (the argument of `invalidate_caches`). -/
theorem treeF_stable {t t' : Table} (hb : Below t) (hx : Ext t t') : ∀ (f : Nat) (r : Ref), Valid t r →
    treeF t' f r = treeF t f r := by
  intro f
  induction f with
  | zero => intro r _; cases r <;> rfl
  | succ f ih =>
    intro r hv
    cases r with
    | E => rfl
    | B => rfl
    | N i =>
      obtain ⟨nd, hg⟩ := get_of_valid hv
      have hc := hb.child_valid hg
      simp only [treeF, hg, hx i nd hg]
      rw [ih _ hc.1, ih _ hc.2]

theorem tree_stable {t t' : Table} (hb : Below t) (hx : Ext t t') {r : Ref} (hv : Valid t r) :
    treeOf t' r = treeOf t r := treeF_stable hb hx _ r hv

/-! ### getOrCreate -/

theorem lookup_some {t : Table} {nd : Node} {i : Nat} (h : lookup t nd = some i) : t[i]? = some nd := by
  simp only [lookup, Array.findIdx?_eq_some_iff_getElem] at h
  obtain ⟨hi, heq, _⟩ := h
  simp only [beq_iff_eq] at heq
  rw [Array.getElem?_eq_getElem hi, heq]

theorem lookup_none {t : Table} {nd : Node} (h : lookup t nd = none) : ∀ i : Nat, t[i]? ≠ some nd := by
  intro i hg
  simp only [lookup, Array.findIdx?_eq_none_iff] at h
  obtain ⟨hi, heq⟩ := Array.getElem?_eq_some_iff.1 hg
  have := h t[i] (Array.getElem_mem hi)
  simp [heq] at this

theorem getOrCreate_ext (t : Table) (v : Nat) (lo hi : Ref) : Ext t (getOrCreate t v lo hi).1 := by
  unfold getOrCreate
  split
  · exact Ext.refl t
  · split
    · exact Ext.refl t
    · exact ext_push t _

theorem getOrCreate_valid {t : Table} {v : Nat} {lo hi : Ref} (hlo : Valid t lo) :
    Valid (getOrCreate t v lo hi).1 (getOrCreate t v lo hi).2 := by
  unfold getOrCreate
  split
  · exact hlo
  · split
    · rename_i i h; exact valid_of_get (lookup_some h)
    · simp [Valid]

theorem below_push {t : Table} (hb : Below t) {nd : Node} (hlo : Valid t nd.lo) (hhi : Valid t nd.hi) :
    Below (t.push nd) := by
  intro i x hg
  rw [Array.getElem?_push] at hg
  split at hg
  · cases hg; subst_vars; exact ⟨hlo, hhi⟩
  · exact hb _ _ hg

theorem getOrCreate_below {t : Table} (hb : Below t) {v : Nat} {lo hi : Ref} (hlo : Valid t lo) (hhi : Valid t hi) :
    Below (getOrCreate t v lo hi).1 := by
  unfold getOrCreate
  split
  · exact hb
  · split
    · exact hb
    · exact below_push hb hlo hhi

/-- `get_or_create` denotes `Zdd.mk` of the children's trees -/
theorem tree_getOrCreate {t : Table} (hb : Below t) {v : Nat} {lo hi : Ref} (hlo : Valid t lo) (hhi : Valid t hi) :
    treeOf (getOrCreate t v lo hi).1 (getOrCreate t v lo hi).2 = mk v (treeOf t lo) (treeOf t hi) := by
  have hb' := getOrCreate_below hb (v := v) hlo hhi
  have hx := getOrCreate_ext t v lo hi
  unfold getOrCreate at hb' hx ⊢
  split
  · subst_vars; simp [mk]
  · rename_i hne
    have hne' : treeOf t hi ≠ .empty := by
      cases hi with
      | E => exact absurd rfl hne
      | B => simp
      | N i => obtain ⟨nd, hg⟩ := get_of_valid hhi; rw [tree_N hb hg]; simp
    split
    · rename_i i h
      rw [tree_N hb (lookup_some h)]; simp [mk, hne']
    · rename_i h
      simp only [h] at hb' hx
      simp only [hne, if_false] at hb' hx
      have hg : (t.push ⟨v, lo, hi⟩)[t.size]? = some ⟨v, lo, hi⟩ := by simp
      rw [tree_N hb' hg]
      simp only [tree_stable hb hx hlo, tree_stable hb hx hhi, mk, hne', if_false]

/-! ### ordering and reducedness of denoted trees -/

/-- smallest variable a ref may start with: every node ref `r` has variable ≥ n -/
def TopGe (t : Table) (n : Nat) (r : Ref) : Prop := ∀ (i : Nat) (nd : Node), r = .N i → t[i]? = some nd → n ≤ nd.v

theorem tree_ord_aux {t : Table} (h : TWF t) : ∀ (k : Nat) (r : Ref), r.rank ≤ k → Valid t r → ∀ n, TopGe t n r →
    Ord n (treeOf t r) := by
  intro k
  induction k with
  | zero => intro r hr _ n _; cases r <;> simp_all
  | succ k ih =>
    intro r hr hv n htop
    cases r with
    | E => simp
    | B => simp
    | N i =>
      obtain ⟨nd, hg⟩ := get_of_valid hv
      have hc := h.toBelow.child_valid hg
      have hbl := h.below hg
      simp only [rank_N] at hr
      rw [tree_N h.toBelow hg, ord_node]
      refine ⟨htop _ _ rfl hg, ih _ (by omega) hc.1 _ ?_, ih _ (by omega) hc.2 _ ?_⟩
      · intro j c hj hgc; exact h.ord hg (Or.inl hj) hgc
      · intro j c hj hgc; exact h.ord hg (Or.inr hj) hgc

/-- under `TWF` every valid ref denotes an ordered tree -/
theorem tree_ord {t : Table} (h : TWF t) {r : Ref} (hv : Valid t r) : Ord 0 (treeOf t r) :=
  tree_ord_aux h _ r (Nat.le_refl _) hv 0 (fun _ _ _ _ => Nat.zero_le _)

theorem tree_red_aux {t : Table} (h : TWF t) : ∀ (k : Nat) (r : Ref), r.rank ≤ k → Valid t r → Red (treeOf t r) := by
  intro k
  induction k with
  | zero => intro r hr _; cases r <;> simp_all
  | succ k ih =>
    intro r hr hv
    cases r with
    | E => simp
    | B => simp
    | N i =>
      obtain ⟨nd, hg⟩ := get_of_valid hv
      have hc := h.toBelow.child_valid hg
      have hbl := h.below hg
      simp only [rank_N] at hr
      rw [tree_N h.toBelow hg, red_node]
      refine ⟨?_, ih _ (by omega) hc.1, ih _ (by omega) hc.2⟩
      have hne := h.red hg
      cases hhi : nd.hi with
      | E => exact absurd hhi hne
      | B => simp
      | N j =>
        rw [hhi] at hc
        obtain ⟨c, hgc⟩ := get_of_valid hc.2
        rw [tree_N h.toBelow hgc]; simp

/-- under `TWF` every valid ref denotes a reduced tree -/
theorem tree_red {t : Table} (h : TWF t) {r : Ref} (hv : Valid t r) : Red (treeOf t r) :=
  tree_red_aux h _ r (Nat.le_refl _) hv

/-- the variable of a stored node bounds its subtrees from below -/
theorem tree_ord_child {t : Table} (h : TWF t) {i : Nat} {nd : Node} (hg : t[i]? = some nd) :
    Ord (nd.v + 1) (treeOf t nd.lo) ∧ Ord (nd.v + 1) (treeOf t nd.hi) := by
  have := tree_ord h (valid_of_get hg)
  rw [tree_N h.toBelow hg, ord_node] at this
  exact this.2

/-! ### canonicity of the table: `treeOf` is injective on valid refs -/

theorem tree_inj_aux {t : Table} (h : TWF t) : ∀ (z : Z) (a b : Ref), Valid t a → Valid t b →
    treeOf t a = z → treeOf t b = z → a = b := by
  intro z
  induction z with
  | empty =>
    intro a b ha hb ta tb
    cases a with
    | B => simp at ta
    | N i => obtain ⟨nd, hg⟩ := get_of_valid ha; rw [tree_N h.toBelow hg] at ta; simp at ta
    | E =>
      cases b with
      | E => rfl
      | B => simp at tb
      | N i => obtain ⟨nd, hg⟩ := get_of_valid hb; rw [tree_N h.toBelow hg] at tb; simp at tb
  | base =>
    intro a b ha hb ta tb
    cases a with
    | E => simp at ta
    | N i => obtain ⟨nd, hg⟩ := get_of_valid ha; rw [tree_N h.toBelow hg] at ta; simp at ta
    | B =>
      cases b with
      | B => rfl
      | E => simp at tb
      | N i => obtain ⟨nd, hg⟩ := get_of_valid hb; rw [tree_N h.toBelow hg] at tb; simp at tb
  | node v lo hi ihlo ihhi =>
    intro a b ha hb ta tb
    cases a with
    | E => simp at ta
    | B => simp at ta
    | N i =>
      cases b with
      | E => simp at tb
      | B => simp at tb
      | N j =>
        obtain ⟨x, hgx⟩ := get_of_valid ha
        obtain ⟨y, hgy⟩ := get_of_valid hb
        rw [tree_N h.toBelow hgx] at ta
        rw [tree_N h.toBelow hgy] at tb
        simp only [Z.node.injEq] at ta tb
        have hcx := h.toBelow.child_valid hgx
        have hcy := h.toBelow.child_valid hgy
        have e1 := ihlo x.lo y.lo hcx.1 hcy.1 ta.2.1 tb.2.1
        have e2 := ihhi x.hi y.hi hcx.2 hcy.2 ta.2.2 tb.2.2
        have e0 : x.v = y.v := by rw [ta.1, tb.1]
        have : x = y := by cases x; cases y; simp_all
        subst this
        rw [h.nodup hgx hgy]

/-- **Canonicity of the unique table**: two valid refs denoting the same tree are the same ref. -/
theorem tree_inj {t : Table} (h : TWF t) {a b : Ref} (ha : Valid t a) (hb : Valid t b)
    (heq : treeOf t a = treeOf t b) : a = b :=
  tree_inj_aux h _ a b ha hb heq rfl

/-- refs in one well-formed table that denote the same *family* are the same ref -/
theorem same_family_same_ref {t : Table} (h : TWF t) {a b : Ref} (ha : Valid t a) (hb : Valid t b)
    (hs : ∀ s, s ∈ sets (treeOf t a) ↔ s ∈ sets (treeOf t b)) : a = b :=
  tree_inj h ha hb (canonical _ _ 0 (tree_ord h ha) (tree_ord h hb) (tree_red h ha) (tree_red h hb) hs)

/-! ### getOrCreate preserves TWF -/

theorem twf_empty : TWF #[] := by
  constructor <;> intro i <;> simp

theorem twf_push {t : Table} (h : TWF t) {v : Nat} {lo hi : Ref} (hlo : Valid t lo) (hhi : Valid t hi)
    (olo : Ord (v + 1) (treeOf t lo)) (ohi : Ord (v + 1) (treeOf t hi)) (hne : hi ≠ .E)
    (hnone' : ∀ i : Nat, t[i]? ≠ some ⟨v, lo, hi⟩) : TWF (t.push ⟨v, lo, hi⟩) := by
  have old : ∀ {j : Nat} {c : Node}, Valid t (.N j) → (t.push ⟨v, lo, hi⟩)[j]? = some c → t[j]? = some c := by
    intro j c hjv hgc
    obtain ⟨c', hgc'⟩ := get_of_valid hjv
    have := ext_push t ⟨v, lo, hi⟩ j c' hgc'
    rw [this] at hgc; cases hgc; exact hgc'
  constructor
  · intro i x hg; exact below_push h.toBelow (nd := ⟨v, lo, hi⟩) hlo hhi _ _ hg
  · intro i x hg
    rw [Array.getElem?_push] at hg
    split at hg
    · cases hg; exact hne
    · exact h.red hg
  · intro i x j c hg hj hgc
    rw [Array.getElem?_push] at hg
    split at hg
    · cases hg
      simp only at hj
      have hjv : Valid t (.N j) := by
        rcases hj with hj | hj
        · rw [← hj]; exact hlo
        · rw [← hj]; exact hhi
      have hgc' := old hjv hgc
      show v < c.v
      rcases hj with hj | hj
      · rw [hj, tree_N h.toBelow hgc', ord_node] at olo; omega
      · rw [hj, tree_N h.toBelow hgc', ord_node] at ohi; omega
    · have hcv := h.toBelow.child_valid hg
      have hjv : Valid t (.N j) := by
        rcases hj with hj | hj
        · rw [← hj]; exact hcv.1
        · rw [← hj]; exact hcv.2
      exact h.ord hg hj (old hjv hgc)
  · intro i j x hgi hgj
    rw [Array.getElem?_push] at hgi hgj
    split at hgi <;> split at hgj
    · omega
    · cases hgi; exact absurd hgj (hnone' j)
    · cases hgj; exact absurd hgi (hnone' i)
    · exact h.nodup hgi hgj

theorem twf_getOrCreate {t : Table} (h : TWF t) {v : Nat} {lo hi : Ref} (hlo : Valid t lo) (hhi : Valid t hi)
    (olo : Ord (v + 1) (treeOf t lo)) (ohi : Ord (v + 1) (treeOf t hi)) : TWF (getOrCreate t v lo hi).1 := by
  unfold getOrCreate
  split
  · exact h
  · rename_i hne
    split
    · exact h
    · rename_i hnone
      exact twf_push h hlo hhi olo ohi hne (lookup_none hnone)

/-! ### the executable check `twf` decides `TWF`; judge soundness -/

theorem childOk_iff {t : Table} {own v : Nat} {r : Ref} :
    childOk t own v r = true ↔ r.rank ≤ own ∧ ∀ (j : Nat), r = .N j → ∃ c, t[j]? = some c ∧ v < c.v := by
  cases r with
  | E => simp [childOk]
  | B => simp [childOk]
  | N i =>
    simp only [childOk, Bool.and_eq_true, decide_eq_true_eq, rank_N, Ref.N.injEq]
    constructor
    · rintro ⟨h1, h2⟩
      refine ⟨by omega, ?_⟩
      intro j hj; subst hj
      split at h2
      · rename_i c hc; exact ⟨c, hc, by simpa using h2⟩
      · simp at h2
    · rintro ⟨h1, h2⟩
      obtain ⟨c, hc, hv⟩ := h2 i rfl
      refine ⟨by omega, ?_⟩
      simp [hc, hv]

theorem twf_entry {t : Table} (h : twf t = true) {i : Nat} {nd : Node} (hg : t[i]? = some nd) :
    nd.hi ≠ .E ∧ childOk t i nd.v nd.lo = true ∧ childOk t i nd.v nd.hi = true ∧
      ∀ j : Nat, j < i → t[j]? ≠ some nd := by
  have hi := (Array.getElem?_eq_some_iff.1 hg).1
  simp only [twf, List.all_eq_true, List.mem_range] at h
  have := h i hi
  simp only [hg, Bool.and_eq_true, bne_iff_ne, ne_eq, List.all_eq_true, List.mem_range] at this
  exact ⟨this.1.1.1, this.1.1.2, this.1.2, this.2⟩

/-- the executable check is sound: an accepted table satisfies `TWF` -/
theorem twf_sound {t : Table} (h : twf t = true) : TWF t := by
  constructor
  · intro i nd hg
    obtain ⟨_, h1, h2, _⟩ := twf_entry h hg
    exact ⟨(childOk_iff.1 h1).1, (childOk_iff.1 h2).1⟩
  · intro i nd hg; exact (twf_entry h hg).1
  · intro i nd j c hg hj hgc
    obtain ⟨_, h1, h2, _⟩ := twf_entry h hg
    rcases hj with hj | hj
    · obtain ⟨c', hc', hv⟩ := (childOk_iff.1 h1).2 j hj
      rw [hc'] at hgc; cases hgc; exact hv
    · obtain ⟨c', hc', hv⟩ := (childOk_iff.1 h2).2 j hj
      rw [hc'] at hgc; cases hgc; exact hv
  · intro i j nd hgi hgj
    rcases Nat.lt_trichotomy i j with hlt | heq | hgt
    · exact absurd hgi ((twf_entry h hgj).2.2.2 i hlt)
    · exact heq
    · exact absurd hgj ((twf_entry h hgi).2.2.2 j hgt)

/-- and complete: every table satisfying `TWF` is accepted (the judge cannot false-alarm on well-formedness) -/
theorem twf_complete {t : Table} (h : TWF t) : twf t = true := by
  simp only [twf, List.all_eq_true, List.mem_range]
  intro i hi
  have hg : t[i]? = some t[i] := Array.getElem?_eq_getElem hi
  have hcv := h.toBelow.child_valid hg
  have hbl := h.below hg
  simp only [hg, Bool.and_eq_true, bne_iff_ne, ne_eq, List.all_eq_true, List.mem_range]
  refine ⟨⟨⟨h.red hg, ?_⟩, ?_⟩, ?_⟩
  · rw [childOk_iff]; refine ⟨hbl.1, fun j hj => ?_⟩
    rw [hj] at hcv; obtain ⟨c, hc⟩ := get_of_valid hcv.1
    exact ⟨c, hc, h.ord hg (Or.inl hj) hc⟩
  · rw [childOk_iff]; refine ⟨hbl.2, fun j hj => ?_⟩
    rw [hj] at hcv; obtain ⟨c, hc⟩ := get_of_valid hcv.2
    exact ⟨c, hc, h.ord hg (Or.inr hj) hc⟩
  · intro j hj hgj
    have := h.nodup hgj hg; omega

theorem twf_iff {t : Table} : twf t = true ↔ TWF t := ⟨twf_sound, twf_complete⟩

/-- **Judge soundness**: if the judge accepts a dump, the dumped table satisfies `TWF`, every register's
ref is dereferenceable and denotes the model's treeOf, and two registers hold the same ref iff the
model's families are the same. -/
theorem judge_sound {t : Table} {regs : List (Nat × Ref)} {model : Nat → Z}
    (h : judgeTable t regs model = .ok) :
    TWF t ∧ (∀ p ∈ regs, Valid t p.2 ∧ treeOf t p.2 = model p.1) ∧
    (∀ p ∈ regs, ∀ q ∈ regs, (p.2 = q.2 ↔ ∀ s, s ∈ sets (model p.1) ↔ s ∈ sets (model q.1))) := by
  unfold judgeTable at h
  split at h
  · cases h
  · rename_i hwf
    have hwf : TWF t := twf_sound (by simpa using hwf)
    simp only at h
    split at h
    · cases h
    · rename_i hd
      split at h
      · cases h
      · rename_i hb
        have hval : ∀ p ∈ regs, Valid t p.2 := by
          intro p hp
          simp only [Bool.not_eq_true', Bool.not_eq_false, List.isEmpty_iff, List.filter_eq_nil_iff] at hd
          have := hd p hp
          simpa using this
        have htree : ∀ p ∈ regs, treeOf t p.2 = model p.1 := by
          intro p hp
          simp only [Bool.not_eq_true', Bool.not_eq_false, List.isEmpty_iff, List.filter_eq_nil_iff] at hb
          have := hb p hp
          have hv := hval p hp
          rw [← tree_eq_treeF hwf.toBelow (f := t.size + 1) (Nat.le_succ_of_le hv)]
          simpa using this
        refine ⟨hwf, fun p hp => ⟨hval p hp, htree p hp⟩, ?_⟩
        intro p hp q hq
        constructor
        · intro heq s; rw [← htree p hp, ← htree q hq, heq]
        · intro hs
          apply same_family_same_ref hwf (hval p hp) (hval q hq)
          rw [htree p hp, htree q hq]; exact hs

/-- the pairwise canonicity test of the judge can never fire once the first three tests pass:
it is implied by `tree_inj` and treeOf-level `canonical` -/
theorem judge_never_notCanonical (t : Table) (regs : List (Nat × Ref)) (model : Nat → Z) :
    judgeTable t regs model ≠ .notCanonical := by
  intro h
  unfold judgeTable at h
  split at h
  · cases h
  · rename_i hwf
    have hwf : TWF t := twf_sound (by simpa using hwf)
    simp only at h
    split at h
    · cases h
    · rename_i hd
      split at h
      · cases h
      · rename_i hb
        split at h
        · rename_i hviol
          have hval : ∀ p ∈ regs, Valid t p.2 := by
            intro p hp
            simp only [Bool.not_eq_true', Bool.not_eq_false, List.isEmpty_iff, List.filter_eq_nil_iff] at hd
            simpa using hd p hp
          have htree : ∀ p ∈ regs, treeOf t p.2 = model p.1 := by
            intro p hp
            simp only [Bool.not_eq_true', Bool.not_eq_false, List.isEmpty_iff, List.filter_eq_nil_iff] at hb
            have := hb p hp
            rw [← tree_eq_treeF hwf.toBelow (f := t.size + 1) (Nat.le_succ_of_le (hval p hp))]
            simpa using this
          simp only [List.any_eq_true] at hviol
          obtain ⟨p, hp, q, hq, hne⟩ := hviol
          have hne' : ¬ ((sets (model p.1) = sets (model q.1)) ↔ p.2 = q.2) := by
            intro hiff
            have : (sets (model p.1) == sets (model q.1)) = (p.2 == q.2) := by
              rw [Bool.eq_iff_iff]; simpa using hiff
            simp [this] at hne
          apply hne'
          constructor
          · intro hs
            apply same_family_same_ref hwf (hval p hp) (hval q hq)
            rw [htree p hp, htree q hq, hs]; intro s; rfl
          · intro heq; rw [← htree p hp, ← htree q hq, heq]
        · cases h

end Varpulis.ZddT

/-! ## Part B: tree-level unfolding lemmas used by the refinement proofs -/
namespace Varpulis.Zdd
theorem union_empty_left (b : Z) : union .empty b = b := by rw [union.eq_def]; simp
theorem union_empty_right (a : Z) : union a .empty = a := by rw [union.eq_def]; split <;> simp_all
theorem union_self (a : Z) : union a a = a := by rw [union.eq_def]; split <;> simp_all
theorem union_comm (a b : Z) : union a b = union b a := by
  fun_induction union a b
  · rw [union_empty_right]
  · rw [union_empty_left]
  · rw [union_self]
  all_goals (conv => rhs; rw [union.eq_def])
  all_goals try (simp_all [eq_comm]; done)
  all_goals try (simp_all; grind)

theorem union_lt {av bv : Nat} {alo ahi blo bhi : Z} (h : av < bv) :
    union (.node av alo ahi) (.node bv blo bhi) = mk av (union alo (.node bv blo bhi)) ahi := by
  rw [union.eq_def]; simp [h, Nat.ne_of_lt h]
theorem union_gt {av bv : Nat} {alo ahi blo bhi : Z} (h : bv < av) :
    union (.node av alo ahi) (.node bv blo bhi) = mk bv (union (.node av alo ahi) blo) bhi := by
  rw [union.eq_def]; simp [h, Nat.ne_of_gt h, Nat.lt_asymm h]
theorem union_eq {v : Nat} {alo ahi blo bhi : Z} (h : Z.node v alo ahi ≠ Z.node v blo bhi) :
    union (.node v alo ahi) (.node v blo bhi) = mk v (union alo blo) (union ahi bhi) := by
  rw [union.eq_def]; simp [h]
theorem union_base_node {bv : Nat} {blo bhi : Z} :
    union .base (.node bv blo bhi) = mk bv (union .base blo) bhi := by
  rw [union.eq_def]; simp

theorem inter_empty_left (b : Z) : inter .empty b = .empty := by rw [inter.eq_def]; simp
theorem inter_empty_right (a : Z) : inter a .empty = .empty := by rw [inter.eq_def]; simp
theorem inter_self (a : Z) : inter a a = a := by rw [inter.eq_def]; split <;> simp_all
theorem inter_comm (a b : Z) : inter a b = inter b a := by
  fun_induction inter a b
  · rename_i h; rcases h with h | h <;> subst h <;> simp [inter_empty_left, inter_empty_right]
  · rw [inter_self]
  all_goals (conv => rhs; rw [inter.eq_def])
  all_goals try (simp_all [eq_comm]; done)
  all_goals try (simp_all; grind)
theorem inter_lt {av bv : Nat} {alo ahi blo bhi : Z} (h : av < bv) :
    inter (.node av alo ahi) (.node bv blo bhi) = inter alo (.node bv blo bhi) := by
  rw [inter.eq_def]; simp [h, Nat.ne_of_lt h]
theorem inter_gt {av bv : Nat} {alo ahi blo bhi : Z} (h : bv < av) :
    inter (.node av alo ahi) (.node bv blo bhi) = inter (.node av alo ahi) blo := by
  rw [inter.eq_def]; simp [h, Nat.ne_of_gt h, Nat.lt_asymm h]
theorem inter_eq {v : Nat} {alo ahi blo bhi : Z} (h : Z.node v alo ahi ≠ Z.node v blo bhi) :
    inter (.node v alo ahi) (.node v blo bhi) = mk v (inter alo blo) (inter ahi bhi) := by
  rw [inter.eq_def]; simp [h]
theorem inter_base_node {bv : Nat} {blo bhi : Z} : inter .base (.node bv blo bhi) = inter .base blo := by
  rw [inter.eq_def]; simp
theorem inter_node_base {av : Nat} {alo ahi : Z} : inter (.node av alo ahi) .base = inter alo .base := by
  rw [inter.eq_def]; simp

theorem diff_empty_left (b : Z) : diff .empty b = .empty := by rw [diff.eq_def]; simp
theorem diff_empty_right (a : Z) : diff a .empty = a := by rw [diff.eq_def]; split <;> simp_all
theorem diff_self (a : Z) : diff a a = .empty := by rw [diff.eq_def]; split <;> simp_all
theorem diff_lt {av bv : Nat} {alo ahi blo bhi : Z} (h : av < bv) :
    diff (.node av alo ahi) (.node bv blo bhi) = mk av (diff alo (.node bv blo bhi)) ahi := by
  rw [diff.eq_def]; simp [h, Nat.ne_of_lt h]
theorem diff_gt {av bv : Nat} {alo ahi blo bhi : Z} (h : bv < av) :
    diff (.node av alo ahi) (.node bv blo bhi) = diff (.node av alo ahi) blo := by
  rw [diff.eq_def]; simp [h, Nat.ne_of_gt h, Nat.lt_asymm h]
theorem diff_eq {v : Nat} {alo ahi blo bhi : Z} (h : Z.node v alo ahi ≠ Z.node v blo bhi) :
    diff (.node v alo ahi) (.node v blo bhi) = mk v (diff alo blo) (diff ahi bhi) := by
  rw [diff.eq_def]; simp [h]
theorem diff_base_node {bv : Nat} {blo bhi : Z} : diff .base (.node bv blo bhi) = diff .base blo := by
  rw [diff.eq_def]; simp
theorem diff_node_base {av : Nat} {alo ahi : Z} : diff (.node av alo ahi) .base = mk av (diff alo .base) ahi := by
  rw [diff.eq_def]; simp
end Varpulis.Zdd

namespace Varpulis.ZddT
open Varpulis.Zdd

/-! ## Part C: remapping (gc, remap_nodes) -/

theorem mem_of_lookup {α β} [BEq α] [LawfulBEq α] {l : List (α × β)} {k : α} {v : β} (h : l.lookup k = some v) : (k, v) ∈ l := by
  induction l with
  | nil => simp at h
  | cons p ps ih =>
    obtain ⟨k', v'⟩ := p
    rw [List.lookup_cons] at h
    split at h
    · rename_i heq; simp only [beq_iff_eq] at heq; cases h; subst heq; simp
    · exact List.mem_cons_of_mem _ (ih h)

theorem mk_node {v : Nat} {lo hi : Z} (h : hi ≠ .empty) : mk v lo hi = .node v lo hi := by simp [mk, h]

/-- remap table: every entry maps an old id to a new ref denoting the same tree -/
def RMapOK (src nt : Table) (m : RMap) : Prop :=
  ∀ id r, (id, r) ∈ m → Valid nt r ∧ treeOf nt r = treeOf src (.N id)

theorem RMapOK.mono {src nt nt' : Table} {m : RMap} (hb : Below nt) (hx : Ext nt nt') (h : RMapOK src nt m) :
    RMapOK src nt' m := by
  intro id r hm
  obtain ⟨h1, h2⟩ := h id r hm
  exact ⟨hx.valid h1, by rw [tree_stable hb hx h1, h2]⟩

theorem remapT_spec {src : Table} (hs : TWF src) : ∀ (fuel : Nat) (nt : Table) (m : RMap) (r : Ref),
    TWF nt → RMapOK src nt m → Valid src r → r.rank ≤ fuel →
    ∃ nt' m' r', remapT src fuel nt m r = some (nt', m', r') ∧ Ext nt nt' ∧ TWF nt' ∧ RMapOK src nt' m' ∧
      Valid nt' r' ∧ treeOf nt' r' = treeOf src r := by
  intro fuel
  induction fuel with
  | zero =>
    intro nt m r hnt hm hv hr
    cases r with
    | E => exact ⟨nt, m, .E, by simp [remapT], Ext.refl _, hnt, hm, by simp, by simp⟩
    | B => exact ⟨nt, m, .B, by simp [remapT], Ext.refl _, hnt, hm, by simp, by simp⟩
    | N i => simp at hr
  | succ fuel ih =>
    intro nt m r hnt hm hv hr
    cases r with
    | E => exact ⟨nt, m, .E, by simp [remapT], Ext.refl _, hnt, hm, by simp, by simp⟩
    | B => exact ⟨nt, m, .B, by simp [remapT], Ext.refl _, hnt, hm, by simp, by simp⟩
    | N id =>
      simp only [rank_N] at hr
      simp only [remapT]
      cases hlk : m.lookup id with
      | some r' =>
        obtain ⟨h1, h2⟩ := hm id r' (mem_of_lookup hlk)
        exact ⟨nt, m, r', rfl, Ext.refl _, hnt, hm, h1, h2⟩
      | none =>
        obtain ⟨nd, hg⟩ := get_of_valid hv
        have hcv := hs.toBelow.child_valid hg
        have hbl := hs.below hg
        have hoc := tree_ord_child hs hg
        obtain ⟨nt1, m1, nlo, e1, x1, w1, k1, v1, t1⟩ := ih nt m nd.lo hnt hm hcv.1 (by omega)
        obtain ⟨nt2, m2, nhi, e2, x2, w2, k2, v2, t2⟩ := ih nt1 m1 nd.hi w1 k1 hcv.2 (by omega)
        have v1' := x2.valid v1
        have t1' : treeOf nt2 nlo = treeOf src nd.lo := by rw [tree_stable w1.toBelow x2 v1, t1]
        have hx3 := getOrCreate_ext nt2 nd.v nlo nhi
        have hw3 := twf_getOrCreate w2 (v := nd.v) v1' v2 (by rw [t1']; exact hoc.1) (by rw [t2]; exact hoc.2)
        have hv3 := getOrCreate_valid (v := nd.v) (hi := nhi) v1'
        have ht3 := tree_getOrCreate w2.toBelow (v := nd.v) v1' v2
        have hred := tree_red hs hv
        rw [tree_N hs.toBelow hg, red_node] at hred
        rw [t1', t2, mk_node hred.1, ← tree_N hs.toBelow hg] at ht3
        generalize hgc : getOrCreate nt2 nd.v nlo nhi = g at *
        obtain ⟨nt3, r3⟩ := g
        refine ⟨nt3, (id, r3) :: m2, r3, by simp [hg, e1, e2, hgc], x1.trans (x2.trans hx3), hw3, ?_, hv3, ht3⟩
        intro id' r' hmem
        rcases List.mem_cons.1 hmem with heq | hmem
        · cases heq; exact ⟨hv3, ht3⟩
        · exact (k2.mono w2.toBelow hx3) id' r' hmem


theorem rmapOK_nil (src nt : Table) : RMapOK src nt [] := by intro id r h; simp at h

theorem remapAll_spec {src : Table} (hs : TWF src) : ∀ (live : List Ref) (nt : Table) (m : RMap),
    TWF nt → RMapOK src nt m → (∀ h ∈ live, Valid src h) →
    ∃ nt' m' rs, remapAll src nt m live = some (nt', m', rs) ∧ Ext nt nt' ∧ TWF nt' ∧ RMapOK src nt' m' ∧
      rs.length = live.length ∧ ∀ p ∈ live.zip rs, Valid nt' p.2 ∧ treeOf nt' p.2 = treeOf src p.1 := by
  intro live
  induction live with
  | nil =>
    intro nt m hnt hm _
    exact ⟨nt, m, [], rfl, Ext.refl _, hnt, hm, rfl, by simp⟩
  | cons h hs' ih =>
    intro nt m hnt hm hl
    obtain ⟨nt1, m1, r, e1, x1, w1, k1, v1, t1⟩ := remapT_spec hs h.rank nt m h hnt hm (hl h (by simp)) (Nat.le_refl _)
    obtain ⟨nt2, m2, rs, e2, x2, w2, k2, len, all⟩ := ih nt1 m1 w1 k1 (fun x hx => hl x (by simp [hx]))
    refine ⟨nt2, m2, r :: rs, by simp [remapAll, e1, e2], x1.trans x2, w2, k2, by simp [len], ?_⟩
    intro p hp
    simp only [List.zip_cons_cons, List.mem_cons] at hp
    rcases hp with rfl | hp
    · exact ⟨x2.valid v1, by rw [tree_stable w1.toBelow x2 v1, t1]⟩
    · exact all p hp

/-! ### arena invariant -/

/-- every cached triple of a binary operation `f` is correct w.r.t. `treeOf` -/
def Cache2OK (f : Z → Z → Z) (t : Table) (c : Cache2) : Prop :=
  ∀ a b r, ((a, b), r) ∈ c → Valid t a ∧ Valid t b ∧ Valid t r ∧ treeOf t r = f (treeOf t a) (treeOf t b)

theorem Cache2OK.nil (f : Z → Z → Z) (t : Table) : Cache2OK f t [] := by intro a b r h; simp at h

theorem Cache2OK.mono {f : Z → Z → Z} {t t' : Table} {c : Cache2} (hb : Below t) (hx : Ext t t') (h : Cache2OK f t c) :
    Cache2OK f t' c := by
  intro a b r hm
  obtain ⟨h1, h2, h3, h4⟩ := h a b r hm
  exact ⟨hx.valid h1, hx.valid h2, hx.valid h3, by
    rw [tree_stable hb hx h1, tree_stable hb hx h2, tree_stable hb hx h3, h4]⟩

/-- every cached count is the count of the denoted tree -/
def CacheNOK (t : Table) (c : CacheN) : Prop := ∀ r k, (r, k) ∈ c → Valid t r ∧ k = Zdd.count (treeOf t r)

theorem CacheNOK.nil (t : Table) : CacheNOK t [] := by intro r k h; simp at h

theorem CacheNOK.mono {t t' : Table} {c : CacheN} (hb : Below t) (hx : Ext t t') (h : CacheNOK t c) : CacheNOK t' c := by
  intro r k hm
  obtain ⟨h1, h2⟩ := h r k hm
  exact ⟨hx.valid h1, by rw [tree_stable hb hx h1, h2]⟩

/-- the arena invariant: well-formed table, every entry of every persistent cache correct -/
structure Arena.OK (s : Arena) : Prop where
  twf : TWF s.table
  u : Cache2OK Zdd.union s.table s.ucache
  i : Cache2OK Zdd.inter s.table s.icache
  d : Cache2OK Zdd.diff s.table s.dcache
  c : CacheNOK s.table s.ccache

theorem Arena.ok_empty : Arena.OK {} := ⟨twf_empty, Cache2OK.nil _ _, Cache2OK.nil _ _, Cache2OK.nil _ _, CacheNOK.nil _⟩

/-- **gc**: the returned handles denote the same trees in the new table, which is well-formed; all caches are empty -/
theorem gc_spec {s : Arena} (hs : TWF s.table) {live : List Ref} (hl : ∀ r ∈ live, Valid s.table r) :
    ∃ s' roots, s.gc live = some (s', roots) ∧ s'.OK ∧ roots.length = live.length ∧
      (∀ p ∈ live.zip roots, Valid s'.table p.2 ∧ treeOf s'.table p.2 = treeOf s.table p.1) ∧
      s'.ucache = [] ∧ s'.icache = [] ∧ s'.dcache = [] ∧ s'.ccache = [] := by
  obtain ⟨nt, m, rs, e, _, w, _, len, all⟩ := remapAll_spec hs live #[] [] twf_empty (rmapOK_nil _ _) hl
  refine ⟨{ table := nt }, rs, by simp [Arena.gc, e], ⟨w, Cache2OK.nil _ _, Cache2OK.nil _ _, Cache2OK.nil _ _, CacheNOK.nil _⟩,
    len, all, rfl, rfl, rfl, rfl⟩

theorem gcCachesOnly_spec {s : Arena} (hs : s.OK) :
    (s.gcCachesOnly).OK ∧ (s.gcCachesOnly).table = s.table ∧
      (s.gcCachesOnly).ucache = [] ∧ (s.gcCachesOnly).icache = [] ∧ (s.gcCachesOnly).dcache = [] ∧ (s.gcCachesOnly).ccache = [] :=
  ⟨⟨hs.twf, Cache2OK.nil _ _, Cache2OK.nil _ _, Cache2OK.nil _ _, CacheNOK.nil _⟩, rfl, rfl, rfl, rfl, rfl⟩



/-! ## Part D: arena operations with their caches refine the tree operations -/

/-- postcondition of a memoised binary operation started in table `t`: it returns (no panic, fuel
suffices), only appends, keeps `TWF` and the cache invariant, and the result denotes `z` -/
def Post2 (f : Z → Z → Z) (t : Table) (z : Z) (o : Option (Table × Cache2 × Ref)) : Prop :=
  ∃ t' c' r, o = some (t', c', r) ∧ Ext t t' ∧ TWF t' ∧ Cache2OK f t' c' ∧ Valid t' r ∧ treeOf t' r = z

theorem Post2.ret {f : Z → Z → Z} {t : Table} {c : Cache2} {r : Ref} {z : Z} (hw : TWF t) (hc : Cache2OK f t c)
    (hv : Valid t r) (hz : treeOf t r = z) : Post2 f t z (some (t, c, r)) :=
  ⟨t, c, r, rfl, Ext.refl _, hw, hc, hv, hz⟩

/-- one recursive call, then `get_or_create(v, new_lo, hi)` with an existing `hi` -/
theorem Post2.mk1 {f : Z → Z → Z} {t : Table} {zlo : Z} {o : Option (Table × Cache2 × Ref)} (hw : TWF t)
    (h : Post2 f t zlo o) {v : Nat} {hi : Ref} (hhi : Valid t hi) (olo : Ord (v + 1) zlo) (ohi : Ord (v + 1) (treeOf t hi)) :
    Post2 f t (mk v zlo (treeOf t hi))
      (do let (t1, c1, nlo) ← o; let (t2, r) := getOrCreate t1 v nlo hi; pure (t2, c1, r)) := by
  obtain ⟨t1, c1, nlo, e1, x1, w1, k1, v1, z1⟩ := h
  have hhi1 := x1.valid hhi
  have thi : treeOf t1 hi = treeOf t hi := tree_stable hw.toBelow x1 hhi
  have hx := getOrCreate_ext t1 v nlo hi
  have hw2 := twf_getOrCreate w1 (v := v) v1 hhi1 (by rw [z1]; exact olo) (by rw [thi]; exact ohi)
  have hv2 := getOrCreate_valid (v := v) (hi := hi) v1
  have ht2 := tree_getOrCreate w1.toBelow (v := v) v1 hhi1
  rw [z1, thi] at ht2
  generalize hgc : getOrCreate t1 v nlo hi = g at *
  obtain ⟨t2, r⟩ := g
  exact ⟨t2, c1, r, by simp [e1, hgc], x1.trans hx, hw2, k1.mono w1.toBelow hx, hv2, ht2⟩

/-- two recursive calls, then `get_or_create(v, new_lo, new_hi)` -/
theorem Post2.mk2 {f : Z → Z → Z} {t : Table} {zlo zhi : Z} {o1 : Option (Table × Cache2 × Ref)}
    {o2 : Table → Cache2 → Option (Table × Cache2 × Ref)}
    (h1 : Post2 f t zlo o1) (h2 : ∀ t1 c1, Ext t t1 → TWF t1 → Cache2OK f t1 c1 → Post2 f t1 zhi (o2 t1 c1))
    {v : Nat} (olo : Ord (v + 1) zlo) (ohi : Ord (v + 1) zhi) :
    Post2 f t (mk v zlo zhi)
      (do let (t1, c1, nlo) ← o1; let (t2, c2, nhi) ← o2 t1 c1; let (t3, r) := getOrCreate t2 v nlo nhi; pure (t3, c2, r)) := by
  obtain ⟨t1, c1, nlo, e1, x1, w1, k1, v1, z1⟩ := h1
  obtain ⟨t2, c2, nhi, e2, x2, w2, k2, v2, z2⟩ := h2 t1 c1 x1 w1 k1
  have v1' := x2.valid v1
  have z1' : treeOf t2 nlo = zlo := by rw [tree_stable w1.toBelow x2 v1, z1]
  have hx := getOrCreate_ext t2 v nlo nhi
  have hw3 := twf_getOrCreate w2 (v := v) v1' v2 (by rw [z1']; exact olo) (by rw [z2]; exact ohi)
  have hv3 := getOrCreate_valid (v := v) (hi := nhi) v1'
  have ht3 := tree_getOrCreate w2.toBelow (v := v) v1' v2
  rw [z1', z2] at ht3
  generalize hgc : getOrCreate t2 v nlo nhi = g at *
  obtain ⟨t3, r⟩ := g
  exact ⟨t3, c2, r, by simp [e1, e2, hgc], x1.trans (x2.trans hx), hw3, k2.mono w2.toBelow hx, hv3, ht3⟩

/-- `cache.insert((a, b), result)` -/
theorem Post2.insert {f : Z → Z → Z} {t : Table} {z : Z} {o : Option (Table × Cache2 × Ref)} (hw : TWF t)
    (h : Post2 f t z o) {a b : Ref} (ha : Valid t a) (hb : Valid t b) (hz : z = f (treeOf t a) (treeOf t b)) :
    Post2 f t z (do let (t', c', r) ← o; pure (t', ((a, b), r) :: c', r)) := by
  obtain ⟨t1, c1, r, e1, x1, w1, k1, v1, z1⟩ := h
  refine ⟨t1, ((a, b), r) :: c1, r, by simp [e1], x1, w1, ?_, v1, z1⟩
  intro a' b' r' hm
  rcases List.mem_cons.1 hm with heq | hm
  · cases heq
    exact ⟨x1.valid ha, x1.valid hb, v1, by rw [z1, hz, tree_stable hw.toBelow x1 ha, tree_stable hw.toBelow x1 hb]⟩
  · exact k1 a' b' r' hm

theorem norm_cases {a b : Ref} (ha : a ≠ .E) (hb : b ≠ .E) (hab : a ≠ b) :
    (norm a b = (a, b) ∨ norm a b = (b, a)) ∧
    (((norm a b).1 = .B ∧ ∃ j, (norm a b).2 = .N j) ∨ ∃ i j, (norm a b).1 = .N i ∧ (norm a b).2 = .N j ∧ i ≠ j) := by
  cases a <;> cases b <;> simp_all [norm, Ref.le]
  rename_i i j
  by_cases h : i ≤ j <;> simp [h] <;> omega

theorem tree_ord_ge {t : Table} (h : TWF t) {j : Nat} {y : Node} (hg : t[j]? = some y) {n : Nat} (hn : n ≤ y.v) :
    Ord n (treeOf t (.N j)) := by
  have := tree_ord_child h hg
  rw [tree_N h.toBelow hg, ord_node]; exact ⟨hn, this⟩

theorem tree_ne_of_ne {t : Table} (h : TWF t) {a b : Ref} (ha : Valid t a) (hb : Valid t b) (hne : a ≠ b) :
    treeOf t a ≠ treeOf t b := fun heq => hne (tree_inj h ha hb heq)

theorem unionT_spec : ∀ (fuel : Nat) (t : Table) (c : Cache2) (a b : Ref), TWF t → Cache2OK union t c →
    Valid t a → Valid t b → a.rank + b.rank < fuel →
    Post2 union t (union (treeOf t a) (treeOf t b)) (unionT fuel t c a b) := by
  intro fuel
  induction fuel with
  | zero => intro t c a b _ _ _ _ h; omega
  | succ fuel ih =>
    intro t c a b hw hc ha hb hf
    rw [unionT]
    by_cases hae : a = .E
    · subst hae; simp only [if_true, tree_E, union_empty_left]; exact Post2.ret hw hc hb rfl
    by_cases hbe : b = .E
    · subst hbe; simp only [hae, if_false, if_true, tree_E, union_empty_right]; exact Post2.ret hw hc ha rfl
    by_cases hab : a = b
    · subst hab; simp only [hae, if_false, if_true, union_self]; exact Post2.ret hw hc ha rfl
    simp only [hae, hbe, hab, if_false]
    -- the normalised core
    have core : ∀ a' b' : Ref, Valid t a' → Valid t b' → a' ≠ b' → a'.rank + b'.rank < fuel + 1 →
        ((a' = .B ∧ ∃ j, b' = .N j) ∨ ∃ i j, a' = .N i ∧ b' = .N j ∧ i ≠ j) →
        Post2 union t (union (treeOf t a') (treeOf t b'))
          (match c.lookup (a', b') with
          | some r => some (t, c, r)
          | none =>
            if a' = .B ∧ b' = .B then some (t, c, .B) else do
            let (av, alo, ahi) ← nodeInfo t a'
            let (bv, blo, bhi) ← nodeInfo t b'
            let (t1, c1, r) ← (match av, bv with
              | some av, some bv =>
                if av < bv then do
                  let (t, c, nlo) ← unionT fuel t c alo b'
                  let (t, r) := getOrCreate t av nlo ahi
                  pure (t, c, r)
                else if av > bv then do
                  let (t, c, nlo) ← unionT fuel t c a' blo
                  let (t, r) := getOrCreate t bv nlo bhi
                  pure (t, c, r)
                else do
                  let (t, c, nlo) ← unionT fuel t c alo blo
                  let (t, c, nhi) ← unionT fuel t c ahi bhi
                  let (t, r) := getOrCreate t av nlo nhi
                  pure (t, c, r)
              | some av, none => do
                  let (t, c, nlo) ← unionT fuel t c alo b'
                  let (t, r) := getOrCreate t av nlo ahi
                  pure (t, c, r)
              | none, some bv => do
                  let (t, c, nlo) ← unionT fuel t c a' blo
                  let (t, r) := getOrCreate t bv nlo bhi
                  pure (t, c, r)
              | none, none => none)
            pure (t1, ((a', b'), r) :: c1, r)) := by
      intro a' b' ha' hb' hab' hf' hshape
      cases hlk : c.lookup (a', b') with
      | some r =>
        obtain ⟨_, _, h3, h4⟩ := hc a' b' r (mem_of_lookup hlk)
        exact Post2.ret hw hc h3 h4
      | none =>
        rcases hshape with ⟨rfl, j, rfl⟩ | ⟨i, j, rfl, rfl, hij⟩
        · obtain ⟨y, hy⟩ := get_of_valid hb'
          have hcy := hw.toBelow.child_valid hy
          have hby := hw.below hy
          have hoy := tree_ord_child hw hy
          simp only [nodeInfo, hy]
          refine Post2.insert hw ?_ ha' hb' rfl
          rw [tree_N hw.toBelow hy, tree_B, union_base_node]
          refine Post2.mk1 hw ?_ hcy.2 (ord_union _ _ _ (ord_base _) hoy.1) hoy.2
          have := ih t c .B y.lo hw hc (valid_B _) hcy.1 (by simp only [rank_B, rank_N] at *; omega)
          simpa using this
        · obtain ⟨x, hx⟩ := get_of_valid ha'
          obtain ⟨y, hy⟩ := get_of_valid hb'
          have hcx := hw.toBelow.child_valid hx
          have hbx := hw.below hx
          have hox := tree_ord_child hw hx
          have hcy := hw.toBelow.child_valid hy
          have hby := hw.below hy
          have hoy := tree_ord_child hw hy
          have hne := tree_ne_of_ne hw ha' hb' hab'
          simp only [rank_N] at hf'
          simp only [nodeInfo, hx, hy]
          refine Post2.insert hw ?_ ha' hb' rfl
          rw [tree_N hw.toBelow hx, tree_N hw.toBelow hy] at hne ⊢
          rcases Nat.lt_trichotomy x.v y.v with hlt | heq | hgt
          · simp only [hlt, if_true]
            rw [union_lt hlt, ← tree_N hw.toBelow hy]
            refine Post2.mk1 hw ?_ hcx.2 (ord_union _ _ _ hox.1 (tree_ord_ge hw hy (by omega))) hox.2
            exact ih t c x.lo (.N j) hw hc hcx.1 hb' (by simp only [rank_N]; omega)
          · rw [heq] at hne ⊢
            simp only [Nat.lt_irrefl, if_false]
            rw [union_eq hne]
            refine Post2.mk2 (o2 := fun t c => unionT fuel t c x.hi y.hi) (ih t c x.lo y.lo hw hc hcx.1 hcy.1 (by omega)) (fun t1 c1 x1 w1 k1 => ?_)
              (ord_union _ _ _ (heq ▸ hox.1) hoy.1) (ord_union _ _ _ (heq ▸ hox.2) hoy.2)
            have := ih t1 c1 x.hi y.hi w1 k1 (x1.valid hcx.2) (x1.valid hcy.2) (by omega)
            rwa [tree_stable hw.toBelow x1 hcx.2, tree_stable hw.toBelow x1 hcy.2] at this
          · simp only [if_neg (Nat.lt_asymm hgt), hgt, if_true]
            rw [union_gt hgt, ← tree_N hw.toBelow hx]
            refine Post2.mk1 hw ?_ hcy.2 (ord_union _ _ _ (tree_ord_ge hw hx (by omega)) hoy.1) hoy.2
            exact ih t c (.N i) y.lo hw hc ha' hcy.1 (by simp only [rank_N]; omega)
    obtain ⟨hn, hshape⟩ := norm_cases hae hbe hab
    rcases hn with hn | hn
    · rw [hn] at hshape ⊢
      exact core a b ha hb hab hf hshape
    · rw [hn] at hshape ⊢
      rw [union_comm]
      exact core b a hb ha (Ne.symm hab) (by omega) hshape


theorem interT_spec : ∀ (fuel : Nat) (t : Table) (c : Cache2) (a b : Ref), TWF t → Cache2OK inter t c →
    Valid t a → Valid t b → a.rank + b.rank < fuel →
    Post2 inter t (inter (treeOf t a) (treeOf t b)) (interT fuel t c a b) := by
  intro fuel
  induction fuel with
  | zero => intro t c a b _ _ _ _ h; omega
  | succ fuel ih =>
    intro t c a b hw hc ha hb hf
    rw [interT]
    by_cases hae : a = .E
    · subst hae; simp only [true_or, if_true, tree_E, inter_empty_left]; exact Post2.ret hw hc (valid_E _) rfl
    by_cases hbe : b = .E
    · subst hbe; simp only [or_true, if_true, tree_E, inter_empty_right]; exact Post2.ret hw hc (valid_E _) rfl
    by_cases hab : a = b
    · subst hab; simp only [hae, or_self, if_false, if_true, inter_self]; exact Post2.ret hw hc ha rfl
    simp only [hae, hbe, hab, or_self, if_false]
    have core : ∀ a' b' : Ref, Valid t a' → Valid t b' → a' ≠ b' → a'.rank + b'.rank < fuel + 1 →
        ((a' = .B ∧ ∃ j, b' = .N j) ∨ ∃ i j, a' = .N i ∧ b' = .N j ∧ i ≠ j) →
        Post2 inter t (inter (treeOf t a') (treeOf t b'))
          (match c.lookup (a', b') with
          | some r => some (t, c, r)
          | none =>
            if a' = .B ∧ b' = .B then some (t, c, .B) else do
            let (av, alo, ahi) ← nodeInfo t a'
            let (bv, blo, bhi) ← nodeInfo t b'
            let (t1, c1, r) ← (match av, bv with
              | some av, some bv =>
                if av < bv then interT fuel t c alo b'
                else if av > bv then interT fuel t c a' blo
                else do
                  let (t, c, nlo) ← interT fuel t c alo blo
                  let (t, c, nhi) ← interT fuel t c ahi bhi
                  let (t, r) := getOrCreate t av nlo nhi
                  pure (t, c, r)
              | some _, none => if b' = .B then interT fuel t c alo .B else pure (t, c, .E)
              | none, some _ => if a' = .B then interT fuel t c .B blo else pure (t, c, .E)
              | none, none => if a' = .B ∧ b' = .B then pure (t, c, .B) else pure (t, c, .E))
            pure (t1, ((a', b'), r) :: c1, r)) := by
      intro a' b' ha' hb' hab' hf' hshape
      cases hlk : c.lookup (a', b') with
      | some r =>
        obtain ⟨_, _, h3, h4⟩ := hc a' b' r (mem_of_lookup hlk)
        exact Post2.ret hw hc h3 h4
      | none =>
        rcases hshape with ⟨rfl, j, rfl⟩ | ⟨i, j, rfl, rfl, hij⟩
        · obtain ⟨y, hy⟩ := get_of_valid hb'
          have hcy := hw.toBelow.child_valid hy
          have hby := hw.below hy
          simp only [nodeInfo, hy]
          refine Post2.insert hw ?_ ha' hb' rfl
          rw [tree_N hw.toBelow hy, tree_B, inter_base_node]
          have := ih t c .B y.lo hw hc (valid_B _) hcy.1 (by simp only [rank_B, rank_N] at *; omega)
          simpa using this
        · obtain ⟨x, hx⟩ := get_of_valid ha'
          obtain ⟨y, hy⟩ := get_of_valid hb'
          have hcx := hw.toBelow.child_valid hx
          have hbx := hw.below hx
          have hox := tree_ord_child hw hx
          have hcy := hw.toBelow.child_valid hy
          have hby := hw.below hy
          have hoy := tree_ord_child hw hy
          have hne := tree_ne_of_ne hw ha' hb' hab'
          simp only [rank_N] at hf'
          simp only [nodeInfo, hx, hy]
          refine Post2.insert hw ?_ ha' hb' rfl
          rw [tree_N hw.toBelow hx, tree_N hw.toBelow hy] at hne ⊢
          rcases Nat.lt_trichotomy x.v y.v with hlt | heq | hgt
          · simp only [hlt, if_true]
            rw [inter_lt hlt, ← tree_N hw.toBelow hy]
            exact ih t c x.lo (.N j) hw hc hcx.1 hb' (by simp only [rank_N]; omega)
          · rw [heq] at hne ⊢
            simp only [Nat.lt_irrefl, if_false]
            rw [inter_eq hne]
            refine Post2.mk2 (o2 := fun t c => interT fuel t c x.hi y.hi) (ih t c x.lo y.lo hw hc hcx.1 hcy.1 (by omega)) (fun t1 c1 x1 w1 k1 => ?_)
              (ord_inter _ _ _ (heq ▸ hox.1) hoy.1) (ord_inter _ _ _ (heq ▸ hox.2) hoy.2)
            have := ih t1 c1 x.hi y.hi w1 k1 (x1.valid hcx.2) (x1.valid hcy.2) (by omega)
            rwa [tree_stable hw.toBelow x1 hcx.2, tree_stable hw.toBelow x1 hcy.2] at this
          · simp only [if_neg (Nat.lt_asymm hgt), hgt, if_true]
            rw [inter_gt hgt, ← tree_N hw.toBelow hx]
            exact ih t c (.N i) y.lo hw hc ha' hcy.1 (by simp only [rank_N]; omega)
    obtain ⟨hn, hshape⟩ := norm_cases hae hbe hab
    rcases hn with hn | hn
    · rw [hn] at hshape ⊢
      exact core a b ha hb hab hf hshape
    · rw [hn] at hshape ⊢
      rw [inter_comm]
      exact core b a hb ha (Ne.symm hab) (by omega) hshape

theorem diffT_spec : ∀ (fuel : Nat) (t : Table) (c : Cache2) (a b : Ref), TWF t → Cache2OK diff t c →
    Valid t a → Valid t b → a.rank + b.rank < fuel →
    Post2 diff t (diff (treeOf t a) (treeOf t b)) (diffT fuel t c a b) := by
  intro fuel
  induction fuel with
  | zero => intro t c a b _ _ _ _ h; omega
  | succ fuel ih =>
    intro t c a b hw hc ha hb hf
    rw [diffT]
    by_cases hae : a = .E
    · subst hae; simp only [if_true, tree_E, diff_empty_left]; exact Post2.ret hw hc (valid_E _) rfl
    by_cases hbe : b = .E
    · subst hbe; simp only [hae, if_false, if_true, tree_E, diff_empty_right]; exact Post2.ret hw hc ha rfl
    by_cases hab : a = b
    · subst hab; simp only [hae, if_false, if_true, diff_self]; exact Post2.ret hw hc (valid_E _) rfl
    simp only [hae, hbe, hab, if_false]
    cases hlk : c.lookup (a, b) with
    | some r =>
      obtain ⟨_, _, h3, h4⟩ := hc a b r (mem_of_lookup hlk)
      exact Post2.ret hw hc h3 h4
    | none =>
      cases a with
      | E => exact absurd rfl hae
      | B =>
        cases b with
        | E => exact absurd rfl hbe
        | B => exact absurd rfl hab
        | N j =>
          obtain ⟨y, hy⟩ := get_of_valid hb
          have hcy := hw.toBelow.child_valid hy
          have hby := hw.below hy
          simp only [nodeInfo, hy]
          refine Post2.insert hw ?_ ha hb rfl
          rw [tree_N hw.toBelow hy, tree_B, diff_base_node]
          have := ih t c .B y.lo hw hc (valid_B _) hcy.1 (by simp only [rank_B, rank_N] at *; omega)
          simpa using this
      | N i =>
        obtain ⟨x, hx⟩ := get_of_valid ha
        have hcx := hw.toBelow.child_valid hx
        have hbx := hw.below hx
        have hox := tree_ord_child hw hx
        cases b with
        | E => exact absurd rfl hbe
        | B =>
          simp only [nodeInfo, hx]
          refine Post2.insert hw ?_ ha hb rfl
          rw [tree_N hw.toBelow hx, tree_B, diff_node_base]
          have h1 := ih t c x.lo .B hw hc hcx.1 (valid_B _) (by simp only [rank_B, rank_N] at *; omega)
          rw [tree_B] at h1
          have := Post2.mk1 hw h1 hcx.2 (ord_diff _ _ _ hox.1 (ord_base _)) hox.2
          simpa using this
        | N j =>
          obtain ⟨y, hy⟩ := get_of_valid hb
          have hcy := hw.toBelow.child_valid hy
          have hby := hw.below hy
          have hoy := tree_ord_child hw hy
          have hne := tree_ne_of_ne hw ha hb hab
          simp only [rank_N] at hf
          simp only [nodeInfo, hx, hy]
          refine Post2.insert hw ?_ ha hb rfl
          rw [tree_N hw.toBelow hx, tree_N hw.toBelow hy] at hne ⊢
          rcases Nat.lt_trichotomy x.v y.v with hlt | heq | hgt
          · simp only [hlt, if_true]
            rw [diff_lt hlt, ← tree_N hw.toBelow hy]
            refine Post2.mk1 hw ?_ hcx.2 (ord_diff _ _ _ hox.1 (tree_ord_ge hw hy (by omega))) hox.2
            exact ih t c x.lo (.N j) hw hc hcx.1 hb (by simp only [rank_N]; omega)
          · rw [heq] at hne ⊢
            simp only [Nat.lt_irrefl, if_false]
            rw [diff_eq hne]
            refine Post2.mk2 (o2 := fun t c => diffT fuel t c x.hi y.hi) (ih t c x.lo y.lo hw hc hcx.1 hcy.1 (by omega)) (fun t1 c1 x1 w1 k1 => ?_)
              (ord_diff _ _ _ (heq ▸ hox.1) hoy.1) (ord_diff _ _ _ (heq ▸ hox.2) hoy.2)
            have := ih t1 c1 x.hi y.hi w1 k1 (x1.valid hcx.2) (x1.valid hcy.2) (by omega)
            rwa [tree_stable hw.toBelow x1 hcx.2, tree_stable hw.toBelow x1 hcy.2] at this
          · simp only [if_neg (Nat.lt_asymm hgt), hgt, if_true]
            rw [diff_gt hgt, ← tree_N hw.toBelow hx]
            exact ih t c (.N i) y.lo hw hc ha hcy.1 (by simp only [rank_N]; omega)


theorem unionA_spec {t : Table} {c : Cache2} {a b : Ref} (hw : TWF t) (hc : Cache2OK union t c)
    (ha : Valid t a) (hb : Valid t b) : Post2 union t (union (treeOf t a) (treeOf t b)) (unionA t c a b) :=
  unionT_spec _ t c a b hw hc ha hb (Nat.lt_succ_self _)

theorem interA_spec {t : Table} {c : Cache2} {a b : Ref} (hw : TWF t) (hc : Cache2OK inter t c)
    (ha : Valid t a) (hb : Valid t b) : Post2 inter t (inter (treeOf t a) (treeOf t b)) (interA t c a b) :=
  interT_spec _ t c a b hw hc ha hb (Nat.lt_succ_self _)

theorem diffA_spec {t : Table} {c : Cache2} {a b : Ref} (hw : TWF t) (hc : Cache2OK diff t c)
    (ha : Valid t a) (hb : Valid t b) : Post2 diff t (diff (treeOf t a) (treeOf t b)) (diffA t c a b) :=
  diffT_spec _ t c a b hw hc ha hb (Nat.lt_succ_self _)

/-- a mk step on a plain table -/
theorem mk_step {t : Table} (hw : TWF t) {v : Nat} {lo hi : Ref} (hlo : Valid t lo) (hhi : Valid t hi)
    (olo : Ord (v + 1) (treeOf t lo)) (ohi : Ord (v + 1) (treeOf t hi)) :
    Ext t (getOrCreate t v lo hi).1 ∧ TWF (getOrCreate t v lo hi).1 ∧
    Valid (getOrCreate t v lo hi).1 (getOrCreate t v lo hi).2 ∧
    treeOf (getOrCreate t v lo hi).1 (getOrCreate t v lo hi).2 = mk v (treeOf t lo) (treeOf t hi) :=
  ⟨getOrCreate_ext _ _ _ _, twf_getOrCreate hw hlo hhi olo ohi, getOrCreate_valid hlo, tree_getOrCreate hw.toBelow hlo hhi⟩

/-- per-call cache of `product_with_optional(var)`: every entry is correct -/
def Cache1OK (var : Nat) (t : Table) (pc : Cache1) : Prop :=
  ∀ a r, (a, r) ∈ pc → Valid t a ∧ Valid t r ∧ treeOf t r = pwo (treeOf t a) var

theorem Cache1OK.nil (var : Nat) (t : Table) : Cache1OK var t [] := by intro a r h; simp at h

theorem Cache1OK.mono {var : Nat} {t t' : Table} {pc : Cache1} (hb : Below t) (hx : Ext t t') (h : Cache1OK var t pc) :
    Cache1OK var t' pc := by
  intro a r hm
  obtain ⟨h1, h2, h3⟩ := h a r hm
  exact ⟨hx.valid h1, hx.valid h2, by rw [tree_stable hb hx h1, tree_stable hb hx h2, h3]⟩

def PostP (var : Nat) (t : Table) (z : Z) (o : Option (Table × Cache2 × Cache1 × Ref)) : Prop :=
  ∃ t' uc' pc' r, o = some (t', uc', pc', r) ∧ Ext t t' ∧ TWF t' ∧ Cache2OK union t' uc' ∧ Cache1OK var t' pc' ∧
    Valid t' r ∧ treeOf t' r = z

theorem PostP.insert {var : Nat} {t : Table} {o : Option (Table × Cache2 × Cache1 × Ref)} {a : Ref} (hw : TWF t)
    (h : PostP var t (pwo (treeOf t a) var) o) (ha : Valid t a) :
    PostP var t (pwo (treeOf t a) var) (do let (t', uc', pc', r) ← o; pure (t', uc', (a, r) :: pc', r)) := by
  obtain ⟨t1, uc1, pc1, r, e1, x1, w1, u1, p1, v1, z1⟩ := h
  refine ⟨t1, uc1, (a, r) :: pc1, r, by simp [e1], x1, w1, u1, ?_, v1, z1⟩
  intro a' r' hm
  rcases List.mem_cons.1 hm with heq | hm
  · cases heq
    exact ⟨x1.valid ha, v1, by rw [z1, tree_stable hw.toBelow x1 ha]⟩
  · exact p1 a' r' hm

theorem pwoT_spec (persist : Bool) (var : Nat) : ∀ (fuel : Nat) (t : Table) (uc : Cache2) (pc : Cache1) (a : Ref),
    TWF t → Cache2OK union t uc → Cache1OK var t pc → Valid t a → a.rank ≤ fuel →
    PostP var t (pwo (treeOf t a) var) (pwoT persist fuel t uc pc a var) := by
  intro fuel
  induction fuel with
  | zero =>
    intro t uc pc a hw hu hp ha hf
    cases a with
    | E => exact ⟨t, uc, pc, .E, by simp [pwoT], Ext.refl _, hw, hu, hp, valid_E _, by simp [pwo]⟩
    | B =>
      obtain ⟨x, w, v, z⟩ := mk_step hw (v := var) (valid_B t) (valid_B t) (ord_base _) (ord_base _)
      generalize hgc : getOrCreate t var .B .B = g at *
      obtain ⟨t1, r⟩ := g
      exact ⟨t1, uc, pc, r, by simp [pwoT, hgc], x, w, hu.mono hw.toBelow x, hp.mono hw.toBelow x, v, by simpa [pwo] using z⟩
    | N i => simp at hf
  | succ fuel ih =>
    intro t uc pc a hw hu hp ha hf
    cases a with
    | E => exact ⟨t, uc, pc, .E, by simp [pwoT], Ext.refl _, hw, hu, hp, valid_E _, by simp [pwo]⟩
    | B =>
      obtain ⟨x, w, v, z⟩ := mk_step hw (v := var) (valid_B t) (valid_B t) (ord_base _) (ord_base _)
      generalize hgc : getOrCreate t var .B .B = g at *
      obtain ⟨t1, r⟩ := g
      exact ⟨t1, uc, pc, r, by simp [pwoT, hgc], x, w, hu.mono hw.toBelow x, hp.mono hw.toBelow x, v, by simpa [pwo] using z⟩
    | N i =>
      simp only [rank_N] at hf
      rw [pwoT]
      cases hlk : pc.lookup (.N i) with
      | some r =>
        obtain ⟨_, h2, h3⟩ := hp _ r (mem_of_lookup hlk)
        exact ⟨t, uc, pc, r, rfl, Ext.refl _, hw, hu, hp, h2, h3⟩
      | none =>
        obtain ⟨n, hn⟩ := get_of_valid ha
        have hcn := hw.toBelow.child_valid hn
        have hbn := hw.below hn
        have hon := tree_ord_child hw hn
        simp only [hn, Option.bind_eq_bind, Option.bind_some]
        refine PostP.insert hw ?_ ha
        rw [tree_N hw.toBelow hn, pwo]
        by_cases hlt : n.v < var
        · simp only [hlt, if_true]
          obtain ⟨t1, uc1, pc1, nlo, e1, x1, w1, u1, p1, v1, z1⟩ := ih t uc pc n.lo hw hu hp hcn.1 (by omega)
          obtain ⟨t2, uc2, pc2, nhi, e2, x2, w2, u2, p2, v2, z2⟩ :=
            ih t1 uc1 pc1 n.hi w1 u1 p1 (x1.valid hcn.2) (by omega)
          rw [tree_stable hw.toBelow x1 hcn.2] at z2
          have v1' := x2.valid v1
          have z1' : treeOf t2 nlo = pwo (treeOf t n.lo) var := by rw [tree_stable w1.toBelow x2 v1, z1]
          obtain ⟨x3, w3, v3, z3⟩ := mk_step w2 (v := n.v) v1' v2
            (by rw [z1']; exact ord_pwo _ _ _ hon.1 (by omega)) (by rw [z2]; exact ord_pwo _ _ _ hon.2 (by omega))
          rw [z1', z2] at z3
          generalize hgc : getOrCreate t2 n.v nlo nhi = g at *
          obtain ⟨t3, r⟩ := g
          exact ⟨t3, uc2, pc2, r, by simp [e1, e2, hgc], x1.trans (x2.trans x3), w3, u2.mono w2.toBelow x3,
            p2.mono w2.toBelow x3, v3, z3⟩
        · by_cases heq : n.v = var
          · simp only [heq, if_false, if_true, Nat.lt_irrefl]
            have hu' : Cache2OK union t (if persist then uc else []) := by
              cases persist
              · exact Cache2OK.nil _ _
              · exact hu
            obtain ⟨t1, uc1, nhi, e1, x1, w1, u1, v1, z1⟩ := unionA_spec hw hu' hcn.1 hcn.2
            have hlo1 := x1.valid hcn.1
            have zlo : treeOf t1 n.lo = treeOf t n.lo := tree_stable hw.toBelow x1 hcn.1
            obtain ⟨x2, w2, v2, z2⟩ := mk_step w1 (v := var) hlo1 v1
              (by rw [zlo]; exact heq ▸ hon.1) (by rw [z1]; exact ord_union _ _ _ (heq ▸ hon.1) (heq ▸ hon.2))
            rw [zlo, z1] at z2
            generalize hgc : getOrCreate t1 var n.lo nhi = g at *
            obtain ⟨t2, r⟩ := g
            refine ⟨t2, if persist then uc1 else uc, pc, r, by simp [e1, hgc], x1.trans x2, w2, ?_,
              hp.mono hw.toBelow (x1.trans x2), v2, z2⟩
            cases persist
            · exact hu.mono hw.toBelow (x1.trans x2)
            · exact u1.mono w1.toBelow x2
          · simp only [hlt, heq, if_false]
            have hgt : var < n.v := by omega
            obtain ⟨x1, w1, v1, z1⟩ := mk_step hw (v := var) ha ha (tree_ord_ge hw hn (by omega)) (tree_ord_ge hw hn (by omega))
            rw [tree_N hw.toBelow hn] at z1
            generalize hgc : getOrCreate t var (.N i) (.N i) = g at *
            obtain ⟨t1, r⟩ := g
            exact ⟨t1, uc, pc, r, by simp, x1, w1, hu.mono hw.toBelow x1, hp.mono hw.toBelow x1, v1, z1⟩


theorem countT_spec : ∀ (fuel : Nat) (t : Table) (cc : CacheN) (a : Ref), TWF t → CacheNOK t cc → Valid t a →
    a.rank ≤ fuel → ∃ cc' k, countT fuel t cc a = some (cc', k) ∧ CacheNOK t cc' ∧ k = Zdd.count (treeOf t a) := by
  intro fuel
  induction fuel with
  | zero =>
    intro t cc a hw hc ha hf
    cases a with
    | E => exact ⟨cc, 0, by simp [countT], hc, by simp [Zdd.count]⟩
    | B => exact ⟨cc, 1, by simp [countT], hc, by simp [Zdd.count]⟩
    | N i => simp at hf
  | succ fuel ih =>
    intro t cc a hw hc ha hf
    cases a with
    | E => exact ⟨cc, 0, by simp [countT], hc, by simp [Zdd.count]⟩
    | B => exact ⟨cc, 1, by simp [countT], hc, by simp [Zdd.count]⟩
    | N i =>
      simp only [rank_N] at hf
      rw [countT]
      cases hlk : cc.lookup (.N i) with
      | some k =>
        obtain ⟨_, h2⟩ := hc _ k (mem_of_lookup hlk)
        exact ⟨cc, k, rfl, hc, h2⟩
      | none =>
        obtain ⟨n, hn⟩ := get_of_valid ha
        have hcn := hw.toBelow.child_valid hn
        have hbn := hw.below hn
        obtain ⟨cc1, k1, e1, c1, z1⟩ := ih t cc n.lo hw hc hcn.1 (by omega)
        obtain ⟨cc2, k2, e2, c2, z2⟩ := ih t cc1 n.hi hw c1 hcn.2 (by omega)
        refine ⟨(.N i, k1 + k2) :: cc2, k1 + k2, by simp [hn, e1, e2], ?_, by rw [tree_N hw.toBelow hn, Zdd.count, z1, z2]⟩
        intro r k hm
        rcases List.mem_cons.1 hm with heq | hm
        · cases heq; exact ⟨ha, by rw [tree_N hw.toBelow hn, Zdd.count, z1, z2]⟩
        · exact c2 r k hm

theorem containsT_spec : ∀ (fuel : Nat) (t : Table) (a : Ref) (q : List Nat), TWF t → Valid t a → a.rank ≤ fuel →
    containsT fuel t a q = some (Zdd.contains (treeOf t a) q) := by
  intro fuel
  induction fuel with
  | zero =>
    intro t a q hw ha hf
    cases a with
    | E => simp [containsT, Zdd.contains]
    | B => simp [containsT, Zdd.contains]
    | N i => simp at hf
  | succ fuel ih =>
    intro t a q hw ha hf
    cases a with
    | E => simp [containsT, Zdd.contains]
    | B => simp [containsT, Zdd.contains]
    | N i =>
      simp only [rank_N] at hf
      obtain ⟨n, hn⟩ := get_of_valid ha
      have hcn := hw.toBelow.child_valid hn
      have hbn := hw.below hn
      rw [containsT, tree_N hw.toBelow hn]
      simp only [hn, Option.bind_eq_bind, Option.bind_some]
      cases q with
      | nil => simp only [Zdd.contains]; exact ih t n.lo [] hw hcn.1 (by omega)
      | cons x q' =>
        simp only [Zdd.contains]
        by_cases h1 : n.v = x
        · simp only [h1, if_true]; exact ih t n.hi q' hw hcn.2 (by omega)
        · by_cases h2 : n.v > x
          · simp [h1, h2]
          · simp only [h1, h2, if_false]; exact ih t n.lo (x :: q') hw hcn.1 (by omega)

theorem fromSortedT_spec : ∀ (l : List Nat) (t : Table), TWF t → l.Pairwise (· < ·) →
    Ext t (fromSortedT t l).1 ∧ TWF (fromSortedT t l).1 ∧ Valid (fromSortedT t l).1 (fromSortedT t l).2 ∧
    treeOf (fromSortedT t l).1 (fromSortedT t l).2 = fromSorted l := by
  intro l
  induction l with
  | nil => intro t hw _; exact ⟨Ext.refl _, hw, valid_B _, rfl⟩
  | cons v vs ih =>
    intro t hw hp
    simp only [List.pairwise_cons] at hp
    obtain ⟨x1, w1, v1, z1⟩ := ih t hw hp.2
    simp only [fromSortedT, fromSorted]
    generalize fromSortedT t vs = g at *
    obtain ⟨t1, r1⟩ := g
    obtain ⟨x2, w2, v2, z2⟩ := mk_step w1 (v := v) (valid_E t1) v1 (ord_empty _)
      (by rw [z1]; exact ord_fromSorted vs (v + 1) hp.2 (fun x hx => hp.1 x hx))
    rw [z1] at z2
    exact ⟨x1.trans x2, w2, v2, by simpa using z2⟩


/-! ### the public arena API -/

/-- an arena whose table only grew keeps every existing ref valid with the same tree -/
theorem ext_keeps {t t' : Table} (hw : TWF t) (hx : Ext t t') {x : Ref} (hv : Valid t x) :
    Valid t' x ∧ treeOf t' x = treeOf t x := ⟨hx.valid hv, tree_stable hw.toBelow hx hv⟩

theorem Arena.union_spec {s : Arena} (hs : s.OK) {a b : Ref} (ha : Valid s.table a) (hb : Valid s.table b) :
    ∃ s' r, s.union a b = some (s', r) ∧ s'.OK ∧ Ext s.table s'.table ∧ Valid s'.table r ∧
      treeOf s'.table r = Zdd.union (treeOf s.table a) (treeOf s.table b) := by
  obtain ⟨t', c', r, e, x, w, k, v, z⟩ := unionA_spec hs.twf hs.u ha hb
  exact ⟨{ s with table := t', ucache := c' }, r, by simp [Arena.union, e],
    ⟨w, k, hs.i.mono hs.twf.toBelow x, hs.d.mono hs.twf.toBelow x, hs.c.mono hs.twf.toBelow x⟩, x, v, z⟩

theorem Arena.inter_spec {s : Arena} (hs : s.OK) {a b : Ref} (ha : Valid s.table a) (hb : Valid s.table b) :
    ∃ s' r, s.inter a b = some (s', r) ∧ s'.OK ∧ Ext s.table s'.table ∧ Valid s'.table r ∧
      treeOf s'.table r = Zdd.inter (treeOf s.table a) (treeOf s.table b) := by
  obtain ⟨t', c', r, e, x, w, k, v, z⟩ := interA_spec hs.twf hs.i ha hb
  exact ⟨{ s with table := t', icache := c' }, r, by simp [Arena.inter, e],
    ⟨w, hs.u.mono hs.twf.toBelow x, k, hs.d.mono hs.twf.toBelow x, hs.c.mono hs.twf.toBelow x⟩, x, v, z⟩

theorem Arena.diff_spec {s : Arena} (hs : s.OK) {a b : Ref} (ha : Valid s.table a) (hb : Valid s.table b) :
    ∃ s' r, s.diff a b = some (s', r) ∧ s'.OK ∧ Ext s.table s'.table ∧ Valid s'.table r ∧
      treeOf s'.table r = Zdd.diff (treeOf s.table a) (treeOf s.table b) := by
  obtain ⟨t', c', r, e, x, w, k, v, z⟩ := diffA_spec hs.twf hs.d ha hb
  exact ⟨{ s with table := t', dcache := c' }, r, by simp [Arena.diff, e],
    ⟨w, hs.u.mono hs.twf.toBelow x, hs.i.mono hs.twf.toBelow x, k, hs.c.mono hs.twf.toBelow x⟩, x, v, z⟩

theorem Arena.pwo_spec {s : Arena} (hs : s.OK) {a : Ref} (ha : Valid s.table a) (var : Nat) :
    ∃ s' r, s.pwo a var = some (s', r) ∧ s'.OK ∧ Ext s.table s'.table ∧ Valid s'.table r ∧
      treeOf s'.table r = Zdd.pwo (treeOf s.table a) var := by
  obtain ⟨t', uc', pc', r, e, x, w, k, _, v, z⟩ :=
    pwoT_spec true var (a.rank + 1) s.table s.ucache [] a hs.twf hs.u (Cache1OK.nil _ _) ha (Nat.le_succ _)
  exact ⟨{ s with table := t', ucache := uc' }, r, by simp [Arena.pwo, e],
    ⟨w, k, hs.i.mono hs.twf.toBelow x, hs.d.mono hs.twf.toBelow x, hs.c.mono hs.twf.toBelow x⟩, x, v, z⟩

theorem Arena.count_spec {s : Arena} (hs : s.OK) {a : Ref} (ha : Valid s.table a) :
    ∃ s', s.count a = some (s', Zdd.count (treeOf s.table a)) ∧ s'.OK ∧ s'.table = s.table := by
  obtain ⟨cc', k, e, c, z⟩ := countT_spec (a.rank + 1) s.table s.ccache a hs.twf hs.c ha (Nat.le_succ _)
  subst z
  exact ⟨{ s with ccache := cc' }, by simp [Arena.count, e], ⟨hs.twf, hs.u, hs.i, hs.d, c⟩, rfl⟩

theorem Arena.contains_spec {s : Arena} (hs : s.OK) {a : Ref} (ha : Valid s.table a) (q : List Nat) :
    s.contains a q = some (Zdd.contains (treeOf s.table a) (normalize q)) :=
  containsT_spec _ _ _ _ hs.twf ha (Nat.le_succ _)

theorem Arena.singleton_spec {s : Arena} (hs : s.OK) (var : Nat) :
    (s.singleton var).1.OK ∧ Ext s.table (s.singleton var).1.table ∧
      Valid (s.singleton var).1.table (s.singleton var).2 ∧
      treeOf (s.singleton var).1.table (s.singleton var).2 = Zdd.singleton var := by
  obtain ⟨x, w, v, z⟩ := mk_step hs.twf (v := var) (valid_E _) (valid_B _) (ord_empty _) (ord_base _)
  simp only [Arena.singleton]
  exact ⟨⟨w, hs.u.mono hs.twf.toBelow x, hs.i.mono hs.twf.toBelow x, hs.d.mono hs.twf.toBelow x,
    hs.c.mono hs.twf.toBelow x⟩, x, v, by simpa [Zdd.singleton] using z⟩

theorem Arena.fromSet_spec {s : Arena} (hs : s.OK) (l : List Nat) :
    (s.fromSet l).1.OK ∧ Ext s.table (s.fromSet l).1.table ∧
      Valid (s.fromSet l).1.table (s.fromSet l).2 ∧
      treeOf (s.fromSet l).1.table (s.fromSet l).2 = Zdd.fromSet l := by
  obtain ⟨x, w, v, z⟩ := fromSortedT_spec (normalize l) s.table hs.twf (normalize_spec l).1
  simp only [Arena.fromSet]
  exact ⟨⟨w, hs.u.mono hs.twf.toBelow x, hs.i.mono hs.twf.toBelow x, hs.d.mono hs.twf.toBelow x,
    hs.c.mono hs.twf.toBelow x⟩, x, v, z⟩


end Varpulis.ZddT

/-! ## Part E: standalone `Zdd` operations -/
namespace Varpulis.Zdd
theorem product_empty_left (b : Z) : product .empty b = .empty := by rw [product.eq_def]; simp
theorem product_empty_right (a : Z) : product a .empty = .empty := by rw [product.eq_def]; simp
theorem product_base_left (b : Z) : product .base b = b := by rw [product.eq_def]; split <;> simp_all
theorem product_base_right (a : Z) : product a .base = a := by
  rw [product.eq_def]; split
  · rename_i h; simp at h; exact h.symm
  · split <;> simp_all
theorem product_lt {av bv : Nat} {alo ahi blo bhi : Z} (h : av < bv) :
    product (.node av alo ahi) (.node bv blo bhi) =
      mk av (product alo (.node bv blo bhi)) (product ahi (.node bv blo bhi)) := by
  rw [product.eq_def]; simp [h]
theorem product_gt {av bv : Nat} {alo ahi blo bhi : Z} (h : bv < av) :
    product (.node av alo ahi) (.node bv blo bhi) =
      mk bv (product (.node av alo ahi) blo) (product (.node av alo ahi) bhi) := by
  rw [product.eq_def]; simp [h, Nat.lt_asymm h]
theorem product_eq {v : Nat} {alo ahi blo bhi : Z} :
    product (.node v alo ahi) (.node v blo bhi) =
      mk v (product alo blo) (union (union (product ahi blo) (product alo bhi)) (product ahi bhi)) := by
  rw [product.eq_def]; simp
theorem product_comm (a b : Z) : product a b = product b a := by
  fun_induction product a b
  · rename_i h; rcases h with h | h <;> subst h <;> simp [product_empty_left, product_empty_right]
  · rw [product_base_right]
  · rw [product_base_left]
  · rename_i av alo ahi bv blo bhi hlt _ _ _ ih1 ih2
    rw [product_gt hlt, ih1, ih2]
  · rename_i av alo ahi bv blo bhi _ hgt _ _ _ ih1 ih2
    rw [product_lt hgt, ih1, ih2]
  · rename_i av alo ahi bv blo bhi h1 h2 _ _ _ ih1 ih2 ih3 ih4
    have : av = bv := by omega
    subst this
    rw [product_eq, ih1, ih2, ih3, ih4, union_comm (product blo ahi) (product bhi alo)]
  · rename_i b _ a _ _ _
    cases a <;> cases b <;> simp_all
    rename_i h; exact absurd rfl (h _ _ _ _ _ _ rfl rfl rfl rfl rfl)
end Varpulis.Zdd

namespace Varpulis.ZddT
open Varpulis.Zdd


theorem carry {t t' : Table} (hw : TWF t) (hx : Ext t t') {r : Ref} {z : Z} (hv : Valid t r) (hz : treeOf t r = z) :
    Valid t' r ∧ treeOf t' r = z := ⟨hx.valid hv, by rw [tree_stable hw.toBelow hx hv, hz]⟩

theorem norm_cases_nodes {a b : Ref} {i j : Nat} (ha : a = .N i) (hb : b = .N j) :
    norm a b = (a, b) ∨ norm a b = (b, a) := by
  subst ha hb; simp only [norm, Ref.le]; by_cases h : i ≤ j <;> simp [h]

theorem productT_spec : ∀ (fuel : Nat) (t : Table) (c : Cache2) (a b : Ref), TWF t → Cache2OK product t c →
    Valid t a → Valid t b → a.rank + b.rank < fuel →
    Post2 product t (product (treeOf t a) (treeOf t b)) (productT fuel t c a b) := by
  intro fuel
  induction fuel with
  | zero => intro t c a b _ _ _ _ h; omega
  | succ fuel ih =>
    intro t c a b hw hc ha hb hf
    rw [productT]
    by_cases hae : a = .E
    · subst hae; simp only [true_or, if_true, tree_E, product_empty_left]; exact Post2.ret hw hc (valid_E _) rfl
    by_cases hbe : b = .E
    · subst hbe; simp only [or_true, if_true, tree_E, product_empty_right]; exact Post2.ret hw hc (valid_E _) rfl
    by_cases hab : a = .B
    · subst hab; simp only [hbe, or_self, reduceCtorEq, if_false, if_true, tree_B, product_base_left]
      exact Post2.ret hw hc hb rfl
    by_cases hbb : b = .B
    · subst hbb; simp only [hae, hab, or_self, reduceCtorEq, if_false, if_true, tree_B, product_base_right]
      exact Post2.ret hw hc ha rfl
    simp only [hae, hbe, hab, hbb, or_self, if_false]
    have core : ∀ (i j : Nat), Valid t (.N i) → Valid t (.N j) → (i + 1) + (j + 1) < fuel + 1 →
        Post2 product t (product (treeOf t (.N i)) (treeOf t (.N j)))
          (match c.lookup (.N i, .N j) with
          | some r => some (t, c, r)
          | none => do
            let (av, alo, ahi) ← nodeInfo t (.N i)
            let (bv, blo, bhi) ← nodeInfo t (.N j)
            let (t1, c1, r) ← (match av, bv with
              | some av, some bv =>
                if av < bv then do
                  let (t, c, nlo) ← productT fuel t c alo (.N j)
                  let (t, c, nhi) ← productT fuel t c ahi (.N j)
                  let (t, r) := getOrCreate t av nlo nhi
                  pure (t, c, r)
                else if av > bv then do
                  let (t, c, nlo) ← productT fuel t c (.N i) blo
                  let (t, c, nhi) ← productT fuel t c (.N i) bhi
                  let (t, r) := getOrCreate t bv nlo nhi
                  pure (t, c, r)
                else do
                  let (t, c, lolo) ← productT fuel t c alo blo
                  let (t, c, hilo) ← productT fuel t c ahi blo
                  let (t, c, lohi) ← productT fuel t c alo bhi
                  let (t, c, hihi) ← productT fuel t c ahi bhi
                  let (t, _, u1) ← unionA t [] hilo lohi
                  let (t, _, nhi) ← unionA t [] u1 hihi
                  let (t, r) := getOrCreate t av lolo nhi
                  pure (t, c, r)
              | some _, none => pure (t, c, .N i)
              | none, some _ => pure (t, c, .N j)
              | none, none => none)
            pure (t1, ((Ref.N i, Ref.N j), r) :: c1, r)) := by
      intro i j ha' hb' hf'
      cases hlk : c.lookup (.N i, .N j) with
      | some r =>
        obtain ⟨_, _, h3, h4⟩ := hc _ _ r (mem_of_lookup hlk)
        exact Post2.ret hw hc h3 h4
      | none =>
        obtain ⟨x, hx⟩ := get_of_valid ha'
        obtain ⟨y, hy⟩ := get_of_valid hb'
        have hcx := hw.toBelow.child_valid hx
        have hbx := hw.below hx
        have hox := tree_ord_child hw hx
        have hcy := hw.toBelow.child_valid hy
        have hby := hw.below hy
        have hoy := tree_ord_child hw hy
        simp only [nodeInfo, hx, hy]
        refine Post2.insert hw ?_ ha' hb' rfl
        rw [tree_N hw.toBelow hx, tree_N hw.toBelow hy]
        rcases Nat.lt_trichotomy x.v y.v with hlt | heq | hgt
        · simp only [hlt, if_true]
          rw [product_lt hlt, ← tree_N hw.toBelow hy]
          have oy : Ord (x.v + 1) (treeOf t (.N j)) := tree_ord_ge hw hy (by omega)
          refine Post2.mk2 (o2 := fun t c => productT fuel t c x.hi (.N j))
            (ih t c x.lo (.N j) hw hc hcx.1 hb' (by simp only [rank_N]; omega)) (fun t1 c1 x1 w1 k1 => ?_)
            (ord_product _ _ _ hox.1 oy) (ord_product _ _ _ hox.2 oy)
          have := ih t1 c1 x.hi (.N j) w1 k1 (x1.valid hcx.2) (x1.valid hb') (by simp only [rank_N]; omega)
          rwa [tree_stable hw.toBelow x1 hcx.2, tree_stable hw.toBelow x1 hb'] at this
        · rw [heq]
          simp only [Nat.lt_irrefl, if_false]
          rw [product_eq]
          have hox' : Ord (y.v + 1) (treeOf t x.lo) ∧ Ord (y.v + 1) (treeOf t x.hi) := heq ▸ hox
          obtain ⟨t1, c1, lolo, e1, x1, w1, k1, v1, z1⟩ := ih t c x.lo y.lo hw hc hcx.1 hcy.1 (by omega)
          obtain ⟨t2, c2, hilo, e2, x2, w2, k2, v2, z2⟩ :=
            ih t1 c1 x.hi y.lo w1 k1 (x1.valid hcx.2) (x1.valid hcy.1) (by omega)
          rw [tree_stable hw.toBelow x1 hcx.2, tree_stable hw.toBelow x1 hcy.1] at z2
          have x12 := x1.trans x2
          obtain ⟨t3, c3, lohi, e3, x3, w3, k3, v3, z3⟩ :=
            ih t2 c2 x.lo y.hi w2 k2 (x12.valid hcx.1) (x12.valid hcy.2) (by omega)
          rw [tree_stable hw.toBelow x12 hcx.1, tree_stable hw.toBelow x12 hcy.2] at z3
          have x13 := x12.trans x3
          obtain ⟨t4, c4, hihi, e4, x4, w4, k4, v4, z4⟩ :=
            ih t3 c3 x.hi y.hi w3 k3 (x13.valid hcx.2) (x13.valid hcy.2) (by omega)
          rw [tree_stable hw.toBelow x13 hcx.2, tree_stable hw.toBelow x13 hcy.2] at z4
          have x14 := x13.trans x4
          -- carry the earlier results into t4
          obtain ⟨v1', z1'⟩ := carry w1 (x2.trans (x3.trans x4)) v1 z1
          obtain ⟨v2', z2'⟩ := carry w2 (x3.trans x4) v2 z2
          obtain ⟨v3', z3'⟩ := carry w3 x4 v3 z3
          obtain ⟨t5, c5, u1, e5, x5, w5, _, v5, z5⟩ := unionA_spec w4 (Cache2OK.nil _ _) v2' v3'
          rw [z2', z3'] at z5
          obtain ⟨v4', z4'⟩ := carry w4 x5 v4 z4
          obtain ⟨t6, c6, nhi, e6, x6, w6, _, v6, z6⟩ := unionA_spec w5 (Cache2OK.nil _ _) v5 v4'
          rw [z5, z4'] at z6
          obtain ⟨v1'', z1''⟩ := carry w4 (x5.trans x6) v1' z1'
          obtain ⟨x7, w7, v7, z7⟩ := mk_step w6 (v := y.v) v1'' v6
            (by rw [z1'']; exact ord_product _ _ _ hox'.1 hoy.1)
            (by rw [z6]; exact ord_union _ _ _ (ord_union _ _ _ (ord_product _ _ _ hox'.2 hoy.1)
                  (ord_product _ _ _ hox'.1 hoy.2)) (ord_product _ _ _ hox'.2 hoy.2))
          rw [z1'', z6] at z7
          generalize hgc : getOrCreate t6 y.v lolo nhi = g at *
          obtain ⟨t7, r⟩ := g
          exact ⟨t7, c4, r, by simp [e1, e2, e3, e4, e5, e6, hgc], x14.trans (x5.trans (x6.trans x7)), w7,
            k4.mono w4.toBelow (x5.trans (x6.trans x7)), v7, z7⟩
        · simp only [if_neg (Nat.lt_asymm hgt), hgt, if_true]
          rw [product_gt hgt, ← tree_N hw.toBelow hx]
          have ox : Ord (y.v + 1) (treeOf t (.N i)) := tree_ord_ge hw hx (by omega)
          refine Post2.mk2 (o2 := fun t c => productT fuel t c (.N i) y.hi)
            (ih t c (.N i) y.lo hw hc ha' hcy.1 (by simp only [rank_N]; omega)) (fun t1 c1 x1 w1 k1 => ?_)
            (ord_product _ _ _ ox hoy.1) (ord_product _ _ _ ox hoy.2)
          have := ih t1 c1 (.N i) y.hi w1 k1 (x1.valid ha') (x1.valid hcy.2) (by simp only [rank_N]; omega)
          rwa [tree_stable hw.toBelow x1 ha', tree_stable hw.toBelow x1 hcy.2] at this
    cases a with
    | E => exact absurd rfl hae
    | B => exact absurd rfl hab
    | N i =>
      cases b with
      | E => exact absurd rfl hbe
      | B => exact absurd rfl hbb
      | N j =>
        simp only [rank_N] at hf
        rcases norm_cases_nodes (a := .N i) (b := .N j) rfl rfl with hn | hn
        · rw [hn]; exact core i j ha hb hf
        · rw [hn, product_comm]; exact core j i hb ha (by omega)


/-- invariant of a standalone `Zdd`: own table well-formed, root dereferenceable -/
structure ZddS.OK (z : ZddS) : Prop where
  twf : TWF z.table
  valid : Valid z.table z.root

/-- the tree a standalone `Zdd` denotes -/
def ZddS.den (z : ZddS) : Z := treeOf z.table z.root

theorem ZddS.ok_empty : ZddS.empty.OK ∧ ZddS.empty.den = .empty := ⟨⟨twf_empty, valid_E _⟩, rfl⟩
theorem ZddS.ok_base : ZddS.base.OK ∧ ZddS.base.den = .base := ⟨⟨twf_empty, valid_B _⟩, rfl⟩

theorem ZddS.singleton_spec (var : Nat) : (ZddS.singleton var).OK ∧ (ZddS.singleton var).den = Zdd.singleton var := by
  obtain ⟨_, w, v, z⟩ := mk_step twf_empty (v := var) (valid_E _) (valid_B _) (ord_empty _) (ord_base _)
  exact ⟨⟨w, v⟩, by simpa [Zdd.singleton, ZddS.singleton, ZddS.den] using z⟩

theorem ZddS.fromSet_spec (l : List Nat) : (ZddS.fromSet l).OK ∧ (ZddS.fromSet l).den = Zdd.fromSet l := by
  obtain ⟨_, w, v, z⟩ := fromSortedT_spec (normalize l) #[] twf_empty (normalize_spec l).1
  exact ⟨⟨w, v⟩, z⟩

/-- `remap_nodes(other)` into a clone of `self`'s table preserves the trees of both -/
theorem ZddS.remapInto_spec {self other : ZddS} (hs : self.OK) (ho : other.OK) :
    ∃ t r, self.remapInto other = some (t, r) ∧ Ext self.table t ∧ TWF t ∧ Valid t r ∧ treeOf t r = other.den := by
  obtain ⟨t, m, r, e, x, w, _, v, z⟩ :=
    remapT_spec ho.twf other.root.rank self.table [] other.root hs.twf (rmapOK_nil _ _) ho.valid (Nat.le_refl _)
  exact ⟨t, r, by simp [ZddS.remapInto, e], x, w, v, z⟩

theorem ZddS.union_spec {self other : ZddS} (hs : self.OK) (ho : other.OK) :
    ∃ z, self.union other = some z ∧ z.OK ∧ z.den = Zdd.union self.den other.den := by
  obtain ⟨t, r, e, x, w, v, z⟩ := ZddS.remapInto_spec hs ho
  obtain ⟨v0, z0⟩ := carry hs.twf x hs.valid rfl
  obtain ⟨t', c', r', e', _, w', _, v', z'⟩ := unionA_spec w (Cache2OK.nil _ _) v0 v
  rw [z0, z] at z'
  exact ⟨⟨r', t'⟩, by simp [ZddS.union, e, e'], ⟨w', v'⟩, z'⟩

theorem ZddS.inter_spec {self other : ZddS} (hs : self.OK) (ho : other.OK) :
    ∃ z, self.inter other = some z ∧ z.OK ∧ z.den = Zdd.inter self.den other.den := by
  obtain ⟨t, r, e, x, w, v, z⟩ := ZddS.remapInto_spec hs ho
  obtain ⟨v0, z0⟩ := carry hs.twf x hs.valid rfl
  obtain ⟨t', c', r', e', _, w', _, v', z'⟩ := interA_spec w (Cache2OK.nil _ _) v0 v
  rw [z0, z] at z'
  exact ⟨⟨r', t'⟩, by simp [ZddS.inter, e, e'], ⟨w', v'⟩, z'⟩

theorem ZddS.diff_spec {self other : ZddS} (hs : self.OK) (ho : other.OK) :
    ∃ z, self.diff other = some z ∧ z.OK ∧ z.den = Zdd.diff self.den other.den := by
  obtain ⟨t, r, e, x, w, v, z⟩ := ZddS.remapInto_spec hs ho
  obtain ⟨v0, z0⟩ := carry hs.twf x hs.valid rfl
  obtain ⟨t', c', r', e', _, w', _, v', z'⟩ := diffA_spec w (Cache2OK.nil _ _) v0 v
  rw [z0, z] at z'
  exact ⟨⟨r', t'⟩, by simp [ZddS.diff, e, e'], ⟨w', v'⟩, z'⟩

theorem ZddS.product_spec {self other : ZddS} (hs : self.OK) (ho : other.OK) :
    ∃ z, self.product other = some z ∧ z.OK ∧ z.den = Zdd.product self.den other.den := by
  obtain ⟨t, r, e, x, w, v, z⟩ := ZddS.remapInto_spec hs ho
  obtain ⟨v0, z0⟩ := carry hs.twf x hs.valid rfl
  obtain ⟨t', c', r', e', _, w', _, v', z'⟩ :=
    productT_spec _ t [] self.root r w (Cache2OK.nil _ _) v0 v (Nat.lt_succ_self _)
  rw [z0, z] at z'
  exact ⟨⟨r', t'⟩, by simp [ZddS.product, e, e'], ⟨w', v'⟩, z'⟩

theorem ZddS.pwo_spec {self : ZddS} (hs : self.OK) (var : Nat) :
    ∃ z, self.pwo var = some z ∧ z.OK ∧ z.den = Zdd.pwo self.den var := by
  obtain ⟨t', uc', pc', r, e, _, w, _, _, v, z⟩ :=
    pwoT_spec false var (self.root.rank + 1) self.table [] [] self.root hs.twf (Cache2OK.nil _ _)
      (Cache1OK.nil _ _) hs.valid (Nat.le_succ _)
  exact ⟨⟨r, t'⟩, by simp [ZddS.pwo, e], ⟨w, v⟩, z⟩

theorem ZddS.count_spec {self : ZddS} (hs : self.OK) : self.count = some (Zdd.count self.den) := by
  obtain ⟨cc', k, e, _, z⟩ := countT_spec (self.root.rank + 1) self.table [] self.root hs.twf (CacheNOK.nil _)
    hs.valid (Nat.le_succ _)
  simp [ZddS.count, e, z, ZddS.den]

theorem ZddS.contains_spec {self : ZddS} (hs : self.OK) (q : List Nat) :
    self.contains q = some (Zdd.contains self.den (normalize q)) :=
  containsT_spec _ _ _ _ hs.twf hs.valid (Nat.le_succ _)


end Varpulis.ZddT
