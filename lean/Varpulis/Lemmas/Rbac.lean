import Varpulis.Model.Rbac
/-! Lemmas about M-RBAC used by `Props/C29.lean`. All statements are over arbitrary route tables,
configurations, credentials and requests; the generated tables enter only in `Props/C29.lean`. -/
namespace Varpulis.Rbac

theorem hasPermission_iff (a b : Role) : a.hasPermission b = true ↔ b.rank ≤ a.rank := by
  simp [Role.hasPermission]

/-- a route of a recognised shape lets a matching request through to its handler body iff the
caller is granted the route's requirement -/
theorem serves_iff_grants (cfg : Cfg) (r : Route) (q : Request)
    (hshape : required r ≠ .other) (hp : matchPath r.path q.path = true) (hm : r.method = q.method) :
    r.serves cfg q = true ↔ grants (authenticate cfg q.cred) (required r) = true := by
  unfold Route.serves Route.filters
  simp only [hp, hm, Bool.not_true, Bool.false_eq_true, ↓reduceIte, bne_self_eq_false]
  unfold required at hshape ⊢
  split at hshape <;> simp_all [guardCheck, authFilter, grants, authenticate]
  · cases cfg.rbac.authenticate q.cred.apiKey <;> simp
  · cases cfg.raftKey <;> simp
  · cases q.cred.apiKey <;> simp [Option.isSome_iff_ne_none]
  · cases q.cred.adminKey <;> cases cfg.adminKey <;> simp [validateAdminKey]

theorem filters_none {cfg : Cfg} {r : Route} {q : Request} (h : r.filters cfg q = none) :
    matchPath r.path q.path = true ∧ r.method = q.method := by
  unfold Route.filters at h
  by_cases hp : matchPath r.path q.path = true
  · by_cases hm : r.method = q.method
    · exact ⟨hp, hm⟩
    · simp [hp, hm] at h
  · simp [hp] at h

theorem serves_filters {cfg : Cfg} {r : Route} {q : Request} (h : r.serves cfg q = true) :
    r.filters cfg q = none ∧ guardCheck cfg q.cred r.guard = none := by
  simpa [Route.serves] using h

/-- two patterns that accept one path overlap -/
theorem unifiable_of_match : ∀ (p p' : List Seg) (x : List String),
    matchPath p x = true → matchPath p' x = true → unifiable p p' = true
  | [], [], _, _, _ => rfl
  | [], _ :: _, x, h, h' => by cases x <;> simp [matchPath] at h h'
  | _ :: _, [], x, h, h' => by cases x <;> simp [matchPath] at h h'
  | a :: p, b :: p', [], h, _ => by cases a <;> simp [matchPath] at h
  | a :: p, b :: p', y :: x, h, h' => by
    cases a <;> cases b <;> simp only [matchPath, Bool.and_eq_true, beq_iff_eq, bne_iff_ne] at h h' <;>
      simp [unifiable, unifiable_of_match p p' x h.2 h'.2]
    exact h.1.trans h'.1.symm

/-! ### the `or` chain -/

theorem dispatchAux_served {cfg : Cfg} {q : Request} {r : Route} :
    ∀ (rs : List Route) (rejs : List Rej), dispatchAux cfg q rs rejs = .served r → r ∈ rs ∧ r.serves cfg q = true
  | [], _, h => by simp [dispatchAux] at h
  | h0 :: rs, rejs, h => by
    unfold dispatchAux at h
    split at h
    · have := dispatchAux_served rs _ h
      exact ⟨List.mem_cons_of_mem _ this.1, this.2⟩
    · split at h
      · cases h
      · rename_i _ hf _ hg
        injection h with h
        subst h
        exact ⟨List.mem_cons_self, by simp [Route.serves, hf, hg]⟩

/-- if every route of the chain that the request reaches serves it, and one of them does, the chain serves -/
theorem dispatchAux_complete {cfg : Cfg} {q : Request} :
    ∀ (rs : List Route) (rejs : List Rej),
      (∀ r ∈ rs, r.filters cfg q = none → r.serves cfg q = true) →
      (∃ r ∈ rs, r.serves cfg q = true) →
      ∃ r', dispatchAux cfg q rs rejs = .served r'
  | [], _, _, ⟨_, hm, _⟩ => by cases hm
  | h0 :: rs, rejs, hall, ⟨r, hm, hs⟩ => by
    unfold dispatchAux
    split
    · rename_i rej hf
      have hr : r ∈ rs := by
        rcases List.mem_cons.mp hm with rfl | h
        · rw [(serves_filters hs).1] at hf; cases hf
        · exact h
      exact dispatchAux_complete rs _ (fun r' h' => hall r' (List.mem_cons_of_mem _ h')) ⟨r, hr, hs⟩
    · rename_i hf
      have := serves_filters (hall h0 List.mem_cons_self hf)
      rw [this.2]
      exact ⟨h0, rfl⟩

theorem mem_appRoutes {table : List Route} {a : App} {r : Route} :
    r ∈ appRoutes table a ↔ r ∈ table ∧ r.app = a := by
  simp [appRoutes]

/-- a denied or rejected request: no route of the server serves it *as the chain reaches it* — in
particular the chain never answers `served` for a route that does not serve. -/
theorem dispatch_served {cfg : Cfg} {table : List Route} {q : Request} {r : Route}
    (h : dispatch cfg table q = .served r) :
    r ∈ table ∧ r.app = q.app ∧ matchPath r.path q.path = true ∧ r.method = q.method ∧ r.serves cfg q = true := by
  have := dispatchAux_served _ _ h
  have hm := mem_appRoutes.mp this.1
  have hf := filters_none (serves_filters this.2).1
  exact ⟨hm.1, hm.2, hf.1, hf.2, this.2⟩

theorem overlapOk_spec {table : List Route} (h : overlapOk table = true) {r₁ r₂ : Route}
    (h₁ : r₁ ∈ table) (h₂ : r₂ ∈ table) (ho : overlap r₁ r₂ = true) : required r₁ = required r₂ := by
  have := List.all_eq_true.mp (List.all_eq_true.mp h r₁ h₁) r₂ h₂
  simpa [ho] using this

theorem overlap_of_match {r₁ r₂ : Route} {q : Request}
    (h₁ : matchPath r₁.path q.path = true) (m₁ : r₁.method = q.method)
    (h₂ : matchPath r₂.path q.path = true) (m₂ : r₂.method = q.method) : overlap r₁ r₂ = true := by
  simp [overlap, m₁, m₂, unifiable_of_match _ _ _ h₁ h₂]

/-- the tables' well-formedness facts (all checked by `decide` on the generated tables) -/
structure TablesOk (docs : List DocRoute) (table : List Route) : Prop where
  documented : codeDocumented docs table = true
  implemented : docImplemented docs table = true
  unambiguous : docsUnambiguous docs = true
  overlap : overlapOk table = true
  heads : headsLiteral docs table = true

theorem TablesOk.shape {docs table} (ok : TablesOk docs table) {r : Route} (hr : r ∈ table) :
    required r ≠ .other ∧ docReqOf docs r = some (required r) := by
  have := List.all_eq_true.mp ok.documented r hr
  simpa using this

/-- **served ⇔ granted** for the whole server: a request is served iff some route of its server matches
it and the caller is granted that route's requirement (all routes matching one request have the
same requirement, by `overlapOk`). -/
theorem dispatch_served_iff {docs table} (ok : TablesOk docs table) (cfg : Cfg) (q : Request) :
    (dispatch cfg table q).isServed = true ↔
      ∃ r ∈ table, r.app = q.app ∧ matchPath r.path q.path = true ∧ r.method = q.method ∧
        grants (authenticate cfg q.cred) (required r) = true := by
  constructor
  · intro h
    cases hd : dispatch cfg table q with
    | served r =>
      have := dispatch_served hd
      exact ⟨r, this.1, this.2.1, this.2.2.1, this.2.2.2.1,
        (serves_iff_grants cfg r q (ok.shape this.1).1 this.2.2.1 this.2.2.2.1).mp this.2.2.2.2⟩
    | denied _ => simp [hd, Outcome.isServed] at h
    | rejected _ => simp [hd, Outcome.isServed] at h
  · rintro ⟨r, hr, happ, hp, hm, hg⟩
    have hs : r.serves cfg q = true := (serves_iff_grants cfg r q (ok.shape hr).1 hp hm).mpr hg
    have hall : ∀ r' ∈ appRoutes table q.app, r'.filters cfg q = none → r'.serves cfg q = true := by
      intro r' hr' hf
      have hr'' := (mem_appRoutes.mp hr').1
      have hf' := filters_none hf
      have heq : required r' = required r :=
        overlapOk_spec ok.overlap hr'' hr (overlap_of_match hf'.1 hf'.2 hp hm)
      exact (serves_iff_grants cfg r' q (ok.shape hr'').1 hf'.1 hf'.2).mpr (heq ▸ hg)
    obtain ⟨r', h'⟩ := dispatchAux_complete (appRoutes table q.app) [] hall ⟨r, mem_appRoutes.mpr ⟨hr, happ⟩, hs⟩
    simp [dispatch, h', Outcome.isServed]

theorem head_of_match {p : List Seg} {s : String} {ps : List Seg} {x : List String}
    (hp : p = .lit s :: ps) (h : matchPath p x = true) : x.head? = some s := by
  subst hp
  cases x with
  | nil => simp [matchPath] at h
  | cons y ys => simp [matchPath] at h; simp [h.1]

theorem route_head {docs table} (ok : TablesOk docs table) {r : Route} (hr : r ∈ table) :
    ∃ s ps, r.path = .lit s :: ps := by
  have h := ok.heads
  simp only [headsLiteral, Bool.and_eq_true, List.all_eq_true] at h
  have := h.1 r hr
  split at this
  · exact ⟨_, _, by assumption⟩
  · cases this

/-- **a served request had the documented access**: whatever route answered, the requirement that
openapi.yaml (raft: the rule of `raft_routes`' doc comment) states for the *request* is granted. -/
theorem served_has_documented_access {docs table} (ok : TablesOk docs table) (cfg : Cfg) (q : Request) (r : Route)
    (h : dispatch cfg table q = .served r) :
    ∃ req, docReqOfRequest docs q = some req ∧ grants (authenticate cfg q.cred) req = true := by
  obtain ⟨hr, _, hp, hm, hs⟩ := dispatch_served h
  have hshape := ok.shape hr
  have hg := (serves_iff_grants cfg r q hshape.1 hp hm).mp hs
  obtain ⟨s, ps, hps⟩ := route_head ok hr
  have hhead := head_of_match hps hp
  by_cases hraft : q.path.head? = some "raft"
  · -- raft request: the route is a `/raft/…` route, documented by the rule
    have hs' : s = "raft" := by rw [hhead] at hraft; exact Option.some.inj hraft
    have hd := hshape.2
    simp only [docReqOf, isRaftPath, hps, hs', List.head?_cons, beq_self_eq_true, ↓reduceIte] at hd
    refine ⟨raftRule q.method, by simp [docReqOfRequest, hraft], ?_⟩
    rw [← hm, Option.some.inj hd]; exact hg
  · -- documented `/api/…` request
    have hs' : s ≠ "raft" := by rintro rfl; exact hraft hhead
    have hd := hshape.2
    simp only [docReqOf, isRaftPath, hps, List.head?_cons, beq_iff_eq, Option.some.injEq, Seg.lit.injEq, hs',
      ↓reduceIte] at hd
    -- the doc entry of r
    obtain ⟨d, hdfind, hdreq⟩ := Option.map_eq_some_iff.mp hd
    have hdmem := List.mem_of_find?_eq_some hdfind
    have hdp := List.find?_some hdfind
    simp only [Bool.and_eq_true, beq_iff_eq] at hdp
    -- the first doc entry matching the request exists
    have hex : (docs.find? fun d => d.method == q.method && matchPath d.path q.path).isSome = true := by
      rw [List.find?_isSome]
      have hdpath : d.path = r.path := hdp.2.trans hps.symm
      exact ⟨d, hdmem, by simp [hdp.1, hdpath, hm, hp]⟩
    obtain ⟨d', hd'find⟩ := Option.isSome_iff_exists.mp hex
    have hd'mem := List.mem_of_find?_eq_some hd'find
    have hd'p := List.find?_some hd'find
    simp only [Bool.and_eq_true, beq_iff_eq] at hd'p
    refine ⟨d'.req, by simp [docReqOfRequest, hraft, hd'find], ?_⟩
    -- d' is implemented by some route r' (it overlaps r, so it is not one of the excepted operations)
    have himp := List.all_eq_true.mp ok.implemented d' hd'mem
    have huni : unifiable r.path d'.path = true := unifiable_of_match _ _ _ hp hd'p.2
    simp only [Bool.or_eq_true, List.any_eq_true, Bool.and_eq_true, beq_iff_eq, Bool.not_eq_eq_eq_not, Bool.not_true,
      List.all_eq_true] at himp
    rcases himp with ⟨r', hr', hm', hp'⟩ | ⟨_, hnone⟩
    · have hov : overlap r r' = true := by simp [overlap, hm, hm', hd'p.1, hp', huni]
      have hreq : required r = required r' := overlapOk_spec ok.overlap hr hr' hov
      -- the documented requirement of r' is d'.req (docs unambiguous)
      have hshape' := ok.shape hr'
      obtain ⟨s', ps', hps'⟩ := route_head ok hr'
      have hhead' : q.path.head? = some s' := head_of_match (hp' ▸ hps') (hp' ▸ hd'p.2)
      have hs'' : s' ≠ "raft" := by rintro rfl; exact hraft hhead'
      have hd2 := hshape'.2
      simp only [docReqOf, isRaftPath, hps', List.head?_cons, beq_iff_eq, Option.some.injEq, Seg.lit.injEq, hs'',
        ↓reduceIte] at hd2
      obtain ⟨d'', hd''find, hd''req⟩ := Option.map_eq_some_iff.mp hd2
      have hd''mem := List.mem_of_find?_eq_some hd''find
      have hd''p := List.find?_some hd''find
      simp only [Bool.and_eq_true, beq_iff_eq] at hd''p
      have hun := List.all_eq_true.mp (List.all_eq_true.mp ok.unambiguous d' hd'mem) d'' hd''mem
      have hd'path : d'.path = .lit s' :: ps' := hp' ▸ hps'
      have : d'.req = d''.req := by
        have hun' : ¬d'.path = Seg.lit s' :: ps' ∨ d'.req = d''.req := by
          simpa [hm', hp', hd''p.1, hd''p.2, hps'] using hun
        rcases hun' with h1 | h1
        · exact absurd hd'path h1
        · exact h1
      rw [this, hd''req, ← hreq]; exact hg
    · have := hnone r hr
      rw [huni] at this; cases this

/-! ### state -/

theorem step_not_served {σ : Type} (cfg : Cfg) (table : List Route) (h : Route → Request → σ → σ) (s : σ) (q : Request)
    (hn : (dispatch cfg table q).isServed = false) : (step cfg table h s q).1 = s := by
  unfold step
  cases hd : dispatch cfg table q <;> simp_all [Outcome.isServed]

theorem run_filter_served {σ : Type} (cfg : Cfg) (table : List Route) (h : Route → Request → σ → σ) :
    ∀ (s : σ) (qs : List Request),
      run cfg table h s qs = run cfg table h s (qs.filter fun q => (dispatch cfg table q).isServed)
  | _, [] => rfl
  | s, q :: qs => by
    by_cases hq : (dispatch cfg table q).isServed = true
    · simp only [List.filter_cons, hq, ↓reduceIte, run]
      exact run_filter_served cfg table h _ qs
    · have hq' : (dispatch cfg table q).isServed = false := by simpa using hq
      simp only [List.filter_cons, hq', Bool.false_eq_true, ↓reduceIte, run, step_not_served cfg table h s q hq']
      exact run_filter_served cfg table h s qs

/-! ### `authenticate` of the RBAC layer -/

/-- with anonymous access off, a role is only ever obtained from a stored key equal to the provided one -/
theorem authenticate_some_key {c : RbacConfig} {p : Option String} {r : Role}
    (hanon : c.allowAnonymous = false) (h : c.authenticate p = some r) :
    ∃ k, p = some k ∧ (k, r) ∈ c.keys := by
  unfold RbacConfig.authenticate at h
  simp only [hanon, Bool.false_and, Bool.false_eq_true, ↓reduceIte] at h
  cases p with
  | none => simp at h
  | some key =>
    refine ⟨key, rfl, ?_⟩
    have gen : ∀ (l : List (String × Role)) (m : Option Role),
        l.foldl (fun m kr => if kr.1 == key then some kr.2 else m) m = some r →
        m = some r ∨ (key, r) ∈ l := by
      intro l
      induction l with
      | nil => intro m h; exact Or.inl h
      | cons a l ih =>
        intro m h
        rcases ih _ h with h' | h'
        · by_cases ha : a.1 == key
          · simp only [ha, ↓reduceIte, Option.some.injEq] at h'
            right; rw [← h', ← (beq_iff_eq.mp ha)]; exact List.mem_cons_self
          · simp only [ha, Bool.false_eq_true, ↓reduceIte] at h'; exact Or.inl h'
        · exact Or.inr (List.mem_cons_of_mem _ h')
    rcases gen c.keys none h with h' | h'
    · cases h'
    · exact h'

end Varpulis.Rbac
