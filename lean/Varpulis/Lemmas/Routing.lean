import Varpulis.Model.Routing
/-! Lemmas about the routing model (C34). -/
namespace Varpulis.Routing

/-! ### patterns -/

theorem stripStar_iff (pat p : Str) : stripStar pat = some p ↔ pat = p ++ ['*'] := by
  induction pat generalizing p with
  | nil => simp [stripStar]
  | cons c cs ih =>
    cases cs with
    | nil =>
      cases p with
      | nil => simp [stripStar, eq_comm]
      | cons a as => simp [stripStar]
    | cons d ds =>
      cases p with
      | nil => simp [stripStar]
      | cons a as =>
        simp only [stripStar, Option.map_eq_some_iff, List.cons_append, List.cons.injEq]
        constructor
        · rintro ⟨q, hq, rfl, rfl⟩
          exact ⟨rfl, (ih q).1 hq⟩
        · rintro ⟨rfl, h⟩
          exact ⟨as, (ih as).2 h, rfl, rfl⟩

theorem stripStar_none_iff (pat : Str) : stripStar pat = none ↔ ∀ p, pat ≠ p ++ ['*'] := by
  constructor
  · intro h p hp
    rw [(stripStar_iff pat p).2 hp] at h
    cases h
  · intro h
    cases hs : stripStar pat with
    | none => rfl
    | some p => exact absurd ((stripStar_iff pat p).1 hs) (h p)

/-- `event_type_matches`: `*` matches everything, `p*` matches the types that start with `p`,
anything else only itself -/
theorem matchesPat_iff (ty pat : Str) :
    matchesPat ty pat = true ↔
      (∃ p, pat = p ++ ['*'] ∧ p <+: ty) ∨ ((∀ p, pat ≠ p ++ ['*']) ∧ ty = pat) := by
  unfold matchesPat
  by_cases h1 : pat = ['*']
  · subst h1
    simp only [if_true, true_iff]
    exact Or.inl ⟨[], rfl, List.nil_prefix⟩
  · simp only [h1, if_false]
    cases hs : stripStar pat with
    | some p =>
      have hp := (stripStar_iff pat p).1 hs
      simp only [List.isPrefixOf_iff_prefix]
      constructor
      · intro h; exact Or.inl ⟨p, hp, h⟩
      · rintro (⟨q, hq, hpre⟩ | ⟨hno, _⟩)
        · have : p = q := by
            rw [hp] at hq
            exact List.append_cancel_right hq
          subst this; exact hpre
        · exact absurd hp (hno p)
    | none =>
      have hn := (stripStar_none_iff pat).1 hs
      simp only [beq_iff_eq]
      constructor
      · intro h; exact Or.inr ⟨hn, h⟩
      · rintro (⟨q, hq, _⟩ | ⟨_, h⟩)
        · exact absurd hq (hn q)
        · exact h

theorem anyPat_eq_any (ty : Str) (ps : List Str) : anyPat ty ps = ps.any (matchesPat ty) := by
  induction ps with
  | nil => rfl
  | cons p ps ih => simp only [anyPat, List.any_cons, ih]; cases matchesPat ty p <;> simp

/-- a route is *hit* by an event type when one of its patterns matches -/
def Route.hit (ty : Str) (r : Route) : Bool := r.pats.any (matchesPat ty)

theorem findRoute_eq_find (ty : Str) (rs : List Route) :
    findRoute ty rs = (rs.find? (Route.hit ty)).map (·.to) := by
  induction rs with
  | nil => rfl
  | cons r rs ih =>
    simp only [findRoute, anyPat_eq_any, List.find?_cons, Route.hit]
    cases h : r.pats.any (matchesPat ty) <;> simp [ih]

theorem findRoute_some_iff (ty : Str) (rs : List Route) (t : Str) :
    findRoute ty rs = some t ↔
      ∃ pre r post, rs = pre ++ r :: post ∧ (∀ r' ∈ pre, r'.hit ty = false) ∧ r.hit ty = true ∧ r.to = t := by
  rw [findRoute_eq_find]
  simp only [Option.map_eq_some_iff]
  constructor
  · rintro ⟨r, hr, rfl⟩
    obtain ⟨hp, pre, post, hsplit, hpre⟩ := List.find?_eq_some_iff_append.1 hr
    exact ⟨pre, r, post, hsplit, fun r' h' => by simpa using hpre r' h', hp, rfl⟩
  · rintro ⟨pre, r, post, hsplit, hpre, hhit, rfl⟩
    exact ⟨r, List.find?_eq_some_iff_append.2 ⟨hhit, pre, post, hsplit, fun r' h' => by simp [hpre r' h']⟩, rfl⟩

theorem findRoute_none_iff (ty : Str) (rs : List Route) :
    findRoute ty rs = none ↔ ∀ r ∈ rs, r.hit ty = false := by
  rw [findRoute_eq_find]
  simp [List.find?_eq_none]

/-! ### key strings -/

theorem keyStr_agree {F : Type} (fm : Fmt F) (k : Key F) (hk : k.u64Only = false) :
    singleStr fm k = batchStr fm k := by
  cases k with
  | float f => rfl
  | str s => rfl
  | missing => rfl
  | int i =>
    have hk' : ¬ (9223372036854775807 < i ∧ i ≤ 18446744073709551615) := by
      rintro ⟨a, b⟩
      simp [Key.u64Only, i64Max, u64Max, a, b] at hk
    simp only [singleStr, batchStr, singleJson, batchValue, toJson, u64Max, i64Max, i64Min]
    by_cases h0 : 0 ≤ i
    · by_cases h1 : i ≤ 9223372036854775807
      · have h2 : i ≤ 18446744073709551615 := by omega
        have h3 : (-9223372036854775808 : Int) ≤ i := by omega
        simp [h0, h1, h2, h3]
      · have h2 : ¬ i ≤ 18446744073709551615 := by omega
        simp [h0, h1, h2]
    · by_cases h3 : (-9223372036854775808 : Int) ≤ i
      · have h1 : i ≤ 9223372036854775807 := by omega
        simp [h0, h1, h3]
      · simp [h0, h3]

/-! ### round robin -/

/-- number of `i < m` with `i % n = j` -/
def prefCount (n j : Nat) : Nat → Nat
  | 0 => 0
  | m + 1 => prefCount n j m + (if m % n = j then 1 else 0)

theorem count_rrPicks (n j : Nat) : ∀ (k c : Nat),
    (rrPicks n c k).count j + prefCount n j c = prefCount n j (c + k) := by
  intro k
  induction k with
  | zero => intro c; simp [rrPicks]
  | succ k ih =>
    intro c
    have h1 := ih (c + 1)
    have e : c + (k + 1) = c + 1 + k := by omega
    rw [e, ← h1]
    simp only [rrPicks, List.count_cons, prefCount, beq_iff_eq]
    omega

/-- the `prefCount`-th element of the residue class `j` is the first one not below `m` -/
theorem prefCount_bounds (n j : Nat) (hj : j < n) : ∀ m,
    m ≤ j + prefCount n j m * n ∧ j + prefCount n j m * n < m + n := by
  intro m
  induction m with
  | zero => simp [prefCount]; omega
  | succ m ih =>
    obtain ⟨h1, h2⟩ := ih
    simp only [prefCount]
    by_cases hm : m = j + prefCount n j m * n
    · have : m % n = j := by rw [hm, Nat.add_mul_mod_self_right]; exact Nat.mod_eq_of_lt hj
      simp only [this, if_true, Nat.add_mul, Nat.one_mul]
      omega
    · have hne : m % n ≠ j := by
        intro hmod
        have hdm := Nat.div_add_mod m n
        rw [hmod] at hdm
        rcases Nat.lt_or_ge (m / n) (prefCount n j m) with hlt | hge
        · have := Nat.mul_le_mul_right n (Nat.succ_le_of_lt hlt)
          rw [Nat.succ_mul, Nat.mul_comm (m / n) n] at this
          omega
        · have := Nat.mul_le_mul_right n hge
          rw [Nat.mul_comm (m / n) n] at this
          omega
      simp only [hne, if_false, Nat.add_zero]
      omega

/-- **round robin is balanced on every window**: among any `k` consecutive selections, two replicas'
loads differ by at most one -/
theorem rr_window_balanced (n c k j j' : Nat) (hj : j < n) (hj' : j' < n) :
    (rrPicks n c k).count j ≤ (rrPicks n c k).count j' + 1 := by
  have a := count_rrPicks n j k c
  have a' := count_rrPicks n j' k c
  obtain ⟨b1, b2⟩ := prefCount_bounds n j hj c
  obtain ⟨b3, b4⟩ := prefCount_bounds n j hj (c + k)
  obtain ⟨d1, d2⟩ := prefCount_bounds n j' hj' c
  obtain ⟨d3, d4⟩ := prefCount_bounds n j' hj' (c + k)
  apply Nat.le_of_not_lt
  intro hlt
  -- W_j ≥ W_j' + 2
  have hw : prefCount n j' (c + k) + prefCount n j c + 2 ≤ prefCount n j (c + k) + prefCount n j' c := by omega
  have := Nat.mul_le_mul_right n hw
  simp only [Nat.add_mul] at this
  omega

theorem rrPicks_lt (n : Nat) (hn : 0 < n) : ∀ k c, ∀ x ∈ rrPicks n c k, x < n := by
  intro k
  induction k with
  | zero => intro c x hx; simp [rrPicks] at hx
  | succ k ih =>
    intro c x hx
    simp only [rrPicks, List.mem_cons] at hx
    rcases hx with rfl | hx
    · exact Nat.mod_lt _ hn
    · exact ih _ _ hx

theorem rrPicks_length (n : Nat) : ∀ k c, (rrPicks n c k).length = k := by
  intro k; induction k with
  | zero => intro c; rfl
  | succ k ih => intro c; simp [rrPicks, ih]

/-- a run of selections on one replica group, threading the counter (`fetch_add`) -/
def selRun (h : Str → Nat) (rg : RG) : Nat → List Fields → List Str
  | _, [] => []
  | c, f :: fs => (selectReplica h rg c f).1 :: selRun h rg (selectReplica h rg c f).2 fs

theorem selRun_rr (h : Str → Nat) (rg : RG) (hs : rg.strat = .roundRobin) (hne : rg.replicas ≠ []) :
    ∀ (evs : List Fields) (c : Nat),
      selRun h rg c evs = (rrPicks rg.replicas.length c evs.length).map (fun i => rg.replicas.getD i rg.name) := by
  intro evs
  induction evs with
  | nil => intro c; rfl
  | cons f fs ih =>
    intro c
    have he : rg.replicas.isEmpty = false := by cases hr : rg.replicas <;> simp_all
    simp only [selRun, selectReplica, he, hs, List.length_cons, rrPicks, List.map_cons, ih]
    rfl

theorem getD_lt {α : Type} (l : List α) (d : α) (i : Nat) (h : i < l.length) : l.getD i d = l[i] := by
  simp [List.getD, h]

theorem count_map_getD (l : List Str) (d : Str) (hnd : l.Nodup) (j : Nat) (hj : j < l.length) :
    ∀ (picks : List Nat), (∀ x ∈ picks, x < l.length) →
      (picks.map (fun i => l.getD i d)).count (l.getD j d) = picks.count j := by
  intro picks
  induction picks with
  | nil => intro _; rfl
  | cons x xs ih =>
    intro hx
    have hxl : x < l.length := hx x (List.mem_cons_self)
    have ih' := ih (fun y hy => hx y (List.mem_cons_of_mem _ hy))
    simp only [List.map_cons, List.count_cons, ih', beq_iff_eq]
    have : (l.getD x d = l.getD j d) ↔ x = j := by
      rw [getD_lt _ _ _ hxl, getD_lt _ _ _ hj]
      exact List.getElem_inj hnd
    by_cases hxj : x = j
    · rw [if_pos (this.2 hxj), if_pos hxj]
    · rw [if_neg (fun e => hxj (this.1 e)), if_neg hxj]

end Varpulis.Routing
