import Varpulis.Model.TenantStore
namespace Varpulis.TenantStore

theorem lookup_filter_ne {β} (m : List (Nat × β)) (t u : Nat) :
    (m.filter (·.1 ≠ t)).lookup u = if u = t then none else m.lookup u := by
  induction m with
  | nil => simp
  | cons e rest ih =>
    obtain ⟨k, v⟩ := e
    simp only [List.filter_cons, List.lookup_cons]
    by_cases hk : k = t <;> by_cases hu : u = t <;> by_cases huk : u = k <;> simp_all [List.lookup_cons] <;> grind

theorem lookup_setT (m : TMap) (t u : Nat) (x : Tenant) :
    (setT m t x).lookup u = if u = t then some x else m.lookup u := by
  unfold setT
  rw [List.lookup_cons]
  by_cases hu : u = t
  · simp [hu]
  · have : (u == t) = false := by simp [hu]
    rw [this]; simp only [hu, if_false]
    have := lookup_filter_ne m t u
    simpa [hu] using this

theorem lookup_delT (m : TMap) (t u : Nat) :
    (delT m t).lookup u = if u = t then none else m.lookup u := lookup_filter_ne m t u

theorem lookup_recover (s : Store) (u : Nat) :
    (recover s).lookup u = if u ∈ s.index then s.snaps.lookup u else none := by
  unfold recover
  induction s.index with
  | nil => simp
  | cons t rest ih =>
    rw [List.filterMap_cons]
    cases hs : s.snaps.lookup t with
    | none =>
      simp only [Option.map_none]
      rw [ih]
      by_cases hu : u = t
      · subst hu; simp [hs]
      · simp [hu]
    | some x =>
      simp only [Option.map_some]
      rw [List.lookup_cons, ih]
      by_cases hu : u = t
      · subst hu; simp [hs]
      · have : (u == t) = false := by simp [hu]
        simp [this, hu]

/-- same tenants with the same contents -/
def MapEq (a b : TMap) : Prop := ∀ t, a.lookup t = b.lookup t

structure Sync (s : Sys) : Prop where
  nodup : s.store.index.Nodup
  idx : ∀ t, (s.mem.lookup t).isSome → t ∈ s.store.index
  snap : ∀ t, t ∈ s.store.index → s.store.snaps.lookup t = s.mem.lookup t

theorem recover_eq_of_sync (s : Sys) (h : Sync s) : MapEq (recover s.store) s.mem := by
  intro t
  rw [lookup_recover]
  by_cases ht : t ∈ s.store.index
  · simp [ht, h.snap t ht]
  · simp only [ht, if_false]
    have := mt (h.idx t) ht
    cases hl : s.mem.lookup t <;> simp_all

theorem filterMap_keys_nodup (snaps : TMap) (idx : List Nat) (h : idx.Nodup) :
    ((idx.filterMap fun t => (snaps.lookup t).map fun x => (t, x)).map (·.1)).Nodup := by
  induction idx with
  | nil => simp
  | cons t rest ih =>
    simp at h
    rw [List.filterMap_cons]
    cases hs : snaps.lookup t with
    | none => simp only [Option.map_none]; exact ih h.2
    | some x =>
      simp only [Option.map_some, List.map_cons, List.nodup_cons]
      refine ⟨?_, ih h.2⟩
      intro hm
      simp only [List.mem_map, List.mem_filterMap] at hm
      obtain ⟨e, ⟨u, hu, he⟩, het⟩ := hm
      cases hl : snaps.lookup u with
      | none => simp [hl] at he
      | some y => simp [hl] at he; subst he; simp at het; subst het; exact h.1 hu

theorem recover_keys_nodup (s : Store) (h : s.index.Nodup) : ((recover s).map (·.1)).Nodup :=
  filterMap_keys_nodup s.snaps s.index h


/-- every accepted non-remove operation rewrites exactly its tenant's entry -/
theorem applyMem_persist_shape (m m' : TMap) (op : Op) (h : applyMem m op = some m')
    (hop : ∀ t, op ≠ .removeTenant t) : ∃ x, m' = setT m (opTenant op) x := by
  cases op with
  | removeTenant t => exact absurd rfl (hop t)
  | createTenant t name key =>
    simp only [applyMem] at h
    split at h
    · simp at h
    · exact ⟨_, (Option.some.inj h).symm⟩
  | deploy t pid name src =>
    simp only [applyMem] at h
    split at h
    · split at h
      · simp at h
      · exact ⟨_, (Option.some.inj h).symm⟩
    · simp at h
  | deletePipe t pid =>
    simp only [applyMem] at h
    split at h
    · split at h
      · exact ⟨_, (Option.some.inj h).symm⟩
      · simp at h
    · simp at h
  | reload t pid src =>
    simp only [applyMem] at h
    split at h
    · split at h
      · exact ⟨_, (Option.some.inj h).symm⟩
      · simp at h
    · simp at h

theorem writes_persist (m : TMap) (op : Op) (x : Tenant) (hop : ∀ t, op ≠ .removeTenant t) :
    writes (setT m (opTenant op) x) op = [.putSnap (opTenant op) x, .indexAdd (opTenant op)] := by
  cases op with
  | removeTenant t => exact absurd rfl (hop t)
  | _ => simp [writes, opTenant, lookup_setT]


theorem mem_indexAdd (idx : List Nat) (t u : Nat) :
    u ∈ (if t ∈ idx then idx else idx ++ [t]) ↔ u ∈ idx ∨ u = t := by
  by_cases h : t ∈ idx
  · simp only [h, if_true]
    constructor
    · exact Or.inl
    · rintro (h' | rfl)
      · exact h'
      · exact h
  · simp [h]

theorem nodup_indexAdd (idx : List Nat) (t : Nat) (h : idx.Nodup) :
    (if t ∈ idx then idx else idx ++ [t]).Nodup := by
  by_cases hc : t ∈ idx
  · simp [hc, h]
  · simp only [hc, if_false]
    rw [List.nodup_append]
    refine ⟨h, by simp, ?_⟩
    intro a ha b hb
    simp at hb; subst hb
    intro hab; subst hab
    exact hc ha

/-- persist-type operation, all writes done -/
theorem sync_persist (s : Sys) (hs : Sync s) (t : Nat) (x : Tenant) :
    Sync { mem := setT s.mem t x, store := ([Write.putSnap t x, Write.indexAdd t]).foldl Store.apply s.store } := by
  have hst : ([Write.putSnap t x, Write.indexAdd t]).foldl Store.apply s.store
      = { snaps := setT s.store.snaps t x, index := if t ∈ s.store.index then s.store.index else s.store.index ++ [t] } := rfl
  rw [hst]
  refine ⟨nodup_indexAdd _ _ hs.nodup, ?_, ?_⟩
  · intro u
    show ((setT s.mem t x).lookup u).isSome → u ∈ (if t ∈ s.store.index then s.store.index else s.store.index ++ [t])
    rw [mem_indexAdd, lookup_setT]
    by_cases hu : u = t
    · simp [hu]
    · simp only [hu, if_false]; exact fun h => Or.inl (hs.idx u h)
  · intro u hu
    show (setT s.store.snaps t x).lookup u = (setT s.mem t x).lookup u
    have hu' : u ∈ s.store.index ∨ u = t := (mem_indexAdd _ _ _).1 hu
    rw [lookup_setT, lookup_setT]
    by_cases hut : u = t
    · simp [hut]
    · simp only [hut, if_false]
      rcases hu' with hu' | hu'
      · exact hs.snap u hu'
      · exact absurd hu' hut

theorem sync_remove (s : Sys) (hs : Sync s) (t : Nat) :
    Sync { mem := delT s.mem t, store := ([Write.delSnap t, Write.indexRemove t]).foldl Store.apply s.store } := by
  simp only [List.foldl, Store.apply]
  refine ⟨hs.nodup.filter _, ?_, ?_⟩
  · intro u
    simp only [List.mem_filter, lookup_delT]
    by_cases hu : u = t
    · simp [hu]
    · simp only [hu, if_false]; exact fun h => ⟨hs.idx u h, by simpa using hu⟩
  · intro u hu
    simp only [List.mem_filter] at hu
    have hut : u ≠ t := by simpa using hu.2
    simp only [lookup_delT, hut, if_false]
    exact hs.snap u hu.1

theorem step_sync (s : Sys) (hs : Sync s) (op : Op) : Sync (step s op) := by
  unfold step
  cases h : applyMem s.mem op with
  | none => exact hs
  | some m' =>
    simp only
    by_cases hop : ∃ t, op = .removeTenant t
    · obtain ⟨t, rfl⟩ := hop
      simp only [applyMem] at h
      cases hl : s.mem.lookup t with
      | none => simp [hl] at h
      | some y =>
        simp [hl] at h; subst h
        exact sync_remove s hs t
    · have hop' : ∀ t, op ≠ .removeTenant t := fun t ht => hop ⟨t, ht⟩
      obtain ⟨x, rfl⟩ := applyMem_persist_shape _ _ _ h hop'
      rw [writes_persist _ _ _ hop']
      exact sync_persist s hs _ x

theorem sync_init : Sync {} := ⟨by simp, by intro t h; simp at h, by intro t h; simp at h⟩

theorem run_sync (ops : List Op) : Sync (run ops) := by
  unfold run
  suffices ∀ s, Sync s → Sync (ops.foldl step s) from this _ sync_init
  induction ops with
  | nil => intro s hs; exact hs
  | cons op rest ih => intro s hs; exact ih _ (step_sync s hs op)

/-- crash after any number of store writes of one operation: the recovered metadata is the
acknowledged state, or the acknowledged state with the in-flight operation applied -/
theorem crash_atomic (s : Sys) (hs : Sync s) (op : Op) (n : Nat) :
    MapEq (recover (crashStore s op n)) s.mem ∨
    ∃ m', applyMem s.mem op = some m' ∧ MapEq (recover (crashStore s op n)) m' := by
  unfold crashStore
  cases h : applyMem s.mem op with
  | none => exact Or.inl (recover_eq_of_sync s hs)
  | some m' =>
    simp only
    by_cases hop : ∃ t, op = .removeTenant t
    · obtain ⟨t, rfl⟩ := hop
      simp only [applyMem] at h
      cases hl : s.mem.lookup t with
      | none => simp [hl] at h
      | some y =>
        simp [hl] at h; subst h
        simp only [writes]
        match n with
        | 0 => exact Or.inl (recover_eq_of_sync s hs)
        | 1 =>
          refine Or.inr ⟨_, rfl, ?_⟩
          intro u
          simp only [List.take, List.foldl, Store.apply, lookup_recover, lookup_delT]
          by_cases hu : u ∈ s.store.index
          · simp only [hu, if_true]
            by_cases hut : u = t
            · simp [hut]
            · simp only [hut, if_false]; exact hs.snap u hu
          · simp only [hu, if_false]
            have := mt (hs.idx u) hu
            by_cases hut : u = t
            · simp [hut]
            · simp only [hut, if_false]
              cases hl2 : s.mem.lookup u <;> simp_all
        | k + 2 =>
          refine Or.inr ⟨_, rfl, ?_⟩
          have : List.take (k + 2) [Write.delSnap t, Write.indexRemove t] = [Write.delSnap t, Write.indexRemove t] := by
            simp [List.take]
          rw [this]
          exact recover_eq_of_sync _ (sync_remove s hs t)
    · have hop' : ∀ t, op ≠ .removeTenant t := fun t ht => hop ⟨t, ht⟩
      obtain ⟨x, rfl⟩ := applyMem_persist_shape _ _ _ h hop'
      rw [writes_persist _ _ _ hop']
      match n with
      | 0 => exact Or.inl (recover_eq_of_sync s hs)
      | 1 =>
        by_cases ht : opTenant op ∈ s.store.index
        · refine Or.inr ⟨_, rfl, ?_⟩
          intro u
          simp only [List.take, List.foldl, Store.apply, lookup_recover, lookup_setT]
          by_cases hu : u ∈ s.store.index
          · simp only [hu, if_true]
            by_cases hut : u = opTenant op
            · simp [hut]
            · simp only [hut, if_false]; exact hs.snap u hu
          · simp only [hu, if_false]
            have hne : u ≠ opTenant op := fun e => hu (e ▸ ht)
            have := mt (hs.idx u) hu
            simp only [hne, if_false]
            cases hl2 : s.mem.lookup u <;> simp_all
        · refine Or.inl ?_
          intro u
          simp only [List.take, List.foldl, Store.apply, lookup_recover, lookup_setT]
          by_cases hu : u ∈ s.store.index
          · have hne : u ≠ opTenant op := fun e => ht (e ▸ hu)
            simp only [hu, if_true, hne, if_false]; exact hs.snap u hu
          · simp only [hu, if_false]
            have := mt (hs.idx u) hu
            cases hl2 : s.mem.lookup u <;> simp_all
      | k + 2 =>
        refine Or.inr ⟨_, rfl, ?_⟩
        have : List.take (k + 2) [Write.putSnap (opTenant op) x, Write.indexAdd (opTenant op)]
            = [Write.putSnap (opTenant op) x, Write.indexAdd (opTenant op)] := by simp [List.take]
        rw [this]
        exact recover_eq_of_sync _ (sync_persist s hs _ x)



/-! ### histories with several crashes -/

theorem apply_index_nodup (st : Store) (w : Write) (h : st.index.Nodup) : (st.apply w).index.Nodup := by
  cases w with
  | putSnap t x => exact h
  | delSnap t => exact h
  | indexAdd t => exact nodup_indexAdd _ _ h
  | indexRemove t => exact h.filter _

theorem foldl_apply_index_nodup (ws : List Write) (st : Store) (h : st.index.Nodup) :
    (ws.foldl Store.apply st).index.Nodup := by
  induction ws generalizing st with
  | nil => exact h
  | cons w rest ih => exact ih _ (apply_index_nodup st w h)

/-- a server restarted on ANY store (duplicate-free index) is in sync with it -/
theorem sync_of_restart (st : Store) (h : st.index.Nodup) : Sync { mem := recover st, store := st } := by
  refine ⟨h, ?_, ?_⟩
  · intro t ht
    rw [lookup_recover] at ht
    by_cases hi : t ∈ st.index
    · exact hi
    · simp [hi] at ht
  · intro t ht
    show st.snaps.lookup t = (recover st).lookup t
    rw [lookup_recover]; simp [ht]

theorem crashStore_index_nodup (s : Sys) (hs : Sync s) (op : Op) (n : Nat) : (crashStore s op n).index.Nodup := by
  unfold crashStore
  cases applyMem s.mem op with
  | none => exact hs.nodup
  | some m' => exact foldl_apply_index_nodup _ _ hs.nodup

/-- an event of a history: an acknowledged-or-rejected operation, or an operation interrupted
after `n` store writes followed by a restart (recover) -/
inductive Ev where
  | op (o : Op)
  | crash (o : Op) (n : Nat)

def stepEv (s : Sys) : Ev → Sys
  | .op o => step s o
  | .crash o n => { mem := recover (crashStore s o n), store := crashStore s o n }

def runEv (evs : List Ev) : Sys := evs.foldl stepEv {}

theorem runEv_sync (evs : List Ev) : Sync (runEv evs) := by
  unfold runEv
  suffices ∀ s, Sync s → Sync (evs.foldl stepEv s) from this _ sync_init
  induction evs with
  | nil => intro s hs; exact hs
  | cons e rest ih =>
    intro s hs
    apply ih
    cases e with
    | op o => exact step_sync s hs o
    | crash o n => exact sync_of_restart _ (crashStore_index_nodup s hs o n)

end Varpulis.TenantStore
