import Varpulis.Model.RaftSync
/-! Lemmas for C38 (Props/C38.lean): association lists, frame properties of the local updates and of
`apply_command`, the decidable forms of `CompSync` / `NoRevert`, `sync` and the per-operation preservation
of every component of the view that is not listed in `knownCell`. -/
namespace Varpulis.RaftSync
variable {V : Type}

/-! ## association lists -/

theorem AMap.get_nil (k : String) : AMap.get ([] : AMap V) k = none := rfl

theorem AMap.get_cons (e : String × V) (m : AMap V) (k : String) :
    AMap.get (e :: m) k = if e.1 = k then some e.2 else AMap.get m k := by
  unfold AMap.get
  by_cases h : e.1 = k <;> simp [h]

theorem AMap.get_filter_ne (m : AMap V) (k k' : String) :
    AMap.get (m.filter (fun e => e.1 != k)) k' = if k' = k then none else AMap.get m k' := by
  induction m with
  | nil => simp [AMap.get]
  | cons e m ih =>
    by_cases h : e.1 = k
    · simp only [List.filter_cons, h, bne_self_eq_false, Bool.false_eq_true, ↓reduceIte, ih, AMap.get_cons]
      by_cases h2 : k' = k <;> simp [h2]
      intro h3; exact absurd h3.symm h2
    · have : (e.1 != k) = true := by simp [h]
      simp only [List.filter_cons, this, ↓reduceIte, AMap.get_cons, ih]
      by_cases h2 : k' = k
      · subst h2; simp [h]
      · simp [h2]

theorem AMap.get_put (m : AMap V) (k k' : String) (v : V) :
    (m.put k v).get k' = if k' = k then some v else m.get k' := by
  unfold AMap.put
  rw [AMap.get_cons, AMap.get_filter_ne]
  by_cases h : k' = k
  · simp [h]
  · simp [h]; intro h2; exact absurd h2.symm h

theorem AMap.get_del (m : AMap V) (k k' : String) :
    (m.del k).get k' = if k' = k then none else m.get k' := AMap.get_filter_ne m k k'

theorem AMap.get_mapVals (m : AMap V) {W : Type} (F : String → V → W) (k : String) :
    AMap.get (m.map fun e => (e.1, F e.1 e.2)) k = (m.get k).map (F k) := by
  induction m with
  | nil => rfl
  | cons e m ih =>
    simp only [List.map_cons, AMap.get_cons, ih]
    by_cases h : e.1 = k
    · subst h; simp
    · simp [h]

theorem AMap.get_upd (m : AMap V) (k k' : String) (f : V → V) :
    (m.upd k f).get k' = if k' = k then (m.get k').map f else m.get k' := by
  induction m with
  | nil => simp [AMap.upd, AMap.get]
  | cons e m ih =>
    unfold AMap.upd at ih ⊢
    simp only [List.map_cons, AMap.get_cons, ih]
    by_cases h : e.1 = k <;> by_cases h2 : e.1 = k' <;> by_cases h3 : k' = k <;> simp_all

theorem AMap.get_eq_none_of_not_mem (m : AMap V) (k : String) (h : k ∉ m.keys) : m.get k = none := by
  induction m with
  | nil => rfl
  | cons e m ih =>
    simp only [AMap.keys, List.map_cons, List.mem_cons, not_or] at h
    rw [AMap.get_cons]
    simp [Ne.symm h.1]
    exact ih h.2

theorem AMap.mem_keys_of_get (m : AMap V) (k : String) (v : V) (h : m.get k = some v) : k ∈ m.keys := by
  by_cases hk : k ∈ m.keys
  · exact hk
  · rw [AMap.get_eq_none_of_not_mem m k hk] at h; cases h

/-- a statement about all keys is decided on the keys that occur -/
theorem forall_keys_iff {A B : Type} (m1 : AMap A) (m2 : AMap B) (P : Option A → Option B → Bool)
    (h0 : P none none = true) :
    ((m1.keys ++ m2.keys).all fun k => P (m1.get k) (m2.get k)) = true ↔ ∀ k, P (m1.get k) (m2.get k) = true := by
  constructor
  · intro h k
    by_cases hk : k ∈ m1.keys ++ m2.keys
    · exact List.all_eq_true.1 h k hk
    · simp only [List.mem_append, not_or] at hk
      rw [AMap.get_eq_none_of_not_mem m1 k hk.1, AMap.get_eq_none_of_not_mem m2 k hk.2]; exact h0
  · intro h; exact List.all_eq_true.2 fun k _ => h k

/-- iterated idempotent update -/
theorem AMap.get_foldl_upd (ids : List String) (f : V → V) (hf : ∀ v, f (f v) = f v) (m : AMap V) (k : String) :
    (ids.foldl (fun acc i => acc.upd i f) m).get k = if k ∈ ids then (m.get k).map f else m.get k := by
  induction ids generalizing m with
  | nil => simp
  | cons i ids ih =>
    simp only [List.foldl_cons, ih, AMap.get_upd, List.mem_cons]
    by_cases h1 : k = i <;> by_cases h2 : k ∈ ids <;> simp [h1, h2]
    · cases m.get i <;> simp [hf]
    · subst h1; simp [h2]

/-- putting every entry of `m`, last entry first, makes the first entry of each key win: the result reads
like `m` on `m`'s keys and like the old map elsewhere -/
theorem AMap.get_foldl_put_reverse (m : AMap V) (r : AMap V) (k : String) :
    (m.reverse.foldl (fun acc e => acc.put e.1 e.2) r).get k = if k ∈ m.keys then m.get k else r.get k := by
  induction m with
  | nil => simp [AMap.keys]
  | cons e m ih =>
    simp only [List.reverse_cons, List.foldl_append, List.foldl_cons, List.foldl_nil, AMap.get_put, ih,
      AMap.keys, List.map_cons, List.mem_cons, AMap.get_cons]
    by_cases h : k = e.1
    · simp [h]
    · have h' : ¬ e.1 = k := fun x => h x.symm
      simp [h']
      by_cases h2 : k ∈ List.map (fun x => x.fst) m <;> simp [h, h2]
end Varpulis.RaftSync

namespace Varpulis.RaftSync

theorem mem_dedup (l : List String) (x : String) : x ∈ dedup l ↔ x ∈ l := by
  induction l with
  | nil => simp [dedup]
  | cons y ys ih =>
    simp only [dedup, List.mem_cons, List.mem_filter, ih]
    by_cases h : x = y <;> simp [h]

/-! ## projections of the two worker maps -/

/-- a worker map seen through a projection of its values -/
def proj {W α : Type} (P : W → α) (ws : AMap W) : String → Option α := fun id => (ws.get id).map P

theorem proj_upd {W α : Type} (P : W → α) (ws : AMap W) (k : String) (f : W → W) (hf : ∀ w, P (f w) = P w) :
    proj P (ws.upd k f) = proj P ws := by
  funext id
  simp only [proj, AMap.get_upd]
  by_cases h : id = k
  · simp only [h, ↓reduceIte, Option.map_map]; congr 1; funext w; exact hf w
  · simp [h]

theorem proj_foldl_upd {W α T : Type} (P : W → α) (key : T → String) (g : T → W → W) (hg : ∀ t w, P (g t w) = P w)
    (ts : List T) (ws : AMap W) : proj P (ts.foldl (fun acc t => acc.upd (key t) (g t)) ws) = proj P ws := by
  induction ts generalizing ws with
  | nil => rfl
  | cons t ts ih => simp only [List.foldl_cons]; rw [ih, proj_upd P ws _ _ (hg t)]

theorem proj_mapVals {W α : Type} (P : W → α) (ws : AMap W) (F : String → W → W) (hF : ∀ k w, P (F k w) = P w) :
    proj P (ws.map fun e => (e.1, F e.1 e.2)) = proj P ws := by
  funext id
  simp only [proj, AMap.get_mapVals, Option.map_map]; congr 1; funext w; exact hF id w

def LWorker.book (w : LWorker) : List String × Nat × Nat := (w.assigned, w.running, w.events)
def RWorker.book (w : RWorker) : List String × Nat × Nat := (w.assigned, w.running, w.events)
def RWorker.st (w : RWorker) : WStatus := parseStatus w.status

@[simp] theorem push_static (n : String) (w : LWorker) : (w.push n).static = w.static := rfl
@[simp] theorem pop_static (n : String) (w : LWorker) : (w.pop n).static = w.static := rfl
@[simp] theorem push_status (n : String) (w : LWorker) : (w.push n).status = w.status := rfl
@[simp] theorem pop_status (n : String) (w : LWorker) : (w.pop n).status = w.status := rfl

/-! ## the components, as relations between projections -/

/-- the two sides agree wherever both are defined -/
def Agree {α : Type} (a b : Option α) : Prop := ∀ x y, a = some x → b = some y → x = y

theorem compSync_wset (l : LState) (r : RState) :
    CompSync .wset l r ↔ proj LWorker.static l.workers = proj RWorker.static r.workers :=
  ⟨fun h => funext h, fun h id => congrFun h id⟩

theorem compSync_status (l : LState) (r : RState) :
    CompSync .status l r ↔ ∀ id, Agree (proj LWorker.status l.workers id) (proj RWorker.st r.workers id) := by
  constructor
  · intro h id x y hx hy
    simp only [proj, Option.map_eq_some_iff] at hx hy
    obtain ⟨w, hw, rfl⟩ := hx
    obtain ⟨e, he, rfl⟩ := hy
    exact h id w e hw he
  · intro h id w e hw he
    exact h id w.status (parseStatus e.status) (by simp [proj, hw]) (by simp [proj, he, RWorker.st])

theorem compSync_book (l : LState) (r : RState) :
    CompSync .book l r ↔ ∀ id, Agree (proj LWorker.book l.workers id) (proj RWorker.book r.workers id) := by
  constructor
  · intro h id x y hx hy
    simp only [proj, Option.map_eq_some_iff] at hx hy
    obtain ⟨w, hw, rfl⟩ := hx
    obtain ⟨e, he, rfl⟩ := hy
    obtain ⟨h1, h2, h3⟩ := h id w e hw he
    simp [LWorker.book, RWorker.book, h1, h2, h3]
  · intro h id w e hw he
    have := h id w.book e.book (by simp [proj, hw]) (by simp [proj, he])
    simpa [LWorker.book, RWorker.book] using this

/-- frame rule: a component whose projections are untouched on both sides stays synchronised -/
theorem compSync_frame_workers {α : Type} (c : Comp) (l l' : LState) (r r' : RState)
    (PL : LWorker → α) (PR : RWorker → α)
    (hc : ∀ l r, CompSync c l r ↔ ∀ id, Agree (proj PL l.workers id) (proj PR r.workers id))
    (hl : proj PL l'.workers = proj PL l.workers) (hr : proj PR r'.workers = proj PR r.workers)
    (h : CompSync c l r) : CompSync c l' r' := by
  rw [hc] at h ⊢; rw [hl, hr]; exact h

theorem wset_frame (l l' : LState) (r r' : RState)
    (hl : proj LWorker.static l'.workers = proj LWorker.static l.workers)
    (hr : proj RWorker.static r'.workers = proj RWorker.static r.workers)
    (h : CompSync .wset l r) : CompSync .wset l' r' := by
  rw [compSync_wset] at h ⊢; rw [hl, hr]; exact h

theorem status_frame (l l' : LState) (r r' : RState)
    (hl : proj LWorker.status l'.workers = proj LWorker.status l.workers)
    (hr : proj RWorker.st r'.workers = proj RWorker.st r.workers)
    (h : CompSync .status l r) : CompSync .status l' r' :=
  compSync_frame_workers .status l l' r r' _ _ compSync_status hl hr h

theorem book_frame (l l' : LState) (r r' : RState)
    (hl : proj LWorker.book l'.workers = proj LWorker.book l.workers)
    (hr : proj RWorker.book r'.workers = proj RWorker.book r.workers)
    (h : CompSync .book l r) : CompSync .book l' r' :=
  compSync_frame_workers .book l l' r r' _ _ compSync_book hl hr h

end Varpulis.RaftSync
namespace Varpulis.RaftSync

/-! ## frame properties of the local updates -/

/-- a projection of a worker that the bookkeeping updates `push` / `pop` do not change -/
def BookFree {α : Type} (P : LWorker → α) : Prop := (∀ n w, P (LWorker.push n w) = P w) ∧ (∀ n w, P (LWorker.pop n w) = P w)

theorem bookFree_static : BookFree LWorker.static := ⟨fun _ _ => rfl, fun _ _ => rfl⟩
theorem bookFree_status : BookFree LWorker.status := ⟨fun _ _ => rfl, fun _ _ => rfl⟩

theorem applyMigration_proj {α : Type} (P : LWorker → α) (hP : BookFree P) (l : LState) (p : MigPlan) (pid : String) :
    proj P (applyMigration l p pid).workers = proj P l.workers := by
  simp only [applyMigration]
  rw [proj_upd P _ _ _ (hP.2 _), proj_upd P _ _ _ (hP.1 _)]

theorem applyMigration_rest (l : LState) (p : MigPlan) (pid : String) :
    (applyMigration l p pid).connectors = l.connectors ∧ (applyMigration l p pid).policy = l.policy ∧
    (applyMigration l p pid).timeout = l.timeout := ⟨rfl, rfl, rfl⟩

theorem applyMigration_groups_other (l : LState) (p : MigPlan) (pid : String) (g : String) (h : g ≠ p.g) :
    (applyMigration l p pid).groups.get g = l.groups.get g := by
  simp only [applyMigration]
  cases l.groups.get p.g <;> simp [AMap.get_put, h]

theorem applyMigration_groups_isSome (l : LState) (p : MigPlan) (pid : String) (g : String) :
    ((applyMigration l p pid).groups.get g).isSome = (l.groups.get g).isSome := by
  by_cases h : g = p.g
  · subst h
    simp only [applyMigration]
    cases hg : l.groups.get p.g <;> simp [AMap.get_put, hg]
  · rw [applyMigration_groups_other l p pid g h]

theorem migrateAtomic_proj {α : Type} (P : LWorker → α) (hP : BookFree P) (l : LState) (m : Mig) :
    proj P (migrateAtomic l m).1.workers = proj P l.workers := by
  unfold migrateAtomic
  split
  · rfl
  · split
    · split
      · exact applyMigration_proj P hP _ _ _
      · rfl
    · rfl

theorem migrateAtomic_rest (l : LState) (m : Mig) :
    (migrateAtomic l m).1.connectors = l.connectors ∧ (migrateAtomic l m).1.policy = l.policy ∧
    (migrateAtomic l m).1.timeout = l.timeout := by
  unfold migrateAtomic
  split
  · exact ⟨rfl, rfl, rfl⟩
  · split
    · split
      · exact ⟨rfl, rfl, rfl⟩
      · exact ⟨rfl, rfl, rfl⟩
    · exact ⟨rfl, rfl, rfl⟩

theorem migrateAtomic_groups_isSome (l : LState) (m : Mig) (g : String) :
    ((migrateAtomic l m).1.groups.get g).isSome = (l.groups.get g).isSome := by
  unfold migrateAtomic
  split
  · rfl
  · split
    · split
      · exact applyMigration_groups_isSome _ _ _ _
      · rfl
    · rfl

theorem migrateAtomic_false (l : LState) (m : Mig) (h : (migrateAtomic l m).2 = false) : (migrateAtomic l m).1 = l := by
  unfold migrateAtomic at h ⊢
  split
  · rfl
  · split
    · split
      · simp_all
      · rfl
    · rfl

theorem migrateAll_spec {α : Type} (P : LWorker → α) (hP : BookFree P) (ms : List Mig) (l : LState) (b : Bool) :
    let r := ms.foldl (fun acc m => let x := migrateAtomic acc.1 m; (x.1, acc.2 || x.2)) (l, b)
    proj P r.1.workers = proj P l.workers ∧ r.1.connectors = l.connectors ∧ r.1.policy = l.policy ∧
    r.1.timeout = l.timeout ∧ (∀ g, (r.1.groups.get g).isSome = (l.groups.get g).isSome) ∧
    (r.2 = false → r.1 = l ∧ b = false) := by
  induction ms generalizing l b with
  | nil => simp
  | cons m ms ih =>
    simp only [List.foldl_cons]
    have := ih (migrateAtomic l m).1 (b || (migrateAtomic l m).2)
    simp only at this
    obtain ⟨h1, h2, h3, h4, h5, h6⟩ := this
    refine ⟨by rw [h1, migrateAtomic_proj P hP], by rw [h2, (migrateAtomic_rest l m).1],
      by rw [h3, (migrateAtomic_rest l m).2.1], by rw [h4, (migrateAtomic_rest l m).2.2],
      fun g => by rw [h5, migrateAtomic_groups_isSome], ?_⟩
    intro hf
    obtain ⟨e1, e2⟩ := h6 hf
    simp only [Bool.or_eq_false_iff] at e2
    exact ⟨by rw [e1, migrateAtomic_false l m e2.2], e2.1⟩

theorem migrateAll_proj {α : Type} (P : LWorker → α) (hP : BookFree P) (l : LState) (ms : List Mig) :
    proj P (migrateAll l ms).1.workers = proj P l.workers := (migrateAll_spec P hP ms l false).1

theorem migrateAll_rest (l : LState) (ms : List Mig) :
    (migrateAll l ms).1.connectors = l.connectors ∧ (migrateAll l ms).1.policy = l.policy ∧
    (migrateAll l ms).1.timeout = l.timeout :=
  let h := migrateAll_spec LWorker.static bookFree_static ms l false
  ⟨h.2.1, h.2.2.1, h.2.2.2.1⟩

theorem migrateAll_groups_isSome (l : LState) (ms : List Mig) (g : String) :
    ((migrateAll l ms).1.groups.get g).isSome = (l.groups.get g).isSome :=
  (migrateAll_spec LWorker.static bookFree_static ms l false).2.2.2.2.1 g

theorem migrateAll_false (l : LState) (ms : List Mig) (h : (migrateAll l ms).2 = false) : (migrateAll l ms).1 = l :=
  ((migrateAll_spec LWorker.static bookFree_static ms l false).2.2.2.2.2 h).1

theorem commitDeploy_proj {α : Type} (P : LWorker → α) (hP : BookFree P) (l : LState) (g name : String) (rs : List DRes) :
    proj P (commitDeploy l g name rs).workers = proj P l.workers := by
  have key : ∀ (rs : List DRes) (acc : GroupV × AMap LWorker),
      proj P (rs.foldl commitResult acc).2 = proj P acc.2 := by
    intro rs
    induction rs with
    | nil => intro acc; rfl
    | cons r rs ih =>
      intro acc
      simp only [List.foldl_cons]
      rw [ih]
      unfold commitResult
      split
      · exact proj_upd P _ _ _ (hP.1 _)
      · rfl
  simp only [commitDeploy]
  exact key rs _

theorem commitDeploy_groups (l : LState) (g name : String) (rs : List DRes) :
    ∃ grp, (commitDeploy l g name rs).groups = l.groups.put g grp := ⟨_, rfl⟩

theorem commitTeardown_proj {α : Type} (P : LWorker → α) (hP : BookFree P) (l : LState) (g : String) (ts : List (String × String)) :
    proj P (commitTeardown l g ts).workers = proj P l.workers :=
  proj_foldl_upd P (fun t : String × String => t.2) (fun t => LWorker.pop t.1) (fun t w => hP.2 t.1 w) ts l.workers

theorem commitMigrate_proj {α : Type} (P : LWorker → α) (hP : BookFree P) (l : LState) (p : MigPlan) (pid : String) (ok : Bool) :
    proj P (commitMigrate l p pid ok).workers = proj P l.workers := by
  unfold commitMigrate; split
  · exact applyMigration_proj P hP _ _ _
  · rfl

end Varpulis.RaftSync
namespace Varpulis.RaftSync

/-! ## frame properties of `apply_command` -/

@[simp] theorem applyAll_nil (s : RState) : applyAll s [] = s := rfl
@[simp] theorem applyAll_cons (s : RState) (c : Cmd) (cs : List Cmd) : applyAll s (c :: cs) = applyAll (applyCmd s c) cs := rfl

theorem applyAll_inv {α : Type} (f : RState → α) (cs : List Cmd) (h : ∀ c ∈ cs, ∀ s, f (applyCmd s c) = f s) (s : RState) :
    f (applyAll s cs) = f s := by
  induction cs generalizing s with
  | nil => rfl
  | cons c cs ih =>
    rw [applyAll_cons, ih (fun c hc => h c (List.mem_cons_of_mem _ hc)), h c List.mem_cons_self]

/-- status proposals for a list of ids -/
theorem applyAll_status (ids : List String) (st : String) (s : RState) :
    applyAll s (ids.map fun id => .workerStatusChanged id st) =
      { s with workers := ids.foldl (fun acc i => acc.upd i fun w => { w with status := st }) s.workers } := by
  induction ids generalizing s with
  | nil => rfl
  | cons i ids ih => simp only [List.map_cons, applyAll_cons, ih, applyCmd, List.foldl_cons]

/-- `GroupUpdated` for every entry of a group map, last entry first -/
theorem applyAll_groupsUpdated (m : AMap GroupV) (s : RState) :
    applyAll s (m.reverse.map fun e => .groupUpdated e.1 e.2) =
      { s with groups := m.reverse.foldl (fun acc e => acc.put e.1 e.2) s.groups } := by
  generalize m.reverse = xs
  induction xs generalizing s with
  | nil => rfl
  | cons e xs ih => simp only [List.map_cons, applyAll_cons, ih, applyCmd, List.foldl_cons]

end Varpulis.RaftSync
namespace Varpulis.RaftSync

/-! ## per-operation preservation -/

theorem parseStatus_ready : parseStatus "ready" = .ready := by decide
theorem parseStatus_unhealthy : parseStatus "unhealthy" = .unhealthy := by decide

theorem pres_register (s : Sys) (id addr : String) (cpu running maxP now : Nat) (c : Comp)
    (h : CompSync c s.l s.r) :
    CompSync c (step s (.register id addr cpu running maxP now)).l (step s (.register id addr cpu running maxP now)).r := by
  simp only [step, stepL, emits, applyAll_cons, applyAll_nil, applyCmd]
  cases c with
  | wset =>
    intro k
    simp only [AMap.get_put]
    by_cases hk : k = id
    · simp [hk, LWorker.static, RWorker.static]
    · simpa [hk] using h k
  | status =>
    intro k w e hw he
    simp only [AMap.get_put] at hw he
    by_cases hk : k = id
    · simp only [hk, ↓reduceIte, Option.some.injEq] at hw he
      subst hw he; exact parseStatus_ready.symm
    · simp only [hk, ↓reduceIte] at hw he; exact h k w e hw he
  | book =>
    intro k w e hw he
    simp only [AMap.get_put] at hw he
    by_cases hk : k = id
    · simp only [hk, ↓reduceIte, Option.some.injEq] at hw he
      subst hw he; exact ⟨rfl, rfl, rfl⟩
    · simp only [hk, ↓reduceIte] at hw he; exact h k w e hw he
  | groups => exact h
  | conns => exact h
  | policy => exact h

theorem pres_deregister (s : Sys) (id : String) (c : Comp) (h : CompSync c s.l s.r) :
    CompSync c (step s (.deregister id)).l (step s (.deregister id)).r := by
  simp only [step, stepL, emits, applyAll_cons, applyAll_nil, applyCmd]
  cases c with
  | wset =>
    intro k
    simp only [AMap.get_del]
    by_cases hk : k = id
    · simp [hk]
    · simpa [hk] using h k
  | status =>
    intro k w e hw he
    simp only [AMap.get_del] at hw he
    by_cases hk : k = id
    · simp [hk] at hw
    · simp only [hk, ↓reduceIte] at hw he; exact h k w e hw he
  | book =>
    intro k w e hw he
    simp only [AMap.get_del] at hw he
    by_cases hk : k = id
    · simp [hk] at hw
    · simp only [hk, ↓reduceIte] at hw he; exact h k w e hw he
  | groups => exact h
  | conns => exact h
  | policy => exact h

theorem heartbeat_upd_static (running events now : Nat) (w : LWorker) :
    LWorker.static { w with lastHb := now, running := running, events := events,
                            status := if w.status = .unhealthy then .ready else w.status } = w.static := rfl

theorem pres_heartbeat (s : Sys) (id : String) (running events now : Nat) (c : Comp) (hc : c ≠ .book)
    (h : CompSync c s.l s.r) :
    CompSync c (step s (.heartbeat id running events now)).l (step s (.heartbeat id running events now)).r := by
  simp only [step, stepL, emits]
  cases hw : s.l.workers.get id with
  | none =>
    simp only [applyAll_nil]
    have hl : ∀ (f : LWorker → LWorker) k, (s.l.workers.upd id f).get k = s.l.workers.get k := by
      intro f k; rw [AMap.get_upd]; by_cases hk : k = id
      · subst hk; simp [hw]
      · simp [hk]
    cases c with
    | book => exact absurd rfl hc
    | wset => intro k; simp only [hl]; exact h k
    | status => intro k w e hw' he; simp only [hl] at hw'; exact h k w e hw' he
    | groups => exact h
    | conns => exact h
    | policy => exact h
  | some w =>
    by_cases hu : w.status = .unhealthy
    · simp only [hu, ↓reduceIte, applyAll_cons, applyAll_nil, applyCmd]
      cases c with
      | book => exact absurd rfl hc
      | wset =>
        intro k
        simp only [AMap.get_upd]
        by_cases hk : k = id
        · simp only [hk, ↓reduceIte, Option.map_map]
          have := h id
          simp only [hw, Option.map_some] at this ⊢
          cases he : s.r.workers.get id with
          | none => simp [he] at this
          | some e => simp [he, LWorker.static, RWorker.static] at this ⊢; exact this
        · simpa [hk] using h k
      | status =>
        intro k w' e' hw' he'
        simp only [AMap.get_upd] at hw' he'
        by_cases hk : k = id
        · simp only [hk, ↓reduceIte, hw, Option.map_some, Option.some.injEq, Option.map_eq_some_iff] at hw' he'
          obtain ⟨e, _, rfl⟩ := he'
          subst hw'
          simp only [hu, ↓reduceIte]
          exact parseStatus_ready.symm
        · simp only [hk, ↓reduceIte] at hw' he'; exact h k w' e' hw' he'
      | groups => exact h
      | conns => exact h
      | policy => exact h
    · simp only [hu, ↓reduceIte, applyAll_nil]
      cases c with
      | book => exact absurd rfl hc
      | wset =>
        intro k
        simp only [AMap.get_upd]
        by_cases hk : k = id
        · simp only [hk, ↓reduceIte, Option.map_map]
          have := h id
          simp only [hw, Option.map_some] at this ⊢
          rw [← this]; rfl
        · simpa [hk] using h k
      | status =>
        intro k w' e' hw' he'
        simp only [AMap.get_upd] at hw'
        by_cases hk : k = id
        · simp only [hk, ↓reduceIte, hw, Option.map_some, Option.some.injEq] at hw' he'
          subst hw'
          simp only [hu, ↓reduceIte]
          exact h id w e' hw he'
        · simp only [hk, ↓reduceIte] at hw'; exact h k w' e' hw' he'
      | groups => exact h
      | conns => exact h
      | policy => exact h

end Varpulis.RaftSync
namespace Varpulis.RaftSync

/-- operations whose proposals do not touch the replicated workers and whose local update keeps a
projection of the workers: the worker components are framed -/
theorem workers_framed (c : Comp) (l l' : LState) (r r' : RState) (hr : r'.workers = r.workers)
    (hs : proj LWorker.static l'.workers = proj LWorker.static l.workers)
    (ht : proj LWorker.status l'.workers = proj LWorker.status l.workers)
    (hc : c = .wset ∨ c = .status) (h : CompSync c l r) : CompSync c l' r' := by
  rcases hc with rfl | rfl
  · exact wset_frame l l' r r' hs (by rw [hr]) h
  · exact status_frame l l' r r' ht (by rw [hr]) h

theorem pres_deploy (s : Sys) (g name : String) (rs : List DRes) (c : Comp) (hc : c ≠ .book) (h : CompSync c s.l s.r) :
    CompSync c (step s (.deploy g name rs)).l (step s (.deploy g name rs)).r := by
  simp only [step, stepL, emits]
  obtain ⟨grp, hg⟩ := commitDeploy_groups s.l g name rs
  have hget : (commitDeploy s.l g name rs).groups.get g = some grp := by rw [hg, AMap.get_put]; simp
  simp only [hget, applyAll_cons, applyAll_nil, applyCmd]
  cases c with
  | book => exact absurd rfl hc
  | wset => exact workers_framed .wset _ _ _ _ rfl (commitDeploy_proj _ bookFree_static ..) (commitDeploy_proj _ bookFree_status ..) (.inl rfl) h
  | status => exact workers_framed .status _ _ _ _ rfl (commitDeploy_proj _ bookFree_static ..) (commitDeploy_proj _ bookFree_status ..) (.inr rfl) h
  | groups =>
    intro k
    simp only [hg, AMap.get_put]
    by_cases hk : k = g
    · simp [hk]
    · simpa [hk] using h k
  | conns => exact h
  | policy => exact h

theorem pres_teardown (s : Sys) (g : String) (ts : List (String × String)) (c : Comp) (hc : c ≠ .book) (h : CompSync c s.l s.r) :
    CompSync c (step s (.teardown g ts)).l (step s (.teardown g ts)).r := by
  simp only [step, stepL, emits]
  by_cases hg : (s.l.groups.get g).isSome = true
  · simp only [hg, ↓reduceIte, applyAll_cons, applyAll_nil, applyCmd]
    cases c with
    | book => exact absurd rfl hc
    | wset => exact workers_framed .wset _ _ _ _ rfl (commitTeardown_proj _ bookFree_static ..) (commitTeardown_proj _ bookFree_status ..) (.inl rfl) h
    | status => exact workers_framed .status _ _ _ _ rfl (commitTeardown_proj _ bookFree_static ..) (commitTeardown_proj _ bookFree_status ..) (.inr rfl) h
    | groups =>
      intro k
      simp only [commitTeardown, AMap.get_del]
      by_cases hk : k = g
      · simp [hk]
      · simpa [hk] using h k
    | conns => exact h
    | policy => exact h
  · simp only [hg, Bool.false_eq_true, ↓reduceIte, applyAll_nil]
    exact h

theorem commitMigrate_groups_other (l : LState) (p : MigPlan) (pid : String) (ok : Bool) (g : String) (h : g ≠ p.g) :
    (commitMigrate l p pid ok).groups.get g = l.groups.get g := by
  unfold commitMigrate; split
  · exact applyMigration_groups_other l p pid g h
  · rfl

theorem commitMigrate_groups_isSome (l : LState) (p : MigPlan) (pid : String) (ok : Bool) (g : String) :
    ((commitMigrate l p pid ok).groups.get g).isSome = (l.groups.get g).isSome := by
  unfold commitMigrate; split
  · exact applyMigration_groups_isSome l p pid g
  · rfl

theorem commitMigrate_rest (l : LState) (p : MigPlan) (pid : String) (ok : Bool) :
    (commitMigrate l p pid ok).connectors = l.connectors ∧ (commitMigrate l p pid ok).policy = l.policy := by
  unfold commitMigrate; split <;> exact ⟨rfl, rfl⟩

theorem commitMigrate_false (l : LState) (p : MigPlan) (pid : String) : commitMigrate l p pid false = l := by
  simp [commitMigrate]

theorem pres_migrate (s : Sys) (p : MigPlan) (pid : String) (ok : Bool) (c : Comp) (hc : c ≠ .book) (h : CompSync c s.l s.r) :
    CompSync c (step s (.migrate p pid ok)).l (step s (.migrate p pid ok)).r := by
  simp only [step, stepL, emits]
  cases ok with
  | false => simp only [commitMigrate_false, Bool.false_eq_true, ↓reduceIte, applyAll_nil]; exact h
  | true =>
    simp only [↓reduceIte]
    have hw : ∀ cs : List Cmd, (∀ c ∈ cs, ∃ n grp, c = .groupUpdated n grp) → (applyAll s.r cs).workers = s.r.workers := by
      intro cs hcs
      exact applyAll_inv (·.workers) cs (fun c hc s => by obtain ⟨n, grp, rfl⟩ := hcs c hc; rfl) s.r
    cases hg : (commitMigrate s.l p pid true).groups.get p.g with
    | none =>
      simp only [applyAll_nil]
      cases c with
      | book => exact absurd rfl hc
      | wset => exact workers_framed .wset _ _ _ _ rfl (commitMigrate_proj _ bookFree_static ..) (commitMigrate_proj _ bookFree_status ..) (.inl rfl) h
      | status => exact workers_framed .status _ _ _ _ rfl (commitMigrate_proj _ bookFree_static ..) (commitMigrate_proj _ bookFree_status ..) (.inr rfl) h
      | groups =>
        intro k
        by_cases hk : k = p.g
        · subst hk
          have h1 := commitMigrate_groups_isSome s.l p pid true p.g
          rw [hg] at h1
          have h2 : s.l.groups.get p.g = none := by
            cases hx : s.l.groups.get p.g with
            | none => rfl
            | some _ => simp [hx] at h1
          rw [hg, ← h p.g, h2]
        · rw [commitMigrate_groups_other _ _ _ _ _ hk]; exact h k
      | conns => intro k; rw [(commitMigrate_rest ..).1]; exact h k
      | policy => simp only [CompSync]; rw [(commitMigrate_rest ..).2]; exact h
    | some grp =>
      simp only [applyAll_cons, applyAll_nil, applyCmd]
      cases c with
      | book => exact absurd rfl hc
      | wset => exact workers_framed .wset _ _ _ _ rfl (commitMigrate_proj _ bookFree_static ..) (commitMigrate_proj _ bookFree_status ..) (.inl rfl) h
      | status => exact workers_framed .status _ _ _ _ rfl (commitMigrate_proj _ bookFree_static ..) (commitMigrate_proj _ bookFree_status ..) (.inr rfl) h
      | groups =>
        intro k
        simp only [AMap.get_put]
        by_cases hk : k = p.g
        · simp [hk, hg]
        · simp only [hk, ↓reduceIte]; rw [commitMigrate_groups_other _ _ _ _ _ hk]; exact h k
      | conns => intro k; rw [(commitMigrate_rest ..).1]; exact h k
      | policy => simp only [CompSync]; rw [(commitMigrate_rest ..).2]; exact h

theorem pres_rebalanceApi (s : Sys) (ms : List Mig) (c : Comp) (hc : c ≠ .book) (h : CompSync c s.l s.r) :
    CompSync c (step s (.rebalanceApi ms)).l (step s (.rebalanceApi ms)).r := by
  simp only [step, stepL, emits]
  cases hb : (migrateAll s.l ms).2 with
  | false =>
    simp only [Bool.false_eq_true, ↓reduceIte, applyAll_nil, migrateAll_false s.l ms hb]
    cases c <;> first | exact h | exact absurd rfl hc
  | true =>
    simp only [↓reduceIte, applyAll_groupsUpdated]
    cases c with
    | book => exact absurd rfl hc
    | wset => exact workers_framed .wset _ _ _ _ rfl (migrateAll_proj _ bookFree_static ..) (migrateAll_proj _ bookFree_status ..) (.inl rfl) h
    | status => exact workers_framed .status _ _ _ _ rfl (migrateAll_proj _ bookFree_static ..) (migrateAll_proj _ bookFree_status ..) (.inr rfl) h
    | groups =>
      intro k
      simp only [AMap.get_foldl_put_reverse]
      by_cases hk : k ∈ (migrateAll s.l ms).1.groups.keys
      · simp [hk]
      · simp only [hk, ↓reduceIte]
        have h1 := AMap.get_eq_none_of_not_mem _ k hk
        have h2 := migrateAll_groups_isSome s.l ms k
        rw [h1] at h2 ⊢
        have h3 : s.l.groups.get k = none := by
          cases hx : s.l.groups.get k with
          | none => rfl
          | some _ => simp [hx] at h2
        rw [← h k, h3]
    | conns => intro k; simp only; rw [(migrateAll_rest ..).1]; exact h k
    | policy => simp only [CompSync]; rw [(migrateAll_rest ..).2.1]; exact h

end Varpulis.RaftSync
namespace Varpulis.RaftSync

theorem applyAll_append (s : RState) (a b : List Cmd) : applyAll s (a ++ b) = applyAll (applyAll s a) b := by
  simp [applyAll, List.foldl_append]

theorem pres_drain (s : Sys) (id : String) (ms : List Mig) (c : Comp) (hc : c ≠ .book) (h : CompSync c s.l s.r) :
    CompSync c (step s (.drain id ms)).l (step s (.drain id ms)).r := by
  simp only [step, stepL, emits]
  cases hw : s.l.workers.get id with
  | none => simp only [applyAll_nil]; exact h
  | some w0 =>
    simp only
    by_cases hd : w0.status = .draining
    · simp only [hd, ↓reduceIte, applyAll_nil]; exact h
    · simp only [hd, ↓reduceIte, applyAll_append, applyAll_groupsUpdated, applyAll_cons, applyAll_nil, applyCmd]
      -- the local workers other than `id` keep status and static data through the drain
      have hproj : ∀ {α : Type} (P : LWorker → α), BookFree P → ∀ k, k ≠ id →
          ((migrateAll { s.l with workers := s.l.workers.upd id fun w => { w with status := .draining } } ms).1.workers.get k).map P
            = (s.l.workers.get k).map P := by
        intro α P hP k hk
        have h1 := congrFun (migrateAll_proj P hP
          { s.l with workers := s.l.workers.upd id fun w => { w with status := .draining } } ms) k
        simp only [proj, AMap.get_upd, hk, ↓reduceIte] at h1
        exact h1
      cases c with
      | book => exact absurd rfl hc
      | wset =>
        intro k
        simp only [AMap.get_del]
        by_cases hk : k = id
        · simp [hk]
        · simp only [hk, ↓reduceIte]
          rw [hproj LWorker.static bookFree_static k hk]; exact h k
      | status =>
        intro k w' e hw' he
        simp only [AMap.get_del] at hw' he
        by_cases hk : k = id
        · simp [hk] at hw'
        · simp only [hk, ↓reduceIte] at hw' he
          have h1 := hproj LWorker.status bookFree_status k hk
          simp only [hw', Option.map_some] at h1
          cases hx : s.l.workers.get k with
          | none => simp [hx] at h1
          | some w =>
            simp only [hx, Option.map_some, Option.some.injEq] at h1
            rw [h1]; exact h k w e hx he
      | groups =>
        intro k
        simp only [AMap.get_foldl_put_reverse]
        by_cases hk : k ∈ (migrateAll { s.l with workers := s.l.workers.upd id fun w => { w with status := .draining } } ms).1.groups.keys
        · simp [hk]
        · simp only [hk, ↓reduceIte]
          have h1 := AMap.get_eq_none_of_not_mem _ k hk
          have h2 := migrateAll_groups_isSome { s.l with workers := s.l.workers.upd id fun w => { w with status := .draining } } ms k
          rw [h1] at h2 ⊢
          have h3 : s.l.groups.get k = none := by
            cases hx : s.l.groups.get k with
            | none => rfl
            | some _ => simp [hx] at h2
          rw [← h k, h3]
      | conns => intro k; simp only; rw [(migrateAll_rest ..).1]; exact h k
      | policy => simp only [CompSync]; rw [(migrateAll_rest ..).2.1]; exact h

theorem pres_connCreate (s : Sys) (n b : String) (v : Bool) (c : Comp) (h : CompSync c s.l s.r) :
    CompSync c (step s (.connCreate n b v)).l (step s (.connCreate n b v)).r := by
  simp only [step, stepL, emits]
  by_cases hx : ((s.l.connectors.get n).isSome || !v) = true
  · simp only [hx, ↓reduceIte, applyAll_nil]; exact h
  · simp only [hx, Bool.false_eq_true, ↓reduceIte, applyAll_cons, applyAll_nil, applyCmd]
    cases c with
    | conns =>
      intro k; simp only [AMap.get_put]
      by_cases hk : k = n
      · simp [hk]
      · simpa [hk] using h k
    | _ => exact h

theorem pres_connUpdate (s : Sys) (n bn b : String) (v : Bool) (c : Comp) (h : CompSync c s.l s.r) :
    CompSync c (step s (.connUpdate n bn b v)).l (step s (.connUpdate n bn b v)).r := by
  simp only [step, stepL, emits]
  by_cases hx : ((s.l.connectors.get n).isNone || !v) = true
  · simp only [hx, ↓reduceIte, applyAll_nil]; exact h
  · simp only [hx, Bool.false_eq_true, ↓reduceIte, applyAll_cons, applyAll_nil, applyCmd]
    cases c with
    | conns =>
      intro k; simp only [AMap.get_put]
      by_cases hk : k = n
      · simp [hk]
      · simpa [hk] using h k
    | _ => exact h

theorem pres_connDelete (s : Sys) (n : String) (c : Comp) (h : CompSync c s.l s.r) :
    CompSync c (step s (.connDelete n)).l (step s (.connDelete n)).r := by
  simp only [step, stepL, emits, applyAll_cons, applyAll_nil, applyCmd]
  cases c with
  | conns =>
    intro k; simp only [AMap.get_del]
    by_cases hk : k = n
    · simp [hk]
    · simpa [hk] using h k
  | _ => exact h

/-! ### `sync_from_raft` -/

theorem sync_workers_get (l : LState) (r : RState) (now : Nat) (k : String) :
    (sync l r now).workers.get k =
      (r.workers.get k).map fun e => match l.workers.get k with
        | some w => mergeWorker w e now
        | none => freshWorker e now := by
  simp only [sync]
  exact AMap.get_mapVals r.workers (fun k e => match l.workers.get k with
        | some w => mergeWorker w e now
        | none => freshWorker e now) k

theorem mergeWorker_static (w : LWorker) (e : RWorker) (now : Nat) : (mergeWorker w e now).static = (w.addr, e.cpu, e.maxP) := by
  unfold mergeWorker; split <;> rfl

theorem mergeWorker_book (w : LWorker) (e : RWorker) (now : Nat) : (mergeWorker w e now).book = e.book := by
  unfold mergeWorker; split <;> rfl

theorem mergeWorker_status (w : LWorker) (e : RWorker) (now : Nat) :
    (mergeWorker w e now).status =
      if parseStatus e.status = .unhealthy ∨ parseStatus e.status = .draining then parseStatus e.status else w.status := by
  unfold mergeWorker; split <;> simp_all

/-- `sync_from_raft` keeps every component synchronised (and the three replaced ones become so) -/
theorem pres_tickSync (s : Sys) (now : Nat) (c : Comp) (h : CompSync c s.l s.r) :
    CompSync c (step s (.tickSync now)).l (step s (.tickSync now)).r := by
  simp only [step, stepL, emits, applyAll_nil]
  cases c with
  | wset =>
    intro k
    rw [sync_workers_get]
    have := h k
    cases he : s.r.workers.get k with
    | none => simp
    | some e =>
      cases hw : s.l.workers.get k with
      | none => simp [freshWorker, LWorker.static, RWorker.static]
      | some w =>
        simp only [he, hw, Option.map_some, Option.some.injEq] at this ⊢
        rw [mergeWorker_static]
        simp only [LWorker.static, RWorker.static, Prod.mk.injEq] at this ⊢
        exact ⟨this.1, trivial⟩
  | status =>
    intro k w' e hw' he
    rw [sync_workers_get, he] at hw'
    simp only [Option.map_some, Option.some.injEq] at hw'
    subst hw'
    cases hw : s.l.workers.get k with
    | none => rfl
    | some w =>
      simp only [mergeWorker_status]
      split
      · rfl
      · exact h k w e hw he
  | book =>
    intro k w' e hw' he
    rw [sync_workers_get, he] at hw'
    simp only [Option.map_some, Option.some.injEq] at hw'
    subst hw'
    cases hw : s.l.workers.get k with
    | none => exact ⟨rfl, rfl, rfl⟩
    | some w =>
      have := mergeWorker_book w e now
      simp only [LWorker.book, RWorker.book, Prod.mk.injEq] at this
      exact this
  | groups => intro k; rfl
  | conns => intro k; rfl
  | policy => rfl

theorem sweepWorker_static (t now : Nat) (w : LWorker) : (sweepWorker t now w).static = w.static := by
  unfold sweepWorker; split <;> rfl
theorem sweepWorker_book (t now : Nat) (w : LWorker) : (sweepWorker t now w).book = w.book := by
  unfold sweepWorker; split <;> rfl

theorem mem_sweepMarked (l : LState) (now : Nat) (k : String) (w : LWorker) (hw : l.workers.get k = some w) :
    k ∈ sweepMarked l now ↔ (w.status = .ready ∧ now - w.lastHb > l.timeout) := by
  simp only [sweepMarked, List.mem_filter, mem_dedup, hw, decide_eq_true_eq]
  exact ⟨fun h => h.2, fun h => ⟨AMap.mem_keys_of_get _ _ _ hw, h⟩⟩

theorem pres_tickSweep (s : Sys) (now : Nat) (c : Comp) (h : CompSync c s.l s.r) :
    CompSync c (step s (.tickSweep now)).l (step s (.tickSweep now)).r := by
  simp only [step, stepL, emits, applyAll_status]
  cases c with
  | wset =>
    refine wset_frame _ _ _ _ ?_ ?_ h
    · exact proj_mapVals LWorker.static s.l.workers (fun _ w => sweepWorker s.l.timeout now w) (fun _ w => sweepWorker_static ..)
    · exact proj_foldl_upd RWorker.static (fun i : String => i) (fun _ w => { w with status := "unhealthy" }) (fun _ _ => rfl) _ _
  | book =>
    refine book_frame _ _ _ _ ?_ ?_ h
    · exact proj_mapVals LWorker.book s.l.workers (fun _ w => sweepWorker s.l.timeout now w) (fun _ w => sweepWorker_book ..)
    · exact proj_foldl_upd RWorker.book (fun i : String => i) (fun _ w => { w with status := "unhealthy" }) (fun _ _ => rfl) _ _
  | status =>
    intro k w' e' hw' he'
    have hm := AMap.get_mapVals s.l.workers (fun _ w => sweepWorker s.l.timeout now w) k
    simp only at hw'
    rw [hm] at hw'
    simp only [AMap.get_foldl_upd _ (fun w : RWorker => { w with status := "unhealthy" }) (fun _ => rfl)] at he'
    cases hw : s.l.workers.get k with
    | none => simp [hw] at hw'
    | some w =>
      simp only [hw, Option.map_some, Option.some.injEq] at hw'
      subst hw'
      by_cases hcnd : w.status = .ready ∧ now - w.lastHb > s.l.timeout
      · have : k ∈ sweepMarked s.l now := (mem_sweepMarked s.l now k w hw).2 hcnd
        simp only [this, ↓reduceIte, Option.map_eq_some_iff] at he'
        obtain ⟨e, _, rfl⟩ := he'
        simp only [sweepWorker, hcnd, and_self, ↓reduceIte]
        exact parseStatus_unhealthy.symm
      · have : k ∉ sweepMarked s.l now := fun hx => hcnd ((mem_sweepMarked s.l now k w hw).1 hx)
        simp only [this, ↓reduceIte] at he'
        simp only [sweepWorker, hcnd, ↓reduceIte]
        exact h k w e' hw he'
  | groups => exact h
  | conns => exact h
  | policy => exact h

theorem pres_migsOnly (s : Sys) (ms : List Mig) (c : Comp) (hc : c = .wset ∨ c = .status ∨ c = .conns ∨ c = .policy)
    (h : CompSync c s.l s.r) : CompSync c (migrateAll s.l ms).1 s.r := by
  rcases hc with rfl | rfl | rfl | rfl
  · exact workers_framed .wset _ _ _ _ rfl (migrateAll_proj _ bookFree_static ..) (migrateAll_proj _ bookFree_status ..) (.inl rfl) h
  · exact workers_framed .status _ _ _ _ rfl (migrateAll_proj _ bookFree_static ..) (migrateAll_proj _ bookFree_status ..) (.inr rfl) h
  · intro k; rw [(migrateAll_rest ..).1]; exact h k
  · simp only [CompSync]; rw [(migrateAll_rest ..).2.1]; exact h

theorem pres_tickFailover (s : Sys) (id : String) (ms : List Mig) (c : Comp) (hc : c = .wset ∨ c = .status ∨ c = .conns ∨ c = .policy)
    (h : CompSync c s.l s.r) : CompSync c (step s (.tickFailover id ms)).l (step s (.tickFailover id ms)).r := by
  simp only [step, stepL, emits, applyAll_nil]; exact pres_migsOnly s ms c hc h

theorem pres_tickRebalance (s : Sys) (ms : List Mig) (c : Comp) (hc : c = .wset ∨ c = .status ∨ c = .conns ∨ c = .policy)
    (h : CompSync c s.l s.r) : CompSync c (step s (.tickRebalance ms)).l (step s (.tickRebalance ms)).r := by
  simp only [step, stepL, emits, applyAll_nil]
  have := pres_migsOnly s ms c hc h
  rcases hc with rfl | rfl | rfl | rfl <;> exact this

theorem pres_tickReconcile (s : Sys) (rd : List (String × String)) (c : Comp) (hc : c ≠ .book) (h : CompSync c s.l s.r) :
    CompSync c (step s (.tickReconcile rd)).l (step s (.tickReconcile rd)).r := by
  simp only [step, stepL, emits]
  generalize hcs : (List.filterMap (fun w => Option.map (fun x => Cmd.workerPipelinesUpdated w x.assigned)
      (AMap.get (List.foldl (fun ws t => ws.upd t.1 (LWorker.push t.2)) s.l.workers rd) w)) (dedup (rd.map (·.1)))) = cs
  have hall : ∀ c ∈ cs, ∃ w a, c = Cmd.workerPipelinesUpdated w a := by
    intro c hc
    rw [← hcs] at hc
    simp only [List.mem_filterMap, Option.map_eq_some_iff] at hc
    obtain ⟨w, _, x, _, rfl⟩ := hc
    exact ⟨w, x.assigned, rfl⟩
  have hstat : proj RWorker.static (applyAll s.r cs).workers = proj RWorker.static s.r.workers :=
    applyAll_inv (fun s => proj RWorker.static s.workers) cs (fun c hc s => by
      obtain ⟨w, a, rfl⟩ := hall c hc
      simp only [applyCmd]
      exact proj_upd RWorker.static _ _ _ (fun _ => rfl)) s.r
  have hst : proj RWorker.st (applyAll s.r cs).workers = proj RWorker.st s.r.workers :=
    applyAll_inv (fun s => proj RWorker.st s.workers) cs (fun c hc s => by
      obtain ⟨w, a, rfl⟩ := hall c hc
      simp only [applyCmd]
      exact proj_upd RWorker.st _ _ _ (fun _ => rfl)) s.r
  have hg : (applyAll s.r cs).groups = s.r.groups :=
    applyAll_inv (·.groups) cs (fun c hc s => by obtain ⟨w, a, rfl⟩ := hall c hc; rfl) s.r
  have hcn : (applyAll s.r cs).connectors = s.r.connectors :=
    applyAll_inv (·.connectors) cs (fun c hc s => by obtain ⟨w, a, rfl⟩ := hall c hc; rfl) s.r
  have hp : (applyAll s.r cs).policy = s.r.policy :=
    applyAll_inv (·.policy) cs (fun c hc s => by obtain ⟨w, a, rfl⟩ := hall c hc; rfl) s.r
  have hls : ∀ {α : Type} (P : LWorker → α), BookFree P →
      proj P (List.foldl (fun ws t => ws.upd t.1 (LWorker.push t.2)) s.l.workers rd) = proj P s.l.workers :=
    fun P hP => proj_foldl_upd P (fun t : String × String => t.1) (fun t => LWorker.push t.2) (fun t w => hP.1 t.2 w) rd _
  cases c with
  | book => exact absurd rfl hc
  | wset => exact wset_frame _ _ _ _ (hls _ bookFree_static) hstat h
  | status => exact status_frame _ _ _ _ (hls _ bookFree_status) hst h
  | groups => intro k; simp only [hg]; exact h k
  | conns => intro k; simp only [hcn]; exact h k
  | policy => simp only [CompSync, hp]; exact h

theorem pres_startupPolicy (s : Sys) (p : Option String) (c : Comp) (hc : c ≠ .policy) (h : CompSync c s.l s.r) :
    CompSync c (step s (.startupPolicy p)).l (step s (.startupPolicy p)).r := by
  simp only [step, stepL, emits, applyAll_nil]
  cases c <;> first | exact h | exact absurd rfl hc

/-- **every cell outside `knownCell`**: the operation keeps the component synchronised -/
theorem step_preserves (s : Sys) (op : Op) (c : Comp) (hk : knownCell op.kind c = none) (h : CompSync c s.l s.r) :
    CompSync c (step s op).l (step s op).r := by
  cases op with
  | register id addr cpu running maxP now => exact pres_register s id addr cpu running maxP now c h
  | heartbeat id running events now =>
    exact pres_heartbeat s id running events now c (by rintro rfl; simp [knownCell, Op.kind] at hk) h
  | deregister id => exact pres_deregister s id c h
  | deploy g name rs => exact pres_deploy s g name rs c (by rintro rfl; simp [knownCell, Op.kind] at hk) h
  | teardown g ts => exact pres_teardown s g ts c (by rintro rfl; simp [knownCell, Op.kind] at hk) h
  | migrate p pid ok => exact pres_migrate s p pid ok c (by rintro rfl; simp [knownCell, Op.kind] at hk) h
  | rebalanceApi ms => exact pres_rebalanceApi s ms c (by rintro rfl; simp [knownCell, Op.kind] at hk) h
  | drain id ms => exact pres_drain s id ms c (by rintro rfl; simp [knownCell, Op.kind] at hk) h
  | connCreate n b v => exact pres_connCreate s n b v c h
  | connUpdate n bn b v => exact pres_connUpdate s n bn b v c h
  | connDelete n => exact pres_connDelete s n c h
  | tickSync now => exact pres_tickSync s now c h
  | tickSweep now => exact pres_tickSweep s now c h
  | tickFailover id ms => exact pres_tickFailover s id ms c (by cases c <;> simp [knownCell, Op.kind] at hk ⊢) h
  | tickReconcile rd => exact pres_tickReconcile s rd c (by rintro rfl; simp [knownCell, Op.kind] at hk) h
  | tickRebalance ms => exact pres_tickRebalance s ms c (by cases c <;> simp [knownCell, Op.kind] at hk ⊢) h
  | startupPolicy p => exact pres_startupPolicy s p c (by rintro rfl; simp [knownCell, Op.kind] at hk) h

end Varpulis.RaftSync
namespace Varpulis.RaftSync

/-! ## re-synchronisation never reverts a synchronised component -/

theorem sync_get_some (l : LState) (r : RState) (now : Nat) (k : String) (w' : LWorker)
    (h : (sync l r now).workers.get k = some w') : ∃ e, r.workers.get k = some e := by
  rw [sync_workers_get] at h
  cases he : r.workers.get k with
  | none => simp [he] at h
  | some e => exact ⟨e, rfl⟩

theorem sync_no_revert (l : LState) (r : RState) (now : Nat) (c : Comp) (h : CompSync c l r) :
    NoRevert c l (sync l r now) := by
  have h' : CompSync c (sync l r now) r := pres_tickSync ⟨l, r⟩ now c h
  cases c with
  | wset => intro k; rw [h' k, h k]
  | status =>
    intro k w w' hw hw'
    obtain ⟨e, he⟩ := sync_get_some l r now k w' hw'
    rw [h' k w' e hw' he, h k w e hw he]
  | book =>
    intro k w w' hw hw'
    obtain ⟨e, he⟩ := sync_get_some l r now k w' hw'
    obtain ⟨a1, a2, a3⟩ := h' k w' e hw' he
    obtain ⟨b1, b2, b3⟩ := h k w e hw he
    exact ⟨a1.trans b1.symm, a2.trans b2.symm, a3.trans b3.symm⟩
  | groups => intro k; rw [h' k, h k]
  | conns => intro k; rw [h' k, h k]
  | policy => simp only [NoRevert]; rw [show (sync l r now).policy = r.policy from rfl]; exact h.symm

/-- a coordinator that only follows (empty local view, fed by `sync_from_raft`) -/
def followerView (r : RState) (now : Nat) : LState := sync {} r now

/-- a follower's view shows, component by component, what a synchronised leader's view shows -/
theorem follower_matches_leader (l : LState) (r : RState) (now : Nat) (c : Comp) (h : CompSync c l r) :
    NoRevert c l (followerView r now) := by
  have h0 : CompSync c (followerView r now) r := by
    have : ∀ c, CompSync c (followerView r now) r := by
      intro c
      -- the three replaced components hold outright; the worker components because every local worker is fresh
      cases c with
      | wset =>
        intro k
        simp only [followerView, sync_workers_get]
        cases r.workers.get k with
        | none => rfl
        | some e => simp [AMap.get, freshWorker, LWorker.static, RWorker.static]
      | status =>
        intro k w e hw he
        simp only [followerView, sync_workers_get, he, Option.map_some, Option.some.injEq] at hw
        subst hw; simp [AMap.get, freshWorker]
      | book =>
        intro k w e hw he
        simp only [followerView, sync_workers_get, he, Option.map_some, Option.some.injEq] at hw
        subst hw; simp [AMap.get, freshWorker]
      | groups => intro k; rfl
      | conns => intro k; rfl
      | policy => rfl
    exact this c
  cases c with
  | wset => intro k; rw [h0 k, h k]
  | status =>
    intro k w w' hw hw'
    obtain ⟨e, he⟩ := sync_get_some {} r now k w' hw'
    rw [h0 k w' e hw' he, h k w e hw he]
  | book =>
    intro k w w' hw hw'
    obtain ⟨e, he⟩ := sync_get_some {} r now k w' hw'
    obtain ⟨a1, a2, a3⟩ := h0 k w' e hw' he
    obtain ⟨b1, b2, b3⟩ := h k w e hw he
    exact ⟨a1.trans b1.symm, a2.trans b2.symm, a3.trans b3.symm⟩
  | groups => intro k; rw [h0 k, h k]
  | conns => intro k; rw [h0 k, h k]
  | policy => simp only [NoRevert]; rw [show (followerView r now).policy = r.policy from rfl]; exact h.symm

/-! ## histories -/

/-- all operations of a history are outside the known cells of component `c` -/
def cleanFor (c : Comp) (ops : List Op) : Bool := ops.all fun op => (knownCell op.kind c).isNone

theorem run_preserves (c : Comp) (ops : List Op) (s : Sys) (hc : cleanFor c ops = true) (h : CompSync c s.l s.r) :
    CompSync c (run s ops).l (run s ops).r := by
  induction ops generalizing s with
  | nil => exact h
  | cons op ops ih =>
    simp only [cleanFor, List.all_cons, Bool.and_eq_true, Option.isNone_iff_eq_none] at hc
    simp only [run, List.foldl_cons]
    exact ih (step s op) (by simpa [cleanFor] using hc.2) (step_preserves s op c hc.1 h)

theorem compSync_init (c : Comp) : CompSync c ({} : LState) ({} : RState) := by
  cases c <;> simp [CompSync, AMap.get]

/-! ## decidable forms -/

theorem agreeB_iff {A B : Type} (f : A → B → Bool) (a : Option A) (b : Option B) :
    agreeB f a b = true ↔ ∀ x y, a = some x → b = some y → f x y = true := by
  cases a <;> cases b <;> simp [agreeB]

theorem compSyncB_iff (c : Comp) (l : LState) (r : RState) : compSyncB c l r = true ↔ CompSync c l r := by
  cases c with
  | wset =>
    simp only [compSyncB, keysOf, CompSync]
    rw [forall_keys_iff l.workers r.workers (fun a b => a.map LWorker.static == b.map RWorker.static) (by rfl)]
    simp
  | status =>
    simp only [compSyncB, keysOf, CompSync]
    rw [forall_keys_iff l.workers r.workers (agreeB _) (by rfl)]
    simp only [agreeB_iff, beq_iff_eq]
  | book =>
    simp only [compSyncB, keysOf, CompSync]
    rw [forall_keys_iff l.workers r.workers (agreeB _) (by rfl)]
    simp only [agreeB_iff, Bool.and_eq_true, beq_iff_eq, and_assoc]
  | groups =>
    simp only [compSyncB, CompSync]
    rw [forall_keys_iff l.groups r.groups (fun a b => a == b) (by rfl)]
    simp
  | conns =>
    simp only [compSyncB, CompSync]
    rw [forall_keys_iff l.connectors r.connectors (fun a b => a == b) (by rfl)]
    simp
  | policy => simp [compSyncB, CompSync]

theorem noRevertB_iff (c : Comp) (l l' : LState) : noRevertB c l l' = true ↔ NoRevert c l l' := by
  cases c with
  | wset =>
    simp only [noRevertB, NoRevert]
    rw [forall_keys_iff l.workers l'.workers (fun a b => b.map LWorker.static == a.map LWorker.static) (by rfl)]
    simp
  | status =>
    simp only [noRevertB, NoRevert]
    rw [forall_keys_iff l.workers l'.workers (agreeB _) (by rfl)]
    simp only [agreeB_iff, beq_iff_eq]
  | book =>
    simp only [noRevertB, NoRevert]
    rw [forall_keys_iff l.workers l'.workers (agreeB _) (by rfl)]
    simp only [agreeB_iff, Bool.and_eq_true, beq_iff_eq, and_assoc]
  | groups =>
    simp only [noRevertB, NoRevert]
    rw [forall_keys_iff l.groups l'.groups (fun a b => b == a) (by rfl)]
    simp
  | conns =>
    simp only [noRevertB, NoRevert]
    rw [forall_keys_iff l.connectors l'.connectors (fun a b => b == a) (by rfl)]
    simp
  | policy => simp [noRevertB, NoRevert]

/-! ## the heartbeat "proxy" of `sync_from_raft` masks every time-out -/

/-- right after `sync_from_raft` no worker whose replicated status is one the code writes (ready, unhealthy,
draining) can be marked by a sweep at the same instant: Ready workers were just re-stamped, the others are
not Ready locally -/
theorem sweep_after_sync_marks_nobody (l : LState) (r : RState) (now : Nat)
    (hst : ∀ id e, r.workers.get id = some e → parseStatus e.status ≠ .registering) :
    sweepMarked (sync l r now) now = [] := by
  simp only [sweepMarked, List.filter_eq_nil_iff, mem_dedup]
  intro id _
  rw [sync_workers_get]
  cases he : r.workers.get id with
  | none => simp
  | some e =>
    have hne := hst id e he
    cases hl : l.workers.get id with
    | none => simp [freshWorker]
    | some w =>
      simp only [Option.map_some, decide_eq_true_eq, not_and, mergeWorker]
      cases hp : parseStatus e.status with
      | registering => exact absurd hp hne
      | ready => simp
      | unhealthy => simp
      | draining => simp

end Varpulis.RaftSync

/-! ## operands of the witness theorems of Props/C38.lean -/
namespace Varpulis.RaftSync.Witness
open Varpulis.RaftSync

def w1 : Op := .register "w1" "a1" 4 0 10 0
def w2 : Op := .register "w2" "a2" 4 0 10 0
def deployP : Op := .deploy "g" "grp" [⟨"p", "w1", true, "id1"⟩]
def toW2 : Mig := ⟨"g", "p", "w2", true, "id2"⟩

end Varpulis.RaftSync.Witness
