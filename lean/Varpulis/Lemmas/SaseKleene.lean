import Varpulis.Lemmas.Zdd
import Varpulis.Model.SaseKleene
/-!
# Lemmas about the Kleene fragment of the SASE model (C03, C05)
-/
namespace Varpulis.SaseK
open Varpulis.Zdd

/-! ### the ZDD of a capture after `n` extensions is the complete diagram over `n` variables -/

/-- the complete diagram over the variables `i, …, i+n-1` -/
def full : Nat → Nat → Z
  | _, 0 => .base
  | i, n + 1 => .node i (full (i + 1) n) (full (i + 1) n)

theorem full_ne_empty (i n : Nat) : full i n ≠ .empty := by
  cases n <;> simp [full]

theorem sets_full (i n : Nat) : sets (full i n) = Spec.subsets i n := by
  induction n generalizing i with
  | zero => simp [full, sets, Spec.subsets]
  | succ n ih => simp [full, sets, Spec.subsets, ih]

theorem ord_full (i n : Nat) : Ord i (full i n) := by
  induction n generalizing i with
  | zero => simp [full, Zdd.Ord]
  | succ n ih => exact ⟨Nat.le_refl _, ih _, ih _⟩

/-- `product_with_optional` with the next fresh variable turns the complete diagram over `n`
variables into the complete diagram over `n + 1` variables (same handle, same iteration order) -/
theorem pwo_full (i n : Nat) : pwo (full i n) (i + n) = full i (n + 1) := by
  induction n generalizing i with
  | zero => simp [full, pwo, mk]
  | succ n ih =>
    have h := ih (i + 1)
    have e : i + 1 + n = i + (n + 1) := by omega
    rw [e] at h
    show pwo (.node i (full (i + 1) n) (full (i + 1) n)) (i + (n + 1)) = .node i (full (i + 1) (n + 1)) (full (i + 1) (n + 1))
    simp only [pwo]
    rw [if_pos (by omega), h]
    simp [mk, full_ne_empty]

theorem mem_subsets (i n : Nat) (s : List Nat) :
    s ∈ Spec.subsets i n ↔ s.Pairwise (· < ·) ∧ ∀ x ∈ s, i ≤ x ∧ x < i + n := by
  induction n generalizing i s with
  | zero =>
    simp only [Spec.subsets, List.mem_singleton]
    constructor
    · rintro rfl; simp
    · rintro ⟨_, h⟩
      cases s with
      | nil => rfl
      | cons a t => have := h a (by simp); omega
  | succ n ih =>
    simp only [Spec.subsets, List.mem_append, List.mem_map, ih]
    constructor
    · rintro (⟨hp, hb⟩ | ⟨t, ⟨hp, hb⟩, rfl⟩)
      · exact ⟨hp, fun x hx => by have := hb x hx; omega⟩
      · refine ⟨List.pairwise_cons.mpr ⟨fun y hy => by have := hb y hy; omega, hp⟩, ?_⟩
        intro x hx
        rcases List.mem_cons.mp hx with rfl | hx
        · omega
        · have := hb x hx; omega
    · rintro ⟨hp, hb⟩
      cases s with
      | nil => left; simp
      | cons a t =>
        have hpa := List.pairwise_cons.mp hp
        by_cases ha : a = i
        · right
          subst ha
          refine ⟨t, ⟨hpa.2, fun x hx => ?_⟩, rfl⟩
          have := hpa.1 x hx; have := hb x (List.mem_cons_of_mem _ hx); omega
        · left
          refine ⟨hp, fun x hx => ?_⟩
          have h1 := hb x hx
          have h2 := hb a (by simp)
          rcases List.mem_cons.mp hx with rfl | hx'
          · omega
          · have := hpa.1 x hx'; omega

/-! ### the enumeration loop -/

/-- a combination passes the loop body of `enumerate_with_filter` -/
def comboOk (r : Run) (p : Pred) (c : List Nat × List Entry) : Bool :=
  !c.2.isEmpty && evalDeferred p (deferredAlias p c.2) r.captured (c.2.map (·.ev))

theorem enumLoop_eq (r : Run) (k : KCap) (p : Pred) (mr : Nat) :
    ∀ (cs : List (List Nat × List Entry)) (acc : List Match), acc.length < mr →
      enumLoop r k p mr cs acc
        = acc ++ ((cs.filter (comboOk r p)).map (mkEnumMatch r k)).take (mr - acc.length) := by
  intro cs
  induction cs with
  | nil => intro acc _; simp [enumLoop]
  | cons c cs ih =>
    intro acc hacc
    simp only [enumLoop]
    by_cases he : c.2.isEmpty = true
    · simp only [he, if_true]
      rw [ih acc hacc]
      simp [List.filter_cons, comboOk, he]
    · simp only [he]
      by_cases hp : evalDeferred p (deferredAlias p c.2) r.captured (c.2.map (·.ev)) = true
      · have hok : comboOk r p c = true := by simp [comboOk, he, hp]
        simp only [hp, if_true, List.filter_cons, hok, List.map_cons]
        by_cases hfull : (acc ++ [mkEnumMatch r k c]).length ≥ mr
        · simp only [hfull, if_true]
          have : mr - acc.length = 1 := by simp at hfull; omega
          rw [this]; simp
        · simp only [hfull, if_false]
          have hl : (acc ++ [mkEnumMatch r k c]).length < mr := by omega
          rw [ih _ hl]
          have : mr - acc.length = (mr - (acc ++ [mkEnumMatch r k c]).length) + 1 := by simp at hl ⊢; omega
          rw [this]; simp
      · have hok : comboOk r p c = false := by simp [comboOk, hp]
        simp only [hp, List.filter_cons, hok]
        simpa using ih acc hacc

theorem enumLoop_length_le (r : Run) (k : KCap) (p : Pred) (mr : Nat) (h : 1 ≤ mr)
    (cs : List (List Nat × List Entry)) : (enumLoop r k p mr cs []).length ≤ mr := by
  rw [enumLoop_eq r k p mr cs [] (by simp; omega)]
  simp [List.length_take]; omega

/-! ### capture invariant; `iter_combinations` stays in bounds -/

/-- invariant of a `KleeneCapture`: the parallel vectors are as long as the variable counter and the handle is
the complete diagram over the variables handed out (or untouched when no ZDD is needed) -/
structure KInv (k : KCap) : Prop where
  lenE : k.events.length = k.nextVar
  lenA : k.aliases.length = k.nextVar
  zdd : k.needsZdd = true → k.handle = full 0 k.nextVar
  nozdd : k.needsZdd = false → k.handle = .base

theorem kinv_init (p : Option Pred) : KInv (KCap.init p) := by
  constructor <;> simp [KCap.init, full]

theorem kinv_add {k : KCap} (h : KInv k) (e : Ev) (al : Option Nat) : KInv (k.add e al) := by
  unfold KCap.add
  split
  · rename_i hz
    constructor
    · simp [KCap.extend, h.lenE]
    · simp [KCap.extend, h.lenA]
    · intro _
      have := pwo_full 0 k.nextVar
      simp only [Nat.zero_add] at this
      simp [KCap.extend, h.zdd hz, this]
    · intro hc; simp [KCap.extend, hz] at hc
  · rename_i hz
    constructor
    · simp [KCap.extendSimple, h.lenE]
    · simp [KCap.extendSimple, h.lenA]
    · intro hc; simp [KCap.extendSimple] at hc; exact absurd hc hz
    · intro _; simp [KCap.extendSimple, h.nozdd (by simpa using hz)]

@[simp] theorem add_nextVar (k : KCap) (e : Ev) (al : Option Nat) : (k.add e al).nextVar = k.nextVar + 1 := by
  unfold KCap.add; split <;> simp [KCap.extend, KCap.extendSimple]

@[simp] theorem add_events (k : KCap) (e : Ev) (al : Option Nat) : (k.add e al).events = k.events ++ [e] := by
  unfold KCap.add; split <;> simp [KCap.extend, KCap.extendSimple]

@[simp] theorem add_deferred (k : KCap) (e : Ev) (al : Option Nat) : (k.add e al).deferred = k.deferred := by
  unfold KCap.add; split <;> simp [KCap.extend, KCap.extendSimple]

theorem mapM_option_eq_some {α β : Type} (f : α → Option β) (g : α → β) :
    ∀ (l : List α), (∀ x ∈ l, f x = some (g x)) → l.mapM f = some (l.map g) := by
  intro l
  induction l with
  | nil => intro _; simp
  | cons a l ih =>
    intro h
    have h1 := h a (by simp)
    have h2 := ih (fun x hx => h x (List.mem_cons_of_mem _ hx))
    simp [List.mapM_cons, h1, h2]

/-- the stack entries of an index set -/
def entriesOf (k : KCap) (s : List Nat) : List Entry :=
  s.map fun i => ⟨k.events.getD i default, k.aliases.getD i none⟩

theorem sets_handle_bound {k : KCap} (h : KInv k) : ∀ s ∈ sets k.handle, ∀ i ∈ s, i < k.nextVar := by
  intro s hs i hi
  by_cases hz : k.needsZdd = true
  · rw [h.zdd hz, sets_full] at hs
    have := ((mem_subsets 0 k.nextVar s).mp hs).2 i hi
    omega
  · rw [h.nozdd (by simpa using hz)] at hs
    simp [sets] at hs
    subst hs; simp at hi

/-- `iter_combinations` never indexes out of bounds -/
theorem combos_eq {k : KCap} (h : KInv k) :
    k.combos = some ((sets k.handle).map fun s => (s, entriesOf k s)) := by
  unfold KCap.combos
  apply mapM_option_eq_some
  intro s hs
  have hb := sets_handle_bound h s hs
  have : s.mapM k.entry? = some (entriesOf k s) := by
    unfold entriesOf
    apply mapM_option_eq_some
    intro i hi
    have hi' := hb i hi
    have h1 : i < k.events.length := by rw [h.lenE]; exact hi'
    have h2 : i < k.aliases.length := by rw [h.lenA]; exact hi'
    simp [KCap.entry?, List.getElem?_eq_getElem h1, List.getElem?_eq_getElem h2, List.getD_eq_getElem?_getD]
  rw [this]; rfl

/-! ### run invariant: no out-of-bounds access, capture within the cap, bounded enumeration -/

/-- every state id mentioned by the automaton is a valid index -/
def NfaWf (nfa : Nfa) : Prop :=
  nfa.start < nfa.states.length ∧
  ∀ (i : Nat) (st : State), nfa.states[i]? = some st →
    (∀ t ∈ st.trans, t < nfa.states.length) ∧ (∀ e ∈ st.eps, e < nfa.states.length)

/-- invariant of an active run -/
def RunInv (nfa : Nfa) (lim : Limits) (r : Run) : Prop :=
  r.cur < nfa.states.length ∧ ∀ k, r.kc = some k → KInv k ∧ k.nextVar ≤ lim.maxEvents

/-- what `advance` guarantees about its result -/
def AdvOk (nfa : Nfa) (lim : Limits) : Adv → Prop
  | .cont r => RunInv nfa lim r
  | .noMatch r => RunInv nfa lim r
  | .completeCont r _ => RunInv nfa lim r
  | .complete _ => True
  | .multi ms => 1 ≤ lim.maxResults → ms.length ≤ lim.maxResults
  | .panic => False

theorem runInv_push {nfa : Nfa} {lim : Limits} {r : Run} (h : RunInv nfa lim r) (next : Nat)
    (hn : next < nfa.states.length) (e : Ev) (al : Option Nat) :
    RunInv nfa lim ({ r with cur := next }.push e al) := by
  exact ⟨hn, h.2⟩

theorem runInv_push' {nfa : Nfa} {lim : Limits} {r : Run} (h : RunInv nfa lim r) (e : Ev) (al : Option Nat) :
    RunInv nfa lim (r.push e al) := ⟨h.1, h.2⟩

theorem completeRun_ok (nfa : Nfa) (lim : Limits) (r : Run) (h : ∀ k, r.kc = some k → KInv k) :
    AdvOk nfa lim (completeRun r lim) := by
  unfold completeRun
  split
  · rename_i k hk
    split
    · rename_i p hp
      have hc := combos_eq (h k hk)
      simp only [enumerate, hc, Option.map_some]
      intro hmr
      exact enumLoop_length_le r k p lim.maxResults hmr _
    · trivial
  · trivial

theorem enterKleene_ok (nfa : Nfa) (lim : Limits) (r : Run) (st : State) (e : Ev)
    (h : RunInv nfa lim r) : AdvOk nfa lim (enterKleene r st e lim) := by
  unfold enterKleene
  by_cases hacc : st.epsAccept = true
  · simp only [hacc, if_true, AdvOk]; exact h
  · simp only [hacc]
    cases hkc : r.kc with
    | none =>
      by_cases hge : (KCap.init st.postponed).nextVar ≥ lim.maxEvents
      · simp only [hge, if_true, AdvOk]
        refine ⟨h.1, ?_⟩
        intro k hk
        simp only [Option.some.injEq] at hk
        subst hk
        exact ⟨kinv_init _, by simp [KCap.init]⟩
      · simp only [hge, if_false, AdvOk]
        refine ⟨h.1, ?_⟩
        intro k hk
        simp only [Option.some.injEq] at hk
        subst hk
        exact ⟨kinv_add (kinv_init _) _ _, by simp [KCap.init] at hge ⊢; omega⟩
    | some k' =>
      have hk' := h.2 k' hkc
      by_cases hge : k'.nextVar ≥ lim.maxEvents
      · simp only [hge, if_true, AdvOk]
        refine ⟨h.1, ?_⟩
        intro k hk
        simp only [Option.some.injEq] at hk
        subst hk
        exact hk'
      · simp only [hge, if_false, AdvOk]
        refine ⟨h.1, ?_⟩
        intro k hk
        simp only [Option.some.injEq] at hk
        subst hk
        exact ⟨kinv_add hk'.1 _ _, by simp; omega⟩

theorem tryTransitions_ok (nfa : Nfa) (lim : Limits) (r : Run) (e : Ev) (h : RunInv nfa lim r) :
    ∀ (l : List Nat), (∀ t ∈ l, t < nfa.states.length) → ∀ a, tryTransitions nfa lim r e l = some a → AdvOk nfa lim a := by
  intro l
  induction l with
  | nil => intro _ a ha; simp [tryTransitions] at ha
  | cons next rest ih =>
    intro hl a ha
    have hn : next < nfa.states.length := hl next (by simp)
    simp only [tryTransitions, List.getElem?_eq_getElem hn] at ha
    split at ha
    · have hr := runInv_push h next hn e (nfa.states[next]).alias
      split at ha
      · cases ha; exact completeRun_ok nfa lim _ (fun k hk => (hr.2 k hk).1)
      · split at ha
        · cases ha; exact enterKleene_ok nfa lim _ _ e hr
        · cases ha; exact hr
    · exact ih (fun t ht => hl t (List.mem_cons_of_mem _ ht)) a ha

theorem tryEpsTargets_ok (nfa : Nfa) (lim : Limits) (r : Run) (e : Ev) (h : RunInv nfa lim r) :
    ∀ (l : List Nat), (∀ t ∈ l, t < nfa.states.length) → ∀ a, tryEpsTargets nfa lim r e l = some a → AdvOk nfa lim a := by
  intro l
  induction l with
  | nil => intro _ a ha; simp [tryEpsTargets] at ha
  | cons next rest ih =>
    intro hl a ha
    have hn : next < nfa.states.length := hl next (by simp)
    simp only [tryEpsTargets, List.getElem?_eq_getElem hn] at ha
    split at ha
    · have hr := runInv_push h next hn e (nfa.states[next]).alias
      split at ha
      · cases ha; exact completeRun_ok nfa lim _ (fun k hk => (hr.2 k hk).1)
      · cases ha; exact hr
    · exact ih (fun t ht => hl t (List.mem_cons_of_mem _ ht)) a ha

theorem tryEps_ok (nfa : Nfa) (lim : Limits) (r : Run) (e : Ev) (skip : Bool) (hw : NfaWf nfa) (h : RunInv nfa lim r) :
    ∀ (l : List Nat), (∀ t ∈ l, t < nfa.states.length) → ∀ a, tryEps nfa lim r e skip l = some a → AdvOk nfa lim a := by
  intro l
  induction l with
  | nil => intro _ a ha; simp [tryEps] at ha
  | cons ep rest ih =>
    intro hl a ha
    have hn : ep < nfa.states.length := hl ep (by simp)
    have hrest := ih (fun t ht => hl t (List.mem_cons_of_mem _ ht))
    simp only [tryEps, List.getElem?_eq_getElem hn] at ha
    split at ha
    · split at ha
      · exact hrest a ha
      · cases ha; exact completeRun_ok nfa lim _ (fun k hk => (h.2 k hk).1)
    · split at ha
      · rename_i a' ha'
        cases ha
        exact tryEpsTargets_ok nfa lim r e h _ (hw.2 ep _ (List.getElem?_eq_getElem hn)).1 _ ha'
      · exact hrest a ha

/-- `advance_run_shared` never indexes out of bounds, keeps the run invariant (capture within the cap) and
emits at most `max_results` matches per completion -/
theorem advance_ok (nfa : Nfa) (lim : Limits) (r : Run) (e : Ev) (hw : NfaWf nfa) (hk : 1 ≤ lim.maxEvents)
    (h : RunInv nfa lim r) : AdvOk nfa lim (advance nfa lim r e) := by
  unfold advance
  have hc := h.1
  have hst := hw.2 r.cur _ (List.getElem?_eq_getElem hc)
  simp only [List.getElem?_eq_getElem hc]
  generalize nfa.states[r.cur] = st at hst ⊢
  by_cases hacc : st.ty = .accept
  · simp only [hacc, if_true]; exact completeRun_ok nfa lim _ (fun k hk => (h.2 k hk).1)
  · simp only [hacc, if_false]
    by_cases hloop : (decide (st.ty = STy.kleene) && st.selfLoop && matchesState st e r.captured) = true
    · simp only [hloop, if_true]
      cases hkc : r.kc with
      | none =>
        simp only [Bool.false_eq_true, if_false]
        by_cases hea : st.epsAccept = true
        · simp only [hea, if_true, AdvOk]; exact runInv_push' h _ _
        · simp only [hea, AdvOk]
          refine ⟨h.1, ?_⟩
          intro k hk'
          simp only [Option.some.injEq] at hk'
          subst hk'
          simp only [Run.push, hkc]
          exact ⟨kinv_add (kinv_init _) _ _, by simp [KCap.init]; omega⟩
      | some k' =>
        have hk' := h.2 k' hkc
        by_cases hcap : k'.nextVar ≥ lim.maxEvents
        · simp only [hcap, decide_true, if_true, AdvOk]; exact h
        · simp only [hcap, decide_false, Bool.false_eq_true, if_false]
          by_cases hea : st.epsAccept = true
          · simp only [hea, if_true, AdvOk]; exact runInv_push' h _ _
          · simp only [hea, AdvOk]
            refine ⟨h.1, ?_⟩
            intro k hk''
            simp only [Option.some.injEq] at hk''
            subst hk''
            simp only [Run.push, hkc]
            exact ⟨kinv_add hk'.1 _ _, by simp; omega⟩
    · simp only [hloop]
      cases ht : tryTransitions nfa lim r e st.trans with
      | some a => exact tryTransitions_ok nfa lim r e h _ hst.1 a ht
      | none =>
        cases he : tryEps nfa lim r e (decide (st.ty = STy.kleene) && st.selfLoop && st.epsAccept) st.eps with
        | some a => exact tryEps_ok nfa lim r e _ hw h _ hst.2 a he
        | none => exact h

/-- what `try_start_run_shared` guarantees -/
def StartOk (nfa : Nfa) (lim : Limits) : Start → Prop
  | .none => True
  | .run r => RunInv nfa lim r
  | .panic => False

theorem startTargets_ok (nfa : Nfa) (lim : Limits) (e : Ev) (seq : Nat) :
    ∀ (l : List Nat), (∀ t ∈ l, t < nfa.states.length) → ∀ s, startTargets nfa e seq l = some s → StartOk nfa lim s := by
  intro l
  induction l with
  | nil => intro _ s hs; simp [startTargets] at hs
  | cons next rest ih =>
    intro hl s hs
    have hn : next < nfa.states.length := hl next (by simp)
    simp only [startTargets, List.getElem?_eq_getElem hn] at hs
    split at hs
    · cases hs
      exact ⟨hn, by intro k hk; simp [Run.push] at hk⟩
    · exact ih (fun t ht => hl t (List.mem_cons_of_mem _ ht)) s hs

theorem startEps_ok (nfa : Nfa) (lim : Limits) (e : Ev) (seq : Nat) (hw : NfaWf nfa) :
    ∀ (l : List Nat), (∀ t ∈ l, t < nfa.states.length) → ∀ s, startEps nfa e seq l = some s → StartOk nfa lim s := by
  intro l
  induction l with
  | nil => intro _ s hs; simp [startEps] at hs
  | cons ep rest ih =>
    intro hl s hs
    have hn : ep < nfa.states.length := hl ep (by simp)
    simp only [startEps, List.getElem?_eq_getElem hn] at hs
    cases ht : startTargets nfa e seq (nfa.states[ep]).trans with
    | some s' =>
      simp only [ht] at hs
      cases hs
      exact startTargets_ok nfa lim e seq _ (hw.2 ep _ (List.getElem?_eq_getElem hn)).1 _ ht
    | none =>
      simp only [ht] at hs
      exact ih (fun t ht => hl t (List.mem_cons_of_mem _ ht)) s hs

theorem tryStart_ok (nfa : Nfa) (lim : Limits) (e : Ev) (seq : Nat) (hw : NfaWf nfa) :
    StartOk nfa lim (tryStart nfa e seq) := by
  unfold tryStart
  have hs := hw.1
  have hst := hw.2 nfa.start _ (List.getElem?_eq_getElem hs)
  simp only [List.getElem?_eq_getElem hs]
  cases ht : startTargets nfa e seq (nfa.states[nfa.start]).trans with
  | some s => exact startTargets_ok nfa lim e seq _ hst.1 _ ht
  | none =>
    cases he : startEps nfa e seq (nfa.states[nfa.start]).eps with
    | some s => exact startEps_ok nfa lim e seq hw _ hst.2 _ he
    | none => trivial

/-! ### `compile_wf` -/

/-- all ids mentioned by a state are below `n` -/
def SOk (n : Nat) (st : State) : Prop := (∀ t ∈ st.trans, t < n) ∧ (∀ e ∈ st.eps, e < n)

theorem SOk.mono {n m : Nat} {st : State} (h : SOk n st) (hnm : n ≤ m) : SOk m st :=
  ⟨fun t ht => Nat.lt_of_lt_of_le (h.1 t ht) hnm, fun e he => Nat.lt_of_lt_of_le (h.2 e he) hnm⟩

theorem mem_modify {α : Type} (f : α → α) : ∀ (l : List α) (i : Nat) (x : α),
    x ∈ l.modify i f → x ∈ l ∨ ∃ y ∈ l, x = f y := by
  intro l
  induction l with
  | nil => intro i x hx; simp at hx
  | cons a l ih =>
    intro i x hx
    cases i with
    | zero =>
      simp only [List.modify_zero_cons, List.mem_cons] at hx
      rcases hx with rfl | hx
      · exact Or.inr ⟨a, by simp, rfl⟩
      · exact Or.inl (List.mem_cons_of_mem _ hx)
    | succ i =>
      simp only [List.modify_succ_cons, List.mem_cons] at hx
      rcases hx with rfl | hx
      · exact Or.inl (by simp)
      · rcases ih i x hx with h | ⟨y, hy, rfl⟩
        · exact Or.inl (List.mem_cons_of_mem _ h)
        · exact Or.inr ⟨y, List.mem_cons_of_mem _ hy, rfl⟩

theorem sok_modify {n : Nat} {l : List State} (h : ∀ st ∈ l, SOk n st) (i : Nat) (f : State → State)
    (hf : ∀ st, SOk n st → SOk n (f st)) : ∀ st ∈ modifyAt l i f, SOk n st := by
  intro st hst
  rcases mem_modify f l i st hst with h' | ⟨y, hy, rfl⟩
  · exact h st h'
  · exact hf y (h y hy)

/-- invariant of the compilation loop -/
structure CInv (n : Nfa) (last : Nat) : Prop where
  start : n.start = 0
  last : last < n.states.length
  ok : ∀ st ∈ n.states, SOk n.states.length st

theorem cinv_init : CInv ({} : Nfa) 0 := by
  constructor
  · rfl
  · simp
  · intro st hst
    simp at hst
    subst hst
    exact ⟨by simp, by simp⟩

theorem length_modifyAt (l : List State) (i : Nat) (f : State → State) : (modifyAt l i f).length = l.length := by
  simp [modifyAt]

theorem cinv_compileStep {n : Nfa} {prev : Nat} (h : CInv n prev) (s : Step) :
    CInv (compileStep n prev s).1 (compileStep n prev s).2 := by
  have hlen : n.states.length < n.states.length + 1 := Nat.lt_succ_self _
  -- after add_state + add_transition
  have h2 : ∀ st ∈ modifyAt (n.states ++ [{ ty := .normal, evTy := some s.ty, pred := s.pred, alias := s.alias }]) prev
      (fun st => { st with trans := st.trans ++ [n.states.length] }), SOk (n.states.length + 1) st := by
    apply sok_modify
    · intro st hst
      rcases List.mem_append.mp hst with h' | h'
      · exact (h.ok st h').mono (Nat.le_succ _)
      · simp at h'; subst h'; exact ⟨by simp, by simp⟩
    · intro st hst
      refine ⟨?_, hst.2⟩
      intro t ht
      simp at ht
      rcases ht with ht | rfl
      · exact hst.1 t ht
      · exact hlen
  unfold compileStep
  simp only [Nfa.addState, Nfa.addTransition, Nfa.addEpsilon]
  by_cases hk : s.kleene = true
  · simp only [hk, Bool.not_true, Bool.false_eq_true, if_false]
    constructor
    · exact h.start
    · simp [length_modifyAt]
    · simp only [length_modifyAt, List.length_append, List.length_cons, List.length_nil]
      refine sok_modify ?_ _ _ ?_
      · intro st hst
        rcases List.mem_append.mp hst with h' | h'
        · refine sok_modify (sok_modify (fun st hst => (h2 st hst).mono (Nat.le_succ _)) _ _ ?_) _ _ ?_ st h'
          · intro st hst
            split
            · split <;> exact hst
            · exact hst
          · intro st hst
            refine ⟨hst.1, ?_⟩
            intro e he
            simp at he
            rcases he with he | rfl
            · exact hst.2 e he
            · omega
        · simp at h'; subst h'; exact ⟨by simp, by simp⟩
      · intro st hst
        refine ⟨hst.1, ?_⟩
        intro e he
        simp at he
        rcases he with he | rfl
        · exact hst.2 e he
        · omega
  · simp only [hk, Bool.not_false, if_true]
    constructor
    · exact h.start
    · simp [length_modifyAt]
    · simp only [length_modifyAt, List.length_append, List.length_cons, List.length_nil]
      exact h2

theorem cinv_foldl (steps : List Step) : ∀ (n : Nfa) (prev : Nat), CInv n prev →
    CInv (steps.foldl (fun (acc : Nfa × Nat) s => compileStep acc.1 acc.2 s) (n, prev)).1
         (steps.foldl (fun (acc : Nfa × Nat) s => compileStep acc.1 acc.2 s) (n, prev)).2 := by
  induction steps with
  | nil => intro n prev h; exact h
  | cons s rest ih =>
    intro n prev h
    simp only [List.foldl_cons]
    exact ih _ _ (cinv_compileStep h s)

/-- `compile_wf`: every state id stored in a compiled automaton is a valid index -/
theorem compile_wf (steps : List Step) : NfaWf (compile steps) := by
  have h := cinv_foldl steps ({} : Nfa) 0 cinv_init
  unfold compile
  generalize (steps.foldl (fun (acc : Nfa × Nat) s => compileStep acc.1 acc.2 s) (({} : Nfa), 0)) = res at h
  obtain ⟨n, last⟩ := res
  simp only at h ⊢
  have hacc : ∀ st ∈ (n.setAccept last).states, SOk n.states.length st := by
    simp only [Nfa.setAccept]
    apply sok_modify h.ok
    intro st hst; exact hst
  constructor
  · simp [Nfa.setAccept, length_modifyAt, h.start]
    exact Nat.lt_of_le_of_lt (Nat.zero_le _) h.last
  · intro i st hst
    have hm : st ∈ ((n.setAccept last).states.map fun s =>
        { s with epsAccept := s.eps.any fun e => match (n.setAccept last).states[e]? with | some t => t.ty == .accept | none => false }) :=
      List.mem_of_getElem? hst
    rcases List.mem_map.mp hm with ⟨s0, hs0, rfl⟩
    have := hacc s0 hs0
    simp only [List.length_map, Nfa.setAccept, length_modifyAt]
    exact this

/-! ### symbolic execution of `A -> all B -> C` -/

/-- the pattern `A as a [where pa] -> all B as b [where pb] -> C as c [where pc]` -/
def midSteps (pa pb pc : Option Pred) : List Step :=
  [{ ty := 0, pred := pa, alias := some 0 }, { ty := 1, pred := pb, alias := some 1, kleene := true },
   { ty := 2, pred := pc, alias := some 2 }]

/-- its automaton: 0 start → 1 A → 2 B (Kleene, self-loop, ε→2, ε→3) ; 3 continue → 4 C = accept.
`pe` is the filter evaluated eagerly on B events, `pp` the postponed one. -/
def nfaMid (pa pe pp pc : Option Pred) : Nfa :=
  { states := [
      { ty := .start, trans := [1] },
      { ty := .normal, evTy := some 0, pred := pa, alias := some 0, trans := [2] },
      { ty := .kleene, evTy := some 1, pred := pe, postponed := pp, alias := some 1, eps := [2, 3], selfLoop := true },
      { ty := .normal, trans := [4] },
      { ty := .accept, evTy := some 2, pred := pc, alias := some 2 } ],
    start := 0 }

theorem compile_mid_selfref (pa pc : Option Pred) (p : Pred) (h : selfRef (some 1) p = true) :
    compile (midSteps pa (some p) pc) = nfaMid pa none (some p) pc := by
  simp [compile, midSteps, compileStep, Nfa.addState, Nfa.addTransition, Nfa.addEpsilon, Nfa.setAccept, modifyAt, nfaMid, h, List.modify]

theorem compile_mid_consistent (pa pc : Option Pred) (p : Pred) (h : selfRef (some 1) p = false) :
    compile (midSteps pa (some p) pc) = nfaMid pa (some p) none pc := by
  simp [compile, midSteps, compileStep, Nfa.addState, Nfa.addTransition, Nfa.addEpsilon, Nfa.setAccept, modifyAt, nfaMid, h, List.modify]

theorem compile_mid_nofilter (pa pc : Option Pred) :
    compile (midSteps pa none pc) = nfaMid pa none none pc := by
  simp [compile, midSteps, compileStep, Nfa.addState, Nfa.addTransition, Nfa.addEpsilon, Nfa.setAccept, modifyAt, nfaMid, List.modify]
def capAB (eA last : Ev) : Cap := [(1, last), (0, eA)]

/-- the capture after the events `kept` were accumulated -/
def kcOf (pp : Option Pred) (kept : List Ev) : KCap :=
  { handle := if pp.isSome then full 0 kept.length else .base, events := kept,
    aliases := List.replicate kept.length (some 1), nextVar := kept.length, deferred := pp, needsZdd := pp.isSome }

def runAt1 (eA : Ev) (seq : Nat) : Run := { cur := 1, stack := [⟨eA, some 0⟩], captured := [(0, eA)], seq := seq }

def runAt2 (pp : Option Pred) (eA : Ev) (kept : List Ev) (last : Ev) (seq : Nat) : Run :=
  { cur := 2, stack := ⟨eA, some 0⟩ :: kept.map (⟨·, some 1⟩), captured := capAB eA last, seq := seq,
    kc := some (kcOf pp kept) }

theorem kcOf_first (pp : Option Pred) (b : Ev) : (KCap.init pp).add b (some 1) = kcOf pp [b] := by
  cases pp <;> simp [KCap.init, KCap.add, KCap.extend, KCap.extendSimple, kcOf, pwo, mk, full]

theorem kcOf_add (pp : Option Pred) (kept : List Ev) (b : Ev) : (kcOf pp kept).add b (some 1) = kcOf pp (kept ++ [b]) := by
  have := pwo_full 0 kept.length
  simp only [Nat.zero_add] at this
  cases pp <;> simp [KCap.add, KCap.extend, KCap.extendSimple, kcOf, this, List.replicate_succ']

theorem adv_first (pa pe pp pc : Option Pred) (lim : Limits) (eA b : Ev) (seq : Nat) (hb : b.ty = 1) (hk : 1 ≤ lim.maxEvents) :
    advance (nfaMid pa pe pp pc) lim (runAt1 eA seq) b =
      if predOk pe b [(0, eA)] then .cont (runAt2 pp eA [b] b seq) else .noMatch (runAt1 eA seq) := by
  have hk' : ¬ ((KCap.init pp).nextVar ≥ lim.maxEvents) := by simp [KCap.init]; omega
  have hfirst := kcOf_first pp b
  have hcapset : Cap.set [(0, eA)] 1 b = capAB eA b := by simp [Cap.set, capAB]
  by_cases hok : predOk pe b [(0, eA)] = true
  · simp [advance, nfaMid, runAt1, runAt2, tryTransitions, matchesState, tyOk, hb, hok, enterKleene, Run.push,
      Cap.setOpt, hcapset, hk', hfirst]
  · simp [advance, nfaMid, runAt1, tryTransitions, tryEps, matchesState, tyOk, hb, hok]

theorem adv_loop (pa pe pp pc : Option Pred) (lim : Limits) (eA last b : Ev) (kept : List Ev) (seq : Nat) (hb : b.ty = 1) :
    advance (nfaMid pa pe pp pc) lim (runAt2 pp eA kept last seq) b =
      if predOk pe b (capAB eA last) then
        (if kept.length ≥ lim.maxEvents then .cont (runAt2 pp eA kept last seq)
         else .cont (runAt2 pp eA (kept ++ [b]) b seq))
      else .noMatch (runAt2 pp eA kept last seq) := by
  have hadd := kcOf_add pp kept b
  have hnv : (kcOf pp kept).nextVar = kept.length := rfl
  have hcapset : Cap.set (capAB eA last) 1 b = capAB eA b := by simp [Cap.set, capAB]
  by_cases hok : predOk pe b (capAB eA last) = true
  · by_cases hcap : kept.length ≥ lim.maxEvents
    · simp [advance, nfaMid, runAt2, matchesState, tyOk, hb, hok, hcap, hnv]
    · simp [advance, nfaMid, runAt2, matchesState, tyOk, hb, hok, hcap, hnv, Run.push, Cap.setOpt, hcapset, hadd]
  · simp [advance, nfaMid, runAt2, matchesState, tyOk, hb, hok, tryTransitions, tryEps, tryEpsTargets]

theorem adv_complete (pa pe pp pc : Option Pred) (lim : Limits) (eA last c : Ev) (kept : List Ev) (seq : Nat) (hc : c.ty = 2) :
    advance (nfaMid pa pe pp pc) lim (runAt2 pp eA kept last seq) c =
      if predOk pc c (capAB eA last) then
        completeRun { cur := 4, stack := (⟨eA, some 0⟩ :: kept.map (⟨·, some 1⟩)) ++ [⟨c, some 2⟩],
                      captured := (2, c) :: capAB eA last, seq := seq, kc := some (kcOf pp kept) } lim
      else .noMatch (runAt2 pp eA kept last seq) := by
  have hcapset : Cap.set (capAB eA last) 2 c = (2, c) :: capAB eA last := by simp [Cap.set, capAB]
  by_cases hok : predOk pc c (capAB eA last) = true
  · simp [advance, nfaMid, runAt2, matchesState, tyOk, hc, hok, tryTransitions, tryEps, tryEpsTargets, Run.push, Cap.setOpt, hcapset]
  · simp [advance, nfaMid, runAt2, matchesState, tyOk, hc, hok, tryTransitions, tryEps, tryEpsTargets]

/-! ### symbolic execution of `A -> all B` (trailing closure) -/

/-- the pattern `A as a [where pa] -> all B as b [where pb]` -/
def trailSteps (pa pb : Option Pred) : List Step :=
  [{ ty := 0, pred := pa, alias := some 0 }, { ty := 1, pred := pb, alias := some 1, kleene := true }]

/-- its automaton: 0 start → 1 A → 2 B (Kleene, self-loop, ε→2, ε→3) ; 3 continue = accept -/
def nfaTrail (pa pe : Option Pred) : Nfa :=
  { states := [
      { ty := .start, trans := [1] },
      { ty := .normal, evTy := some 0, pred := pa, alias := some 0, trans := [2] },
      { ty := .kleene, evTy := some 1, pred := pe, alias := some 1, eps := [2, 3], selfLoop := true, epsAccept := true },
      { ty := .accept } ],
    start := 0 }

theorem compile_trail_consistent (pa : Option Pred) (p : Pred) (h : selfRef (some 1) p = false) :
    compile (trailSteps pa (some p)) = nfaTrail pa (some p) := by
  simp [compile, trailSteps, compileStep, Nfa.addState, Nfa.addTransition, Nfa.addEpsilon, Nfa.setAccept, modifyAt, nfaTrail, h, List.modify]

theorem compile_trail_nofilter (pa : Option Pred) : compile (trailSteps pa none) = nfaTrail pa none := by
  simp [compile, trailSteps, compileStep, Nfa.addState, Nfa.addTransition, Nfa.addEpsilon, Nfa.setAccept, modifyAt, nfaTrail, List.modify]

/-- the run of a trailing closure after the B events `kept` (no capture exists on this path) -/
def runT (eA : Ev) (kept : List Ev) (last : Ev) (seq : Nat) : Run :=
  { cur := 2, stack := ⟨eA, some 0⟩ :: kept.map (⟨·, some 1⟩), captured := capAB eA last, seq := seq }

def matchT (eA : Ev) (kept : List Ev) (last : Ev) : Match :=
  { captured := capAB eA last, stack := ⟨eA, some 0⟩ :: kept.map (⟨·, some 1⟩) }

theorem advT_first (pa pe : Option Pred) (lim : Limits) (eA e : Ev) (seq : Nat) (he : e.ty ≠ 0) :
    advance (nfaTrail pa pe) lim (runAt1 eA seq) e =
      if e.ty = 1 ∧ predOk pe e [(0, eA)] = true then .completeCont (runT eA [e] e seq) (matchT eA [e] e)
      else .noMatch (runAt1 eA seq) := by
  have hcapset : Cap.set [(0, eA)] 1 e = capAB eA e := by simp [Cap.set, capAB]
  by_cases h1 : e.ty = 1
  · by_cases hok : predOk pe e [(0, eA)] = true
    · simp [advance, nfaTrail, runAt1, runT, matchT, tryTransitions, matchesState, tyOk, h1, hok, enterKleene, Run.push,
        Cap.setOpt, hcapset]
    · simp [advance, nfaTrail, runAt1, tryTransitions, tryEps, matchesState, tyOk, h1, hok]
  · simp [advance, nfaTrail, runAt1, tryTransitions, tryEps, matchesState, tyOk, h1]

theorem advT_loop (pa pe : Option Pred) (lim : Limits) (eA last e : Ev) (kept : List Ev) (seq : Nat) (he : e.ty ≠ 0) :
    advance (nfaTrail pa pe) lim (runT eA kept last seq) e =
      if e.ty = 1 ∧ predOk pe e (capAB eA last) = true then
        .completeCont (runT eA (kept ++ [e]) e seq) (matchT eA (kept ++ [e]) e)
      else .noMatch (runT eA kept last seq) := by
  have hcapset : Cap.set (capAB eA last) 1 e = capAB eA e := by simp [Cap.set, capAB]
  by_cases h1 : e.ty = 1
  · by_cases hok : predOk pe e (capAB eA last) = true
    · simp [advance, nfaTrail, runT, matchT, matchesState, tyOk, h1, hok, Run.push, Cap.setOpt, hcapset]
    · simp [advance, nfaTrail, runT, matchesState, tyOk, h1, hok, tryTransitions, tryEps, tryEpsTargets]
  · simp [advance, nfaTrail, runT, matchesState, tyOk, h1, tryTransitions, tryEps, tryEpsTargets]

theorem tryStart_trail_none (pa pe : Option Pred) (e : Ev) (seq : Nat) (h : e.ty ≠ 0) :
    tryStart (nfaTrail pa pe) e seq = .none := by
  simp [tryStart, nfaTrail, startTargets, startEps, matchesState, tyOk, h]

theorem tryStart_trail_A (pa pe : Option Pred) (e : Ev) (seq : Nat) (h : e.ty = 0) (hp : predOk pa e [] = true) :
    tryStart (nfaTrail pa pe) e seq = .run (runAt1 e seq) := by
  simp [tryStart, nfaTrail, startTargets, matchesState, tyOk, h, hp, runAt1, Run.push, Cap.setOpt, Cap.set]

end Varpulis.SaseK
