import Varpulis.Model.Sase
import Varpulis.Lemmas.SaseKleene
/-!
# Lemmas for C01 / C02 over the step-level SASE model
-/
namespace Varpulis.Sase

/-- the stream carries strictly increasing arrival indices -/
def Sorted (evs : List Event) : Prop := evs.Pairwise (fun a b => a.idx < b.idx)

/-! ## captures -/

theorem capsOf_append (st : List Entry) (en : Entry) : capsOf (st ++ [en]) = en.binding ++ capsOf st := by
  induction st with
  | nil => simp [capsOf]
  | cons x xs ih => simp [capsOf, ih]

theorem push_stack (r : Run) (e : Event) (a : Option String) : (r.push e a).stack = r.stack ++ [⟨e, a⟩] := rfl
theorem push_pos (r : Run) (e : Event) (a : Option String) : (r.push e a).pos = r.pos := rfl
theorem push_inv (r : Run) (e : Event) (a : Option String) : (r.push e a).invalidated = r.invalidated := rfl

theorem push_caps (r : Run) (e : Event) (a : Option String) (h : r.caps = capsOf r.stack) :
    (r.push e a).caps = capsOf (r.push e a).stack := by
  rw [push_stack, capsOf_append]
  cases a <;> simp [Run.push, h, Entry.binding]

/-! ## `Expl`: a witness that a stack reads as the steps `0..pos`, built the way the engine builds it -/

inductive Expl (steps : List Step) : List Entry → Nat → Prop where
  | start {s : Step} {en : Entry} : steps[0]? = some s → stepOk s true en [] = true → Expl steps [en] 0
  | next {st : List Entry} {i : Nat} {s : Step} {en : Entry} : Expl steps st i → steps[i + 1]? = some s →
      stepOk s true en (capsOf st) = true → Expl steps (st ++ [en]) (i + 1)
  | loop {st : List Entry} {i : Nat} {s : Step} {en : Entry} : Expl steps st i → steps[i]? = some s →
      s.kleene = true → stepOk s false en (capsOf st) = true → Expl steps (st ++ [en]) i

theorem Expl.ne_nil {steps st i} (h : Expl steps st i) : st ≠ [] := by
  cases h <;> simp

theorem Expl.pos_lt {steps st i} (h : Expl steps st i) : i < steps.length := by
  induction h with
  | start h0 _ => exact (List.getElem?_eq_some_iff.mp h0).1
  | next _ h1 _ _ => exact (List.getElem?_eq_some_iff.mp h1).1
  | loop _ _ _ _ ih => exact ih

/-- the state of `explains` after reading a stack that ends in step `i` -/
def After (steps : List Step) (i : Nat) (done rest : List Entry) : Bool :=
  match steps[i]? with
  | some s => if s.kleene then explains (steps.drop i) true done rest else explains (steps.drop (i + 1)) false done rest
  | none => false

theorem drop_cons_of_get {α} {l : List α} {i : Nat} {x : α} (h : l[i]? = some x) : l.drop i = x :: l.drop (i + 1) := by
  have := List.getElem?_eq_some_iff.mp h
  obtain ⟨hi, hx⟩ := this
  rw [List.drop_eq_getElem_cons hi, hx]

/-- entering step `j` (whose entry `en` is the first of its group) from the parser state `(drop j, false)` -/
theorem explains_enter {steps : List Step} {j : Nat} {s : Step} (hs : steps[j]? = some s)
    (done : List Entry) (en : Entry) (rest : List Entry)
    (hok : stepOk s true en (capsOf done) = true) (h : After steps j (done ++ [en]) rest = true) :
    explains (steps.drop j) false done (en :: rest) = true := by
  rw [drop_cons_of_get hs]
  unfold After at h
  rw [hs] at h
  unfold explains
  by_cases hk : s.kleene
  · simp only [hk, if_true] at h ⊢
    rw [drop_cons_of_get hs] at h
    simp [hok, h]
  · simp [hk] at h ⊢
    simp [hok, h]

theorem explains_of_expl {steps : List Step} {st : List Entry} {i : Nat} (h : Expl steps st i) :
    ∀ rest, After steps i st rest = true → explains steps false [] (st ++ rest) = true := by
  induction h with
  | @start s en h0 hok =>
    intro rest ha
    have := explains_enter (steps := steps) (j := 0) h0 [] en rest (by simpa [capsOf] using hok) (by simpa using ha)
    simpa using this
  | @next st i s en _ h1 hok ih =>
    intro rest ha
    rw [List.append_assoc]
    apply ih
    -- leave step i (if it is a Kleene step) and enter step i+1
    have henter := explains_enter (steps := steps) (j := i + 1) h1 st en rest hok ha
    unfold After
    cases hsi : steps[i]? with
    | none => have := (List.getElem?_eq_some_iff.mp h1).1; simp at hsi; omega
    | some si =>
      by_cases hk : si.kleene
      · simp only [hk, if_true]
        rw [drop_cons_of_get hsi]
        simp only [List.singleton_append] at henter ⊢
        unfold explains
        simp [hk, henter]
      · simp only [hk]
        simpa using henter
  | @loop st i s en _ hs hk hok ih =>
    intro rest ha
    rw [List.append_assoc]
    apply ih
    unfold After at ha ⊢
    rw [hs] at ha ⊢
    simp only [hk, if_true] at ha ⊢
    rw [drop_cons_of_get hs] at ha ⊢
    simp only [List.singleton_append]
    unfold explains
    simp [hk, hok, ha]

/-! ## the per-run invariant of C01 -/

theorem capsBefore_all {st : List Entry} {i : Nat} (h : ∀ en ∈ st, en.ev.idx < i) : capsBefore st i = capsOf st := by
  unfold capsBefore
  rw [List.filter_eq_self.mpr]
  intro en hen; simpa using h en hen

theorem capsBefore_append_ge {st : List Entry} {en : Entry} {i : Nat} (h : ¬ en.ev.idx < i) :
    capsBefore (st ++ [en]) i = capsBefore st i := by
  unfold capsBefore
  simp [List.filter_append, h]

/-- **RunInv**: what holds of every active run after the events `seen` (the run lives in partition `key`). -/
structure RunInv (p : Pat) (seen : List Event) (key : String) (r : Run) : Prop where
  /-- the stack is a subsequence of the input, in arrival order -/
  sub : (r.stack.map (·.ev)).Sublist seen
  /-- the capture map is the one the stack determines -/
  capsEq : r.caps = capsOf r.stack
  /-- entry by entry: right step, right type, filter satisfied against the captures at that moment -/
  expl : Expl p.steps r.stack r.pos
  /-- all entries carry the partition key -/
  part : ∀ en ∈ r.stack, keyOf p en.ev = key
  /-- unless the run is marked invalidated, no event after its first entry satisfied a `.not` clause -/
  neg : r.invalidated = false → ∀ g ∈ seen, (∀ f, r.stack.head? = some f → f.ev.idx < g.idx) →
    negHit p g (capsBefore r.stack g.idx) = false

theorem RunInv.mem_seen {p seen key r} (h : RunInv p seen key r) : ∀ en ∈ r.stack, en.ev ∈ seen := by
  intro en hen
  exact h.sub.subset (List.mem_map.mpr ⟨en, hen, rfl⟩)

theorem RunInv.congr {p seen key} {r1 r2 : Run} (h : RunInv p seen key r1)
    (hp : r2.pos = r1.pos) (hs : r2.stack = r1.stack) (hc : r2.caps = r1.caps) (hi : r2.invalidated = r1.invalidated) :
    RunInv p seen key r2 := by
  constructor
  · rw [hs]; exact h.sub
  · rw [hs, hc]; exact h.capsEq
  · rw [hs, hp]; exact h.expl
  · rw [hs]; exact h.part
  · rw [hs, hi]; exact h.neg

/-- `check_global_negations` on a run, seen as a step of the invariant from `seen` to `seen ++ [e]` -/
theorem RunInv.mark {p seen key r e} (h : RunInv p seen key r) (hlt : ∀ g ∈ seen, g.idx < e.idx) :
    RunInv p (seen ++ [e]) key (markNeg p e r) := by
  have hstack : (markNeg p e r).stack = r.stack := by unfold markNeg; split <;> rfl
  have hcaps : (markNeg p e r).caps = r.caps := by unfold markNeg; split <;> rfl
  have hpos : (markNeg p e r).pos = r.pos := by unfold markNeg; split <;> rfl
  constructor
  · rw [hstack]; exact h.sub.trans (List.sublist_append_left seen [e])
  · rw [hstack, hcaps]; exact h.capsEq
  · rw [hstack, hpos]; exact h.expl
  · rw [hstack]; exact h.part
  · intro hinv g hg hfirst
    rw [hstack] at hfirst ⊢
    have hhit : negHit p e r.caps = false ∧ r.invalidated = false := by
      unfold markNeg at hinv
      split at hinv
      · simp at hinv
      · rename_i hn; simp at hn; exact ⟨hn, hinv⟩
    rcases List.mem_append.mp hg with hg | hg
    · exact h.neg hhit.2 g hg hfirst
    · have : g = e := by simpa using hg
      subst this
      rw [capsBefore_all (fun en hen => hlt _ (h.mem_seen en hen)), ← h.capsEq]
      exact hhit.1

/-- the run consumed `e` -/
theorem RunInv.extend {p seen key} {r r2 : Run} {e : Event} {a : Option String}
    (h : RunInv p (seen ++ [e]) key r) (hsub : (r.stack.map (·.ev)).Sublist seen)
    (hlt : ∀ g ∈ seen, g.idx < e.idx) (hkey : keyOf p e = key)
    (hstack : r2.stack = r.stack ++ [⟨e, a⟩]) (hcaps : r2.caps = (⟨e, a⟩ : Entry).binding ++ r.caps)
    (hinv : r2.invalidated = r.invalidated) (hexpl : Expl p.steps r2.stack r2.pos) :
    RunInv p (seen ++ [e]) key r2 := by
  constructor
  · rw [hstack]; simpa using hsub.append (List.Sublist.refl [e])
  · rw [hstack, capsOf_append, hcaps, h.capsEq]
  · exact hexpl
  · intro en hen
    rw [hstack] at hen
    rcases List.mem_append.mp hen with hen | hen
    · exact h.part en hen
    · have : en = ⟨e, a⟩ := by simpa using hen
      subst this; exact hkey
  · intro hi g hg hfirst
    rw [hstack] at hfirst ⊢
    have hge : ¬ e.idx < g.idx := by
      rcases List.mem_append.mp hg with hg | hg
      · have := hlt g hg; omega
      · have : g = e := by simpa using hg
        subst this; omega
    rw [capsBefore_append_ge (by simpa using hge)]
    apply h.neg (by rw [← hinv]; exact hi) g hg
    intro f hf
    apply hfirst
    have hne := h.expl.ne_nil
    cases hst : r.stack with
    | nil => exact absurd hst hne
    | cons x xs => rw [hst] at hf; simpa using hf

/-! ## one `advance` preserves the invariant, and what it emits comes from a run that is done -/

theorem stepOk_first {s : Step} {e : Event} {caps : Caps} (h : matchesState s e caps = true) :
    stepOk s true ⟨e, s.alias⟩ caps = true := by
  unfold matchesState Step.eager at h
  unfold stepOk Step.postponed
  cases hp : s.pred with
  | none => simp_all
  | some q =>
    simp only [hp] at h ⊢
    by_cases hc : (s.kleene && selfRef q s.alias) = true
    · simp_all
    · simp_all

theorem stepOk_loop {s : Step} {e : Event} {caps : Caps} (h : matchesState s e caps = true)
    (hpp : ∀ q, s.postponed = some q → evalPred q e caps = true) : stepOk s false ⟨e, s.alias⟩ caps = true := by
  unfold matchesState Step.eager at h
  unfold Step.postponed at hpp
  unfold stepOk
  cases hp : s.pred with
  | none => simp_all
  | some q =>
    simp only [hp] at h hpp ⊢
    by_cases hc : (s.kleene && selfRef q s.alias) = true
    · have := hpp q (by simp [hc])
      simp_all
    · simp_all

theorem inFragment_postponed {p : Pat} (h : p.inFragment = true) {i : Nat} {s : Step}
    (hs : p.steps[i]? = some s) (hl : p.isLast i = false) : s.postponed = none := by
  unfold Pat.inFragment at h
  unfold Pat.isLast at hl
  have hi := (List.getElem?_eq_some_iff.mp hs)
  obtain ⟨hi, hx⟩ := hi
  have hmem : s ∈ p.steps.dropLast := by
    rw [List.mem_iff_getElem]
    refine ⟨i, ?_, ?_⟩
    · simp at hl ⊢; omega
    · simp [hx]
  have := List.all_eq_true.mp h s hmem
  simpa using this

/-- what `advance` may return, in terms of the invariant over `seen'` -/
def AdvOk (p : Pat) (seen' : List Event) (key : String) : Adv → Prop
  | .continue r' => RunInv p seen' key r' ∧ r'.invalidated = false
  | .complete m => ∃ r'', RunInv p seen' key r'' ∧ r''.invalidated = false ∧ p.isLast r''.pos = true ∧ m = r''.result
  | .completeAndContinue r' m => RunInv p seen' key r' ∧ r'.invalidated = false ∧ p.isLast r'.pos = true ∧ m = r'.result
  | .noMatch => True

theorem enter_inv {p : Pat} {seen : List Event} {key : String} {r : Run} {e : Event} {nxt : Step}
    (h : RunInv p (seen ++ [e]) key r) (hsub : (r.stack.map (·.ev)).Sublist seen)
    (hlt : ∀ g ∈ seen, g.idx < e.idx) (hkey : keyOf p e = key)
    (hnxt : p.steps[r.pos + 1]? = some nxt) (hm : matchesState nxt e r.caps = true) :
    RunInv p (seen ++ [e]) key ({ r with pos := r.pos + 1 }.push e nxt.alias) := by
  apply RunInv.extend (a := nxt.alias) h hsub hlt hkey rfl
  · cases nxt.alias <;> rfl
  · rfl
  · show Expl p.steps (r.stack ++ [⟨e, nxt.alias⟩]) (r.pos + 1)
    exact Expl.next h.expl hnxt (stepOk_first (by rw [← h.capsEq]; exact hm))

theorem enterNext_ok {p : Pat} {cfg : Cfg} {seen : List Event} {key : String} {r : Run} {e : Event} {nxt : Step}
    (h : RunInv p (seen ++ [e]) key r) (hninv : r.invalidated = false)
    (hsub : (r.stack.map (·.ev)).Sublist seen)
    (hlt : ∀ g ∈ seen, g.idx < e.idx) (hkey : keyOf p e = key)
    (hnxt : p.steps[r.pos + 1]? = some nxt) (hm : matchesState nxt e r.caps = true) :
    AdvOk p (seen ++ [e]) key (enterNext p cfg r nxt e) := by
  have hr' := enter_inv h hsub hlt hkey hnxt hm
  unfold enterNext
  simp only []
  by_cases hc : (p.isLast (r.pos + 1) && !nxt.kleene) = true
  · rw [if_pos hc]
    exact ⟨_, hr', hninv, by simp at hc; exact hc.1, rfl⟩
  · rw [if_neg hc]
    by_cases hk : nxt.kleene = true
    · rw [if_pos hk]
      by_cases hl : p.isLast (r.pos + 1) = true
      · rw [if_pos hl]; exact ⟨hr', hninv, hl, rfl⟩
      · rw [if_neg hl]; exact ⟨hr'.congr rfl rfl rfl rfl, hninv⟩
    · rw [if_neg hk]; exact ⟨hr', hninv⟩

theorem selfLoop_ok {p : Pat} {cfg : Cfg} {seen : List Event} {key : String} {r : Run} {e : Event} {cur : Step}
    (hfrag : p.inFragment = true)
    (h : RunInv p (seen ++ [e]) key r) (hninv : r.invalidated = false)
    (hsub : (r.stack.map (·.ev)).Sublist seen)
    (hlt : ∀ g ∈ seen, g.idx < e.idx) (hkey : keyOf p e = key)
    (hcur : p.steps[r.pos]? = some cur) (hk : cur.kleene = true) (hm : matchesState cur e r.caps = true) :
    AdvOk p (seen ++ [e]) key (selfLoop p cfg r cur e) := by
  unfold selfLoop
  by_cases hcap : capFull cfg r = true
  · rw [if_pos hcap]; exact ⟨h, hninv⟩
  · rw [if_neg hcap]
    by_cases hpf : (p.isLast r.pos && postponedFails cur e r.caps) = true
    · rw [if_pos hpf]; trivial
    · rw [if_neg hpf]
      -- the event extends the closure of step `r.pos`
      have hok : stepOk cur false ⟨e, cur.alias⟩ (capsOf r.stack) = true := by
        apply stepOk_loop (by rw [← h.capsEq]; exact hm)
        intro q hq
        by_cases hl : p.isLast r.pos = true
        · rw [← h.capsEq]
          simp [hl, postponedFails, hq] at hpf
          exact hpf
        · have := inFragment_postponed hfrag hcur (by simpa using hl)
          rw [this] at hq; cases hq
      have hr' : RunInv p (seen ++ [e]) key (r.push e cur.alias) := by
        apply RunInv.extend (a := cur.alias) h hsub hlt hkey rfl
        · cases cur.alias <;> rfl
        · rfl
        · show Expl p.steps (r.stack ++ [⟨e, cur.alias⟩]) r.pos
          exact Expl.loop h.expl hcur hk hok
      by_cases hl : p.isLast r.pos = true
      · rw [if_pos hl]; exact ⟨hr', hninv, hl, rfl⟩
      · rw [if_neg hl]; exact ⟨hr'.congr rfl rfl rfl rfl, hninv⟩

theorem viaTransitions_ok {p : Pat} {cfg : Cfg} {seen : List Event} {key : String} {r : Run} {e : Event}
    (h : RunInv p (seen ++ [e]) key r) (hninv : r.invalidated = false)
    (hsub : (r.stack.map (·.ev)).Sublist seen)
    (hlt : ∀ g ∈ seen, g.idx < e.idx) (hkey : keyOf p e = key) :
    AdvOk p (seen ++ [e]) key (viaTransitions p cfg r e) := by
  unfold viaTransitions
  cases hnxt : p.steps[r.pos + 1]? with
  | none => trivial
  | some nxt =>
    simp only []
    by_cases hm : matchesState nxt e r.caps = true
    · rw [if_pos hm]; exact enterNext_ok h hninv hsub hlt hkey hnxt hm
    · rw [if_neg hm]; trivial

theorem viaEpsilon_ok {p : Pat} {seen : List Event} {key : String} {r : Run} {e : Event}
    (h : RunInv p (seen ++ [e]) key r) (hninv : r.invalidated = false)
    (hsub : (r.stack.map (·.ev)).Sublist seen)
    (hlt : ∀ g ∈ seen, g.idx < e.idx) (hkey : keyOf p e = key) :
    AdvOk p (seen ++ [e]) key (viaEpsilon p r e) := by
  unfold viaEpsilon
  by_cases hl : p.isLast r.pos = true
  · rw [if_pos hl]; trivial
  · rw [if_neg hl]
    cases hnxt : p.steps[r.pos + 1]? with
    | none => trivial
    | some nxt =>
      simp only []
      by_cases hm : matchesState nxt e r.caps = true
      · rw [if_pos hm]
        have hr' := enter_inv h hsub hlt hkey hnxt hm
        by_cases hc : (p.isLast (r.pos + 1) && !nxt.kleene) = true
        · rw [if_pos hc]; exact ⟨_, hr', hninv, by simp at hc; exact hc.1, rfl⟩
        · rw [if_neg hc]; exact ⟨hr', hninv⟩
      · rw [if_neg hm]; trivial

theorem advance_ok {p : Pat} {cfg : Cfg} {seen : List Event} {key : String} {r : Run} {e : Event}
    (hfrag : p.inFragment = true)
    (h : RunInv p (seen ++ [e]) key r) (hninv : r.invalidated = false)
    (hsub : (r.stack.map (·.ev)).Sublist seen)
    (hlt : ∀ g ∈ seen, g.idx < e.idx) (hkey : keyOf p e = key) :
    AdvOk p (seen ++ [e]) key (advance p cfg r e) := by
  obtain ⟨cur, hcur⟩ : ∃ cur, p.steps[r.pos]? = some cur := ⟨_, List.getElem?_eq_getElem h.expl.pos_lt⟩
  unfold advance
  rw [hcur]
  simp only []
  by_cases hc : (p.isLast r.pos && !cur.kleene) = true
  · rw [if_pos hc]; exact ⟨r, h, hninv, by simp at hc; exact hc.1, rfl⟩
  · rw [if_neg hc]
    by_cases hs : (cur.kleene && matchesState cur e r.caps) = true
    · rw [if_pos hs]
      simp only [Bool.and_eq_true] at hs
      exact selfLoop_ok hfrag h hninv hsub hlt hkey hcur hs.1 hs.2
    · rw [if_neg hs]
      by_cases hk : (!cur.kleene) = true
      · rw [if_pos hk]; exact viaTransitions_ok h hninv hsub hlt hkey
      · rw [if_neg hk]; exact viaEpsilon_ok h hninv hsub hlt hkey

/-! ## the run loop (`swap_remove` only drops or moves runs) -/

theorem mem_swapRemove {l : List Run} {i : Nat} {x : Run} (h : x ∈ swapRemove l i) : x ∈ l := by
  unfold swapRemove at h
  split at h
  · have h1 := (List.dropLast_subset _ h)
    rcases List.mem_or_eq_of_mem_set h1 with h2 | h2
    · exact h2
    · subst h2
      cases hl : l.getLast? with
      | none => simp [List.getLast?_eq_none_iff] at hl; subst hl; simp at *
      | some y => simp; exact List.mem_of_getLast? hl
  · exact (List.dropLast_subset _ h)

/-- what `swap_remove(i)` does to the runs not yet visited: the last one moves to the front -/
def rot (rest : List Run) : List Run :=
  match rest.getLast? with
  | none => []
  | some l => l :: rest.dropLast

theorem rot_perm (rest : List Run) : (rot rest).Perm rest := by
  unfold rot
  cases h : rest.getLast? with
  | none => simp [List.getLast?_eq_none_iff] at h; subst h; simp
  | some y =>
    have hne : rest ≠ [] := by intro hn; subst hn; simp at h
    have := List.dropLast_concat_getLast hne
    have hy : rest.getLast hne = y := by
      rw [List.getLast?_eq_some_getLast hne] at h; simpa using h
    rw [hy] at this
    simp only []
    have h2 : (y :: rest.dropLast).Perm (rest.dropLast ++ [y]) := by
      simpa using (List.perm_append_comm (l₁ := [y]) (l₂ := rest.dropLast))
    rw [this] at h2; exact h2

theorem rot_length (rest : List Run) : (rot rest).length = rest.length := (rot_perm rest).length_eq

theorem swapRemove_take (l : List Run) (i : Nat) (h : i < l.length) : (swapRemove l i).take i = l.take i := by
  unfold swapRemove
  split
  · rw [List.dropLast_eq_take, List.take_take, List.take_set]
    simp
    rw [Nat.min_eq_left (by omega)]
    exact List.set_eq_of_length_le (by simp; omega)
  · rw [List.dropLast_eq_take, List.take_take]; congr 1; omega

theorem swapRemove_drop (l : List Run) (i : Nat) (h : i < l.length) : (swapRemove l i).drop i = rot (l.drop (i+1)) := by
  unfold swapRemove rot
  split
  · rename_i h1
    rw [List.getLast?_drop]
    simp [show ¬ l.length ≤ i + 1 by omega]
    cases hl : l.getLast? with
    | none => simp [List.getLast?_eq_none_iff] at hl; subst hl; simp at h
    | some y =>
      simp
      apply List.ext_getElem?
      intro n
      simp [List.dropLast_eq_take, List.getElem?_take, List.getElem?_drop, List.getElem?_set]
      cases n with
      | zero => simp; omega
      | succ m => simp; grind
  · have : l.drop (i+1) = [] := by simp; omega
    rw [this]; simp
    omega

theorem take_set_succ (l : List Run) (i : Nat) (x : Run) (h : i < l.length) :
    (l.set i x).take (i+1) = l.take i ++ [x] := by
  rw [List.take_set, List.take_succ_eq_append_getElem h, List.set_append]
  simp [List.length_take, Nat.min_eq_left (Nat.le_of_lt h)]

theorem drop_set_succ (l : List Run) (i : Nat) (x : Run) : (l.set i x).drop (i+1) = l.drop (i+1) := by
  rw [List.drop_set_of_lt (by omega)]

/-- the run loop over (visited, pending) instead of (vector, index) -/
def loop2 (p : Pat) (cfg : Cfg) (e : Event) : (done pending : List Run) → (acc : List Match) → List Run × List Match
  | done, [], acc => (done, acc)
  | done, r :: rest, acc =>
    if r.invalidated then loop2 p cfg e done (rot rest) acc
    else match advance p cfg r e with
      | .continue r' => loop2 p cfg e (done ++ [r']) rest acc
      | .complete m => loop2 p cfg e done (rot rest) (acc ++ [m])
      | .completeAndContinue r' m => loop2 p cfg e (done ++ [r']) rest (acc ++ [m])
      | .noMatch => loop2 p cfg e (done ++ [r]) rest acc
termination_by _ pending _ => pending.length
decreasing_by all_goals simp [rot_length]

theorem processRuns_eq_loop2 (p : Pat) (cfg : Cfg) (e : Event) (runs : List Run) (i : Nat) (acc : List Match) :
    processRuns p cfg e runs i acc = loop2 p cfg e (runs.take i) (runs.drop i) acc := by
  fun_induction processRuns p cfg e runs i acc with
  | case1 runs i acc hi r hinv ih =>
    rw [ih, swapRemove_take _ _ hi, swapRemove_drop _ _ hi, List.drop_eq_getElem_cons hi]
    conv => rhs; unfold loop2
    simp [r] at hinv ⊢
    try simp [hinv]
  | case2 runs i acc hi r hinv r' hadv' ih =>
    rw [ih, take_set_succ _ _ _ hi, drop_set_succ, List.drop_eq_getElem_cons hi]
    conv => rhs; unfold loop2
    simp [r] at hinv hadv' ⊢
    try simp [hinv, hadv']
  | case3 runs i acc hi r hinv m hadv' ih =>
    rw [ih, swapRemove_take _ _ hi, swapRemove_drop _ _ hi, List.drop_eq_getElem_cons hi]
    conv => rhs; unfold loop2
    simp [r] at hinv hadv' ⊢
    try simp [hinv, hadv']
  | case4 runs i acc hi r hinv r' m hadv' ih =>
    rw [ih, take_set_succ _ _ _ hi, drop_set_succ, List.drop_eq_getElem_cons hi]
    conv => rhs; unfold loop2
    simp [r] at hinv hadv' ⊢
    try simp [hinv, hadv']
  | case5 runs i acc hi r hinv hadv' ih =>
    rw [ih, List.take_succ_eq_append_getElem hi, List.drop_eq_getElem_cons hi]
    conv => rhs; unfold loop2
    simp [r] at hinv hadv' ⊢
    try simp [hinv, hadv']
  | case6 runs i acc hi =>
    have : runs.drop i = [] := by simp; omega
    rw [this, List.take_of_length_le (by omega)]
    unfold loop2; rfl

theorem mem_rot {rest : List Run} {x : Run} : x ∈ rot rest ↔ x ∈ rest := (rot_perm rest).mem_iff

/-- loop rule: `Q` holds of the pending runs, `Q'` of the visited ones, `M` of the matches. -/
theorem loop2_rule {p : Pat} {cfg : Cfg} {e : Event} (Q Q' : Run → Prop) (M : Match → Prop)
    (hQQ' : ∀ r, Q r → Q' r)
    (hadv : ∀ r, Q r → r.invalidated = false →
      match advance p cfg r e with
      | .continue r' => Q' r'
      | .complete m => M m
      | .completeAndContinue r' m => Q' r' ∧ M m
      | .noMatch => True)
    (done pending : List Run) (acc : List Match) :
    (∀ r ∈ done, Q' r) → (∀ r ∈ pending, Q r) → (∀ m ∈ acc, M m) →
    (∀ r ∈ (loop2 p cfg e done pending acc).1, Q' r) ∧ (∀ m ∈ (loop2 p cfg e done pending acc).2, M m) := by
  fun_induction loop2 p cfg e done pending acc with
  | case1 done acc => intro hd _ hm; exact ⟨hd, hm⟩
  | case2 done r rest acc hinv ih =>
    intro hd hp hm
    exact ih hd (fun x hx => hp x (List.mem_cons_of_mem _ (mem_rot.mp hx))) hm
  | case3 done r rest acc hinv r' hadv' ih =>
    intro hd hp hm
    have := hadv r (hp r (List.mem_cons_self)) (by simpa using hinv)
    rw [hadv'] at this
    apply ih _ (fun x hx => hp x (List.mem_cons_of_mem _ hx)) hm
    intro x hx
    rcases List.mem_append.mp hx with h2 | h2
    · exact hd x h2
    · have : x = r' := by simpa using h2
      subst this; assumption
  | case4 done r rest acc hinv m hadv' ih =>
    intro hd hp hm
    have := hadv r (hp r (List.mem_cons_self)) (by simpa using hinv)
    rw [hadv'] at this
    apply ih hd (fun x hx => hp x (List.mem_cons_of_mem _ (mem_rot.mp hx)))
    intro x hx
    rcases List.mem_append.mp hx with h2 | h2
    · exact hm x h2
    · have : x = m := by simpa using h2
      subst this; assumption
  | case5 done r rest acc hinv r' m hadv' ih =>
    intro hd hp hm
    have := hadv r (hp r (List.mem_cons_self)) (by simpa using hinv)
    rw [hadv'] at this
    apply ih _ (fun x hx => hp x (List.mem_cons_of_mem _ hx))
    · intro x hx
      rcases List.mem_append.mp hx with h2 | h2
      · exact hm x h2
      · have hxm : x = m := by simpa using h2
        subst hxm; exact this.2
    · intro x hx
      rcases List.mem_append.mp hx with h2 | h2
      · exact hd x h2
      · have hxr : x = r' := by simpa using h2
        subst hxr; exact this.1
  | case6 done r rest acc hinv hadv' ih =>
    intro hd hp hm
    apply ih _ (fun x hx => hp x (List.mem_cons_of_mem _ hx)) hm
    intro x hx
    rcases List.mem_append.mp hx with h2 | h2
    · exact hd x h2
    · have hxr : x = r := by simpa using h2
      subst hxr; exact hQQ' _ (hp _ (List.mem_cons_self))

/-! ## a run that is done yields a genuine match -/

theorem after_done {steps : List Step} {i : Nat} (hi : i + 1 = steps.length) (done : List Entry) :
    After steps i done [] = true := by
  unfold After
  have hlt : i < steps.length := by omega
  have hs : steps[i]? = some steps[i] := List.getElem?_eq_getElem hlt
  rw [hs]
  simp only []
  have hnil : steps.drop (i + 1) = [] := List.drop_eq_nil_of_le (by omega)
  by_cases hk : steps[i].kleene = true
  · rw [if_pos hk, drop_cons_of_get hs, hnil]
    unfold explains; simp [hk]
  · rw [if_neg hk, hnil]
    unfold explains; rfl

theorem genuine_of_done {p : Pat} {seen : List Event} {key : String} {r : Run}
    (h : RunInv p seen key r) (hi : r.invalidated = false) (hl : p.isLast r.pos = true) :
    Genuine p seen r.result = true := by
  have hne := h.expl.ne_nil
  unfold Genuine Run.result
  simp only [Bool.and_eq_true]
  refine ⟨⟨⟨⟨?_, ?_⟩, ?_⟩, ?_⟩, ?_⟩
  · exact List.isSublist_iff_sublist.mpr h.sub
  · have := explains_of_expl h.expl [] (after_done (by simpa [Pat.isLast] using hl) _)
    simpa using this
  · cases hst : r.stack with
    | nil => exact absurd hst hne
    | cons en rest =>
      simp only [List.all_eq_true]
      intro x hx
      have h1 := h.part x (by rw [hst]; exact List.mem_cons_of_mem _ hx)
      have h2 := h.part en (by rw [hst]; exact List.mem_cons_self)
      simp [h1, h2]
  · unfold noNegBetween
    cases hh : r.stack.head? with
    | none => rfl
    | some f =>
      cases hg : r.stack.getLast? with
      | none => rfl
      | some l =>
        simp only [List.all_eq_true]
        intro g hgm
        by_cases hc : f.ev.idx < g.idx
        · have := h.neg hi g hgm (fun f' hf' => by rw [hh] at hf'; cases hf'; exact hc)
          simp [this]
        · simp [hc]
  · simp [h.capsEq]

/-! ## the engine step -/

/-- the C01 invariant of a reachable engine state -/
def EngInv (p : Pat) (seen : List Event) (s : Eng) : Prop := ∀ k, ∀ r ∈ s.parts k, RunInv p seen k r

theorem EngInv_init (p : Pat) : EngInv p [] Eng.init := by
  intro k r hr; simp [Eng.init] at hr

theorem tryStart_inv {p : Pat} {seen : List Event} {e : Event} {r : Run} (h : tryStart p e = some r)
    (hlt : ∀ g ∈ seen, g.idx < e.idx) :
    RunInv p (seen ++ [e]) (keyOf p e) r ∧ r.invalidated = false ∧ r.pos = 0 := by
  unfold tryStart at h
  cases hs : p.steps with
  | nil => simp [hs] at h
  | cons s0 rest =>
    simp only [hs] at h
    by_cases hm : matchesState s0 e [] = true
    · rw [if_pos hm] at h
      cases h
      refine ⟨?_, rfl, rfl⟩
      constructor
      · simp [Run.push]
      · exact push_caps _ _ _ rfl
      · show Expl p.steps ([] ++ [⟨e, s0.alias⟩]) 0
        exact Expl.start (by simp [hs]) (stepOk_first hm)
      · intro en hen
        have : en = ⟨e, s0.alias⟩ := by simpa [Run.push] using hen
        subst this; rfl
      · intro _ g hg hfirst
        have h1 := hfirst ⟨e, s0.alias⟩ (by simp [Run.push])
        simp only at h1
        rcases List.mem_append.mp hg with hg | hg
        · have := hlt g hg; omega
        · have : g = e := by simpa using hg
          subst this; omega
    · rw [if_neg hm] at h; cases h

theorem markNeg_stack (p : Pat) (e : Event) (r : Run) : (markNeg p e r).stack = r.stack := by
  unfold markNeg; split <;> rfl

theorem stepEngine_ok {p : Pat} {cfg : Cfg} {seen : List Event} {s : Eng} {e : Event}
    (hfrag : p.inFragment = true) (hlt : ∀ g ∈ seen, g.idx < e.idx) (h : EngInv p seen s) :
    EngInv p (seen ++ [e]) (stepEngine p cfg s e).1 ∧
    ∀ m ∈ (stepEngine p cfg s e).2, Genuine p (seen ++ [e]) m = true := by
  -- after `check_global_negations`
  have hmarked : ∀ k, ∀ r ∈ (s.parts k).map (markNeg p e),
      RunInv p (seen ++ [e]) k r ∧ (r.stack.map (·.ev)).Sublist seen := by
    intro k r hr
    obtain ⟨r0, hr0, rfl⟩ := List.mem_map.mp hr
    exact ⟨(h k r0 hr0).mark hlt, by rw [markNeg_stack]; exact (h k r0 hr0).sub⟩
  -- the run loop on the event's partition
  have hloop := loop2_rule (p := p) (cfg := cfg) (e := e)
    (fun r => RunInv p (seen ++ [e]) (keyOf p e) r ∧ (r.stack.map (·.ev)).Sublist seen)
    (fun r => RunInv p (seen ++ [e]) (keyOf p e) r)
    (fun m => Genuine p (seen ++ [e]) m = true)
    (fun r hr => hr.1)
    (by
      intro r hr hinv
      have := advance_ok (cfg := cfg) hfrag hr.1 hinv hr.2 hlt rfl
      cases hadv : advance p cfg r e with
      | «continue» r' => rw [hadv] at this; exact this.1
      | complete m =>
        rw [hadv] at this
        obtain ⟨r'', h1, h2, h3, h4⟩ := this
        subst h4; exact genuine_of_done h1 h2 h3
      | completeAndContinue r' m =>
        rw [hadv] at this
        obtain ⟨h1, h2, h3, h4⟩ := this
        subst h4; exact ⟨h1, genuine_of_done h1 h2 h3⟩
      | noMatch => trivial)
    [] ((s.parts (keyOf p e)).map (markNeg p e)) []
    (by simp) (hmarked _) (by simp)
  have hpr := processRuns_eq_loop2 p cfg e ((s.parts (keyOf p e)).map (markNeg p e)) 0 []
  simp only [List.take_zero, List.drop_zero] at hpr
  rw [← hpr] at hloop
  unfold stepEngine
  simp only []
  generalize processRuns p cfg e ((s.parts (keyOf p e)).map (markNeg p e)) 0 [] = res at hloop
  obtain ⟨runs', ms⟩ := res
  simp only at hloop ⊢
  -- the other partitions keep their (marked) runs
  have hother : ∀ (f : List Run), (∀ r ∈ f, RunInv p (seen ++ [e]) (keyOf p e) r) →
      EngInv p (seen ++ [e]) ⟨fun k => if k = keyOf p e then f else (s.parts k).map (markNeg p e), s.dropped⟩ ∧ True := by
    intro f hf
    refine ⟨?_, trivial⟩
    intro k r hr
    simp only at hr
    by_cases hk : k = keyOf p e
    · subst hk; rw [if_pos rfl] at hr; exact hf r hr
    · rw [if_neg hk] at hr; exact (hmarked k r hr).1
  cases hts : tryStart p e with
  | none =>
    simp only []
    exact ⟨(hother runs' hloop.1).1, hloop.2⟩
  | some r =>
    simp only []
    have hr := tryStart_inv hts hlt
    split
    next hone =>
      refine ⟨(hother runs' hloop.1).1, ?_⟩
      intro m hm
      rcases List.mem_append.mp hm with hm | hm
      · exact hloop.2 m hm
      · have : m = r.result := by simpa using hm
        subst this
        exact genuine_of_done hr.1 hr.2.1 (by rw [hr.2.2]; simp at hone; exact hone.1)
    next hone =>
      split
      · refine ⟨(hother (runs' ++ [r]) ?_).1, hloop.2⟩
        intro x hx
        rcases List.mem_append.mp hx with hx | hx
        · exact hloop.1 x hx
        · have : x = r := by simpa using hx
          subst this; exact hr.1
      · refine ⟨?_, hloop.2⟩
        intro k r hr
        simp only at hr
        by_cases hk : k = keyOf p e
        · subst hk; rw [if_pos rfl] at hr; exact hloop.1 r hr
        · rw [if_neg hk] at hr; exact (hmarked k r hr).1

/-! ## lifting over the stream -/

theorem sorted_lt {seen : List Event} {e : Event} {es : List Event} (h : Sorted (seen ++ e :: es)) :
    ∀ g ∈ seen, g.idx < e.idx := by
  intro g hg
  have := (List.pairwise_append.mp h).2.2 g hg e (List.mem_cons_self)
  exact this

/-- later events do not affect whether a match is genuine -/
theorem genuine_mono {p : Pat} {pre post : List Event} {m : Match} (hs : Sorted (pre ++ post))
    (h : Genuine p pre m = true) : Genuine p (pre ++ post) m = true := by
  unfold Genuine at h ⊢
  simp only [Bool.and_eq_true] at h ⊢
  obtain ⟨⟨⟨⟨h1, h2⟩, h3⟩, h4⟩, h5⟩ := h
  refine ⟨⟨⟨⟨?_, h2⟩, h3⟩, ?_⟩, h5⟩
  · have := List.isSublist_iff_sublist.mp h1
    exact List.isSublist_iff_sublist.mpr (this.trans (List.sublist_append_left pre post))
  · unfold noNegBetween at h4 ⊢
    cases hh : m.stack.head? with
    | none => rfl
    | some f =>
      cases hg : m.stack.getLast? with
      | none => rfl
      | some l =>
        rw [hh, hg] at h4
        simp only [List.all_eq_true] at h4 ⊢
        intro g hgm
        rcases List.mem_append.mp hgm with hgm | hgm
        · exact h4 g hgm
        · have hl : l.ev ∈ pre :=
            (List.isSublist_iff_sublist.mp h1).subset (List.mem_map.mpr ⟨l, List.mem_of_getLast? hg, rfl⟩)
          have := (List.pairwise_append.mp hs).2.2 l.ev hl g hgm
          have : ¬ g.idx < l.ev.idx := by omega
          simp [this]

theorem runFrom_ok {p : Pat} {cfg : Cfg} (hfrag : p.inFragment = true) :
    ∀ (evs seen : List Event) (s : Eng), Sorted (seen ++ evs) → EngInv p seen s →
    EngInv p (seen ++ evs) (runFrom p cfg s evs).1 ∧
    ∀ x ∈ (runFrom p cfg s evs).2, ∀ m ∈ x.2, Genuine p (seen ++ evs) m = true := by
  intro evs
  induction evs with
  | nil => intro seen s _ h; simpa [runFrom] using h
  | cons e es ih =>
    intro seen s hs h
    have hlt := sorted_lt hs
    have hstep := stepEngine_ok (cfg := cfg) hfrag hlt h
    have hs' : Sorted ((seen ++ [e]) ++ es) := by simpa using hs
    have hrest := ih (seen ++ [e]) (stepEngine p cfg s e).1 hs' hstep.1
    unfold runFrom
    simp only []
    have heq : seen ++ e :: es = (seen ++ [e]) ++ es := by simp
    rw [heq]
    refine ⟨hrest.1, ?_⟩
    intro x hx m hm
    rcases List.mem_cons.mp hx with hx | hx
    · subst hx
      exact genuine_mono hs' (hstep.2 m hm)
    · exact hrest.2 x hx m hm

/-! ## C02: the engine on `all`-free patterns is the per-candidate scan `Spec.followNF` -/

theorem allFree_get {p : Pat} (h : p.allFree = true) {i : Nat} {s : Step} (hs : p.steps[i]? = some s) : s.kleene = false := by
  unfold Pat.allFree at h
  have := List.all_eq_true.mp h s (List.mem_of_getElem? hs)
  simpa using this

/-- the run `r` after consuming `e` into the next step -/
def Run.entered (r : Run) (e : Event) (a : Option String) : Run := { r with pos := r.pos + 1 }.push e a

/-- `advance` on an `all`-free pattern, for a run that has not reached the last step -/
theorem advance_allFree {p : Pat} {cfg : Cfg} {r : Run} {e : Event} (hfree : p.allFree = true)
    (hpos : r.pos + 1 < p.steps.length) :
    advance p cfg r e =
      match p.steps[r.pos + 1]? with
      | some nxt =>
        if matchesState nxt e r.caps then
          (if p.isLast (r.pos + 1) then .complete (r.entered e nxt.alias).result else .continue (r.entered e nxt.alias))
        else .noMatch
      | none => .noMatch := by
  have hcur : p.steps[r.pos]? = some p.steps[r.pos] := List.getElem?_eq_getElem (by omega)
  have hk := allFree_get hfree hcur
  have hnl : p.isLast r.pos = false := by unfold Pat.isLast; simp; omega
  unfold advance
  rw [hcur]
  simp only [hk, hnl, Bool.false_and, Bool.not_false, if_true]
  simp only [Bool.false_eq_true, if_false]
  unfold viaTransitions
  cases hn : p.steps[r.pos + 1]? with
  | none => rfl
  | some nxt =>
    have hkn := allFree_get hfree hn
    simp only []
    by_cases hm : matchesState nxt e r.caps = true
    · rw [if_pos hm, if_pos hm]
      unfold enterNext Run.entered
      simp [hkn]
    · rw [if_neg hm, if_neg hm]

/-- light invariant of the runs of partition `k` for `all`-free patterns -/
structure Lite (p : Pat) (k : String) (r : Run) : Prop where
  capsEq : r.caps = capsOf r.stack
  pos : r.pos + 1 < p.steps.length
  ne : r.stack ≠ []
  part : ∀ en ∈ r.stack, keyOf p en.ev = k

/-- the match a stored run will produce on the events `later` -/
def fut (p : Pat) (k : String) (later : List Event) (r : Run) : Option Match :=
  if r.invalidated then none else Spec.followNF p k (p.steps.drop (r.pos + 1)) r.stack later

/-- what the loop keeps of a run / emits for a run -/
def survive (p : Pat) (cfg : Cfg) (e : Event) (r : Run) : Option Run :=
  if r.invalidated then none else
  match advance p cfg r e with
  | .continue r' => some r'
  | .complete _ => none
  | .completeAndContinue r' _ => some r'
  | .noMatch => some r

def emitOf (p : Pat) (cfg : Cfg) (e : Event) (r : Run) : Option Match :=
  if r.invalidated then none else
  match advance p cfg r e with
  | .complete m => some m
  | .completeAndContinue _ m => some m
  | _ => none

theorem loop2_perm (p : Pat) (cfg : Cfg) (e : Event) (done pending : List Run) (acc : List Match) :
    ((loop2 p cfg e done pending acc).1.Perm (done ++ pending.filterMap (survive p cfg e))) ∧
    ((loop2 p cfg e done pending acc).2.Perm (acc ++ pending.filterMap (emitOf p cfg e))) := by
  fun_induction loop2 p cfg e done pending acc with
  | case1 done acc => simp
  | case2 done r rest acc hinv ih =>
    have h1 := (rot_perm rest).filterMap (survive p cfg e)
    have h2 := (rot_perm rest).filterMap (emitOf p cfg e)
    refine ⟨ih.1.trans ?_, ih.2.trans ?_⟩
    · simp [survive, hinv]; exact h1.append_left _
    · simp [emitOf, hinv]; exact h2.append_left _
  | case3 done r rest acc hinv r' hadv ih =>
    refine ⟨ih.1.trans ?_, ih.2.trans ?_⟩
    · simp [survive, hinv, hadv]
    · simp [emitOf, hinv, hadv]
  | case4 done r rest acc hinv m hadv ih =>
    have h1 := (rot_perm rest).filterMap (survive p cfg e)
    have h2 := (rot_perm rest).filterMap (emitOf p cfg e)
    refine ⟨ih.1.trans ?_, ih.2.trans ?_⟩
    · simp [survive, hinv, hadv]; exact h1.append_left _
    · simp [emitOf, hinv, hadv]; exact (h2.cons m).append_left _
  | case5 done r rest acc hinv r' m hadv ih =>
    refine ⟨ih.1.trans ?_, ih.2.trans ?_⟩
    · simp [survive, hinv, hadv]
    · simp [emitOf, hinv, hadv]
  | case6 done r rest acc hinv hadv ih =>
    refine ⟨ih.1.trans ?_, ih.2.trans ?_⟩
    · simp [survive, hinv, hadv]
    · simp [emitOf, hinv, hadv]

theorem markNeg_inv_of_inv {p : Pat} {e : Event} {r : Run} (h : r.invalidated = true) : (markNeg p e r).invalidated = true := by
  unfold markNeg; split <;> simp [h]

theorem markNeg_hit {p : Pat} {e : Event} {r : Run} (h : negHit p e r.caps = true) : (markNeg p e r).invalidated = true := by
  unfold markNeg; simp [h]

theorem markNeg_miss {p : Pat} {e : Event} {r : Run} (h : negHit p e r.caps = false) : markNeg p e r = r := by
  unfold markNeg; simp [h]

theorem entered_result (r : Run) (e : Event) (a : Option String) (h : r.caps = capsOf r.stack) :
    (r.entered e a).result = ⟨r.stack ++ [⟨e, a⟩], capsOf (r.stack ++ [⟨e, a⟩])⟩ := by
  unfold Run.result
  have := push_caps { r with pos := r.pos + 1 } e a h
  unfold Run.entered
  rw [this]; rfl

theorem followNF_cons (p : Pat) (key : String) (s : Step) (todo : List Step) (stack : List Entry) (g : Event) (later : List Event) :
    Spec.followNF p key (s :: todo) stack (g :: later) =
      if negHit p g (capsOf stack) then none
      else if keyOf p g == key && matchesState s g (capsOf stack) then
        if todo.isEmpty then some ⟨stack ++ [⟨g, s.alias⟩], capsOf (stack ++ [⟨g, s.alias⟩])⟩
        else Spec.followNF p key todo (stack ++ [⟨g, s.alias⟩]) later
      else Spec.followNF p key (s :: todo) stack later := by
  rw [Spec.followNF]

theorem fut_step_other {p : Pat} {k : String} {e : Event} {es : List Event} {r0 : Run}
    (hl : Lite p k r0) (hk : (keyOf p e == k) = false) :
    fut p k (e :: es) r0 = fut p k es (markNeg p e r0) := by
  unfold fut
  by_cases hinv : r0.invalidated = true
  · simp [hinv, markNeg_inv_of_inv hinv]
  · simp only [hinv]
    obtain ⟨nxt, hnxt⟩ : ∃ nxt, p.steps[r0.pos + 1]? = some nxt := ⟨_, List.getElem?_eq_getElem hl.pos⟩
    rw [drop_cons_of_get hnxt, followNF_cons, ← hl.capsEq]
    by_cases hn : negHit p e r0.caps = true
    · simp [hn, markNeg_hit hn]
    · have hn' : negHit p e r0.caps = false := by simpa using hn
      rw [markNeg_miss hn']
      simp [hn', hk, hinv]
      rw [drop_cons_of_get hnxt]

theorem fut_step_same {p : Pat} {cfg : Cfg} {k : String} {e : Event} {es : List Event} {r0 : Run}
    (hfree : p.allFree = true) (hl : Lite p k r0) (hk : (keyOf p e == k) = true) :
    (fut p k (e :: es) r0).toList =
      (emitOf p cfg e (markNeg p e r0)).toList ++ ((survive p cfg e (markNeg p e r0)).bind (fut p k es)).toList := by
  by_cases hinv : r0.invalidated = true
  · simp [fut, emitOf, survive, hinv, markNeg_inv_of_inv hinv]
  · obtain ⟨nxt, hnxt⟩ : ∃ nxt, p.steps[r0.pos + 1]? = some nxt := ⟨_, List.getElem?_eq_getElem hl.pos⟩
    have hfut : fut p k (e :: es) r0 = Spec.followNF p k (nxt :: p.steps.drop (r0.pos + 1 + 1)) r0.stack (e :: es) := by
      unfold fut; simp only [hinv]; rw [drop_cons_of_get hnxt]; rfl
    rw [hfut, followNF_cons, ← hl.capsEq]
    by_cases hn : negHit p e r0.caps = true
    · have h1 := markNeg_hit hn
      simp [hn, emitOf, survive, h1]
    · have hn' : negHit p e r0.caps = false := by simpa using hn
      rw [markNeg_miss hn']
      have hadv := advance_allFree (cfg := cfg) (r := r0) (e := e) hfree hl.pos
      rw [hnxt] at hadv
      simp only [] at hadv
      unfold emitOf survive
      simp only [hinv, hadv]
      simp only [hn', hk, Bool.true_and]
      by_cases hm : matchesState nxt e r0.caps = true
      · simp only [hm, if_true]
        have hiff : (p.steps.drop (r0.pos + 1 + 1)).isEmpty = p.isLast (r0.pos + 1) := by
          unfold Pat.isLast
          have := hl.pos
          by_cases hlast : r0.pos + 1 + 1 = p.steps.length
          · simp [hlast]
          · have hne : p.steps.drop (r0.pos + 1 + 1) ≠ [] := by simp; omega
            cases hd : p.steps.drop (r0.pos + 1 + 1) with
            | nil => exact absurd hd hne
            | cons x xs => simp [hlast]
        rw [hiff]
        by_cases hlast : p.isLast (r0.pos + 1) = true
        · simp [hlast, entered_result _ _ _ hl.capsEq]
        · have hinv' : (r0.entered e nxt.alias).invalidated = false := by
            simpa [Run.entered, Run.push] using hinv
          simp [hlast]
          unfold fut
          simp only [hinv']
          rfl
      · simp [hm]
        unfold fut
        simp only [hinv]
        rw [drop_cons_of_get hnxt]; rfl

/-! ### the engine step, decomposed -/

/-- a single-step pattern (its only step is not `all`) -/
def Pat.oneStep (p : Pat) : Bool := p.isLast 0 && !(p.steps.head?.map (·.kleene)).getD false

/-- the `try_start_run_shared` / `handle_backpressure*` part of `stepEngine` -/
def startRun (p : Pat) (cfg : Cfg) (e : Event) (runs' : List Run) (ms : List Match) (d : Bool) : List Run × List Match × Bool :=
  match tryStart p e with
  | some r =>
    if p.oneStep then (runs', ms ++ [r.result], d)
    else if runs'.length < cfg.maxRuns then (runs' ++ [r], ms, d)
    else (runs', ms, true)
  | none => (runs', ms, d)

theorem stepEngine_eq (p : Pat) (cfg : Cfg) (s : Eng) (e : Event) :
    stepEngine p cfg s e =
      (⟨fun k => if k = keyOf p e then
            (startRun p cfg e (processRuns p cfg e ((s.parts (keyOf p e)).map (markNeg p e)) 0 []).1
              (processRuns p cfg e ((s.parts (keyOf p e)).map (markNeg p e)) 0 []).2 s.dropped).1
          else (s.parts k).map (markNeg p e),
        (startRun p cfg e (processRuns p cfg e ((s.parts (keyOf p e)).map (markNeg p e)) 0 []).1
              (processRuns p cfg e ((s.parts (keyOf p e)).map (markNeg p e)) 0 []).2 s.dropped).2.2⟩,
       (startRun p cfg e (processRuns p cfg e ((s.parts (keyOf p e)).map (markNeg p e)) 0 []).1
              (processRuns p cfg e ((s.parts (keyOf p e)).map (markNeg p e)) 0 []).2 s.dropped).2.1) := by
  unfold stepEngine startRun Pat.oneStep
  simp only []
  generalize processRuns p cfg e ((s.parts (keyOf p e)).map (markNeg p e)) 0 [] = res
  obtain ⟨runs', ms⟩ := res
  simp only []
  cases tryStart p e with
  | none => rfl
  | some r =>
    simp only []
    split
    · rfl
    · split <;> rfl

theorem Lite.mark {p : Pat} {k : String} {r : Run} {e : Event} (h : Lite p k r) : Lite p k (markNeg p e r) := by
  unfold markNeg
  split
  · exact ⟨h.capsEq, h.pos, h.ne, h.part⟩
  · exact h

theorem Lite.survive {p : Pat} {cfg : Cfg} {k : String} {r r' : Run} {e : Event} (hfree : p.allFree = true)
    (h : Lite p k r) (hk : keyOf p e = k) (hs : survive p cfg e r = some r') : Lite p k r' := by
  unfold Varpulis.Sase.survive at hs
  by_cases hinv : r.invalidated = true
  · simp [hinv] at hs
  · simp only [hinv] at hs
    have hadv := advance_allFree (cfg := cfg) (r := r) (e := e) hfree h.pos
    obtain ⟨nxt, hnxt⟩ : ∃ nxt, p.steps[r.pos + 1]? = some nxt := ⟨_, List.getElem?_eq_getElem h.pos⟩
    rw [hnxt] at hadv
    simp only [] at hadv
    rw [hadv] at hs
    by_cases hm : matchesState nxt e r.caps = true
    · simp only [hm, if_true] at hs
      by_cases hlast : p.isLast (r.pos + 1) = true
      · simp [hlast] at hs
      · simp [hlast] at hs
        subst hs
        refine ⟨?_, ?_, ?_, ?_⟩
        · exact push_caps { r with pos := r.pos + 1 } e nxt.alias h.capsEq
        · show r.pos + 1 + 1 < p.steps.length
          have := h.pos
          unfold Pat.isLast at hlast
          simp at hlast; omega
        · simp [Run.entered, Run.push]
        · intro en hen
          simp [Run.entered, Run.push] at hen
          rcases hen with hen | hen
          · exact h.part en hen
          · subst hen; exact hk
    · simp [hm] at hs
      subst hs; exact h

theorem Lite.start {p : Pat} {e : Event} {r : Run} (hfree : p.allFree = true) (h : tryStart p e = some r)
    (hone : p.oneStep = false) : Lite p (keyOf p e) r := by
  unfold tryStart at h
  cases hs : p.steps with
  | nil => simp [hs] at h
  | cons s0 rest =>
    simp only [hs] at h
    have hk : s0.kleene = false := allFree_get hfree (i := 0) (by simp [hs])
    by_cases hm : matchesState s0 e [] = true
    · rw [if_pos hm] at h
      cases h
      refine ⟨push_caps _ _ _ rfl, ?_, by simp [Run.push], ?_⟩
      · show 0 + 1 < p.steps.length
        unfold Pat.oneStep Pat.isLast at hone
        simp [hs, hk] at hone ⊢
        cases rest with
        | nil => simp at hone
        | cons _ _ => simp
      · intro en hen
        have : en = ⟨e, s0.alias⟩ := by simpa [Run.push] using hen
        subst this; rfl
    · rw [if_neg hm] at h; cases h

/-- every stored run satisfies the light invariant -/
def LiteEng (p : Pat) (s : Eng) : Prop := ∀ k, ∀ r ∈ s.parts k, Lite p k r

theorem LiteEng.step {p : Pat} {cfg : Cfg} {s : Eng} {e : Event} (hfree : p.allFree = true) (h : LiteEng p s) :
    LiteEng p (stepEngine p cfg s e).1 := by
  rw [stepEngine_eq]
  intro k r hr
  simp only at hr
  have hmarked : ∀ k, ∀ r ∈ (s.parts k).map (markNeg p e), Lite p k r := by
    intro k r hr
    obtain ⟨r0, hr0, rfl⟩ := List.mem_map.mp hr
    exact (h k r0 hr0).mark
  by_cases hk : k = keyOf p e
  · subst hk
    rw [if_pos rfl] at hr
    have hruns : ∀ r ∈ (processRuns p cfg e ((s.parts (keyOf p e)).map (markNeg p e)) 0 []).1, Lite p (keyOf p e) r := by
      intro r hr
      rw [processRuns_eq_loop2] at hr
      have := ((loop2_perm p cfg e _ _ _).1.mem_iff).mp hr
      simp only [List.take_zero, List.drop_zero, List.nil_append] at this
      obtain ⟨r1, hr1, hs1⟩ := List.mem_filterMap.mp this
      exact (hmarked _ r1 hr1).survive hfree rfl hs1
    unfold startRun at hr
    cases hts : tryStart p e with
    | none => simp only [hts] at hr; exact hruns r hr
    | some rn =>
      simp only [hts] at hr
      by_cases hone : p.oneStep = true
      · rw [if_pos hone] at hr; exact hruns r hr
      · rw [if_neg hone] at hr
        by_cases hlen : (processRuns p cfg e ((s.parts (keyOf p e)).map (markNeg p e)) 0 []).1.length < cfg.maxRuns
        · rw [if_pos hlen] at hr
          rcases List.mem_append.mp hr with hr | hr
          · exact hruns r hr
          · have : r = rn := by simpa using hr
            subst this
            exact Lite.start hfree hts (by simpa using hone)
        · rw [if_neg hlen] at hr; exact hruns r hr
  · rw [if_neg hk] at hr
    exact hmarked k r hr

/-! ### per-partition refinement -/

theorem filterMap_eq_flatMap {α β} (f : α → Option β) (l : List α) : l.filterMap f = l.flatMap (fun x => (f x).toList) := by
  induction l with
  | nil => rfl
  | cons x xs ih => cases h : f x <;> simp [h, ih]

theorem filterMap_append_perm {α β} (f g : α → Option β) (l : List α) :
    (l.filterMap f ++ l.filterMap g).Perm (l.flatMap (fun x => (f x).toList ++ (g x).toList)) := by
  induction l with
  | nil => simp
  | cons x xs ih =>
    rw [filterMap_eq_flatMap, filterMap_eq_flatMap] at ih ⊢
    simp only [List.flatMap_cons]
    -- (fx ++ F) ++ (gx ++ G) ~ (fx ++ gx) ++ (F ++ G)
    have h1 : ((f x).toList ++ xs.flatMap (fun x => (f x).toList) ++ ((g x).toList ++ xs.flatMap (fun x => (g x).toList))).Perm
        ((f x).toList ++ (g x).toList ++ (xs.flatMap (fun x => (f x).toList) ++ xs.flatMap (fun x => (g x).toList))) := by
      simp only [List.append_assoc]
      apply List.Perm.append_left
      rw [← List.append_assoc, ← List.append_assoc]
      exact List.Perm.append_right _ List.perm_append_comm
    exact h1.trans (List.Perm.append_left _ ih)

/-- matches emitted on events of partition `k` -/
def emittedK (p : Pat) (k : String) (X : List (Event × List Match)) : List Match :=
  (X.filter (fun x => keyOf p x.1 == k)).flatMap (·.2)

/-- the oracle's candidates that start on events of partition `k` -/
def specK (p : Pat) (k : String) : List Event → List Match
  | [] => []
  | e :: es => (if keyOf p e == k then (Spec.startAtNF p e es).toList else []) ++ specK p k es

theorem startRun_dropped {p : Pat} {cfg : Cfg} {e : Event} {runs' : List Run} {ms : List Match} {d : Bool}
    (h : (startRun p cfg e runs' ms d).2.2 = false) : d = false := by
  unfold startRun at h
  split at h
  · split at h
    · exact h
    · split at h
      · exact h
      · cases h
  · exact h

theorem stepEngine_dropped {p : Pat} {cfg : Cfg} {s : Eng} {e : Event}
    (h : (stepEngine p cfg s e).1.dropped = false) : s.dropped = false := by
  rw [stepEngine_eq] at h
  exact startRun_dropped h

theorem runFrom_dropped {p : Pat} {cfg : Cfg} : ∀ (evs : List Event) (s : Eng),
    (runFrom p cfg s evs).1.dropped = false → s.dropped = false := by
  intro evs
  induction evs with
  | nil => intro s h; exact h
  | cons e es ih =>
    intro s h
    unfold runFrom at h
    exact stepEngine_dropped (ih _ h)

theorem fut_nil {p : Pat} {k : String} {r : Run} (h : Lite p k r) : fut p k [] r = none := by
  unfold fut
  obtain ⟨nxt, hnxt⟩ : ∃ nxt, p.steps[r.pos + 1]? = some nxt := ⟨_, List.getElem?_eq_getElem h.pos⟩
  rw [drop_cons_of_get hnxt]
  split
  · rfl
  · rw [Spec.followNF]

theorem flatMap_congr_mem {α β} {l : List α} {f g : α → List β} (h : ∀ x ∈ l, f x = g x) : l.flatMap f = l.flatMap g := by
  induction l with
  | nil => rfl
  | cons x xs ih =>
    simp only [List.flatMap_cons]
    rw [h x List.mem_cons_self, ih (fun y hy => h y (List.mem_cons_of_mem _ hy))]

/-- the run loop on the event's own partition, against the per-run scans -/
theorem loop_fut {p : Pat} {cfg : Cfg} {e : Event} {es : List Event} {runs : List Run}
    (hfree : p.allFree = true) (hl : ∀ r ∈ runs, Lite p (keyOf p e) r) :
    ((processRuns p cfg e (runs.map (markNeg p e)) 0 []).2 ++
      (processRuns p cfg e (runs.map (markNeg p e)) 0 []).1.filterMap (fut p (keyOf p e) es)).Perm
    (runs.filterMap (fut p (keyOf p e) (e :: es))) := by
  rw [processRuns_eq_loop2]
  have hp := loop2_perm p cfg e [] (runs.map (markNeg p e)) []
  simp only [List.take_zero, List.drop_zero, List.nil_append] at hp ⊢
  refine (List.Perm.append hp.2 (hp.1.filterMap _)).trans ?_
  rw [List.filterMap_filterMap]
  refine (filterMap_append_perm _ _ _).trans ?_
  rw [List.flatMap_map, filterMap_eq_flatMap]
  rw [flatMap_congr_mem]
  intro r0 hr0
  exact (fut_step_same (cfg := cfg) hfree (hl r0 hr0) (by simp)).symm

theorem startAtNF_of_tryStart_none {p : Pat} {e : Event} {es : List Event} (h : tryStart p e = none) :
    Spec.startAtNF p e es = none := by
  unfold tryStart at h
  unfold Spec.startAtNF
  cases hs : p.steps with
  | nil => rfl
  | cons s0 rest =>
    simp only [hs] at h ⊢
    by_cases hm : matchesState s0 e [] = true
    · simp [hm] at h
    · simp [hm]

/-- `try_start_run_shared` (+ the push) against the oracle's new candidate -/
theorem startRun_fut {p : Pat} {cfg : Cfg} {e : Event} {es : List Event} {runs' : List Run} {ms : List Match} {d : Bool}
    (hfree : p.allFree = true) (hd : (startRun p cfg e runs' ms d).2.2 = false) :
    ((startRun p cfg e runs' ms d).2.1 ++ (startRun p cfg e runs' ms d).1.filterMap (fut p (keyOf p e) es)).Perm
    ((ms ++ runs'.filterMap (fut p (keyOf p e) es)) ++ (Spec.startAtNF p e es).toList) := by
  unfold startRun at hd ⊢
  cases hts : tryStart p e with
  | none => simp [startAtNF_of_tryStart_none hts]
  | some rn =>
    simp only [hts] at hd ⊢
    -- shape of the new run
    have hts' := hts
    unfold tryStart at hts'
    cases hs : p.steps with
    | nil => simp [hs] at hts'
    | cons s0 rest =>
      simp only [hs] at hts'
      by_cases hm : matchesState s0 e [] = true
      · rw [if_pos hm] at hts'
        have hrn : rn = ({ pos := 0, stack := [], caps := [], invalidated := false, kc := none } : Run).push e s0.alias := by
          cases hts'; rfl
        have hk0 : s0.kleene = false := allFree_get hfree (i := 0) (by simp [hs])
        have hspec : Spec.startAtNF p e es = Spec.followNF p (keyOf p e) rest [⟨e, s0.alias⟩] es := by
          unfold Spec.startAtNF; simp [hs, hm]
        by_cases hone : p.oneStep = true
        · rw [if_pos hone]
          have hrest : rest = [] := by
            unfold Pat.oneStep Pat.isLast at hone
            simp [hs, hk0] at hone
            exact hone
          subst hrest
          rw [hspec, Spec.followNF]
          have : rn.result = ⟨[⟨e, s0.alias⟩], capsOf [⟨e, s0.alias⟩]⟩ := by
            rw [hrn]; unfold Run.result
            rw [push_caps _ _ _ rfl]; rfl
          simp only [this, Option.toList_some]
          simp only [List.append_assoc]
          apply List.Perm.append_left
          exact List.perm_append_comm
        · rw [if_neg hone] at hd ⊢
          by_cases hlen : runs'.length < cfg.maxRuns
          · rw [if_pos hlen]
            simp only [List.filterMap_append]
            have : [rn].filterMap (fut p (keyOf p e) es) = (Spec.startAtNF p e es).toList := by
              have hf : fut p (keyOf p e) es rn = Spec.followNF p (keyOf p e) rest [⟨e, s0.alias⟩] es := by
                rw [hrn]; unfold fut; simp [Run.push, hs]
              rw [hspec]
              cases h : Spec.followNF p (keyOf p e) rest [⟨e, s0.alias⟩] es <;> simp [hf, h]
            rw [this, List.append_assoc]
          · rw [if_neg hlen] at hd; cases hd
      · rw [if_neg hm] at hts'; cases hts'

theorem specK_cons (p : Pat) (k : String) (e : Event) (es : List Event) :
    specK p k (e :: es) = (if keyOf p e == k then (Spec.startAtNF p e es).toList else []) ++ specK p k es := rfl

/-- **per-partition refinement**: on an `all`-free pattern, as long as backpressure never refuses a
run, the matches emitted on events of partition `k` are exactly what the stored runs of `k` and the
later start events of `k` yield under the scan `followNF`. -/
theorem perKey {p : Pat} {cfg : Cfg} (hfree : p.allFree = true) (k : String) :
    ∀ (later : List Event) (s : Eng), LiteEng p s → (runFrom p cfg s later).1.dropped = false →
      (emittedK p k (runFrom p cfg s later).2).Perm ((s.parts k).filterMap (fut p k later) ++ specK p k later) := by
  intro later
  induction later with
  | nil =>
    intro s hl _
    have : (s.parts k).filterMap (fut p k []) = [] := by
      apply List.filterMap_eq_nil_iff.mpr
      intro r hr; exact fut_nil (hl k r hr)
    simp [runFrom, emittedK, specK, this]
  | cons e es ih =>
    intro s hl hd
    have hl' := hl.step (cfg := cfg) (e := e) hfree
    unfold runFrom at hd ⊢
    simp only [] at hd ⊢
    have hd' : (stepEngine p cfg s e).1.dropped = false := runFrom_dropped es _ hd
    have IH := ih (stepEngine p cfg s e).1 hl' hd
    by_cases hk : (keyOf p e == k) = true
    · have hke : keyOf p e = k := by simpa using hk
      subst hke
      have hem : emittedK p (keyOf p e) ((e, (stepEngine p cfg s e).2) :: (runFrom p cfg (stepEngine p cfg s e).1 es).2)
          = (stepEngine p cfg s e).2 ++ emittedK p (keyOf p e) (runFrom p cfg (stepEngine p cfg s e).1 es).2 := by
        simp [emittedK]
      rw [hem]
      refine (List.Perm.append_left _ IH).trans ?_
      rw [stepEngine_eq] at hd' ⊢
      simp only [if_true] at hd' ⊢
      rw [specK_cons]
      simp only [hk, if_true]
      rw [← List.append_assoc, ← List.append_assoc]
      apply List.Perm.append_right
      refine (startRun_fut (es := es) hfree hd').trans ?_
      apply List.Perm.append_right
      exact loop_fut hfree (hl _)
    · have hke : keyOf p e ≠ k := by simpa using hk
      have hem : emittedK p k ((e, (stepEngine p cfg s e).2) :: (runFrom p cfg (stepEngine p cfg s e).1 es).2)
          = emittedK p k (runFrom p cfg (stepEngine p cfg s e).1 es).2 := by
        simp [emittedK, hk]
      rw [hem]
      refine IH.trans ?_
      have hparts : (stepEngine p cfg s e).1.parts k = (s.parts k).map (markNeg p e) := by
        rw [stepEngine_eq]; simp [Ne.symm hke]
      rw [hparts, List.filterMap_map]
      rw [specK_cons]
      simp only [hk]
      have : (s.parts k).filterMap (fut p k es ∘ markNeg p e) = (s.parts k).filterMap (fut p k (e :: es)) := by
        rw [filterMap_eq_flatMap, filterMap_eq_flatMap]
        apply flatMap_congr_mem
        intro r0 hr0
        simp [fut_step_other (hl k r0 hr0) (by simpa using hk)]
      rw [this]
      simp

/-! ### putting the partitions together -/

/-- partition key of a match: that of its first event -/
def mkey (p : Pat) (m : Match) : String :=
  match m.stack.head? with
  | some en => keyOf p en.ev
  | none => ""

theorem count_emittedK {p : Pat} {X : List (Event × List Match)}
    (hX : ∀ x ∈ X, ∀ m ∈ x.2, mkey p m = keyOf p x.1) (a : Match) :
    List.count a (X.flatMap (·.2)) = List.count a (emittedK p (mkey p a) X) := by
  induction X with
  | nil => rfl
  | cons x xs ih =>
    have ih' := ih (fun y hy => hX y (List.mem_cons_of_mem _ hy))
    unfold emittedK at ih' ⊢
    simp only [List.flatMap_cons, List.count_append, List.filter_cons]
    by_cases hk : (keyOf p x.1 == mkey p a) = true
    · simp only [hk, if_true, List.flatMap_cons, List.count_append, ih']
    · simp only [hk]
      have : List.count a x.2 = 0 := by
        apply List.count_eq_zero_of_not_mem
        intro hmem
        have := hX x List.mem_cons_self a hmem
        simp [this] at hk
      simp [this, ih']

/-- the oracle's candidates, indexed by their start event -/
def specX (p : Pat) : List Event → List (Event × List Match)
  | [] => []
  | e :: es => (e, (Spec.startAtNF p e es).toList) :: specX p es

theorem earliestNF_eq (p : Pat) (evs : List Event) : Spec.earliestNF p evs = (specX p evs).flatMap (·.2) := by
  induction evs with
  | nil => rfl
  | cons e es ih => simp [Spec.earliestNF, specX, ih]

theorem specK_eq (p : Pat) (k : String) (evs : List Event) : specK p k evs = emittedK p k (specX p evs) := by
  induction evs with
  | nil => rfl
  | cons e es ih =>
    rw [specK_cons, ih]
    have hx : specX p (e :: es) = (e, (Spec.startAtNF p e es).toList) :: specX p es := rfl
    rw [hx]
    unfold emittedK
    by_cases hk : (keyOf p e == k) = true
    · simp [hk]
    · simp [hk]

theorem followNF_head {p : Pat} {key : String} (todo : List Step) (stack : List Entry) (later : List Event) :
    ∀ m, Spec.followNF p key todo stack later = some m → stack ≠ [] → m.stack.head? = stack.head? := by
  fun_induction Spec.followNF p key todo stack later with
  | case1 stack _ => intro m h _; cases h; rfl
  | case2 => intro m h; cases h
  | case3 s todo stack g later hneg => intro m h; cases h
  | case4 s todo stack g later hneg hkm hemp =>
    intro m h hne
    cases h
    cases stack with
    | nil => exact absurd rfl hne
    | cons x xs => rfl
  | case5 s todo stack g later hneg hkm hemp ih =>
    intro m h hne
    rw [ih m h (by simp)]
    cases stack with
    | nil => exact absurd rfl hne
    | cons x xs => rfl
  | case6 s todo stack g later hneg hkm ih =>
    intro m h hne
    exact ih m h hne

theorem specX_key {p : Pat} : ∀ (evs : List Event), ∀ x ∈ specX p evs, ∀ m ∈ x.2, mkey p m = keyOf p x.1 := by
  intro evs
  induction evs with
  | nil => intro x hx; cases hx
  | cons e es ih =>
    intro x hx m hm
    unfold specX at hx
    rcases List.mem_cons.mp hx with hx | hx
    · subst hx
      simp only [Option.mem_toList] at hm
      unfold Spec.startAtNF at hm
      cases hs : p.steps with
      | nil => simp [hs] at hm
      | cons s0 rest =>
        simp only [hs] at hm
        split at hm
        · have := followNF_head rest [⟨e, s0.alias⟩] es m hm (by simp)
          unfold mkey; rw [this]; rfl
        · cases hm
    · exact ih x hx m hm

theorem emitOf_shape {p : Pat} {cfg : Cfg} {e : Event} {r : Run} {m : Match} (hfree : p.allFree = true)
    (hl : Lite p (keyOf p e) r) (h : emitOf p cfg e r = some m) :
    ∃ a, m.stack = r.stack ++ [⟨e, a⟩] := by
  unfold emitOf at h
  by_cases hinv : r.invalidated = true
  · simp [hinv] at h
  · simp only [hinv] at h
    have hadv := advance_allFree (cfg := cfg) (r := r) (e := e) hfree hl.pos
    obtain ⟨nxt, hnxt⟩ : ∃ nxt, p.steps[r.pos + 1]? = some nxt := ⟨_, List.getElem?_eq_getElem hl.pos⟩
    rw [hnxt] at hadv
    simp only [] at hadv
    rw [hadv] at h
    by_cases hm : matchesState nxt e r.caps = true
    · simp only [hm, if_true] at h
      by_cases hlast : p.isLast (r.pos + 1) = true
      · simp [hlast] at h
        subst h
        exact ⟨nxt.alias, rfl⟩
      · simp [hlast] at h
    · simp [hm] at h

theorem stepEngine_emitted {p : Pat} {cfg : Cfg} {s : Eng} {e : Event} (hfree : p.allFree = true) (hl : LiteEng p s) :
    ∀ m ∈ (stepEngine p cfg s e).2, mkey p m = keyOf p e ∧ m.lastIdx = e.idx := by
  rw [stepEngine_eq]
  simp only []
  have hpr : ∀ m ∈ (processRuns p cfg e ((s.parts (keyOf p e)).map (markNeg p e)) 0 []).2,
      mkey p m = keyOf p e ∧ m.lastIdx = e.idx := by
    intro m hm
    rw [processRuns_eq_loop2] at hm
    have := ((loop2_perm p cfg e _ _ _).2.mem_iff).mp hm
    simp only [List.drop_zero, List.nil_append] at this
    obtain ⟨r, hr, hem⟩ := List.mem_filterMap.mp this
    obtain ⟨r0, hr0, rfl⟩ := List.mem_map.mp hr
    have hlr : Lite p (keyOf p e) (markNeg p e r0) := (hl _ r0 hr0).mark
    obtain ⟨a, hst⟩ := emitOf_shape hfree hlr hem
    constructor
    · unfold mkey
      rw [hst]
      cases hs : (markNeg p e r0).stack with
      | nil => exact absurd hs hlr.ne
      | cons x xs =>
        simp only [List.cons_append, List.head?_cons]
        exact hlr.part x (by rw [hs]; exact List.mem_cons_self)
    · unfold Match.lastIdx
      rw [hst]; simp
  unfold startRun
  cases hts : tryStart p e with
  | none => simpa using hpr
  | some rn =>
    simp only []
    by_cases hone : p.oneStep = true
    · rw [if_pos hone]
      intro m hm
      rcases List.mem_append.mp hm with hm | hm
      · exact hpr m hm
      · have hmr : m = rn.result := by simpa using hm
        subst hmr
        unfold tryStart at hts
        cases hs : p.steps with
        | nil => simp [hs] at hts
        | cons s0 rest =>
          simp only [hs] at hts
          split at hts
          · cases hts
            simp [mkey, Match.lastIdx, Run.result, Run.push]
          · cases hts
    · rw [if_neg hone]
      split
      · exact hpr
      · exact hpr

theorem runFrom_emitted {p : Pat} {cfg : Cfg} (hfree : p.allFree = true) :
    ∀ (later : List Event) (s : Eng), LiteEng p s →
    ∀ x ∈ (runFrom p cfg s later).2, ∀ m ∈ x.2, mkey p m = keyOf p x.1 ∧ m.lastIdx = x.1.idx := by
  intro later
  induction later with
  | nil => intro s _ x hx; simp [runFrom] at hx
  | cons e es ih =>
    intro s hl x hx m hm
    unfold runFrom at hx
    simp only [] at hx
    rcases List.mem_cons.mp hx with hx | hx
    · subst hx
      exact stepEngine_emitted hfree hl m hm
    · exact ih _ (hl.step hfree) x hx m hm

theorem LiteEng_init (p : Pat) : LiteEng p Eng.init := by
  intro k r hr; simp [Eng.init] at hr

/-- **refinement, all partitions**: on `all`-free patterns without refused runs the engine emits
exactly the candidates of the negation-first scan. -/
theorem matches_perm_earliestNF {p : Pat} {cfg : Cfg} {evs : List Event} (hfree : p.allFree = true)
    (hd : (runAll p cfg evs).1.dropped = false) : (matchesOf p cfg evs).Perm (Spec.earliestNF p evs) := by
  rw [List.perm_iff_count]
  intro a
  have hX := fun x hx m hm => (runFrom_emitted (cfg := cfg) hfree evs Eng.init (LiteEng_init p) x hx m hm).1
  have h1 : matchesOf p cfg evs = ((runAll p cfg evs).2).flatMap (·.2) := by
    unfold matchesOf; rw [List.flatMap_def]
  rw [h1, earliestNF_eq]
  unfold runAll at hd ⊢
  rw [count_emittedK hX a, count_emittedK (specX_key evs) a, ← specK_eq]
  have := perKey (cfg := cfg) hfree (mkey p a) evs Eng.init (LiteEng_init p) hd
  simpa [Eng.init] using this.count_eq a

/-! ### the text's oracle (`follow`) against the negation-first scan (`followNF`) -/

theorem negAtCompletion_snoc (p : Pat) (stack : List Entry) (g : Event) (a : Option String) (c : Caps) :
    negAtCompletion p ⟨stack ++ [⟨g, a⟩], c⟩ = negHit p g (capsOf stack) := by
  unfold negAtCompletion
  simp

theorem followNF_eq_follow {p : Pat} {key : String} (todo : List Step) (stack : List Entry) (later : List Event) :
    (∀ m, Spec.follow p key todo stack later = some m → negAtCompletion p m = false) →
    Spec.followNF p key todo stack later = Spec.follow p key todo stack later := by
  fun_induction Spec.follow p key todo stack later with
  | case1 stack _ => intro _; rw [Spec.followNF]
  | case2 => intro _; rw [Spec.followNF]
  | case3 s todo stack g later hkm hemp =>
    intro h
    have := h _ rfl
    rw [negAtCompletion_snoc] at this
    rw [Spec.followNF]
    simp [this, hkm, hemp]
  | case4 s todo stack g later hkm hemp hneg =>
    intro _
    rw [Spec.followNF]; simp [hneg]
  | case5 s todo stack g later hkm hemp hneg ih =>
    intro h
    rw [Spec.followNF]
    simp only [hneg, hkm, hemp]
    simpa using ih h
  | case6 s todo stack g later hkm hneg =>
    intro _
    rw [Spec.followNF]; simp [hneg]
  | case7 s todo stack g later hkm hneg ih =>
    intro h
    rw [Spec.followNF]
    simp only [hneg, hkm]
    simpa using ih h

theorem earliestNF_eq_earliest {p : Pat} : ∀ (evs : List Event), noNegAtCompletion p evs = true →
    Spec.earliestNF p evs = Spec.earliest p evs := by
  intro evs
  induction evs with
  | nil => intro _; rfl
  | cons e es ih =>
    intro h
    unfold noNegAtCompletion at h
    rw [Spec.earliest, List.all_append, Bool.and_eq_true] at h
    rw [Spec.earliestNF, Spec.earliest, ih (by unfold noNegAtCompletion; exact h.2)]
    congr 1
    congr 1
    unfold Spec.startAtNF Spec.startAt
    cases hs : p.steps with
    | nil => rfl
    | cons s0 rest =>
      simp only []
      split
      · apply followNF_eq_follow
        intro m hm
        have h1 := h.1
        unfold Spec.startAt at h1
        simp only [hs] at h1
        rename_i hmatch
        simp only [hmatch, if_true, hm, Option.toList_some, List.all_cons, List.all_nil, Bool.and_true] at h1
        simpa using h1
      · rfl

/-! ### a simple sufficient condition for "backpressure never refuses a run" -/

theorem processRuns_length (p : Pat) (cfg : Cfg) (e : Event) (runs : List Run) :
    (processRuns p cfg e runs 0 []).1.length ≤ runs.length := by
  rw [processRuns_eq_loop2]
  have := (loop2_perm p cfg e [] runs []).1.length_eq
  simp only [List.take_zero, List.drop_zero, List.nil_append] at this ⊢
  rw [this]
  exact List.length_filterMap_le _ _

theorem noDrop_from {p : Pat} {cfg : Cfg} : ∀ (evs : List Event) (s : Eng) (n : Nat),
    (∀ k, (s.parts k).length ≤ n) → s.dropped = false → n + evs.length ≤ cfg.maxRuns →
    (runFrom p cfg s evs).1.dropped = false := by
  intro evs
  induction evs with
  | nil => intro s n _ hd _; exact hd
  | cons e es ih =>
    intro s n hlen hd hn
    unfold runFrom
    simp only []
    have hpr := processRuns_length p cfg e ((s.parts (keyOf p e)).map (markNeg p e))
    simp only [List.length_map] at hpr
    have hk := hlen (keyOf p e)
    simp only [List.length_cons] at hn
    apply ih _ (n + 1)
    · intro k
      rw [stepEngine_eq]
      simp only []
      by_cases hke : k = keyOf p e
      · rw [if_pos hke]
        unfold startRun
        split
        · split
          · simp only []; omega
          · split
            · simp only [List.length_append, List.length_cons, List.length_nil]; omega
            · simp only []; omega
        · simp only []; omega
      · rw [if_neg hke]
        have := hlen k
        simp only [List.length_map]; omega
    · rw [stepEngine_eq]
      simp only []
      unfold startRun
      split
      · split
        · exact hd
        · split
          · exact hd
          · rename_i hnot
            exact absurd (by omega) hnot
      · exact hd
    · omega

/-- a stream no longer than `max_runs` never meets backpressure -/
theorem noDrop_of_length {p : Pat} {cfg : Cfg} {evs : List Event} (h : evs.length ≤ cfg.maxRuns) :
    (runAll p cfg evs).1.dropped = false := by
  unfold runAll
  exact noDrop_from evs Eng.init 0 (by intro k; simp [Eng.init]) rfl (by omega)

/-! ## NFA level: `compile` in closed form; `advance`/`tryStart` are the interpreter on the compiled NFA -/

/-! ### the shape of the compiled NFA -/

/-- the Kleene state of an `all` step whose id is `base` -/
def kState (s : Step) (base : Nat) : NState :=
  { stype := .kleene, ty := some s.ty, pred := s.eager, alias := s.alias, eps := [base, base + 1],
    selfLoop := true, postponed := s.postponed }

/-- the event state of a plain step -/
def eState (s : Step) (out : List Nat) : NState := { ty := some s.ty, pred := s.pred, alias := s.alias, trans := out }

/-- a continue state -/
def cState (out : List Nat) : NState := { trans := out }

/-- states appended for `steps` when the first new id is `base`, links filled in, before `set_accept` -/
def build (base : Nat) : List Step → List NState
  | [] => []
  | s :: rest =>
    if s.kleene then
      kState s base :: cState (if rest.isEmpty then [] else [base + 2]) :: build (base + 2) rest
    else eState s (if rest.isEmpty then [] else [base + 1]) :: build (base + 1) rest

theorem modify_append_left {α} (l1 l2 : List α) (i : Nat) (f : α → α) (h : i < l1.length) :
    (l1 ++ l2).modify i f = l1.modify i f ++ l2 := by
  apply List.ext_getElem?
  intro j
  simp only [List.getElem?_modify, List.getElem?_append, List.length_modify]
  by_cases hj : j < l1.length
  · simp [hj]
  · simp [hj]
    have : i ≠ j := by omega
    simp [this]

theorem modify_append_right {α} (l1 l2 : List α) (i : Nat) (f : α → α) (h : l1.length ≤ i) :
    (l1 ++ l2).modify i f = l1 ++ l2.modify (i - l1.length) f := by
  apply List.ext_getElem?
  intro j
  simp only [List.getElem?_modify, List.getElem?_append]
  by_cases hj : j < l1.length
  · simp [hj]
    have : i ≠ j := by omega
    simp [this]
  · simp [hj]
    by_cases hij : i = j
    · subst hij; simp
    · have : i - l1.length ≠ j - l1.length := by omega
      simp [hij, this]

theorem modify_singleton {α} (x : α) (f : α → α) : [x].modify 0 f = [f x] := rfl

theorem build_length (base : Nat) (steps : List Step) :
    (build base steps).length = steps.length + steps.countP (·.kleene) := by
  induction steps generalizing base with
  | nil => rfl
  | cons s rest ih =>
    unfold build
    by_cases hk : s.kleene = true
    · simp [hk, ih]; omega
    · simp [hk, ih]; omega

theorem compileStep_kleene (n : Nfa) (prev : Nat) (s : Step) (hprev : prev < n.length) (hk : s.kleene = true) :
    compileStep n prev s = (addTrans n prev n.length ++ [kState s n.length, cState []], n.length + 1) := by
  unfold compileStep
  simp only [hk, if_true]
  refine Prod.ext ?_ ?_
  · apply List.ext_getElem?
    intro j
    have hp : prev ≠ n.length := by omega
    simp only [addTrans, addEps, List.getElem?_modify, List.getElem?_append, List.length_modify,
      List.length_append, List.length_cons, List.length_nil]
    by_cases h1 : j < n.length
    · have h2 : n.length ≠ j := by omega
      have h3 : j < n.length + 1 := by omega
      simp [h1, h2, h3]
    · by_cases h2 : j = n.length
      · subst h2
        simp [kState, hp]
      · by_cases h3 : j = n.length + 1
        · subst h3
          simp [cState]
        · have h4 : ¬ j < n.length + 1 := by omega
          have h5 : n.length ≠ j := by omega
          have h7 : ¬ j < n.length + 1 + 1 := by omega
          simp [h1, h4, h5]
          rw [List.getElem?_eq_none (by simp; omega), List.getElem?_eq_none (by simp; omega)]
  · simp [addTrans, addEps]

theorem build_k (base : Nat) (s : Step) (rest : List Step) (hk : s.kleene = true) :
    build base (s :: rest) = kState s base :: cState (if rest.isEmpty then [] else [base + 2]) :: build (base + 2) rest := by
  rw [build]; simp [hk]

theorem build_e (base : Nat) (s : Step) (rest : List Step) (hk : ¬ s.kleene = true) :
    build base (s :: rest) = eState s (if rest.isEmpty then [] else [base + 1]) :: build (base + 1) rest := by
  rw [build]; simp [hk]

theorem compileStep_plain (n : Nfa) (prev : Nat) (s : Step) (hprev : prev < n.length) (hk : ¬ s.kleene = true) :
    compileStep n prev s = (addTrans n prev n.length ++ [eState s []], n.length) := by
  unfold compileStep
  simp only [hk, Bool.false_eq_true, if_false]
  unfold addTrans
  rw [modify_append_left _ _ _ _ hprev]
  rfl

theorem build_ne_nil (base : Nat) (s : Step) (rest : List Step) : (build base (s :: rest)).length ≥ 1 := by
  rw [build_length]; simp; omega

/-- `compileSteps` appends `build` and links `prev` to the first new state -/
theorem compileSteps_eq : ∀ (steps : List Step) (n : Nfa) (prev : Nat), prev < n.length →
    (compileSteps n prev steps).1 = (if steps.isEmpty then n else addTrans n prev n.length) ++ build n.length steps ∧
    (compileSteps n prev steps).2 = (if steps.isEmpty then prev else n.length + (build n.length steps).length - 1) := by
  intro steps
  induction steps with
  | nil => intro n prev _; simp [compileSteps, build]
  | cons s rest ih =>
    intro n prev hprev
    unfold compileSteps
    simp only [List.isEmpty_cons, Bool.false_eq_true, if_false]
    by_cases hk : s.kleene = true
    · rw [compileStep_kleene n prev s hprev hk]
      simp only []
      have hlen : (addTrans n prev n.length ++ [kState s n.length, cState []]).length = n.length + 2 := by
        simp [addTrans]
      obtain ⟨h1, h2⟩ := ih (addTrans n prev n.length ++ [kState s n.length, cState []]) (n.length + 1) (by rw [hlen]; omega)
      rw [hlen] at h1 h2
      rw [h1, h2, build_k _ _ _ hk]
      constructor
      · by_cases hr : rest.isEmpty = true
        · simp [hr]
        · simp only [hr, Bool.false_eq_true, if_false]
          unfold addTrans
          rw [modify_append_right _ _ _ _ (by simp)]
          simp [List.modify, cState]
      · by_cases hr : rest.isEmpty = true
        · have : rest = [] := by simpa using hr
          subst this; simp [build]
        · simp only [hr, Bool.false_eq_true, if_false, List.length_cons]
          cases rest with
          | nil => simp at hr
          | cons s' rest' => have := build_ne_nil (n.length + 2) s' rest'; omega
    · rw [compileStep_plain n prev s hprev hk]
      simp only []
      have hlen : (addTrans n prev n.length ++ [eState s []]).length = n.length + 1 := by
        simp [addTrans]
      obtain ⟨h1, h2⟩ := ih (addTrans n prev n.length ++ [eState s []]) n.length (by rw [hlen]; omega)
      rw [hlen] at h1 h2
      rw [h1, h2, build_e _ _ _ hk]
      constructor
      · by_cases hr : rest.isEmpty = true
        · simp [hr]
        · simp only [hr, Bool.false_eq_true, if_false]
          unfold addTrans
          rw [modify_append_right _ _ _ _ (by simp)]
          simp [List.modify, eState]
      · by_cases hr : rest.isEmpty = true
        · have : rest = [] := by simpa using hr
          subst this; simp [build]
        · simp only [hr, Bool.false_eq_true, if_false, List.length_cons]
          cases rest with
          | nil => simp at hr
          | cons s' rest' => have := build_ne_nil (n.length + 1) s' rest'; omega

/-- the final states of `steps` (first id `base`): `set_accept` and `has_epsilon_to_accept` applied -/
def shapeFrom (base : Nat) : List Step → List NState
  | [] => []
  | s :: rest =>
    if s.kleene then
      { kState s base with epsAccept := rest.isEmpty }
        :: { cState (if rest.isEmpty then [] else [base + 2]) with stype := if rest.isEmpty then .accept else .normal }
        :: shapeFrom (base + 2) rest
    else
      { eState s (if rest.isEmpty then [] else [base + 1]) with stype := if rest.isEmpty then .accept else .normal }
        :: shapeFrom (base + 1) rest

/-- the whole compiled NFA in closed form -/
def shape (steps : List Step) : Nfa :=
  (if steps.isEmpty then ({ stype := .accept } : NState) else { stype := .start, trans := [1] }) :: shapeFrom 1 steps

/-- `set_accept` on the last state -/
def markLast (l : List NState) : List NState := l.modify (l.length - 1) fun s => { s with stype := .accept }

/-- the `has_epsilon_to_accept` pass -/
def epsA (full : Nfa) (s : NState) : NState :=
  { s with epsAccept := s.eps.any fun i => (full[i]?.map (·.stype)) == some .accept }

theorem markLast_cons (x : NState) (l : List NState) (h : l ≠ []) : markLast (x :: l) = x :: markLast l := by
  unfold markLast
  cases l with
  | nil => exact absurd rfl h
  | cons y ys => simp [List.modify]

theorem mark_eps (pre : List NState) : ∀ (steps : List Step), steps ≠ [] →
    (markLast (build pre.length steps)).map (epsA (pre ++ markLast (build pre.length steps))) = shapeFrom pre.length steps := by
  intro steps
  induction steps generalizing pre with
  | nil => intro h; exact absurd rfl h
  | cons s rest ih =>
    intro _
    by_cases hk : s.kleene = true
    · rw [build_k _ _ _ hk]
      by_cases hr : rest = []
      · subst hr
        simp [build, markLast, List.modify, shapeFrom, hk, epsA, kState, cState]
      · have hb : build (pre.length + 2) rest ≠ [] := by
          cases rest with
          | nil => exact absurd rfl hr
          | cons s' r' => intro h; have := build_ne_nil (pre.length + 2) s' r'; rw [h] at this; simp at this
        have hre : rest.isEmpty = false := by simpa using hr
        rw [markLast_cons _ _ (by simp), markLast_cons _ _ hb]
        have := ih (pre ++ [kState s pre.length, cState [pre.length + 2]]) hr
        simp only [List.length_append, List.length_cons, List.length_nil] at this
        simp only [hre, Bool.false_eq_true, if_false, List.map_cons]
        rw [shapeFrom]
        simp only [hk, if_true, hre, Bool.false_eq_true, if_false]
        have hfull : pre ++ kState s pre.length :: cState [pre.length + 2] :: markLast (build (pre.length + 2) rest)
            = (pre ++ [kState s pre.length, cState [pre.length + 2]]) ++ markLast (build (pre.length + 2) rest) := by simp
        rw [hfull, this]
        simp [epsA, kState, cState]
    · rw [build_e _ _ _ hk]
      by_cases hr : rest = []
      · subst hr
        simp [build, markLast, List.modify, shapeFrom, hk, epsA, eState]
      · have hb : build (pre.length + 1) rest ≠ [] := by
          cases rest with
          | nil => exact absurd rfl hr
          | cons s' r' => intro h; have := build_ne_nil (pre.length + 1) s' r'; rw [h] at this; simp at this
        have hre : rest.isEmpty = false := by simpa using hr
        rw [markLast_cons _ _ hb]
        have := ih (pre ++ [eState s [pre.length + 1]]) hr
        simp only [List.length_append, List.length_cons, List.length_nil] at this
        simp only [hre, Bool.false_eq_true, if_false, List.map_cons]
        rw [shapeFrom]
        simp only [hk, Bool.false_eq_true, if_false, hre]
        have hfull : pre ++ eState s [pre.length + 1] :: markLast (build (pre.length + 1) rest)
            = (pre ++ [eState s [pre.length + 1]]) ++ markLast (build (pre.length + 1) rest) := by simp
        rw [hfull, this]
        simp [epsA, eState]

/-- **the compiled NFA in closed form** (`NfaCompiler::compile` on a sequence of `Event`/`KleenePlus(Event)`) -/
theorem compile_eq_shape (p : Pat) : compile p = shape p.steps := by
  unfold compile shape
  by_cases hs : p.steps = []
  · simp [hs, compileSteps, shapeFrom, List.modify]
  · obtain ⟨h1, h2⟩ := compileSteps_eq p.steps [({ stype := .start } : NState)] 0 (by simp)
    have he : p.steps.isEmpty = false := by simpa using hs
    simp only [he, Bool.false_eq_true, if_false, List.length_cons, List.length_nil] at h1 h2 ⊢
    have hb : (build 1 p.steps).length ≥ 1 := by
      cases hst : p.steps with
      | nil => exact absurd hst hs
      | cons s' r' => exact build_ne_nil 1 s' r'
    have hpre : addTrans [({ stype := .start } : NState)] 0 1 = [({ stype := .start, trans := [1] } : NState)] := by
      simp [addTrans, List.modify]
    rw [h1, h2, hpre]
    rw [modify_append_right _ _ _ _ (by simp; omega)]
    have hidx : 0 + 1 + (build 1 p.steps).length - 1 - [({ stype := .start, trans := [1] } : NState)].length
        = (build 1 p.steps).length - 1 := by simp
    rw [hidx]
    have := mark_eps [({ stype := .start, trans := [1] } : NState)] p.steps hs
    simp only [List.length_cons, List.length_nil, Nat.zero_add] at this
    show List.map (epsA _) _ = _
    rw [List.map_append]
    unfold markLast at this
    rw [this]
    simp [epsA]

/-! ### lookups in the compiled NFA -/

/-- offset of step `i`'s event state among the states of `steps` -/
def off (steps : List Step) (i : Nat) : Nat := i + (steps.take i).countP (·.kleene)

theorem sid_eq (steps : List Step) (i : Nat) : sid steps i = 1 + off steps i := by
  unfold sid off; omega

/-- the final event state of step `s` with id `id` (`last`: it is the last step) -/
def evS (s : Step) (id : Nat) (last : Bool) : NState :=
  if s.kleene then { kState s id with epsAccept := last }
  else { eState s (if last then [] else [id + 1]) with stype := if last then .accept else .normal }

/-- the final continue state of an `all` step with id `id` -/
def contS (id : Nat) (last : Bool) : NState :=
  { cState (if last then [] else [id + 2]) with stype := if last then .accept else .normal }

theorem off_zero (steps : List Step) : off steps 0 = 0 := by simp [off]

theorem off_succ (s : Step) (rest : List Step) (i : Nat) :
    off (s :: rest) (i + 1) = off rest i + (if s.kleene then 2 else 1) := by
  unfold off
  simp only [List.take_succ_cons, List.countP_cons]
  split <;> omega

theorem shapeFrom_get : ∀ (steps : List Step) (base i : Nat) (s : Step), steps[i]? = some s →
    (shapeFrom base steps)[off steps i]? = some (evS s (base + off steps i) (i + 1 == steps.length)) ∧
    (s.kleene = true → (shapeFrom base steps)[off steps i + 1]? = some (contS (base + off steps i) (i + 1 == steps.length))) := by
  intro steps
  induction steps with
  | nil => intro base i s h; simp at h
  | cons s0 rest ih =>
    intro base i s h
    cases i with
    | zero =>
      simp only [List.getElem?_cons_zero, Option.some.injEq] at h
      subst h
      rw [off_zero, shapeFrom]
      have hl : (0 + 1 == (s0 :: rest).length) = rest.isEmpty := by
        cases rest <;> simp
      rw [hl]
      by_cases hk : s0.kleene = true
      · simp [hk, evS, contS]
      · simp [hk, evS]
    | succ j =>
      simp only [List.getElem?_cons_succ] at h
      rw [off_succ, shapeFrom]
      have hl : (j + 1 + 1 == (s0 :: rest).length) = (j + 1 == rest.length) := by
        simp
      rw [hl]
      by_cases hk : s0.kleene = true
      · simp only [hk, if_true]
        have := ih (base + 2) j s h
        constructor
        · rw [show off rest j + 2 = (off rest j) + 1 + 1 by omega, List.getElem?_cons_succ, List.getElem?_cons_succ]
          rw [this.1]; congr 2; omega
        · intro hks
          rw [show off rest j + 2 + 1 = (off rest j + 1) + 1 + 1 by omega, List.getElem?_cons_succ, List.getElem?_cons_succ]
          rw [this.2 hks]; congr 2; omega
      · simp only [hk, Bool.false_eq_true, if_false]
        have := ih (base + 1) j s h
        constructor
        · rw [List.getElem?_cons_succ, this.1]; congr 2; omega
        · intro hks
          rw [show off rest j + 1 + 1 = (off rest j + 1) + 1 by omega, List.getElem?_cons_succ, this.2 hks]; congr 2; omega

/-- the event state of step `i` and, for an `all` step, its continue state, in the compiled NFA -/
theorem compile_get (p : Pat) (i : Nat) (s : Step) (h : p.steps[i]? = some s) :
    (compile p)[sid p.steps i]? = some (evS s (sid p.steps i) (p.isLast i)) ∧
    (s.kleene = true → (compile p)[sid p.steps i + 1]? = some (contS (sid p.steps i) (p.isLast i))) := by
  rw [compile_eq_shape, sid_eq]
  unfold shape Pat.isLast
  have := shapeFrom_get p.steps 1 i s h
  constructor
  · rw [show 1 + off p.steps i = off p.steps i + 1 by omega, List.getElem?_cons_succ, this.1]
    congr 2; omega
  · intro hk
    rw [show 1 + off p.steps i + 1 = (off p.steps i + 1) + 1 by omega, List.getElem?_cons_succ, this.2 hk]
    try (congr 2; omega)

theorem compile_get_start (p : Pat) (h : p.steps ≠ []) :
    (compile p)[0]? = some ({ stype := .start, trans := [1] } : NState) := by
  rw [compile_eq_shape]
  unfold shape
  simp [h]

theorem sid_succ (steps : List Step) (i : Nat) (s : Step) (h : steps[i]? = some s) :
    sid steps (i + 1) = sid steps i + (if s.kleene then 2 else 1) := by
  unfold sid
  rw [List.take_succ_eq_append_getElem (List.getElem?_eq_some_iff.mp h).1, List.countP_append]
  have := (List.getElem?_eq_some_iff.mp h).2
  simp [this]
  split <;> omega

/-! ### the step-level functions are the NFA interpreter on the compiled NFA -/

/-- a step-level run seen at NFA level: `pos` becomes the id of the step's event state -/
def toN (p : Pat) (r : Run) : Run := { r with pos := sid p.steps r.pos }

def Adv.mapRun (f : Run → Run) : Adv → Adv
  | .continue r => .continue (f r)
  | .complete m => .complete m
  | .completeAndContinue r m => .completeAndContinue (f r) m
  | .noMatch => .noMatch

theorem eager_of_plain {s : Step} (h : ¬ s.kleene = true) : s.eager = s.pred := by
  unfold Step.eager; cases s.pred <;> simp [h]

theorem matchesN_evS (s : Step) (id : Nat) (last : Bool) (e : Event) (caps : Caps) :
    matchesN (evS s id last) e caps = matchesState s e caps := by
  unfold matchesN evS matchesState
  by_cases hk : s.kleene = true
  · simp only [hk, if_true, kState]
    try (cases s.eager <;> rfl)
  · simp only [hk, Bool.false_eq_true, if_false, eState, eager_of_plain hk]
    try (cases s.pred <;> rfl)

theorem postponed_of_plain {s : Step} (h : ¬ s.kleene = true) : s.postponed = none := by
  unfold Step.postponed; cases s.pred <;> simp [h]

theorem selfLoopN_evS (p : Pat) (cfg : Cfg) (r : Run) (cur : Step) (e : Event) (hk : cur.kleene = true) :
    selfLoopN (evS cur (sid p.steps r.pos) (p.isLast r.pos)) cfg (toN p r) e = (selfLoop p cfg r cur e).mapRun (toN p) := by
  unfold selfLoopN selfLoop
  have h1 : (evS cur (sid p.steps r.pos) (p.isLast r.pos)).epsAccept = p.isLast r.pos := by simp [evS, hk, kState]
  have h2 : (evS cur (sid p.steps r.pos) (p.isLast r.pos)).postponed = cur.postponed := by simp [evS, hk, kState]
  have h3 : (evS cur (sid p.steps r.pos) (p.isLast r.pos)).alias = cur.alias := by simp [evS, hk, kState]
  have h4 : capFull cfg (toN p r) = capFull cfg r := rfl
  rw [h1, h2, h3, h4]
  have hcaps : (toN p r).caps = r.caps := rfl
  rw [hcaps]
  unfold postponedFails
  by_cases hc : capFull cfg r = true
  · simp [hc, Adv.mapRun]
  · simp only [hc, Bool.false_eq_true, if_false]
    cases hq : cur.postponed with
    | none =>
      simp only [Bool.and_false, Bool.false_eq_true, if_false]
      by_cases hl : p.isLast r.pos = true
      · simp [hl, Adv.mapRun, toN, Run.push, Run.result]
      · simp [hl, Adv.mapRun, toN, Run.push]
    | some q =>
      simp only []
      by_cases hpp : (p.isLast r.pos && !evalPred q e r.caps) = true
      · simp [hpp, Adv.mapRun]
      · simp only [hpp, Bool.false_eq_true, if_false]
        by_cases hl : p.isLast r.pos = true
        · simp [hl, Adv.mapRun, toN, Run.push, Run.result]
        · simp [hl, Adv.mapRun, toN, Run.push]

theorem evS_stype_accept (s : Step) (id : Nat) (last : Bool) :
    ((evS s id last).stype == SType.accept) = (last && !s.kleene) := by
  unfold evS
  by_cases hk : s.kleene = true
  · simp [hk, kState]
  · cases last <;> simp [hk, eState]

theorem evS_kleene (s : Step) (id : Nat) (last : Bool) :
    ((evS s id last).stype == SType.kleene && (evS s id last).selfLoop) = s.kleene := by
  unfold evS
  by_cases hk : s.kleene = true
  · simp [hk, kState]
  · cases last <;> simp [hk, eState]

theorem evS_alias (s : Step) (id : Nat) (last : Bool) : (evS s id last).alias = s.alias := by
  unfold evS; split <;> simp [kState, eState]

theorem evS_epsAccept (s : Step) (id : Nat) (last : Bool) : (evS s id last).epsAccept = (s.kleene && last) := by
  unfold evS
  by_cases hk : s.kleene = true
  · simp [hk, kState]
  · simp [hk, eState]

theorem not_last_next {p : Pat} {i : Nat} (h : i < p.steps.length) (hl : p.isLast i = false) :
    ∃ nxt, p.steps[i + 1]? = some nxt := by
  unfold Pat.isLast at hl
  exact ⟨_, List.getElem?_eq_getElem (by simp at hl; omega)⟩

/-- the transitions arm: one transition, to the next step's event state -/
theorem transLoop_next (p : Pat) (cfg : Cfg) (r : Run) (e : Event) (nxt : Step) (hn : p.steps[r.pos + 1]? = some nxt) :
    transLoop (compile p) cfg (toN p r) e [sid p.steps (r.pos + 1)] =
      if matchesState nxt e r.caps then some ((enterNext p cfg r nxt e).mapRun (toN p)) else none := by
  have hget := (compile_get p (r.pos + 1) nxt hn).1
  unfold transLoop
  simp only [hget, matchesN_evS]
  have hc : (toN p r).caps = r.caps := rfl
  rw [hc]
  by_cases hm : matchesState nxt e r.caps = true
  · simp only [hm, if_true, evS_stype_accept, evS_kleene, evS_alias, evS_epsAccept]
    unfold enterNext
    by_cases h1 : (p.isLast (r.pos + 1) && !nxt.kleene) = true
    · simp [h1, Adv.mapRun, toN, Run.push, Run.result]
    · simp only [h1, Bool.false_eq_true, if_false]
      by_cases hk : nxt.kleene = true
      · simp only [hk, if_true, Bool.true_and]
        by_cases hl : p.isLast (r.pos + 1) = true
        · simp [hl, Adv.mapRun, toN, Run.push, Run.result]
        · simp [hl, Adv.mapRun, toN, Run.push]
      · simp [hk, Adv.mapRun, toN, Run.push]
  · simp [hm, transLoop]

/-- the epsilon arm of a Kleene state: [self, continue] -/
theorem epsLoop_kleene (p : Pat) (r : Run) (e : Event) (cur : Step) (h : r.pos < p.steps.length)
    (hcur : p.steps[r.pos]? = some cur) (hk : cur.kleene = true) :
    epsLoop (compile p) (toN p r) e (p.isLast r.pos) [sid p.steps r.pos, sid p.steps r.pos + 1] =
      (viaEpsilon p r e).mapRun (toN p) := by
  have hget := compile_get p r.pos cur hcur
  have hcont := hget.2 hk
  unfold epsLoop
  simp only [hget.1, evS_stype_accept, hk, Bool.not_true, Bool.and_false, Bool.false_eq_true, if_false]
  have htr : (evS cur (sid p.steps r.pos) (p.isLast r.pos)).trans = [] := by simp [evS, hk, kState]
  rw [htr]
  unfold epsInner
  simp only []
  unfold epsLoop
  simp only [hcont]
  unfold viaEpsilon
  by_cases hl : p.isLast r.pos = true
  · simp [hl, contS, cState, Adv.mapRun, epsLoop]
  · have hl' : p.isLast r.pos = false := by simpa using hl
    obtain ⟨nxt, hn⟩ := not_last_next h hl'
    have hsid : sid p.steps r.pos + 2 = sid p.steps (r.pos + 1) := by
      rw [sid_succ p.steps r.pos cur hcur]; simp [hk]
    simp only [hl', contS, cState, Bool.false_eq_true, if_false, hn]
    have hstn : ((SType.normal == SType.accept) = false) := by decide
    simp only [hstn, Bool.false_eq_true, if_false, hsid]
    have hgetn := (compile_get p (r.pos + 1) nxt hn).1
    unfold epsInner
    simp only [hgetn, matchesN_evS]
    have hc : (toN p r).caps = r.caps := rfl
    rw [hc]
    by_cases hm : matchesState nxt e r.caps = true
    · simp only [hm, if_true, evS_stype_accept, evS_alias]
      by_cases h1 : (p.isLast (r.pos + 1) && !nxt.kleene) = true
      · simp [h1, Adv.mapRun, toN, Run.push, Run.result]
      · simp [h1, Adv.mapRun, toN, Run.push]
    · simp [hm, epsInner, epsLoop, Adv.mapRun]

/-- **`advance` is `advance_run_shared` on the compiled NFA** -/
theorem advanceN_compile (p : Pat) (cfg : Cfg) (r : Run) (e : Event) (h : r.pos < p.steps.length) :
    advanceN (compile p) cfg (toN p r) e = (advance p cfg r e).mapRun (toN p) := by
  obtain ⟨cur, hcur⟩ : ∃ cur, p.steps[r.pos]? = some cur := ⟨_, List.getElem?_eq_getElem h⟩
  have hget := compile_get p r.pos cur hcur
  unfold advanceN advance
  have hpos : (toN p r).pos = sid p.steps r.pos := rfl
  have hc : (toN p r).caps = r.caps := rfl
  simp only [hpos, hget.1, hcur, evS_stype_accept, evS_kleene, matchesN_evS, hc]
  by_cases hacc : (p.isLast r.pos && !cur.kleene) = true
  · simp [hacc, Adv.mapRun, toN, Run.result]
  · simp only [hacc, Bool.false_eq_true, if_false]
    by_cases hs : (cur.kleene && matchesState cur e r.caps) = true
    · simp only [hs, if_true]
      simp only [Bool.and_eq_true] at hs
      exact selfLoopN_evS p cfg r cur e hs.1
    · simp only [hs, Bool.false_eq_true, if_false]
      by_cases hk : cur.kleene = true
      · -- Kleene state: no transitions, epsilons [self, continue]
        have htr : (evS cur (sid p.steps r.pos) (p.isLast r.pos)).trans = [] := by simp [evS, hk, kState]
        have hep : (evS cur (sid p.steps r.pos) (p.isLast r.pos)).eps = [sid p.steps r.pos, sid p.steps r.pos + 1] := by
          simp [evS, hk, kState]
        simp only [htr, hep, transLoop, hk, Bool.not_true, Bool.false_eq_true, if_false, evS_epsAccept, Bool.true_and]
        exact epsLoop_kleene p r e cur h hcur hk
      · -- Normal state: one transition, no epsilons
        have hl : p.isLast r.pos = false := by
          cases hl : p.isLast r.pos with
          | false => rfl
          | true => simp [hl, hk] at hacc
        obtain ⟨nxt, hn⟩ := not_last_next h hl
        have hsid : sid p.steps r.pos + 1 = sid p.steps (r.pos + 1) := by
          rw [sid_succ p.steps r.pos cur hcur]; simp [hk]
        have htr : (evS cur (sid p.steps r.pos) (p.isLast r.pos)).trans = [sid p.steps (r.pos + 1)] := by
          simp [evS, hk, eState, hl, hsid]
        have hep : (evS cur (sid p.steps r.pos) (p.isLast r.pos)).eps = [] := by simp [evS, hk, eState]
        simp only [htr, hep, hk, Bool.not_false, if_true]
        rw [transLoop_next p cfg r e nxt hn]
        unfold viaTransitions
        simp only [hn]
        by_cases hm : matchesState nxt e r.caps = true
        · simp [hm]
        · simp [hm, epsLoop, Adv.mapRun]

/-- **`tryStart` is `try_start_run_shared` on the compiled NFA** -/
theorem tryStartN_compile (p : Pat) (e : Event) : tryStartN (compile p) e = (tryStart p e).map (toN p) := by
  unfold tryStartN tryStart
  cases hs : p.steps with
  | nil =>
    rw [compile_eq_shape]; simp [shape, hs, shapeFrom]
  | cons s0 rest =>
    have hne : p.steps ≠ [] := by simp [hs]
    rw [compile_get_start p hne]
    have hget := (compile_get p 0 s0 (by simp [hs])).1
    have hsid : sid p.steps 0 = 1 := by simp [sid]
    rw [hsid] at hget
    simp only [List.findSome?_cons, hget, matchesN_evS, evS_alias]
    by_cases hm : matchesState s0 e [] = true
    · simp [hm, toN, hsid, Run.push]
    · simp [hm]

/-! ## concrete witnesses used by the property files -/

/-- C02-neg-at-completion: `A as a -> B as b .not(B)` on `A B` -/
def c02WitnessPat : Pat :=
  { steps := [⟨"A", none, some "a", false⟩, ⟨"B", none, some "b", false⟩], partition := none, negs := [⟨"B", none⟩] }
def c02WitnessEvs : List Event := [⟨0, "A", []⟩, ⟨1, "B", []⟩]

/-- C01-trailing-all-selfref: `A as a -> all B where x > b.x as b` on `A, B{x:5}, B{x:3}, B{x:9}` -/
def c01WitnessPat : Pat :=
  { steps := [⟨"A", none, some "a", false⟩, ⟨"B", some (.cmpRef "x" .gt "b" "x"), some "b", true⟩], partition := none, negs := [] }
def c01WitnessEvs : List Event :=
  [⟨0, "A", []⟩, ⟨1, "B", [("x", .int 5)]⟩, ⟨2, "B", [("x", .int 3)]⟩, ⟨3, "B", [("x", .int 9)]⟩]
/-- what the unrepaired engine emitted at the third event: `[A, B5, B3]` -/
def c01WitnessBad : Match :=
  let st : List Entry := [⟨⟨0, "A", []⟩, some "a"⟩, ⟨⟨1, "B", [("x", .int 5)]⟩, some "b"⟩, ⟨⟨2, "B", [("x", .int 3)]⟩, some "b"⟩]
  ⟨st, capsOf st⟩
/-- what the repaired engine emits at the fourth event: `[A, B5, B9]` -/
def c01WitnessGood : Match :=
  let st : List Entry := [⟨⟨0, "A", []⟩, some "a"⟩, ⟨⟨1, "B", [("x", .int 5)]⟩, some "b"⟩, ⟨⟨3, "B", [("x", .int 9)]⟩, some "b"⟩]
  ⟨st, capsOf st⟩

/-- a partitioned two-step pattern with a cross-alias filter and a `.not` clause, and a stream with one match -/
def c01ExamplePat : Pat :=
  { steps := [⟨"A", none, some "a", false⟩, ⟨"B", some (.cmpRef "x" .gt "a" "x"), some "b", false⟩],
    partition := some "k", negs := [⟨"D", none⟩] }
def c01ExampleEvs : List Event :=
  [⟨0, "A", [("x", .int 1), ("k", .int 1)]⟩, ⟨1, "B", [("x", .int 0), ("k", .int 1)]⟩, ⟨2, "B", [("x", .int 2), ("k", .int 1)]⟩]

/-! ## run-count bound (Drop strategy) -/

/-- every partition holds at most `n` runs -/
def RunsBounded (n : Nat) (s : Eng) : Prop := ∀ k, (s.parts k).length ≤ n

theorem stepEngine_bounded {p : Pat} {cfg : Cfg} {s : Eng} {e : Event} (h : RunsBounded cfg.maxRuns s) :
    RunsBounded cfg.maxRuns (stepEngine p cfg s e).1 := by
  intro k
  rw [stepEngine_eq]
  simp only []
  have hpr := processRuns_length p cfg e ((s.parts (keyOf p e)).map (markNeg p e))
  simp only [List.length_map] at hpr
  have hk := h (keyOf p e)
  by_cases hke : k = keyOf p e
  · rw [if_pos hke]
    unfold startRun
    split
    · split
      · simp only []; omega
      · split
        · simp only [List.length_append, List.length_cons, List.length_nil]; omega
        · simp only []; omega
    · simp only []; omega
  · rw [if_neg hke]
    have := h k
    simp only [List.length_map]; omega

/-- **the number of active runs of a partition never exceeds `max_runs`** (default strategy `Drop`) -/
theorem runFrom_bounded {p : Pat} {cfg : Cfg} : ∀ (evs : List Event) (s : Eng),
    RunsBounded cfg.maxRuns s → RunsBounded cfg.maxRuns (runFrom p cfg s evs).1 := by
  intro evs
  induction evs with
  | nil => intro s h; exact h
  | cons e es ih =>
    intro s h
    unfold runFrom
    exact ih _ (stepEngine_bounded h)

theorem runAll_bounded (p : Pat) (cfg : Cfg) (evs : List Event) : RunsBounded cfg.maxRuns (runAll p cfg evs).1 := by
  unfold runAll
  exact runFrom_bounded evs Eng.init (by intro k; simp [Eng.init])

section Enumeration
open Varpulis.Zdd

/-! ## the enumeration at completion (`expand`) -/

/-- after `k` extensions the capture's handle is the complete diagram over `k` variables (a6's `full`) -/
theorem kleeneHandle_eq_full (k : Nat) : kleeneHandle k = Varpulis.SaseK.full 0 k := by
  unfold kleeneHandle
  induction k with
  | zero => rfl
  | succ n ih =>
    rw [List.range_succ, List.foldl_append, ih]
    simpa using Varpulis.SaseK.pwo_full 0 n

/-- an index set of the complete diagram selects a subsequence of the kept entries -/
theorem pick_sublist (L : List Entry) : ∀ (n i : Nat), i + n = L.length → ∀ s ∈ Varpulis.SaseK.Spec.subsets i n,
    (pickEntries L s).Sublist (L.drop i) := by
  intro n
  induction n with
  | zero =>
    intro i _ s hs
    simp only [Varpulis.SaseK.Spec.subsets, List.mem_singleton] at hs
    subst hs; simp [pickEntries]
  | succ n ih =>
    intro i hi s hs
    have hlt : i < L.length := by omega
    rw [List.drop_eq_getElem_cons hlt]
    simp only [Varpulis.SaseK.Spec.subsets, List.mem_append, List.mem_map] at hs
    rcases hs with hs | ⟨t, ht, rfl⟩
    · exact (ih (i + 1) (by omega) s hs).cons _
    · have := ih (i + 1) (by omega) t ht
      unfold pickEntries at this ⊢
      simp only [List.filterMap_cons, List.getElem?_eq_getElem hlt]
      exact this.cons_cons _

/-- **what `enumerate_with_filter` emits**: every match of `expand` keeps the run's stack and overlays the
captures with a *non-empty subsequence of the enumerated step's group whose consecutive members satisfy the
postponed filter* (the earlier member bound to the Kleene alias). -/
theorem expand_spec {p : Pat} {cfg : Cfg} {m0 m : Match} {i : Nat} {s : Step} {q : Pred}
    (hd : p.deferredStep = some (i, s, q)) (hm : m ∈ expand p cfg m0) :
    ∃ es : List Entry, es.Sublist (groupOf p i m0.stack) ∧ es ≠ [] ∧
      evalDeferred q ((es.head?.bind (·.alias)).or (extractRefAlias q)) m0.caps (es.map (·.ev)) = true ∧
      m = ⟨m0.stack, es.foldl (fun c en => bindOpt en.alias en.ev c) m0.caps⟩ := by
  unfold expand at hm
  rw [hd] at hm
  simp only [List.mem_map] at hm
  obtain ⟨es, hes, rfl⟩ := hm
  have hkept : ∃ kept : List Entry, kept.Sublist (groupOf p i m0.stack) ∧ es ∈ combosOf cfg q m0.caps kept := by
    by_cases h0 : cfg.maxKleene = 0
    · exact ⟨[], List.nil_sublist _, by simpa [h0] using hes⟩
    · exact ⟨_, List.Sublist.refl _, by simpa [h0] using hes⟩
  obtain ⟨kept, hsub, hes⟩ := hkept
  unfold combosOf at hes
  have hes' := List.mem_of_mem_take hes
  rw [List.mem_filter, List.mem_map] at hes'
  obtain ⟨⟨idxs, hidx, rfl⟩, hok⟩ := hes'
  simp only [Bool.and_eq_true] at hok
  refine ⟨pickEntries kept idxs, ?_, ?_, hok.2, rfl⟩
  · rw [kleeneHandle_eq_full, Varpulis.SaseK.sets_full] at hidx
    have := pick_sublist kept kept.length 0 (by simp) idxs hidx
    simp only [List.drop_zero] at this
    exact this.trans hsub
  · intro hnil; rw [hnil] at hok; simp at hok

/-- a pattern of the first fragment never enumerates -/
theorem firstKleene_spec : ∀ (steps : List Step) (j i : Nat) (s : Step), firstKleene steps j = some (i, s) →
    j ≤ i ∧ steps[i - j]? = some s ∧ s.kleene = true := by
  intro steps
  induction steps with
  | nil => intro j i s h; simp [firstKleene] at h
  | cons x xs ih =>
    intro j i s h
    unfold firstKleene at h
    by_cases hk : x.kleene = true
    · simp [hk] at h; obtain ⟨rfl, rfl⟩ := h; simp [hk]
    · simp [hk] at h
      obtain ⟨h1, h2, h3⟩ := ih (j + 1) i s h
      refine ⟨by omega, ?_, h3⟩
      have : i - j = (i - (j + 1)) + 1 := by omega
      rw [this, List.getElem?_cons_succ]; exact h2

theorem deferredStep_none_of_inFragment {p : Pat} (h : p.inFragment = true) : p.deferredStep = none := by
  unfold Pat.deferredStep
  cases hf : firstKleene p.steps 0 with
  | none => rfl
  | some is =>
    obtain ⟨i, s⟩ := is
    obtain ⟨_, h2, _⟩ := firstKleene_spec p.steps 0 i s hf
    simp only [Nat.sub_zero] at h2
    simp only []
    cases hq : s.postponed with
    | none => rfl
    | some q =>
      simp only []
      by_cases hl : i + 1 < p.steps.length
      · have := inFragment_postponed h h2 (by unfold Pat.isLast; simp; omega)
        rw [this] at hq; cases hq
      · simp [hl]

theorem expand_none {p : Pat} (cfg : Cfg) (m : Match) (h : p.deferredStep = none) : expand p cfg m = [m] := by
  unfold expand; rw [h]

theorem runFromK_eq {p : Pat} {cfg : Cfg} (h : p.deferredStep = none) : ∀ (evs : List Event) (s : Eng),
    runFromK p cfg s evs = runFrom p cfg s evs := by
  intro evs
  induction evs with
  | nil => intro s; rfl
  | cons e es ih =>
    intro s
    have hs : stepEngineK p cfg s e = stepEngine p cfg s e := by
      unfold stepEngineK
      have : (stepEngine p cfg s e).2.flatMap (expand p cfg) = (stepEngine p cfg s e).2 := by
        rw [flatMap_congr_mem (g := fun m => [m]) (fun m _ => expand_none cfg m h)]
        simp
      rw [this]
    unfold runFromK runFrom
    rw [hs, ih]

theorem matchesOfK_eq {p : Pat} {cfg : Cfg} {evs : List Event} (h : p.deferredStep = none) :
    matchesOfK p cfg evs = matchesOf p cfg evs := by
  unfold matchesOfK matchesOf runAll
  rw [runFromK_eq h]

theorem capsEquiv_refl (c : Caps) : capsEquiv c c = true := by
  unfold capsEquiv; simp

theorem genuineK_of_genuine {p : Pat} {evs : List Event} {m : Match} (hd : p.deferredStep = none)
    (h : Genuine p evs m = true) : GenuineK p evs m = true := by
  unfold GenuineK candidates
  rw [hd]
  unfold Genuine at h
  simp only [Bool.and_eq_true] at h
  obtain ⟨⟨⟨⟨h1, h2⟩, h3⟩, h4⟩, h5⟩ := h
  have h5' : m.caps = capsOf m.stack := by simpa using h5
  simp only [List.any_cons, List.any_nil, Bool.or_false, Bool.and_eq_true]
  refine ⟨?_, by rw [h5']; exact capsEquiv_refl _⟩
  unfold GenuineCore
  simp only [Bool.and_eq_true]
  exact ⟨⟨⟨h1, h2⟩, h3⟩, h4⟩

/-! ## the engine never looks at a postponed filter of a non-last step -/

/-- drop a postponed (self-referencing `all`) filter -/
def Step.strip (s : Step) : Step := if s.postponed.isSome then { s with pred := none } else s

/-- the pattern without its postponed filters -/
def Pat.strip (p : Pat) : Pat := { p with steps := p.steps.map Step.strip }

theorem strip_kleene (s : Step) : s.strip.kleene = s.kleene := by unfold Step.strip; split <;> rfl
theorem strip_alias (s : Step) : s.strip.alias = s.alias := by unfold Step.strip; split <;> rfl
theorem strip_ty (s : Step) : s.strip.ty = s.ty := by unfold Step.strip; split <;> rfl

theorem strip_eager (s : Step) : s.strip.eager = s.eager := by
  unfold Step.strip
  by_cases h : s.postponed.isSome = true
  · rw [if_pos h]
    unfold Step.postponed at h
    unfold Step.eager
    cases hp : s.pred with
    | none => rfl
    | some q =>
      rw [hp] at h
      by_cases hc : (s.kleene && selfRef q s.alias) = true
      · simp [hc]
      · simp [hc] at h
  · rw [if_neg h]

theorem strip_postponed (s : Step) : s.strip.postponed = none := by
  unfold Step.strip
  by_cases h : s.postponed.isSome = true
  · rw [if_pos h]; unfold Step.postponed; rfl
  · rw [if_neg h]; simpa using h

theorem strip_of_none {s : Step} (h : s.postponed = none) : s.strip = s := by
  unfold Step.strip; simp [h]

theorem matchesState_strip (s : Step) (e : Event) (c : Caps) : matchesState s.strip e c = matchesState s e c := by
  unfold matchesState; rw [strip_ty, strip_eager]

theorem isLast_strip (p : Pat) (i : Nat) : p.strip.isLast i = p.isLast i := by
  unfold Pat.isLast Pat.strip; simp

theorem get_strip (p : Pat) (i : Nat) : p.strip.steps[i]? = (p.steps[i]?).map Step.strip := by
  unfold Pat.strip; simp

/-- no postponed filter on the last step -/
def Pat.lastPlain (p : Pat) : Prop := ∀ i s, p.steps[i]? = some s → p.isLast i = true → s.postponed = none

theorem enterNext_strip (p : Pat) (cfg : Cfg) (r : Run) (nxt : Step) (e : Event) :
    enterNext p.strip cfg r nxt.strip e = enterNext p cfg r nxt e := by
  unfold enterNext
  simp only [isLast_strip, strip_kleene, strip_alias]

theorem advance_strip {p : Pat} (hl : p.lastPlain) (cfg : Cfg) (r : Run) (e : Event) :
    advance p.strip cfg r e = advance p cfg r e := by
  unfold advance
  rw [get_strip]
  cases hcur : p.steps[r.pos]? with
  | none => rfl
  | some cur =>
    simp only [Option.map_some, isLast_strip, strip_kleene, matchesState_strip]
    have hself : selfLoop p.strip cfg r cur.strip e = selfLoop p cfg r cur e := by
      unfold selfLoop
      simp only [isLast_strip, strip_alias]
      by_cases hlast : p.isLast r.pos = true
      · rw [strip_of_none (hl _ _ hcur hlast)]
      · simp [hlast]
    have htr : viaTransitions p.strip cfg r e = viaTransitions p cfg r e := by
      unfold viaTransitions
      rw [get_strip]
      cases p.steps[r.pos + 1]? with
      | none => rfl
      | some nxt => simp only [Option.map_some, matchesState_strip, enterNext_strip]
    have hep : viaEpsilon p.strip r e = viaEpsilon p r e := by
      unfold viaEpsilon
      rw [get_strip]
      cases p.steps[r.pos + 1]? with
      | none => simp [isLast_strip]
      | some nxt => simp only [Option.map_some, matchesState_strip, isLast_strip, strip_kleene, strip_alias]
    rw [hself, htr, hep]

theorem tryStart_strip (p : Pat) (e : Event) : tryStart p.strip e = tryStart p e := by
  unfold tryStart Pat.strip
  cases p.steps with
  | nil => rfl
  | cons s0 rest => simp only [List.map_cons, matchesState_strip, strip_alias]

theorem loop2_congr {p q : Pat} {cfg : Cfg} {e : Event} (h : ∀ r, advance p cfg r e = advance q cfg r e)
    (done pending : List Run) (acc : List Match) :
    loop2 p cfg e done pending acc = loop2 q cfg e done pending acc := by
  fun_induction loop2 p cfg e done pending acc with
  | case1 done acc => rw [loop2]
  | case2 done r rest acc hinv ih => rw [loop2.eq_2]; simp [hinv, ih]
  | case3 done r rest acc hinv r' hadv ih => rw [loop2.eq_2]; simp [hinv, ← h, hadv, ih]
  | case4 done r rest acc hinv m hadv ih => rw [loop2.eq_2]; simp [hinv, ← h, hadv, ih]
  | case5 done r rest acc hinv r' m hadv ih => rw [loop2.eq_2]; simp [hinv, ← h, hadv, ih]
  | case6 done r rest acc hinv hadv ih => rw [loop2.eq_2]; simp [hinv, ← h, hadv, ih]

theorem oneStep_strip (p : Pat) : p.strip.oneStep = p.oneStep := by
  unfold Pat.oneStep
  rw [isLast_strip]
  unfold Pat.strip
  cases p.steps with
  | nil => rfl
  | cons s0 rest => simp [strip_kleene]

theorem stepEngine_strip {p : Pat} (hl : p.lastPlain) (cfg : Cfg) (s : Eng) (e : Event) :
    stepEngine p.strip cfg s e = stepEngine p cfg s e := by
  rw [stepEngine_eq, stepEngine_eq]
  have hk : keyOf p.strip e = keyOf p e := rfl
  have hm : markNeg p.strip e = markNeg p e := rfl
  have hpr : ∀ runs, processRuns p.strip cfg e runs 0 [] = processRuns p cfg e runs 0 [] := by
    intro runs
    rw [processRuns_eq_loop2, processRuns_eq_loop2]
    exact loop2_congr (fun r => advance_strip hl cfg r e) _ _ _
  have hst : ∀ runs ms d, startRun p.strip cfg e runs ms d = startRun p cfg e runs ms d := by
    intro runs ms d
    unfold startRun
    rw [tryStart_strip, oneStep_strip]
  simp only [hk, hm, hpr, hst]

theorem runFrom_strip {p : Pat} (hl : p.lastPlain) (cfg : Cfg) : ∀ (evs : List Event) (s : Eng),
    runFrom p.strip cfg s evs = runFrom p cfg s evs := by
  intro evs
  induction evs with
  | nil => intro s; rfl
  | cons e es ih => intro s; unfold runFrom; rw [stepEngine_strip hl]; simp only [ih]

/-- the engine emits the same run matches for `p` and for `p` without its postponed filters -/
theorem matchesOf_strip {p : Pat} (hl : p.lastPlain) (cfg : Cfg) (evs : List Event) :
    matchesOf p.strip cfg evs = matchesOf p cfg evs := by
  unfold matchesOf runAll; rw [runFrom_strip hl]

theorem strip_inFragment (p : Pat) : p.strip.inFragment = true := by
  unfold Pat.inFragment Pat.strip
  simp only [List.all_eq_true]
  intro s hs
  have := List.dropLast_subset _ hs
  obtain ⟨s0, _, rfl⟩ := List.mem_map.mp this
  simp [strip_postponed]

theorem runFromK_spec (p : Pat) (cfg : Cfg) : ∀ (evs : List Event) (s : Eng),
    (runFromK p cfg s evs).1 = (runFrom p cfg s evs).1 ∧
    (runFromK p cfg s evs).2 = (runFrom p cfg s evs).2.map (fun x => (x.1, x.2.flatMap (expand p cfg))) := by
  intro evs
  induction evs with
  | nil => intro s; exact ⟨rfl, rfl⟩
  | cons e es ih =>
    intro s
    unfold runFromK runFrom
    have h1 : (stepEngineK p cfg s e).1 = (stepEngine p cfg s e).1 := rfl
    have h2 : (stepEngineK p cfg s e).2 = (stepEngine p cfg s e).2.flatMap (expand p cfg) := rfl
    rw [h1, h2]
    obtain ⟨i1, i2⟩ := ih (stepEngine p cfg s e).1
    simp [i1, i2]

/-- every match of the extended engine comes from a match of a completed run through `expand` -/
theorem mem_matchesOfK {p : Pat} {cfg : Cfg} {evs : List Event} {m : Match} (h : m ∈ matchesOfK p cfg evs) :
    ∃ m0 ∈ matchesOf p cfg evs, m ∈ expand p cfg m0 := by
  unfold matchesOfK at h
  rw [(runFromK_spec p cfg evs Eng.init).2] at h
  simp only [List.map_map, List.mem_flatten, List.mem_map, Function.comp] at h
  obtain ⟨l, ⟨x, hx, rfl⟩, hm⟩ := h
  obtain ⟨m0, hm0, hmm⟩ := List.mem_flatMap.mp hm
  refine ⟨m0, ?_, hmm⟩
  unfold matchesOf runAll
  exact List.mem_flatten.mpr ⟨x.2, List.mem_map.mpr ⟨x, hx, rfl⟩, hm0⟩

theorem lastPlain_of_B {p : Pat} (h : p.lastPlainB = true) : p.lastPlain := by
  intro i s hs hl
  unfold Pat.lastPlainB at h
  unfold Pat.isLast at hl
  have hi := List.getElem?_eq_some_iff.mp hs
  obtain ⟨hi, hx⟩ := hi
  have hlast : p.steps.getLast? = some s := by
    rw [List.getLast?_eq_getElem?]
    have : p.steps.length - 1 = i := by simp at hl; omega
    rw [this]; exact hs
  rw [hlast] at h
  simpa using h

end Enumeration

/-! ## witnesses of the known findings C01-enum-later-ref and C01-late-selfref-all -/

/-- C01-enum-later-ref: `A as a -> all B where x > b.x as b -> C where x < b.x as c` on A, B{x:5}, B{x:9}, C{x:7} -/
def c01EnumPat : Pat :=
  { steps := [⟨"A", none, some "a", false⟩, ⟨"B", some (.cmpRef "x" .gt "b" "x"), some "b", true⟩,
              ⟨"C", some (.cmpRef "x" .lt "b" "x"), some "c", false⟩], partition := none, negs := [] }
def c01EnumEvs : List Event :=
  [⟨0, "A", []⟩, ⟨1, "B", [("x", .int 5)]⟩, ⟨2, "B", [("x", .int 9)]⟩, ⟨3, "C", [("x", .int 7)]⟩]
/-- the completed run's match: stack `[A, B5, B9, C7]` -/
def c01EnumBase : Match :=
  let st : List Entry := [⟨⟨0, "A", []⟩, some "a"⟩, ⟨⟨1, "B", [("x", .int 5)]⟩, some "b"⟩,
                          ⟨⟨2, "B", [("x", .int 9)]⟩, some "b"⟩, ⟨⟨3, "C", [("x", .int 7)]⟩, some "c"⟩]
  ⟨st, capsOf st⟩
/-- the match reported for the combination `{B5}`: captures b = B5, c = C7 -/
def c01EnumBad : Match := ⟨c01EnumBase.stack, ("b", ⟨1, "B", [("x", .int 5)]⟩) :: c01EnumBase.caps⟩

/-- C01-late-selfref-all: `A as a -> all B as b -> all C where x > c.x as c -> D as d` on A, B, C{x:5}, C{x:3}, D -/
def c01LatePat : Pat :=
  { steps := [⟨"A", none, some "a", false⟩, ⟨"B", none, some "b", true⟩,
              ⟨"C", some (.cmpRef "x" .gt "c" "x"), some "c", true⟩, ⟨"D", none, some "d", false⟩], partition := none, negs := [] }
def c01LateEvs : List Event :=
  [⟨0, "A", []⟩, ⟨1, "B", []⟩, ⟨2, "C", [("x", .int 5)]⟩, ⟨3, "C", [("x", .int 3)]⟩, ⟨4, "D", []⟩]
def c01LateMatch : Match :=
  let st : List Entry := [⟨⟨0, "A", []⟩, some "a"⟩, ⟨⟨1, "B", []⟩, some "b"⟩, ⟨⟨2, "C", [("x", .int 5)]⟩, some "c"⟩,
                          ⟨⟨3, "C", [("x", .int 3)]⟩, some "c"⟩, ⟨⟨4, "D", []⟩, some "d"⟩]
  ⟨st, capsOf st⟩

/-! ## towards the stack-level re-reading of an enumerated match (steps for `GenuineK` on `deferredOK` patterns) -/

/-- a predicate only looks at the captures of the aliases it mentions -/
theorem evalPred_congr (q : Pred) (e : Event) (c1 c2 : Caps)
    (h : ∀ a ∈ q.refs, c1.lookup a = c2.lookup a) : evalPred q e c1 = evalPred q e c2 := by
  induction q with
  | cmp f op v => rfl
  | cmpRef f op a rf =>
    unfold evalPred
    rw [h a (by simp [Pred.refs])]
  | and l r ihl ihr =>
    unfold evalPred
    rw [ihl (fun a ha => h a (by simp [Pred.refs, ha])), ihr (fun a ha => h a (by simp [Pred.refs, ha]))]
  | or l r ihl ihr =>
    unfold evalPred
    rw [ihl (fun a ha => h a (by simp [Pred.refs, ha])), ihr (fun a ha => h a (by simp [Pred.refs, ha]))]
  | not q ih =>
    unfold evalPred
    rw [ih (fun a ha => h a (by simpa [Pred.refs] using ha))]

/-- every subsequence is enumerated by `subseqs` -/
theorem mem_subseqs_of_sublist {α} {l es : List α} (h : es.Sublist l) : es ∈ subseqs l := by
  induction h with
  | slnil => simp [subseqs]
  | cons a _ ih => unfold subseqs; exact List.mem_append.mpr (Or.inr ih)
  | cons_cons a _ ih => unfold subseqs; exact List.mem_append.mpr (Or.inl (List.mem_map.mpr ⟨_, ih, rfl⟩))

/-- what an alias is bound to depends only on the entries carrying that alias -/
theorem lookup_capsOf_filter (a : String) (l : List Entry) :
    (capsOf l).lookup a = (capsOf (l.filter fun en => en.alias == some a)).lookup a := by
  induction l with
  | nil => rfl
  | cons en rest ih =>
    by_cases h : (en.alias == some a) = true
    · simp only [List.filter_cons, h, if_true, capsOf, List.lookup_append, ih]
    · simp only [List.filter_cons, h, Bool.false_eq_true, if_false, capsOf, List.lookup_append, ih]
      have : en.binding.lookup a = none := by
        unfold Entry.binding
        cases hx : en.alias with
        | none => rfl
        | some c =>
          have hca : (a == c) = false := by
            rw [hx] at h
            have : c ≠ a := by simpa using h
            simpa using Ne.symm this
          simp [List.lookup_cons, hca]
      rw [this]; simp

/-- entries that all bind the alias `b` do not change what another alias is bound to -/
theorem lookup_capsOf_skip (b a : String) (hab : a ≠ b) (pre grp post : List Entry)
    (hg : ∀ en ∈ grp, en.alias = some b) :
    (capsOf (pre ++ grp ++ post)).lookup a = (capsOf (pre ++ post)).lookup a := by
  rw [lookup_capsOf_filter a (pre ++ grp ++ post), lookup_capsOf_filter a (pre ++ post)]
  have : grp.filter (fun en => en.alias == some a) = [] := by
    apply List.filter_eq_nil_iff.mpr
    intro en hen
    rw [hg en hen]
    simpa using Ne.symm hab
  simp only [List.filter_append, this, List.append_nil]

end Varpulis.Sase
