import Varpulis.Model.Sase
/-!
# Lemmas for C01 / C02 over the step-level SASE model
-/
namespace Varpulis.Sase

/-- the stream carries strictly increasing arrival indices -/
def Sorted (evs : List Event) : Prop := evs.Pairwise (fun a b => a.idx < b.idx)

/-! ## captures -/

theorem capsOf_append (st : List Entry) (en : Entry) : capsOf (st ++ [en]) = en.binding ++ capsOf st := by
  induction st with
  | nil => simp [capsOf]
  | cons x xs ih => simp [capsOf, ih]

theorem push_stack (r : Run) (e : Event) (a : Option String) : (r.push e a).stack = r.stack ++ [⟨e, a⟩] := rfl
theorem push_pos (r : Run) (e : Event) (a : Option String) : (r.push e a).pos = r.pos := rfl
theorem push_inv (r : Run) (e : Event) (a : Option String) : (r.push e a).invalidated = r.invalidated := rfl

theorem push_caps (r : Run) (e : Event) (a : Option String) (h : r.caps = capsOf r.stack) :
    (r.push e a).caps = capsOf (r.push e a).stack := by
  rw [push_stack, capsOf_append]
  cases a <;> simp [Run.push, h, Entry.binding]

/-! ## `Expl`: a witness that a stack reads as the steps `0..pos`, built the way the engine builds it -/

inductive Expl (steps : List Step) : List Entry → Nat → Prop where
  | start {s : Step} {en : Entry} : steps[0]? = some s → stepOk s true en [] = true → Expl steps [en] 0
  | next {st : List Entry} {i : Nat} {s : Step} {en : Entry} : Expl steps st i → steps[i + 1]? = some s →
      stepOk s true en (capsOf st) = true → Expl steps (st ++ [en]) (i + 1)
  | loop {st : List Entry} {i : Nat} {s : Step} {en : Entry} : Expl steps st i → steps[i]? = some s →
      s.kleene = true → stepOk s false en (capsOf st) = true → Expl steps (st ++ [en]) i

theorem Expl.ne_nil {steps st i} (h : Expl steps st i) : st ≠ [] := by
  cases h <;> simp

theorem Expl.pos_lt {steps st i} (h : Expl steps st i) : i < steps.length := by
  induction h with
  | start h0 _ => exact (List.getElem?_eq_some_iff.mp h0).1
  | next _ h1 _ _ => exact (List.getElem?_eq_some_iff.mp h1).1
  | loop _ _ _ _ ih => exact ih

/-- the state of `explains` after reading a stack that ends in step `i` -/
def After (steps : List Step) (i : Nat) (done rest : List Entry) : Bool :=
  match steps[i]? with
  | some s => if s.kleene then explains (steps.drop i) true done rest else explains (steps.drop (i + 1)) false done rest
  | none => false

theorem drop_cons_of_get {α} {l : List α} {i : Nat} {x : α} (h : l[i]? = some x) : l.drop i = x :: l.drop (i + 1) := by
  have := List.getElem?_eq_some_iff.mp h
  obtain ⟨hi, hx⟩ := this
  rw [List.drop_eq_getElem_cons hi, hx]

/-- entering step `j` (whose entry `en` is the first of its group) from the parser state `(drop j, false)` -/
theorem explains_enter {steps : List Step} {j : Nat} {s : Step} (hs : steps[j]? = some s)
    (done : List Entry) (en : Entry) (rest : List Entry)
    (hok : stepOk s true en (capsOf done) = true) (h : After steps j (done ++ [en]) rest = true) :
    explains (steps.drop j) false done (en :: rest) = true := by
  rw [drop_cons_of_get hs]
  unfold After at h
  rw [hs] at h
  unfold explains
  by_cases hk : s.kleene
  · simp only [hk, if_true] at h ⊢
    rw [drop_cons_of_get hs] at h
    simp [hok, h]
  · simp [hk] at h ⊢
    simp [hok, h]

theorem explains_of_expl {steps : List Step} {st : List Entry} {i : Nat} (h : Expl steps st i) :
    ∀ rest, After steps i st rest = true → explains steps false [] (st ++ rest) = true := by
  induction h with
  | @start s en h0 hok =>
    intro rest ha
    have := explains_enter (steps := steps) (j := 0) h0 [] en rest (by simpa [capsOf] using hok) (by simpa using ha)
    simpa using this
  | @next st i s en _ h1 hok ih =>
    intro rest ha
    rw [List.append_assoc]
    apply ih
    -- leave step i (if it is a Kleene step) and enter step i+1
    have henter := explains_enter (steps := steps) (j := i + 1) h1 st en rest hok ha
    unfold After
    cases hsi : steps[i]? with
    | none => have := (List.getElem?_eq_some_iff.mp h1).1; simp at hsi; omega
    | some si =>
      by_cases hk : si.kleene
      · simp only [hk, if_true]
        rw [drop_cons_of_get hsi]
        simp only [List.singleton_append] at henter ⊢
        unfold explains
        simp [hk, henter]
      · simp only [hk]
        simpa using henter
  | @loop st i s en _ hs hk hok ih =>
    intro rest ha
    rw [List.append_assoc]
    apply ih
    unfold After at ha ⊢
    rw [hs] at ha ⊢
    simp only [hk, if_true] at ha ⊢
    rw [drop_cons_of_get hs] at ha ⊢
    simp only [List.singleton_append]
    unfold explains
    simp [hk, hok, ha]

/-! ## the per-run invariant of C01 -/

theorem capsBefore_all {st : List Entry} {i : Nat} (h : ∀ en ∈ st, en.ev.idx < i) : capsBefore st i = capsOf st := by
  unfold capsBefore
  rw [List.filter_eq_self.mpr]
  intro en hen; simpa using h en hen

theorem capsBefore_append_ge {st : List Entry} {en : Entry} {i : Nat} (h : ¬ en.ev.idx < i) :
    capsBefore (st ++ [en]) i = capsBefore st i := by
  unfold capsBefore
  simp [List.filter_append, h]

/-- **RunInv**: what holds of every active run after the events `seen` (the run lives in partition `key`). -/
structure RunInv (p : Pat) (seen : List Event) (key : String) (r : Run) : Prop where
  /-- the stack is a subsequence of the input, in arrival order -/
  sub : (r.stack.map (·.ev)).Sublist seen
  /-- the capture map is the one the stack determines -/
  capsEq : r.caps = capsOf r.stack
  /-- entry by entry: right step, right type, filter satisfied against the captures at that moment -/
  expl : Expl p.steps r.stack r.pos
  /-- all entries carry the partition key -/
  part : ∀ en ∈ r.stack, keyOf p en.ev = key
  /-- unless the run is marked invalidated, no event after its first entry satisfied a `.not` clause -/
  neg : r.invalidated = false → ∀ g ∈ seen, (∀ f, r.stack.head? = some f → f.ev.idx < g.idx) →
    negHit p g (capsBefore r.stack g.idx) = false

theorem RunInv.mem_seen {p seen key r} (h : RunInv p seen key r) : ∀ en ∈ r.stack, en.ev ∈ seen := by
  intro en hen
  exact h.sub.subset (List.mem_map.mpr ⟨en, hen, rfl⟩)

theorem RunInv.congr {p seen key} {r1 r2 : Run} (h : RunInv p seen key r1)
    (hp : r2.pos = r1.pos) (hs : r2.stack = r1.stack) (hc : r2.caps = r1.caps) (hi : r2.invalidated = r1.invalidated) :
    RunInv p seen key r2 := by
  constructor
  · rw [hs]; exact h.sub
  · rw [hs, hc]; exact h.capsEq
  · rw [hs, hp]; exact h.expl
  · rw [hs]; exact h.part
  · rw [hs, hi]; exact h.neg

/-- `check_global_negations` on a run, seen as a step of the invariant from `seen` to `seen ++ [e]` -/
theorem RunInv.mark {p seen key r e} (h : RunInv p seen key r) (hlt : ∀ g ∈ seen, g.idx < e.idx) :
    RunInv p (seen ++ [e]) key (markNeg p e r) := by
  have hstack : (markNeg p e r).stack = r.stack := by unfold markNeg; split <;> rfl
  have hcaps : (markNeg p e r).caps = r.caps := by unfold markNeg; split <;> rfl
  have hpos : (markNeg p e r).pos = r.pos := by unfold markNeg; split <;> rfl
  constructor
  · rw [hstack]; exact h.sub.trans (List.sublist_append_left seen [e])
  · rw [hstack, hcaps]; exact h.capsEq
  · rw [hstack, hpos]; exact h.expl
  · rw [hstack]; exact h.part
  · intro hinv g hg hfirst
    rw [hstack] at hfirst ⊢
    have hhit : negHit p e r.caps = false ∧ r.invalidated = false := by
      unfold markNeg at hinv
      split at hinv
      · simp at hinv
      · rename_i hn; simp at hn; exact ⟨hn, hinv⟩
    rcases List.mem_append.mp hg with hg | hg
    · exact h.neg hhit.2 g hg hfirst
    · have : g = e := by simpa using hg
      subst this
      rw [capsBefore_all (fun en hen => hlt _ (h.mem_seen en hen)), ← h.capsEq]
      exact hhit.1

/-- the run consumed `e` -/
theorem RunInv.extend {p seen key} {r r2 : Run} {e : Event} {a : Option String}
    (h : RunInv p (seen ++ [e]) key r) (hsub : (r.stack.map (·.ev)).Sublist seen)
    (hlt : ∀ g ∈ seen, g.idx < e.idx) (hkey : keyOf p e = key)
    (hstack : r2.stack = r.stack ++ [⟨e, a⟩]) (hcaps : r2.caps = (⟨e, a⟩ : Entry).binding ++ r.caps)
    (hinv : r2.invalidated = r.invalidated) (hexpl : Expl p.steps r2.stack r2.pos) :
    RunInv p (seen ++ [e]) key r2 := by
  constructor
  · rw [hstack]; simpa using hsub.append (List.Sublist.refl [e])
  · rw [hstack, capsOf_append, hcaps, h.capsEq]
  · exact hexpl
  · intro en hen
    rw [hstack] at hen
    rcases List.mem_append.mp hen with hen | hen
    · exact h.part en hen
    · have : en = ⟨e, a⟩ := by simpa using hen
      subst this; exact hkey
  · intro hi g hg hfirst
    rw [hstack] at hfirst ⊢
    have hge : ¬ e.idx < g.idx := by
      rcases List.mem_append.mp hg with hg | hg
      · have := hlt g hg; omega
      · have : g = e := by simpa using hg
        subst this; omega
    rw [capsBefore_append_ge (by simpa using hge)]
    apply h.neg (by rw [← hinv]; exact hi) g hg
    intro f hf
    apply hfirst
    have hne := h.expl.ne_nil
    cases hst : r.stack with
    | nil => exact absurd hst hne
    | cons x xs => rw [hst] at hf; simpa using hf

/-! ## one `advance` preserves the invariant, and what it emits comes from a run that is done -/

theorem stepOk_first {s : Step} {e : Event} {caps : Caps} (h : matchesState s e caps = true) :
    stepOk s true ⟨e, s.alias⟩ caps = true := by
  unfold matchesState Step.eager at h
  unfold stepOk Step.postponed
  cases hp : s.pred with
  | none => simp_all
  | some q =>
    simp only [hp] at h ⊢
    by_cases hc : (s.kleene && selfRef q s.alias) = true
    · simp_all
    · simp_all

theorem stepOk_loop {s : Step} {e : Event} {caps : Caps} (h : matchesState s e caps = true)
    (hpp : ∀ q, s.postponed = some q → evalPred q e caps = true) : stepOk s false ⟨e, s.alias⟩ caps = true := by
  unfold matchesState Step.eager at h
  unfold Step.postponed at hpp
  unfold stepOk
  cases hp : s.pred with
  | none => simp_all
  | some q =>
    simp only [hp] at h hpp ⊢
    by_cases hc : (s.kleene && selfRef q s.alias) = true
    · have := hpp q (by simp [hc])
      simp_all
    · simp_all

theorem inFragment_postponed {p : Pat} (h : p.inFragment = true) {i : Nat} {s : Step}
    (hs : p.steps[i]? = some s) (hl : p.isLast i = false) : s.postponed = none := by
  unfold Pat.inFragment at h
  unfold Pat.isLast at hl
  have hi := (List.getElem?_eq_some_iff.mp hs)
  obtain ⟨hi, hx⟩ := hi
  have hmem : s ∈ p.steps.dropLast := by
    rw [List.mem_iff_getElem]
    refine ⟨i, ?_, ?_⟩
    · simp at hl ⊢; omega
    · simp [hx]
  have := List.all_eq_true.mp h s hmem
  simpa using this

/-- what `advance` may return, in terms of the invariant over `seen'` -/
def AdvOk (p : Pat) (seen' : List Event) (key : String) : Adv → Prop
  | .continue r' => RunInv p seen' key r' ∧ r'.invalidated = false
  | .complete m => ∃ r'', RunInv p seen' key r'' ∧ r''.invalidated = false ∧ p.isLast r''.pos = true ∧ m = r''.result
  | .completeAndContinue r' m => RunInv p seen' key r' ∧ r'.invalidated = false ∧ p.isLast r'.pos = true ∧ m = r'.result
  | .noMatch => True

theorem enter_inv {p : Pat} {seen : List Event} {key : String} {r : Run} {e : Event} {nxt : Step}
    (h : RunInv p (seen ++ [e]) key r) (hsub : (r.stack.map (·.ev)).Sublist seen)
    (hlt : ∀ g ∈ seen, g.idx < e.idx) (hkey : keyOf p e = key)
    (hnxt : p.steps[r.pos + 1]? = some nxt) (hm : matchesState nxt e r.caps = true) :
    RunInv p (seen ++ [e]) key ({ r with pos := r.pos + 1 }.push e nxt.alias) := by
  apply RunInv.extend (a := nxt.alias) h hsub hlt hkey rfl
  · cases nxt.alias <;> rfl
  · rfl
  · show Expl p.steps (r.stack ++ [⟨e, nxt.alias⟩]) (r.pos + 1)
    exact Expl.next h.expl hnxt (stepOk_first (by rw [← h.capsEq]; exact hm))

theorem enterNext_ok {p : Pat} {cfg : Cfg} {seen : List Event} {key : String} {r : Run} {e : Event} {nxt : Step}
    (h : RunInv p (seen ++ [e]) key r) (hninv : r.invalidated = false)
    (hsub : (r.stack.map (·.ev)).Sublist seen)
    (hlt : ∀ g ∈ seen, g.idx < e.idx) (hkey : keyOf p e = key)
    (hnxt : p.steps[r.pos + 1]? = some nxt) (hm : matchesState nxt e r.caps = true) :
    AdvOk p (seen ++ [e]) key (enterNext p cfg r nxt e) := by
  have hr' := enter_inv h hsub hlt hkey hnxt hm
  unfold enterNext
  simp only []
  by_cases hc : (p.isLast (r.pos + 1) && !nxt.kleene) = true
  · rw [if_pos hc]
    exact ⟨_, hr', hninv, by simp at hc; exact hc.1, rfl⟩
  · rw [if_neg hc]
    by_cases hk : nxt.kleene = true
    · rw [if_pos hk]
      by_cases hl : p.isLast (r.pos + 1) = true
      · rw [if_pos hl]; exact ⟨hr', hninv, hl, rfl⟩
      · rw [if_neg hl]; exact ⟨hr'.congr rfl rfl rfl rfl, hninv⟩
    · rw [if_neg hk]; exact ⟨hr', hninv⟩

theorem selfLoop_ok {p : Pat} {cfg : Cfg} {seen : List Event} {key : String} {r : Run} {e : Event} {cur : Step}
    (hfrag : p.inFragment = true)
    (h : RunInv p (seen ++ [e]) key r) (hninv : r.invalidated = false)
    (hsub : (r.stack.map (·.ev)).Sublist seen)
    (hlt : ∀ g ∈ seen, g.idx < e.idx) (hkey : keyOf p e = key)
    (hcur : p.steps[r.pos]? = some cur) (hk : cur.kleene = true) (hm : matchesState cur e r.caps = true) :
    AdvOk p (seen ++ [e]) key (selfLoop p cfg r cur e) := by
  unfold selfLoop
  by_cases hcap : capFull cfg r = true
  · rw [if_pos hcap]; exact ⟨h, hninv⟩
  · rw [if_neg hcap]
    by_cases hpf : (p.isLast r.pos && postponedFails cur e r.caps) = true
    · rw [if_pos hpf]; trivial
    · rw [if_neg hpf]
      -- the event extends the closure of step `r.pos`
      have hok : stepOk cur false ⟨e, cur.alias⟩ (capsOf r.stack) = true := by
        apply stepOk_loop (by rw [← h.capsEq]; exact hm)
        intro q hq
        by_cases hl : p.isLast r.pos = true
        · rw [← h.capsEq]
          simp [hl, postponedFails, hq] at hpf
          exact hpf
        · have := inFragment_postponed hfrag hcur (by simpa using hl)
          rw [this] at hq; cases hq
      have hr' : RunInv p (seen ++ [e]) key (r.push e cur.alias) := by
        apply RunInv.extend (a := cur.alias) h hsub hlt hkey rfl
        · cases cur.alias <;> rfl
        · rfl
        · show Expl p.steps (r.stack ++ [⟨e, cur.alias⟩]) r.pos
          exact Expl.loop h.expl hcur hk hok
      by_cases hl : p.isLast r.pos = true
      · rw [if_pos hl]; exact ⟨hr', hninv, hl, rfl⟩
      · rw [if_neg hl]; exact ⟨hr'.congr rfl rfl rfl rfl, hninv⟩

theorem viaTransitions_ok {p : Pat} {cfg : Cfg} {seen : List Event} {key : String} {r : Run} {e : Event}
    (h : RunInv p (seen ++ [e]) key r) (hninv : r.invalidated = false)
    (hsub : (r.stack.map (·.ev)).Sublist seen)
    (hlt : ∀ g ∈ seen, g.idx < e.idx) (hkey : keyOf p e = key) :
    AdvOk p (seen ++ [e]) key (viaTransitions p cfg r e) := by
  unfold viaTransitions
  cases hnxt : p.steps[r.pos + 1]? with
  | none => trivial
  | some nxt =>
    simp only []
    by_cases hm : matchesState nxt e r.caps = true
    · rw [if_pos hm]; exact enterNext_ok h hninv hsub hlt hkey hnxt hm
    · rw [if_neg hm]; trivial

theorem viaEpsilon_ok {p : Pat} {seen : List Event} {key : String} {r : Run} {e : Event}
    (h : RunInv p (seen ++ [e]) key r) (hninv : r.invalidated = false)
    (hsub : (r.stack.map (·.ev)).Sublist seen)
    (hlt : ∀ g ∈ seen, g.idx < e.idx) (hkey : keyOf p e = key) :
    AdvOk p (seen ++ [e]) key (viaEpsilon p r e) := by
  unfold viaEpsilon
  by_cases hl : p.isLast r.pos = true
  · rw [if_pos hl]; exact ⟨r, h, hninv, hl, rfl⟩
  · rw [if_neg hl]
    cases hnxt : p.steps[r.pos + 1]? with
    | none => trivial
    | some nxt =>
      simp only []
      by_cases hm : matchesState nxt e r.caps = true
      · rw [if_pos hm]
        have hr' := enter_inv h hsub hlt hkey hnxt hm
        by_cases hc : (p.isLast (r.pos + 1) && !nxt.kleene) = true
        · rw [if_pos hc]; exact ⟨_, hr', hninv, by simp at hc; exact hc.1, rfl⟩
        · rw [if_neg hc]; exact ⟨hr', hninv⟩
      · rw [if_neg hm]; trivial

theorem advance_ok {p : Pat} {cfg : Cfg} {seen : List Event} {key : String} {r : Run} {e : Event}
    (hfrag : p.inFragment = true)
    (h : RunInv p (seen ++ [e]) key r) (hninv : r.invalidated = false)
    (hsub : (r.stack.map (·.ev)).Sublist seen)
    (hlt : ∀ g ∈ seen, g.idx < e.idx) (hkey : keyOf p e = key) :
    AdvOk p (seen ++ [e]) key (advance p cfg r e) := by
  obtain ⟨cur, hcur⟩ : ∃ cur, p.steps[r.pos]? = some cur := ⟨_, List.getElem?_eq_getElem h.expl.pos_lt⟩
  unfold advance
  rw [hcur]
  simp only []
  by_cases hc : (p.isLast r.pos && !cur.kleene) = true
  · rw [if_pos hc]; exact ⟨r, h, hninv, by simp at hc; exact hc.1, rfl⟩
  · rw [if_neg hc]
    by_cases hs : (cur.kleene && matchesState cur e r.caps) = true
    · rw [if_pos hs]
      simp only [Bool.and_eq_true] at hs
      exact selfLoop_ok hfrag h hninv hsub hlt hkey hcur hs.1 hs.2
    · rw [if_neg hs]
      by_cases hk : (!cur.kleene) = true
      · rw [if_pos hk]; exact viaTransitions_ok h hninv hsub hlt hkey
      · rw [if_neg hk]; exact viaEpsilon_ok h hninv hsub hlt hkey

end Varpulis.Sase
