import Varpulis.Model.TenantApi
/-! Frame and non-interference lemmas for M-TENANT (`Props/C28.lean`). Everything is generic in the
engine (`EngineOps`). -/
namespace Varpulis.TenantApi
variable {ε ι ο κ : Type}

theorem setPipeline_id (t : Tenant ε) (pid : String) (p : Pipeline ε) : (t.setPipeline pid p).id = t.id := rfl

theorem processEvent_id (ops : EngineOps ε ι ο κ) (t : Tenant ε) (pid : String) (ev : ι) :
    (t.processEvent ops pid ev).1.id = t.id := by
  unfold Tenant.processEvent
  simp only
  split
  · rfl
  · split
    · rfl
    · split <;> rfl

theorem processBatch_id (ops : EngineOps ε ι ο κ) (pid : String) :
    ∀ (evs : List ι) (t : Tenant ε) (acc : Nat) (out : List ο), (Tenant.processBatch ops pid evs t acc out).1.id = t.id
  | [], _, _, _ => rfl
  | ev :: evs, t, acc, out => by
    unfold Tenant.processBatch
    have h := processEvent_id ops t pid ev
    split
    · rename_i t' o heq
      rw [processBatch_id ops pid evs t' _ _]; rw [heq] at h; exact h
    · rename_i t' r heq
      rw [processBatch_id ops pid evs t' _ _]; rw [heq] at h; exact h

/-- no operation changes the identity of the tenant it runs on -/
theorem apply_id (ops : EngineOps ε ι ο κ) (t : Tenant ε) (op : Op ι κ) : (t.apply ops op).1.id = t.id := by
  cases op <;> simp only [Tenant.apply]
  case inject pid ev =>
    have h := processEvent_id ops t pid ev
    split <;> (rename_i heq; rw [heq] at h; exact h)
  case injectBatch pid evs => exact processBatch_id ops pid evs t 0 []
  all_goals repeat' (first | rfl | split)

theorem find_id {l : List (Tenant ε)} {tid : String} {t : Tenant ε} (h : l.find? (·.id == tid) = some t) : t.id = tid := by
  have := List.find?_some h
  simpa using this

/-- replacing the tenant `tid` does not disturb the lookup of any other tenant -/
theorem find_map_replace_ne (tid tid' : String) (t' : Tenant ε) (hid : t'.id = tid) (hne : tid' ≠ tid) :
    ∀ l : List (Tenant ε), (l.map fun u => if u.id == tid then t' else u).find? (·.id == tid') = l.find? (·.id == tid')
  | [] => rfl
  | u :: l => by
    have ih := find_map_replace_ne tid tid' t' hid hne l
    simp only [List.map_cons, List.find?_cons]
    by_cases hu : u.id = tid
    · have h1 : (t'.id == tid') = false := by simp [hid, Ne.symm hne]
      have h2 : (u.id == tid') = false := by simp [hu, Ne.symm hne]
      have h3 : (u.id == tid) = true := by simp [hu]
      rw [h3]
      simp only [↓reduceIte, h1, h2]
      exact ih
    · have hb : (u.id == tid) = false := by simpa using hu
      rw [hb]
      simp only [Bool.false_eq_true, ↓reduceIte]
      cases hc : (u.id == tid')
      · exact ih
      · rfl

/-- … and the lookup of `tid` itself now yields the replacement -/
theorem find_map_replace_same (tid : String) (t t' : Tenant ε) (hid : t'.id = tid) :
    ∀ l : List (Tenant ε), l.find? (·.id == tid) = some t →
      (l.map fun u => if u.id == tid then t' else u).find? (·.id == tid) = some t'
  | [], h => by simp at h
  | u :: l, h => by
    simp only [List.map_cons, List.find?_cons] at h ⊢
    by_cases hu : u.id = tid
    · have h3 : (u.id == tid) = true := by simp [hu]
      have h4 : (t'.id == tid) = true := by simp [hid]
      rw [h3]
      simp only [↓reduceIte, h4]
    · have hb : (u.id == tid) = false := by simpa using hu
      rw [hb] at h ⊢
      simp only [Bool.false_eq_true, ↓reduceIte] at h ⊢
      rw [hb]
      exact find_map_replace_same tid t t' hid l h

theorem handle_index (ops : EngineOps ε ι ο κ) (m : Manager ε) (key : String) (op : Op ι κ) :
    (handle ops m key op).1.index = m.index := by
  unfold handle
  split
  · rfl
  · split <;> rfl

theorem handle_tenantByKey (ops : EngineOps ε ι ο κ) (m : Manager ε) (key : String) (op : Op ι κ) (k : String) :
    (handle ops m key op).1.tenantByKey k = m.tenantByKey k := by
  simp [Manager.tenantByKey, handle_index]

/-- **frame, one request**: a request whose key does not belong to tenant `tid` leaves tenant `tid`
— pipelines, engines behind them, usage, quota — exactly as it was -/
theorem handle_frame (ops : EngineOps ε ι ο κ) (m : Manager ε) (key : String) (op : Op ι κ) (tid : String)
    (hk : m.tenantByKey key ≠ some tid) : (handle ops m key op).1.getTenant tid = m.getTenant tid := by
  unfold handle
  split
  · rfl
  · rename_i owner hown
    split
    · rfl
    · rename_i t ht
      have hne : tid ≠ owner := by rintro rfl; exact hk hown
      have hid : (t.apply ops op).1.id = owner := (apply_id ops t op).trans (find_id ht)
      exact find_map_replace_ne owner tid _ hid hne m.tenants

/-- **step consistency**: the reply to a request of tenant `tid`, and what becomes of tenant `tid`,
depend only on the key index and on tenant `tid` — nothing else of the manager is read -/
theorem handle_consistent (ops : EngineOps ε ι ο κ) (m m' : Manager ε) (key : String) (op : Op ι κ) (tid : String)
    (hidx : m.index = m'.index) (hk : m.tenantByKey key = some tid) (hv : m.getTenant tid = m'.getTenant tid) :
    (handle ops m key op).2 = (handle ops m' key op).2 ∧
    (handle ops m key op).1.getTenant tid = (handle ops m' key op).1.getTenant tid := by
  have hk' : m'.tenantByKey key = some tid := by simpa [Manager.tenantByKey, hidx] using hk
  unfold handle
  rw [hk, hk']
  simp only
  cases ht : m.getTenant tid with
  | none =>
    have ht' : m'.getTenant tid = none := by rw [← hv, ht]
    rw [ht']
    exact ⟨rfl, ht.trans ht'.symm⟩
  | some t =>
    have ht' : m'.getTenant tid = some t := by rw [← hv, ht]
    rw [ht']
    have hid : (t.apply ops op).1.id = tid := (apply_id ops t op).trans (find_id ht)
    refine ⟨rfl, ?_⟩
    show (m.setTenant tid (t.apply ops op).1).getTenant tid = (m'.setTenant tid (t.apply ops op).1).getTenant tid
    simp only [Manager.getTenant, Manager.setTenant]
    rw [find_map_replace_same tid t _ hid m.tenants ht, find_map_replace_same tid t _ hid m'.tenants ht']

/-- an unknown key is refused identically whatever the tenants hold -/
theorem handle_unknown_key (ops : EngineOps ε ι ο κ) (m : Manager ε) (key : String) (op : Op ι κ)
    (hk : m.tenantByKey key = none) : handle ops m key op = (m, .unauthorized) := by
  simp [handle, hk]

/-! ### request sequences -/

theorem run_index (ops : EngineOps ε ι ο κ) : ∀ (qs : List (Request ι κ)) (m : Manager ε), (run ops m qs).1.index = m.index
  | [], _ => rfl
  | q :: qs, m => by
    simp only [run]
    rw [run_index ops qs, handle_index]

/-- **frame, sequences**: if no request of the sequence carries a key of tenant `tid`, tenant `tid`
is untouched at the end -/
theorem run_frame (ops : EngineOps ε ι ο κ) (tid : String) : ∀ (qs : List (Request ι κ)) (m : Manager ε),
    (∀ q ∈ qs, m.tenantByKey q.key ≠ some tid) → (run ops m qs).1.getTenant tid = m.getTenant tid
  | [], _, _ => rfl
  | q :: qs, m, h => by
    simp only [run]
    rw [run_frame ops tid qs]
    · exact handle_frame ops m q.key q.op tid (h q List.mem_cons_self)
    · intro q' hq'
      rw [handle_tenantByKey]
      exact h q' (List.mem_cons_of_mem _ hq')

/-- **non-interference**: the replies tenant `tid` receives are the replies it would receive if the
requests of everybody else were never made, on any manager that agrees on the key index and on
tenant `tid` (so: whatever the other tenants hold) -/
theorem repliesFor_purge (ops : EngineOps ε ι ο κ) (tid : String) : ∀ (qs : List (Request ι κ)) (m m' : Manager ε),
    m.index = m'.index → m.getTenant tid = m'.getTenant tid →
    repliesFor ops tid m qs = repliesFor ops tid m' (qs.filter fun q => m.tenantByKey q.key == some tid)
  | [], _, _, _, _ => rfl
  | q :: qs, m, m', hidx, hv => by
    by_cases hk : m.tenantByKey q.key = some tid
    · have hk' : m'.tenantByKey q.key = some tid := by simpa [Manager.tenantByKey, hidx] using hk
      have hc := handle_consistent ops m m' q.key q.op tid hidx hk hv
      have hfilter : ((q :: qs).filter fun q => m.tenantByKey q.key == some tid)
          = q :: qs.filter fun q => m.tenantByKey q.key == some tid := by simp [hk]
      rw [hfilter]
      simp only [repliesFor, hk, hk', beq_self_eq_true, ↓reduceIte]
      rw [hc.1]
      congr 1
      have hidx' : (handle ops m q.key q.op).1.index = (handle ops m' q.key q.op).1.index := by
        rw [handle_index, handle_index, hidx]
      have := repliesFor_purge ops tid qs _ _ hidx' hc.2
      simpa [handle_tenantByKey] using this
    · have hfilter : ((q :: qs).filter fun q => m.tenantByKey q.key == some tid)
          = qs.filter fun q => m.tenantByKey q.key == some tid := by simp [hk]
      rw [hfilter]
      have hb : (m.tenantByKey q.key == some tid) = false := by simpa using hk
      simp only [repliesFor, hb, Bool.false_eq_true, ↓reduceIte]
      have hidx' : (handle ops m q.key q.op).1.index = m'.index := by rw [handle_index, hidx]
      have hv' : (handle ops m q.key q.op).1.getTenant tid = m'.getTenant tid := by
        rw [handle_frame ops m q.key q.op tid hk, hv]
      have := repliesFor_purge ops tid qs _ _ hidx' hv'
      simpa [handle_tenantByKey] using this

end Varpulis.TenantApi
