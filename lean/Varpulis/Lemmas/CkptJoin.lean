import Varpulis.Model.CkptJoin
import Varpulis.Lemmas.Ckpt
import Varpulis.Lemmas.Join
/-! Lemmas for the join bridge (C19 over a4's `Varpulis.Join`). -/
namespace Varpulis.Ckpt
open Varpulis.Join

theorem mem_keysOf {α} (l : List (SK × α)) (k : SK) : k ∈ keysOf l ↔ k ∈ l.map (·.1) := by
  induction l with
  | nil => simp [keysOf]
  | cons a t ih =>
    obtain ⟨k', v⟩ := a
    simp only [keysOf, List.map_cons, List.mem_cons]
    by_cases h : k' ∈ keysOf t
    · simp only [h, if_true, ih]
      constructor
      · exact Or.inr
      · rintro (h1 | h1)
        · subst h1; exact ih.mp h
        · exact h1
    · simp only [h, if_false, List.mem_cons, ih]

theorem lookup_map_keys {β} (ks : List SK) (f : SK → β) (sk : SK) :
    (ks.map fun k => (k, f k)).lookup sk = if sk ∈ ks then some (f sk) else none := by
  induction ks with
  | nil => simp
  | cons k t ih =>
    simp only [List.map_cons, List.lookup_cons, List.mem_cons]
    by_cases h : sk = k
    · subst h; simp
    · have : (sk == k) = false := by simpa using h
      simp [this, ih, h]

theorem lookup_none_sk {β} (l : List (SK × β)) (sk : SK) (h : sk ∉ l.map (·.1)) : l.lookup sk = none := by
  induction l with
  | nil => rfl
  | cons a t ih =>
    obtain ⟨k', v⟩ := a
    simp only [List.map_cons, List.mem_cons, not_or] at h
    have : (sk == k') = false := by simpa using h.1
    simp [List.lookup_cons, this, ih h.2]

theorem get_map_keys (ks : List SK) (F : SK → List Ev) (sk : SK) :
    Join.get (ks.map fun x => (x, F x)) sk = if sk ∈ ks then F sk else [] := by
  simp only [Join.get, lookup_map_keys]
  split <;> rfl

theorem get_jrestore (s : Join.St) (qo : List (Int × Nat × Nat)) (hw : JWhole s) (sk : SK) :
    Join.get (jrestore (jckpt s qo)).bufs sk = Join.get s.bufs sk := by
  simp only [jrestore, jckpt, List.map_map, Function.comp_def]
  rw [get_map_keys]
  by_cases h : sk ∈ keysOf s.bufs
  · simp only [h, if_true]
    apply map_eq_self
    intro e he
    have := hw sk e he
    obtain ⟨t, i⟩ := e
    simp only [wholeTs_rt t this]
  · simp only [h, if_false]
    have : s.bufs.lookup sk = none := lookup_none_sk s.bufs sk (fun hc => h ((mem_keysOf s.bufs sk).mpr hc))
    simp only [Join.get, this, Option.getD_none]

theorem jrestore_jckpt (s : Join.St) (qo : List (Int × Nat × Nat)) (hp : qo.Perm s.queue) (hw : JWhole s) :
    JEq (jrestore (jckpt s qo)) s := by
  refine ⟨get_jrestore s qo hw, ?_, ?_⟩
  · have : (jrestore (jckpt s qo)).queue = qo := by
      simp only [jrestore, jckpt, List.map_map]
      apply map_eq_self
      intro q _
      obtain ⟨t, a, b⟩ := q
      simp [joinTs_split]
    rw [this]; exact hp
  · cases h : s.lastGc <;> simp [jrestore, jckpt, h, joinTs_split]

theorem correlate_congr (c : Join.Cfg) (b b' : List (SK × List Ev)) (h : ∀ sk, get b sk = get b' sk)
    (key : Nat) (now : Int) : correlate c b key now = correlate c b' key now := by
  simp only [correlate, h]

theorem cleanup_congr (act : Int → List Ev → List Ev) (c : Join.Cfg) (a b : Join.St) (now : Int) (h : JEq a b) :
    JEq (cleanupWith act c a now) (cleanupWith act c b now) := by
  have hg : gated c a now = gated c b now := by simp only [gated, h.lastGc]
  simp only [cleanupWith, hg]
  split
  · exact h
  · refine ⟨?_, ?_, rfl⟩
    · intro sk
      simp only
      rw [gcFold_get, gcFold_get, h.bufs sk, (h.queue.filter _).countP_eq]
    · exact h.queue.filter _

theorem addWith_congr (act : Int → List Ev → List Ev) (c : Join.Cfg) (a b : Join.St) (arr : Arr) (h : JEq a b) :
    (addWith act c a arr).2 = (addWith act c b arr).2 ∧ JEq (addWith act c a arr).1 (addWith act c b arr).1 := by
  have h1 := cleanup_congr act c a b arr.ev.ts h
  simp only [addWith]
  split
  · have hb : ∀ sk, get (set (cleanupWith act c a arr.ev.ts).bufs (arr.src, arr.key)
          (capEvict c.maxPerKey (get (cleanupWith act c a arr.ev.ts).bufs (arr.src, arr.key)) ++ [arr.ev])) sk
        = get (set (cleanupWith act c b arr.ev.ts).bufs (arr.src, arr.key)
          (capEvict c.maxPerKey (get (cleanupWith act c b arr.ev.ts).bufs (arr.src, arr.key)) ++ [arr.ev])) sk := by
      intro sk
      rw [get_set, get_set, h1.bufs (arr.src, arr.key), h1.bufs sk]
    exact ⟨correlate_congr c _ _ hb _ _, ⟨hb, h1.queue.append_right _, h1.lastGc⟩⟩
  · exact ⟨correlate_congr c _ _ h1.bufs _ _, h1⟩

theorem jouts_congr (c : Join.Cfg) (ops : List Arr) : ∀ (a b : Join.St), JEq a b → jouts c a ops = jouts c b ops := by
  induction ops with
  | nil => intros; rfl
  | cons arr rest ih =>
    intro a b h
    have := addWith_congr expireVec c a b arr h
    simp only [jouts, addEvent, List.cons.injEq]
    exact ⟨this.1, ih _ _ this.2⟩

/-! ### whole-millisecond timestamps are an invariant of `add_event` -/

theorem mem_iter_expire (cutoff : Int) (n : Nat) : ∀ (v : List Ev) (e : Ev), e ∈ iter (expireVec cutoff) n v → e ∈ v := by
  induction n with
  | zero => intro v e h; simpa [iter] using h
  | succ n ih =>
    intro v e h
    simp only [iter] at h
    have := ih _ e h
    simp only [expireVec, List.mem_filter] at this
    exact this.1

theorem jwhole_add (c : Join.Cfg) (s : Join.St) (a : Arr) (hs : JWhole s) (ha : wholeTs a.ev.ts = true) :
    JWhole (addEvent c s a).1 := by
  have h1 : JWhole (cleanupWith expireVec c s a.ev.ts) := by
    simp only [cleanupWith]
    split
    · exact hs
    · intro sk e he
      simp only at he
      rw [gcFold_get] at he
      exact hs sk e (mem_iter_expire _ _ _ e he)
  simp only [addEvent, addWith]
  split
  · intro sk e he
    simp only at he
    rw [get_set] at he
    split at he
    · rcases List.mem_append.mp he with h | h
      · simp only [capEvict] at h
        exact h1 _ e (List.mem_of_mem_drop h)
      · simp only [List.mem_singleton] at h; subst h; exact ha
    · exact h1 sk e he
  · exact h1

theorem jwhole_run (c : Join.Cfg) (ops : List Arr) : ∀ (s : Join.St), JWhole s →
    (∀ a ∈ ops, wholeTs a.ev.ts = true) → JWhole (run c s ops) := by
  induction ops with
  | nil => intro s hs _; exact hs
  | cons a rest ih =>
    intro s hs ha
    simp only [run, runWith]
    exact ih _ (jwhole_add c s a hs (ha a List.mem_cons_self)) (fun x hx => ha x (List.mem_cons_of_mem _ hx))

theorem jwhole_init : JWhole St.init := by
  intro sk e he; simp [St.init, Join.get] at he

end Varpulis.Ckpt
