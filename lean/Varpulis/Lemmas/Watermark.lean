import Varpulis.Model.Watermark
/-! Helper lemmas for C24 (watermark tracker, late-data gate). -/
namespace Varpulis.Watermark

theorem wmLe_refl (a : Option Int) : wmLe a a := by
  cases a <;> simp [wmLe]

theorem wmLe_trans {a b c : Option Int} (h1 : wmLe a b) (h2 : wmLe b c) : wmLe a c := by
  cases a <;> cases b <;> cases c <;> simp_all [wmLe] <;> omega

theorem find_some_name {l : List Src} {n : Nat} {s : Src} (h : find l n = some s) : s.name = n := by
  have := List.find?_some h
  simpa using this

theorem find_some_mem {l : List Src} {n : Nat} {s : Src} (h : find l n = some s) : s ∈ l :=
  List.mem_of_find?_eq_some h

theorem find_insert_same (l : List Src) (s : Src) : find (insert l s) s.name = some s := by
  induction l with
  | nil => simp [insert, find]
  | cons x xs ih =>
    by_cases hx : x.name = s.name
    · simp [insert, hx, find]
    · simp only [find] at ih
      simp [insert, hx, find, ih]

theorem find_insert_other (l : List Src) (s : Src) (n : Nat) (h : n ≠ s.name) :
    find (insert l s) n = find l n := by
  induction l with
  | nil =>
    have : s.name ≠ n := fun e => h e.symm
    simp [insert, find, this]
  | cons x xs ih =>
    by_cases hx : x.name = s.name
    · have hxn : x.name ≠ n := fun e => h (by rw [← e, hx])
      have hsn : s.name ≠ n := fun e => h e.symm
      simp [insert, hx, find, hsn]
    · have hins : insert (x :: xs) s = x :: insert xs s := by simp [insert, hx]
      rw [hins]
      simp only [find, List.find?_cons] at ih ⊢
      rw [ih]

theorem mem_insert_self (l : List Src) (s : Src) : s ∈ insert l s := by
  induction l with
  | nil => simp [insert]
  | cons x xs ih =>
    by_cases hx : x.name = s.name <;> simp [insert, hx, ih]

theorem insert_ne_nil (l : List Src) (s : Src) : insert l s ≠ [] := by
  intro h
  have := mem_insert_self l s
  simp [h] at this

theorem mem_insert_cases (l : List Src) (s x : Src) (h : x ∈ insert l s) : x = s ∨ x ∈ l := by
  induction l with
  | nil => simp [insert] at h; exact Or.inl h
  | cons y ys ih =>
    by_cases hy : y.name = s.name
    · simp [insert, hy] at h
      rcases h with h | h
      · exact Or.inl h
      · exact Or.inr (List.mem_cons_of_mem _ h)
    · simp [insert, hy] at h
      rcases h with h | h
      · exact Or.inr (by simp [h])
      · rcases ih h with h' | h'
        · exact Or.inl h'
        · exact Or.inr (List.mem_cons_of_mem _ h')

/-- inserting a source without a watermark under a fresh name does not change the minimum -/
theorem minWm_insert_fresh (l : List Src) (s : Src) (hw : s.wm = none) (hf : find l s.name = none) :
    minWm (insert l s) = minWm l := by
  induction l with
  | nil => simp [insert, minWm, hw]
  | cons x xs ih =>
    have hx : x.name ≠ s.name := by
      intro e
      simp [find, e] at hf
    have hf' : find xs s.name = none := by
      simp only [find] at hf ⊢
      rw [List.find?_cons] at hf
      have hb : (x.name == s.name) = false := by simp [hx]
      rw [hb] at hf
      exact hf
    have hins : insert (x :: xs) s = x :: insert xs s := by simp [insert, hx]
    rw [hins]
    simp only [minWm, ih hf']

/-- `minWm` returns a watermark of some source, and it is a lower bound of all watermarks -/
theorem minWm_spec (l : List Src) :
    (∀ m, minWm l = some m → (∃ s ∈ l, s.wm = some m) ∧ ∀ s ∈ l, ∀ w, s.wm = some w → m ≤ w)
    ∧ (minWm l = none → ∀ s ∈ l, s.wm = none) := by
  induction l with
  | nil => simp [minWm]
  | cons x xs ih =>
    obtain ⟨ih1, ih2⟩ := ih
    constructor
    · intro m hm
      simp only [minWm] at hm
      cases hxw : x.wm with
      | none =>
        simp only [hxw] at hm
        obtain ⟨⟨s, hs, hsw⟩, hlb⟩ := ih1 m hm
        refine ⟨⟨s, List.mem_cons_of_mem _ hs, hsw⟩, ?_⟩
        intro s' hs' w hw
        rcases List.mem_cons.mp hs' with e | e
        · subst e; simp [hxw] at hw
        · exact hlb s' e w hw
      | some xw =>
        cases hr : minWm xs with
        | none =>
          simp only [hxw, hr] at hm
          have hmx : xw = m := by simpa using hm
          subst hmx
          refine ⟨⟨x, by simp, hxw⟩, ?_⟩
          intro s' hs' w hw
          rcases List.mem_cons.mp hs' with e | e
          · subst e; rw [hxw] at hw; injection hw with hw; omega
          · have := ih2 hr s' e; simp [this] at hw
        | some r =>
          simp only [hxw, hr] at hm
          obtain ⟨⟨s, hs, hsw⟩, hlb⟩ := ih1 r hr
          have hm' : (if xw < r then xw else r) = m := by simpa using hm
          by_cases hlt : xw < r
          · simp only [hlt, if_true] at hm'
            subst hm'
            refine ⟨⟨x, by simp, hxw⟩, ?_⟩
            intro s' hs' w hw
            rcases List.mem_cons.mp hs' with e | e
            · subst e; rw [hxw] at hw; injection hw with hw; omega
            · have := hlb s' e w hw; omega
          · simp only [hlt, if_false] at hm'
            subst hm'
            refine ⟨⟨s, List.mem_cons_of_mem _ hs, hsw⟩, ?_⟩
            intro s' hs' w hw
            rcases List.mem_cons.mp hs' with e | e
            · subst e; rw [hxw] at hw; injection hw with hw; omega
            · exact hlb s' e w hw
    · intro hn s hs
      simp only [minWm] at hn
      cases hxw : x.wm with
      | none =>
        simp only [hxw] at hn
        rcases List.mem_cons.mp hs with e | e
        · subst e; exact hxw
        · exact ih2 hn s e
      | some xw =>
        cases hr : minWm xs <;> simp [hxw, hr] at hn

theorem minWm_ne_none_of_mem {l : List Src} {s : Src} {w : Int} (hs : s ∈ l) (hw : s.wm = some w) :
    minWm l ≠ none := by
  intro h
  have := (minWm_spec l).2 h s hs
  simp [this] at hw

@[simp] theorem recompute_sources (t : Tracker) : (recompute t).sources = t.sources := by
  unfold recompute
  split
  · rfl
  · split <;> rfl

@[simp] theorem wmOf_recompute (t : Tracker) (n : Nat) : wmOf (recompute t) n = wmOf t n := by
  simp [wmOf]

/-- after `recompute`, if some source has a watermark the effective one is exactly the minimum -/
theorem recompute_eff_of_mem (t : Tracker) {s : Src} {w : Int} (hs : s ∈ t.sources) (hw : s.wm = some w) :
    (recompute t).eff = minWm t.sources := by
  have hne : t.sources ≠ [] := by intro h; simp [h] at hs
  have hmin := minWm_ne_none_of_mem hs hw
  unfold recompute
  have : t.sources.isEmpty = false := by
    cases h : t.sources with
    | nil => exact absurd h hne
    | cons _ _ => rfl
  simp only [this]
  cases hm : minWm t.sources with
  | none => exact absurd hm hmin
  | some m => simp

theorem raise_mono (cur : Option Int) (w : Int) : wmLe cur (raise cur w) := by
  cases cur with
  | none => simp [wmLe]
  | some c => by_cases hc : w > c <;> simp [raise, hc, wmLe] <;> omega

theorem raise_some (cur : Option Int) (w : Int) : ∃ v, raise cur w = some v := by
  cases cur with
  | none => exact ⟨w, rfl⟩
  | some c => by_cases hc : w > c <;> simp [raise, hc]

theorem observeSrc_name (s : Src) (ts : Int) : (observeSrc s ts).name = s.name := by
  unfold observeSrc
  split <;> rfl

theorem observeSrc_mono (s : Src) (ts : Int) : wmLe s.wm (observeSrc s ts).wm := by
  unfold observeSrc
  split
  · exact raise_mono _ _
  · exact wmLe_refl _

theorem observeSrc_wm_some (s : Src) (ts : Int) (h : s.maxTs = none ∨ s.wm ≠ none) :
    ∃ w, (observeSrc s ts).wm = some w := by
  unfold observeSrc
  split
  · exact raise_some _ _
  · rename_i hu
    rcases h with h | h
    · simp [h, updatedMax] at hu
    · cases hw : s.wm with
      | none => exact absurd hw h
      | some w => exact ⟨w, rfl⟩


/-! ### per-source monotonicity -/

/-- the operation does not re-register a source that is already known -/
def Fresh (t : Tracker) : Op → Prop
  | .register n _ => find t.sources n = none
  | _ => True

instance (t : Tracker) : (op : Op) → Decidable (Fresh t op)
  | .register n _ => inferInstanceAs (Decidable (find t.sources n = none))
  | .observe _ _ => isTrue trivial
  | .advance _ _ => isTrue trivial

/-- no operation of the history re-registers a known source -/
def FreshRun (t : Tracker) : List Op → Prop
  | [] => True
  | op :: rest => Fresh t op ∧ FreshRun (step t op) rest

def decFreshRun : (ops : List Op) → (t : Tracker) → Decidable (FreshRun t ops)
  | [], _ => isTrue trivial
  | op :: rest, t =>
    have := decFreshRun rest (step t op)
    inferInstanceAs (Decidable (Fresh t op ∧ FreshRun (step t op) rest))

instance (t : Tracker) (ops : List Op) : Decidable (FreshRun t ops) := decFreshRun ops t

theorem wmOf_insert_same (t : Tracker) (s : Src) (e : Option Int) :
    wmOf { sources := insert t.sources s, eff := e } s.name = s.wm := by
  simp [wmOf, find_insert_same]

theorem wmOf_insert_other (t : Tracker) (s : Src) (e : Option Int) (n : Nat) (h : n ≠ s.name) :
    wmOf { sources := insert t.sources s, eff := e } n = wmOf t n := by
  simp [wmOf, find_insert_other _ _ _ h]

theorem step_mono (t : Tracker) (op : Op) (hf : Fresh t op) (n : Nat) :
    wmLe (wmOf t n) (wmOf (step t op) n) := by
  cases op with
  | register m ooo =>
    simp only [Fresh] at hf
    simp only [step, register]
    by_cases hn : n = m
    · subst hn
      simp [wmOf, hf, wmLe]
    · have := wmOf_insert_other t { name := m, wm := none, maxTs := none, ooo := ooo } t.eff n hn
      rw [this]; exact wmLe_refl _
  | observe m ts =>
    simp only [step, observe]
    cases hfm : find t.sources m with
    | some s =>
      have hname := find_some_name hfm
      simp only [wmOf_recompute]
      by_cases hn : n = m
      · subst hn
        have h1 := wmOf_insert_same t (observeSrc s ts) t.eff
        rw [observeSrc_name, hname] at h1
        rw [h1]
        have : wmOf t n = s.wm := by simp [wmOf, hfm]
        rw [this]; exact observeSrc_mono s ts
      · have h1 := wmOf_insert_other t (observeSrc s ts) t.eff n (by rw [observeSrc_name, hname]; exact hn)
        rw [h1]; exact wmLe_refl _
    | none =>
      simp only [wmOf_recompute]
      by_cases hn : n = m
      · subst hn
        have : wmOf t n = none := by simp [wmOf, hfm]
        rw [this]; simp [wmLe]
      · have h1 := wmOf_insert_other t (observeSrc { name := m, wm := none, maxTs := none, ooo := 0 } ts) t.eff n
          (by rw [observeSrc_name]; exact hn)
        rw [h1]; exact wmLe_refl _
  | advance m w =>
    simp only [step, advance]
    cases hfm : find t.sources m with
    | some s =>
      have hname := find_some_name hfm
      simp only [wmOf_recompute]
      by_cases hn : n = m
      · subst hn
        have h1 := wmOf_insert_same t { s with wm := raise s.wm w } t.eff
        simp only [hname] at h1 ⊢
        rw [h1]
        have : wmOf t n = s.wm := by simp [wmOf, hfm]
        rw [this]; exact raise_mono _ _
      · have h1 := wmOf_insert_other t { s with wm := raise s.wm w } t.eff n (by simp only [hname]; exact hn)
        rw [h1]; exact wmLe_refl _
    | none => exact wmLe_refl _

theorem run_mono (ops : List Op) : ∀ (t : Tracker), FreshRun t ops → ∀ n, wmLe (wmOf t n) (wmOf (run t ops) n) := by
  induction ops with
  | nil => intro t _ n; exact wmLe_refl _
  | cons op rest ih =>
    intro t hf n
    exact wmLe_trans (step_mono t op hf.1 n) (ih (step t op) hf.2 n)

theorem run_append (t : Tracker) (a b : List Op) : run t (a ++ b) = run (run t a) b := by
  simp [run, List.foldl_append]

theorem freshRun_append (a b : List Op) : ∀ t, FreshRun t (a ++ b) → FreshRun t a ∧ FreshRun (run t a) b := by
  induction a with
  | nil => intro t h; exact ⟨trivial, h⟩
  | cons op rest ih =>
    intro t h
    obtain ⟨h1, h2⟩ := ih (step t op) h.2
    exact ⟨⟨h.1, h1⟩, h2⟩

/-! ### the effective watermark is the minimum -/

/-- reachable-state invariant: the stored effective watermark is the minimum over the sources that
have one (and `None` if none has), and a source that has seen an event has a watermark -/
def WF (t : Tracker) : Prop :=
  t.eff = minWm t.sources ∧ ∀ s ∈ t.sources, s.maxTs ≠ none → s.wm ≠ none

theorem wf_new : WF Tracker.new := by simp [WF, Tracker.new, minWm]

theorem observeSrc_keeps (s : Src) (ts : Int) (h : s.maxTs ≠ none → s.wm ≠ none) :
    (observeSrc s ts).maxTs ≠ none → (observeSrc s ts).wm ≠ none := by
  unfold observeSrc
  split
  · intro _
    obtain ⟨v, hv⟩ := raise_some s.wm (ts - s.ooo)
    simp [hv]
  · exact h

theorem wf_insert_recompute (t : Tracker) (s : Src) (w : Int) (hw : s.wm = some w)
    (hall : ∀ x ∈ t.sources, x.maxTs ≠ none → x.wm ≠ none) :
    WF (recompute { t with sources := insert t.sources s }) := by
  constructor
  · have := recompute_eff_of_mem { t with sources := insert t.sources s } (mem_insert_self t.sources s) hw
    rw [this]; simp
  · intro x hx
    simp only [recompute_sources] at hx
    rcases mem_insert_cases _ _ _ hx with e | e
    · subst e; intro _; simp [hw]
    · exact hall x e

theorem step_wf (t : Tracker) (op : Op) (hf : Fresh t op) (h : WF t) : WF (step t op) := by
  obtain ⟨he, hall⟩ := h
  cases op with
  | register m ooo =>
    simp only [Fresh] at hf
    simp only [step, register]
    constructor
    · simp only
      rw [minWm_insert_fresh _ _ rfl (by simpa using hf)]
      exact he
    · intro x hx
      rcases mem_insert_cases _ _ _ hx with e | e
      · subst e; intro h; simp at h
      · exact hall x e
  | observe m ts =>
    simp only [step, observe]
    cases hfm : find t.sources m with
    | some s =>
      have hs := hall s (find_some_mem hfm)
      have hor : s.maxTs = none ∨ s.wm ≠ none := by
        cases hm : s.maxTs with
        | none => exact Or.inl rfl
        | some v => exact Or.inr (hs (by simp [hm]))
      obtain ⟨w, hw⟩ := observeSrc_wm_some s ts hor
      exact wf_insert_recompute t _ w hw hall
    | none =>
      obtain ⟨w, hw⟩ := observeSrc_wm_some { name := m, wm := none, maxTs := none, ooo := 0 } ts (Or.inl rfl)
      exact wf_insert_recompute t _ w hw hall
  | advance m w =>
    simp only [step, advance]
    cases hfm : find t.sources m with
    | some s =>
      obtain ⟨v, hv⟩ := raise_some s.wm w
      exact wf_insert_recompute t { s with wm := raise s.wm w } v hv hall
    | none => exact ⟨he, hall⟩

theorem run_wf (ops : List Op) : ∀ t, FreshRun t ops → WF t → WF (run t ops) := by
  induction ops with
  | nil => intro t _ h; exact h
  | cons op rest ih => intro t hf h; exact ih (step t op) hf.2 (step_wf t op hf.1 h)

/-! ### the gate -/

/-- the event is late for every consuming stream that has a late-data configuration -/
def LateForAll (cfgs : List (Nat × Cfg)) (routes : List Nat) (w ts : Int) : Prop :=
  ∀ sn ∈ routes, ∀ c, cfgs.lookup sn = some c → ts < w - c.lateness

theorem allowedBy_false_iff (cfgs : List (Nat × Cfg)) (w ts : Int) (routes : List Nat) :
    allowedBy cfgs w ts routes = false ↔ LateForAll cfgs routes w ts := by
  unfold allowedBy LateForAll
  rw [List.any_eq_false]
  constructor
  · intro h sn hsn c hc
    have := h sn hsn
    simp only [hc] at this
    simpa using this
  · intro h sn hsn
    cases hc : cfgs.lookup sn with
    | none => simp
    | some c => have := h sn hsn c hc; simp; omega

theorem gate_not_pass_iff (eff : Option Int) (cfgs : List (Nat × Cfg)) (routes : List Nat) (ts : Int) :
    gate eff cfgs routes ts ≠ .pass ↔
      ∃ w, eff = some w ∧ ts < w ∧ cfgs ≠ [] ∧ LateForAll cfgs routes w ts := by
  cases eff with
  | none => simp [gate]
  | some w =>
    simp only [gate, Option.some.injEq, exists_eq_left']
    by_cases hlt : ts < w
    · by_cases hal : allowedBy cfgs w ts routes = true
      · have hn : ¬ LateForAll cfgs routes w ts := by
          rw [← allowedBy_false_iff]; simp [hal]
        simp [hlt, hal, hn]
      · have hal' : allowedBy cfgs w ts routes = false := by simpa using hal
        have hl : LateForAll cfgs routes w ts := (allowedBy_false_iff _ _ _ _).mp hal'
        cases cfgs with
        | nil => simp [hlt, hal']
        | cons c cs =>
          simp only [hlt, hal', if_true, Bool.not_false, List.isEmpty_cons, Bool.and_self]
          cases firstSide (c :: cs) routes <;> simp [hl]
    · simp [hlt]

theorem gate_cases (eff : Option Int) (cfgs : List (Nat × Cfg)) (routes : List Nat) (ts : Int) :
    gate eff cfgs routes ts = .pass ∨
    (gate eff cfgs routes ts = .drop ∧ firstSide cfgs routes = none) ∨
    (∃ s, gate eff cfgs routes ts = .divert s ∧ firstSide cfgs routes = some s) := by
  unfold gate
  cases eff with
  | none => simp
  | some w =>
    simp only
    split
    · split
      · cases firstSide cfgs routes <;> simp
      · simp
    · simp

theorem firstSide_some (cfgs : List (Nat × Cfg)) (routes : List Nat) (s : Nat) (h : firstSide cfgs routes = some s) :
    ∃ sn ∈ routes, ∃ c, cfgs.lookup sn = some c ∧ c.side = some s := by
  induction routes with
  | nil => simp [firstSide] at h
  | cons r rs ih =>
    simp only [firstSide] at h
    cases hc : cfgs.lookup r with
    | none =>
      simp only [hc] at h
      obtain ⟨sn, hsn, c, h1, h2⟩ := ih h
      exact ⟨sn, List.mem_cons_of_mem _ hsn, c, h1, h2⟩
    | some c =>
      simp only [hc] at h
      cases hs : c.side with
      | none =>
        simp only [hs] at h
        obtain ⟨sn, hsn, c', h1, h2⟩ := ih h
        exact ⟨sn, List.mem_cons_of_mem _ hsn, c', h1, h2⟩
      | some s' =>
        simp only [hs, Option.some.injEq] at h
        subst h
        exact ⟨r, by simp, c, hc, hs⟩

/-! ### engine level -/

def EngWF (e : Eng) : Prop := ∀ t, e.tracker = some t → WF t

theorem process_cases (e : Eng) (et : Nat) (ts : Int) :
    ((process e et ts).2 = .pass ∧ (process e et ts).1 = { e with tracker := e.tracker.map (fun t => observe t et ts) })
    ∨ ((process e et ts).2 ≠ .pass ∧ (process e et ts).1 = e
        ∧ (process e et ts).2 = gate (e.tracker.bind (·.eff)) e.cfgs (e.routesOf et) ts) := by
  unfold process
  cases h : gate (e.tracker.bind (·.eff)) e.cfgs (e.routesOf et) ts <;> simp

theorem process_wf (e : Eng) (et : Nat) (ts : Int) (h : EngWF e) : EngWF (process e et ts).1 := by
  rcases process_cases e et ts with ⟨_, h2⟩ | ⟨_, h2, _⟩
  · rw [h2]
    intro t ht
    cases hte : e.tracker with
    | none => simp [hte] at ht
    | some t0 =>
      simp only [hte, Option.map_some, Option.some.injEq] at ht
      subst ht
      exact step_wf t0 (.observe et ts) trivial (h t0 hte)
  · rw [h2]; exact h

theorem process_late (e : Eng) (et : Nat) (ts : Int) (h : EngWF e) (hd : (process e et ts).2 ≠ .pass) :
    ∃ t w, e.tracker = some t ∧ minWm t.sources = some w ∧ ts < w ∧ e.cfgs ≠ []
      ∧ LateForAll e.cfgs (e.routesOf et) w ts := by
  rcases process_cases e et ts with ⟨h1, _⟩ | ⟨_, _, h3⟩
  · exact absurd h1 hd
  · rw [h3] at hd
    obtain ⟨w, hw, hlt, hc, hl⟩ := (gate_not_pass_iff _ _ _ _).mp hd
    cases hte : e.tracker with
    | none => simp [hte] at hw
    | some t =>
      simp only [hte, Option.bind_some] at hw
      have := (h t hte).1
      exact ⟨t, w, rfl, by rw [← this, hw], hlt, hc, hl⟩

theorem runEng_late (evs : List (Nat × Int)) : ∀ (e : Eng), EngWF e →
    ∀ x ∈ runEng e evs, x.2.2 ≠ .pass →
      ∃ t w, x.1.tracker = some t ∧ minWm t.sources = some w ∧ x.2.1.2 < w ∧ x.1.cfgs ≠ []
        ∧ LateForAll x.1.cfgs (x.1.routesOf x.2.1.1) w x.2.1.2 := by
  induction evs with
  | nil => intro e _ x hx; simp [runEng] at hx
  | cons ev rest ih =>
    intro e he x hx hd
    obtain ⟨et, ts⟩ := ev
    simp only [runEng, List.mem_cons] at hx
    rcases hx with hx | hx
    · subst hx
      exact process_late e et ts he hd
    · exact ih _ (process_wf e et ts he) x hx hd

/-- tracker-level view of the engine: a source's watermark (`none` when tracking is off) -/
def engWmOf (e : Eng) (n : Nat) : Option Int := e.tracker.bind fun t => wmOf t n

theorem process_mono (e : Eng) (et : Nat) (ts : Int) (n : Nat) :
    wmLe (engWmOf e n) (engWmOf (process e et ts).1 n) := by
  rcases process_cases e et ts with ⟨_, h2⟩ | ⟨_, h2, _⟩
  · rw [h2]
    cases hte : e.tracker with
    | none => simp [engWmOf, hte, wmLe]
    | some t =>
      have := step_mono t (.observe et ts) trivial n
      simpa [engWmOf, hte, step] using this
  · rw [h2]; exact wmLe_refl _

theorem runEng_mono (evs : List (Nat × Int)) : ∀ (e : Eng) (n : Nat),
    ∀ x ∈ runEng e evs, wmLe (engWmOf e n) (engWmOf x.1 n) := by
  induction evs with
  | nil => intro e n x hx; simp [runEng] at hx
  | cons ev rest ih =>
    intro e n x hx
    obtain ⟨et, ts⟩ := ev
    simp only [runEng, List.mem_cons] at hx
    rcases hx with hx | hx
    · subst hx; exact wmLe_refl _
    · exact wmLe_trans (process_mono e et ts n) (ih _ n x hx)

end Varpulis.Watermark
