import Varpulis.Model.RaftStore
import Varpulis.Lemmas.RaftSM
/-! Lemmas about the log stores (storage contract, C35) and about crash recovery of the persistent
store (C36). -/
namespace Varpulis.RaftStore
open Varpulis.RaftSM

/-- strictly increasing indices: what a `BTreeMap<u64, _>` / RocksDB key order guarantees -/
def Sorted (l : List Entry) : Prop := l.Pairwise (fun a b => a.id.index < b.id.index)

theorem Sorted.nil : Sorted [] := List.Pairwise.nil

theorem Sorted.filter {l : List Entry} (p : Entry → Bool) (h : Sorted l) : Sorted (l.filter p) :=
  List.Pairwise.filter p h

/-! ### `insertEntry` -/

theorem mem_insertEntry_of {log : List Entry} {e x : Entry} (h : x ∈ insertEntry log e) : x = e ∨ x ∈ log := by
  induction log with
  | nil => simp [insertEntry] at h; exact .inl h
  | cons y ys ih =>
    simp only [insertEntry] at h
    split at h
    · simp only [List.mem_cons] at h ⊢; rcases h with h | h | h <;> simp [h]
    · split at h
      · simp only [List.mem_cons] at h ⊢; rcases h with h | h <;> simp [h]
      · simp only [List.mem_cons] at h ⊢
        rcases h with h | h
        · simp [h]
        · rcases ih h with h | h <;> simp [h]

theorem self_mem_insertEntry (log : List Entry) (e : Entry) : e ∈ insertEntry log e := by
  induction log with
  | nil => simp [insertEntry]
  | cons y ys ih =>
    simp only [insertEntry]
    split
    · simp
    · split
      · simp
      · simp [ih]

theorem mem_insertEntry_keep {log : List Entry} {e x : Entry} (hx : x ∈ log) (hne : x.id.index ≠ e.id.index) :
    x ∈ insertEntry log e := by
  induction log with
  | nil => cases hx
  | cons y ys ih =>
    simp only [insertEntry]
    split
    · simp only [List.mem_cons] at hx ⊢; exact .inr hx
    · split
      · rename_i heq
        simp only [List.mem_cons] at hx ⊢
        rcases hx with rfl | hx
        · exact absurd heq.symm hne
        · exact .inr hx
      · simp only [List.mem_cons] at hx ⊢
        rcases hx with rfl | hx
        · exact .inl rfl
        · exact .inr (ih hx)

theorem sorted_insertEntry {log : List Entry} (e : Entry) (h : Sorted log) : Sorted (insertEntry log e) := by
  induction log with
  | nil => simp [insertEntry, Sorted]
  | cons y ys ih =>
    have hy : ∀ z ∈ ys, y.id.index < z.id.index := (List.pairwise_cons.1 h).1
    have hys : Sorted ys := (List.pairwise_cons.1 h).2
    simp only [insertEntry]
    split
    · rename_i hlt
      refine List.pairwise_cons.2 ⟨?_, h⟩
      intro z hz
      simp only [List.mem_cons] at hz
      rcases hz with rfl | hz
      · exact hlt
      · exact Nat.lt_trans hlt (hy z hz)
    · split
      · rename_i heq
        refine List.pairwise_cons.2 ⟨?_, hys⟩
        intro z hz; rw [heq]; exact hy z hz
      · rename_i hnlt hne
        refine List.pairwise_cons.2 ⟨?_, ih hys⟩
        intro z hz
        rcases mem_insertEntry_of hz with rfl | hz
        · omega
        · exact hy z hz

/-- in a sorted log an inserted entry replaces the entry of the same index -/
theorem mem_insertEntry_sorted {log : List Entry} {e x : Entry} (h : Sorted log) (hx : x ∈ insertEntry log e) :
    x = e ∨ (x ∈ log ∧ x.id.index ≠ e.id.index) := by
  induction log with
  | nil => simp [insertEntry] at hx; exact .inl hx
  | cons y ys ih =>
    have hy : ∀ z ∈ ys, y.id.index < z.id.index := (List.pairwise_cons.1 h).1
    have hys : Sorted ys := (List.pairwise_cons.1 h).2
    simp only [insertEntry] at hx
    split at hx
    · rename_i hlt
      simp only [List.mem_cons] at hx
      rcases hx with rfl | rfl | hx
      · exact .inl rfl
      · exact .inr ⟨by simp, by omega⟩
      · exact .inr ⟨by simp [hx], by have := hy x hx; omega⟩
    · split at hx
      · rename_i heq
        simp only [List.mem_cons] at hx
        rcases hx with rfl | hx
        · exact .inl rfl
        · exact .inr ⟨by simp [hx], by have := hy x hx; omega⟩
      · rename_i hnlt hne
        simp only [List.mem_cons] at hx
        rcases hx with rfl | hx
        · exact .inr ⟨by simp, by omega⟩
        · rcases ih hys hx with rfl | ⟨h1, h2⟩
          · exact .inl rfl
          · exact .inr ⟨by simp [h1], h2⟩

/-! ### `appendLog` -/

theorem sorted_appendLog {log : List Entry} (es : List Entry) (h : Sorted log) : Sorted (appendLog log es) := by
  induction es generalizing log with
  | nil => exact h
  | cons e es ih => exact ih (sorted_insertEntry e h)

theorem mem_appendLog_of {log es : List Entry} {x : Entry} (h : x ∈ appendLog log es) : x ∈ es ∨ x ∈ log := by
  induction es generalizing log with
  | nil => exact .inr h
  | cons e es ih =>
    rcases ih (log := insertEntry log e) h with h | h
    · exact .inl (List.mem_cons_of_mem _ h)
    · rcases mem_insertEntry_of h with rfl | h
      · exact .inl (by simp)
      · exact .inr h

theorem mem_appendLog_keep {log es : List Entry} {x : Entry} (hx : x ∈ log)
    (hne : ∀ e ∈ es, x.id.index ≠ e.id.index) : x ∈ appendLog log es := by
  induction es generalizing log with
  | nil => exact hx
  | cons e es ih =>
    exact ih (log := insertEntry log e) (mem_insertEntry_keep hx (hne e (by simp)))
      (fun e' he' => hne e' (List.mem_cons_of_mem _ he'))

/-- an old entry survives an append only if no appended entry has its index -/
theorem mem_appendLog_sorted {log es : List Entry} {x : Entry} (h : Sorted log) (hx : x ∈ appendLog log es) :
    x ∈ es ∨ (x ∈ log ∧ ∀ e ∈ es, x.id.index ≠ e.id.index) := by
  induction es generalizing log with
  | nil => exact .inr ⟨hx, by simp⟩
  | cons e es ih =>
    rcases ih (log := insertEntry log e) (sorted_insertEntry e h) hx with h1 | ⟨h1, h2⟩
    · exact .inl (List.mem_cons_of_mem _ h1)
    · rcases mem_insertEntry_sorted h h1 with rfl | ⟨h3, h4⟩
      · exact .inl (by simp)
      · refine .inr ⟨h3, ?_⟩
        intro e' he'
        simp only [List.mem_cons] at he'
        rcases he' with rfl | he'
        · exact h4
        · exact h2 e' he'

/-! ### storage contract (C35) -/

/-- coherence of a log store: sorted by index, every entry above the purge marker -/
def LogStore.Coherent (s : LogStore) : Prop :=
  Sorted s.log ∧ ∀ e ∈ s.log, above (oidx s.lastPurged) e.id.index = true

/-- calling discipline of openraft that coherence needs: entries are appended above the purge marker -/
def LogOp.Ok (s : LogStore) : LogOp → Prop
  | .append es => ∀ e ∈ es, above (oidx s.lastPurged) e.id.index = true
  | _ => True

def LogOpsOk (s : LogStore) : List LogOp → Prop
  | [] => True
  | op :: ops => op.Ok s ∧ LogOpsOk (s.step op) ops

theorem LogStore.coherent_init : (({} : LogStore)).Coherent := ⟨Sorted.nil, by intro e he; cases he⟩

theorem LogStore.coherent_step {s : LogStore} (h : s.Coherent) (op : LogOp) (hop : op.Ok s) :
    (s.step op).Coherent := by
  obtain ⟨hs, ha⟩ := h
  cases op with
  | saveVote v => exact ⟨hs, ha⟩
  | append es =>
    refine ⟨sorted_appendLog es hs, ?_⟩
    intro e he
    rcases mem_appendLog_of he with h1 | h1
    · exact hop e h1
    · exact ha e h1
  | deleteConflictSince id =>
    refine ⟨hs.filter _, ?_⟩
    intro e he
    exact ha e (List.mem_filter.1 he).1
  | purgeUpto id =>
    refine ⟨hs.filter _, ?_⟩
    intro e he
    have := (List.mem_filter.1 he).2
    simpa [LogStore.step, LogStore.purgeUpto, oidx, above] using this

theorem LogStore.coherent_run {s : LogStore} (h : s.Coherent) (ops : List LogOp) (hops : LogOpsOk s ops) :
    (s.run ops).Coherent := by
  induction ops generalizing s with
  | nil => exact h
  | cons op ops ih => exact ih (coherent_step h op hops.1) hops.2

theorem sorted_getLast_max {l : List Entry} (h : Sorted l) {x m : Entry} (hx : x ∈ l) (hm : l.getLast? = some m) :
    x.id.index ≤ m.id.index := by
  induction l with
  | nil => cases hx
  | cons y ys ih =>
    have hy : ∀ z ∈ ys, y.id.index < z.id.index := (List.pairwise_cons.1 h).1
    have hys : Sorted ys := (List.pairwise_cons.1 h).2
    cases ys with
    | nil =>
      simp only [List.getLast?_singleton, Option.some.injEq] at hm
      simp only [List.mem_singleton] at hx
      subst hm; subst hx; exact Nat.le_refl _
    | cons z zs =>
      rw [List.getLast?_cons_cons] at hm
      simp only [List.mem_cons] at hx
      rcases hx with rfl | hx
      · have hmm : m ∈ z :: zs := List.mem_of_getLast? hm
        exact Nat.le_of_lt (hy m hmm)
      · exact ih hys (by simpa using hx) hm

/-- `get_log_state().last_log_id` is the maximum (by index) of the last entry and the purge marker -/
theorem LogStore.lastLogId_spec {s : LogStore} (h : s.Coherent) :
    (∀ e ∈ s.log, ∃ m, s.getLogState.2 = some m ∧ e.id.index ≤ m.index) ∧
    (∀ p, s.lastPurged = some p → ∃ m, s.getLogState.2 = some m ∧ p.index ≤ m.index) ∧
    (∀ m, s.getLogState.2 = some m → (∃ e ∈ s.log, e.id = m) ∨ s.lastPurged = some m) := by
  obtain ⟨hs, ha⟩ := h
  unfold LogStore.getLogState
  cases hl : s.log.getLast? with
  | none =>
    have hnil : s.log = [] := List.getLast?_eq_none_iff.1 hl
    refine ⟨?_, ?_, ?_⟩
    · intro e he; rw [hnil] at he; cases he
    · intro p hp; exact ⟨p, hp, Nat.le_refl _⟩
    · intro m hm; exact .inr hm
  | some x =>
    have hx : x ∈ s.log := List.mem_of_getLast? hl
    refine ⟨?_, ?_, ?_⟩
    · intro e he; exact ⟨x.id, rfl, sorted_getLast_max hs he hl⟩
    · intro p hp
      refine ⟨x.id, rfl, ?_⟩
      have := ha x hx
      simp only [hp, oidx, above, decide_eq_true_eq] at this
      exact Nat.le_of_lt this
    · intro m hm
      simp only [Option.some.injEq] at hm
      exact .inl ⟨x, hx, hm⟩

theorem LogStore.run_append (s : LogStore) (xs ys : List LogOp) : s.run (xs ++ ys) = (s.run xs).run ys := by
  simp [LogStore.run, List.foldl_append]

/-! ### crash recovery (C36) -/

/-- two index-sorted lists with the same members are equal -/
theorem sorted_ext {l₁ l₂ : List Entry} (h₁ : Sorted l₁) (h₂ : Sorted l₂) (h : ∀ x, x ∈ l₁ ↔ x ∈ l₂) : l₁ = l₂ := by
  induction l₁ generalizing l₂ with
  | nil =>
    cases l₂ with
    | nil => rfl
    | cons b bs => exact absurd ((h b).2 (by simp)) (by simp)
  | cons a as ih =>
    cases l₂ with
    | nil => exact absurd ((h a).1 (by simp)) (by simp)
    | cons b bs =>
      have ha : ∀ z ∈ as, a.id.index < z.id.index := (List.pairwise_cons.1 h₁).1
      have hb : ∀ z ∈ bs, b.id.index < z.id.index := (List.pairwise_cons.1 h₂).1
      have hab : a = b := by
        have h1 := (h a).1 (by simp)
        have h2 := (h b).2 (by simp)
        simp only [List.mem_cons] at h1 h2
        rcases h1 with h1 | h1
        · exact h1
        · rcases h2 with h2 | h2
          · exact h2.symm
          · have := ha b h2; have := hb a h1; omega
      subst hab
      congr 1
      apply ih (List.pairwise_cons.1 h₁).2 (List.pairwise_cons.1 h₂).2
      intro x
      constructor
      · intro hx
        have := (h x).1 (List.mem_cons_of_mem _ hx)
        simp only [List.mem_cons] at this
        rcases this with rfl | this
        · have := ha _ hx; omega
        · exact this
      · intro hx
        have := (h x).2 (List.mem_cons_of_mem _ hx)
        simp only [List.mem_cons] at this
        rcases this with rfl | this
        · have := hb _ hx; omega
        · exact this

/-- the committed log up to an optional position -/
def cutN (G : List Entry) (o : Option Nat) : List Entry := G.filter (fun e => upto o e.id.index)

/-- SPEC: the state machine of a coordinator that applied the committed log `G` up to position `o` -/
def smOf (G : List Entry) (o : Option Nat) : SM := applyEntriesT SM.init (cutN G o)

theorem cutN_none (G : List Entry) : cutN G none = [] := by
  simp [cutN, upto]

/-- a sorted log up to `b` = the part up to `o` followed by the part in `(o, b]` -/
theorem cutN_split {G : List Entry} (hG : Sorted G) (o : Option Nat) (b : Nat) (hob : ∀ x, o = some x → x ≤ b) :
    cutN G (some b) = cutN G o ++ G.filter (fun e => above o e.id.index && decide (e.id.index ≤ b)) := by
  cases o with
  | none => simp [cutN, upto, above]
  | some a =>
    have hab : a ≤ b := hob a rfl
    simp only [cutN, upto, above]
    induction G with
    | nil => rfl
    | cons y ys ih =>
      have hy : ∀ z ∈ ys, y.id.index < z.id.index := (List.pairwise_cons.1 hG).1
      have hys : Sorted ys := (List.pairwise_cons.1 hG).2
      by_cases h : y.id.index ≤ a
      · have h1 : y.id.index ≤ b := by omega
        have h2 : ¬ a < y.id.index := by omega
        simp [h, h1, h2, ih hys]
      · have hnil : (y :: ys).filter (fun e => decide (e.id.index ≤ a)) = [] := by
          simp only [List.filter_eq_nil_iff, List.mem_cons, decide_eq_true_eq]
          rintro z (rfl | hz)
          · exact h
          · have := hy z hz; omega
        rw [hnil, List.nil_append]
        apply List.filter_congr
        intro z hz
        simp only [List.mem_cons] at hz
        have : a < z.id.index := by
          rcases hz with rfl | hz
          · omega
          · have := hy z hz; omega
        simp [this]

theorem sorted_cutN {G : List Entry} (hG : Sorted G) (o : Option Nat) : Sorted (cutN G o) := hG.filter _

theorem smOf_wf (G : List Entry) (o : Option Nat) : (smOf G o).state.WF :=
  applyEntriesT_wf State.WF_init _

/-- the applied position of the spec is the id of the last committed entry up to `o` -/
theorem smOf_lastApplied (G : List Entry) (o : Option Nat) :
    (smOf G o).lastApplied = (cutN G o).getLast?.map (·.id) := by
  rw [smOf, applyEntriesT_lastApplied]
  cases (cutN G o).getLast? <;> rfl

/-- cutting at the applied position of `smOf G o` is cutting at `o` -/
theorem cutN_lastApplied {G : List Entry} (hG : Sorted G) (o : Option Nat) :
    cutN G (oidx (smOf G o).lastApplied) = cutN G o := by
  rw [smOf_lastApplied]
  cases hl : (cutN G o).getLast? with
  | none =>
    have : cutN G o = [] := List.getLast?_eq_none_iff.1 hl
    simp [oidx, cutN_none, this]
  | some m =>
    simp only [Option.map_some, oidx]
    have hm : m ∈ cutN G o := List.mem_of_getLast? hl
    apply List.filter_congr
    intro x hx
    have hmo : upto o m.id.index = true := (List.mem_filter.1 hm).2
    by_cases hxo : upto o x.id.index = true
    · have : x ∈ cutN G o := List.mem_filter.2 ⟨hx, hxo⟩
      have := sorted_getLast_max (sorted_cutN hG o) this hl
      rw [hxo]; simp [upto, this]
    · simp only [Bool.not_eq_true] at hxo
      rw [hxo]
      cases o with
      | none => simp [upto] at hmo
      | some k =>
        simp only [upto, decide_eq_true_eq, decide_eq_false_iff_not] at hmo hxo ⊢
        omega

theorem smOf_fix {G : List Entry} (hG : Sorted G) (o : Option Nat) :
    smOf G (oidx (smOf G o).lastApplied) = smOf G o := by
  show applyEntriesT SM.init (cutN G (oidx (smOf G o).lastApplied)) = _
  rw [cutN_lastApplied hG]; rfl

/-! replay = the state component of applying entries -/

/-- the fold of `replay_log` on total commands -/
def replayT (st : State) (es : List Entry) : State :=
  es.foldl (fun st e => match e.payload with
    | .normal c => applyCmdT st c
    | _ => st) st

theorem applyEntriesT_state (sm : SM) (es : List Entry) : (applyEntriesT sm es).state = replayT sm.state es := by
  induction es generalizing sm with
  | nil => rfl
  | cons e es ih =>
    rw [applyEntriesT_cons, ih]
    simp only [replayT, List.foldl_cons]
    congr 1
    unfold applyEntryT
    cases e.payload <;> rfl

theorem replayT_wf {st : State} (h : st.WF) (es : List Entry) : (replayT st es).WF := by
  have := applyEntriesT_wf (sm := { state := st }) h es
  rwa [applyEntriesT_state] at this

theorem replay_fold_ok {st : State} (h : st.WF) (es : List Entry) :
    es.foldl replayStep (Outcome.ok st) = Outcome.ok (replayT st es) := by
  induction es generalizing st with
  | nil => rfl
  | cons e es ih =>
    simp only [List.foldl_cons, replayStep, Outcome.bind_ok]
    cases hp : e.payload with
    | normal c =>
      simp only [(applyCmd_eq_T h c).1]
      rw [ih (applyCmd_eq_T h c).2]
      simp [replayT, hp]
    | blank => simp only []; rw [ih h]; simp [replayT, hp]
    | membership cfg => simp only []; rw [ih h]; simp [replayT, hp]

/-- what every disk a crash can leave satisfies, relative to the committed log `G` -/
structure DInv (G : List Entry) (d : Disk) : Prop where
  sorted : Sorted d.ls.log
  applied : (smOf G (oidx d.lastApplied)).lastApplied = d.lastApplied
  membership : (smOf G (oidx d.lastApplied)).membership = d.membership.getD {}
  snap : ∀ s, d.snapData = some s →
    s.dataState = (smOf G (oidx s.dataLast)).state ∧ ∀ x, oidx s.dataLast = some x → upto (oidx d.lastApplied) x = true
  log : ∀ e : Entry, above (snapFrom d) e.id.index = true → upto (oidx d.lastApplied) e.id.index = true →
    (e ∈ d.ls.log ↔ e ∈ G)

theorem snapBase_spec {G : List Entry} {d : Disk} (h : DInv G d) : snapBase d = (smOf G (snapFrom d)).state := by
  unfold snapBase snapFrom
  cases hs : d.snapData with
  | none => simp [smOf, cutN_none, SM.init]
  | some s => simp [(h.snap s hs).1]

theorem snapFrom_le {G : List Entry} {d : Disk} (h : DInv G d) (x : Nat) (hx : snapFrom d = some x) :
    upto (oidx d.lastApplied) x = true := by
  unfold snapFrom at hx
  cases hs : d.snapData with
  | none => simp [hs] at hx
  | some s =>
    simp only [hs] at hx
    exact (h.snap s hs).2 x hx

theorem replayState_spec {G : List Entry} (hG : Sorted G) {d : Disk} (h : DInv G d) :
    replayState d = .ok (smOf G (oidx d.lastApplied)).state := by
  unfold replayState
  rw [snapBase_spec h]
  cases hla : d.lastApplied with
  | none =>
    simp only [oidx]
    have : snapFrom d = none := by
      cases hx : snapFrom d with
      | none => rfl
      | some x => have := snapFrom_le h x hx; simp [hla, oidx, upto] at this
    rw [this]
  | some la =>
    simp only [oidx]
    have hle : ∀ x, snapFrom d = some x → x ≤ la.index := by
      intro x hx
      have := snapFrom_le h x hx
      simpa [hla, oidx, upto] using this
    have hlog : d.ls.log.filter (fun e => above (snapFrom d) e.id.index && decide (e.id.index ≤ la.index)) =
        G.filter (fun e => above (snapFrom d) e.id.index && decide (e.id.index ≤ la.index)) := by
      apply sorted_ext (h.sorted.filter _) (hG.filter _)
      intro x
      simp only [List.mem_filter, Bool.and_eq_true, decide_eq_true_eq]
      constructor
      · rintro ⟨h1, h2, h3⟩
        exact ⟨(h.log x h2 (by simp [hla, oidx, upto, h3])).1 h1, h2, h3⟩
      · rintro ⟨h1, h2, h3⟩
        exact ⟨(h.log x h2 (by simp [hla, oidx, upto, h3])).2 h1, h2, h3⟩
    rw [hlog, replay_fold_ok (smOf_wf G _)]
    congr 1
    rw [← applyEntriesT_state, smOf, smOf, cutN_split hG (snapFrom d) la.index hle, applyEntriesT_append]

/-- recovery is exact: `open_with_shared_state` on a disk satisfying the invariant yields the spec state machine -/
theorem reopen_spec {G : List Entry} (hG : Sorted G) {d : Disk} (h : DInv G d) :
    reopen d = .ok { mem := smOf G (oidx d.lastApplied), disk := d } := by
  unfold reopen
  rw [replayState_spec hG h]
  simp only [Outcome.bind_ok]
  have e1 := h.applied
  have e2 := h.membership
  generalize smOf G (oidx d.lastApplied) = X at *
  cases X
  simp_all

end Varpulis.RaftStore
