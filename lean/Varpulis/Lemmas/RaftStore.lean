import Varpulis.Model.RaftStore
import Varpulis.Lemmas.RaftSM
/-! Lemmas about the log stores (storage contract, C35) and about crash recovery of the persistent
store (C36). -/
namespace Varpulis.RaftStore
open Varpulis.RaftSM

/-- strictly increasing indices: what a `BTreeMap<u64, _>` / RocksDB key order guarantees -/
def Sorted (l : List Entry) : Prop := l.Pairwise (fun a b => a.id.index < b.id.index)

theorem Sorted.nil : Sorted [] := List.Pairwise.nil

theorem Sorted.filter {l : List Entry} (p : Entry → Bool) (h : Sorted l) : Sorted (l.filter p) :=
  List.Pairwise.filter p h

/-! ### `insertEntry` -/

theorem mem_insertEntry_of {log : List Entry} {e x : Entry} (h : x ∈ insertEntry log e) : x = e ∨ x ∈ log := by
  induction log with
  | nil => simp [insertEntry] at h; exact .inl h
  | cons y ys ih =>
    simp only [insertEntry] at h
    split at h
    · simp only [List.mem_cons] at h ⊢; rcases h with h | h | h <;> simp [h]
    · split at h
      · simp only [List.mem_cons] at h ⊢; rcases h with h | h <;> simp [h]
      · simp only [List.mem_cons] at h ⊢
        rcases h with h | h
        · simp [h]
        · rcases ih h with h | h <;> simp [h]

theorem self_mem_insertEntry (log : List Entry) (e : Entry) : e ∈ insertEntry log e := by
  induction log with
  | nil => simp [insertEntry]
  | cons y ys ih =>
    simp only [insertEntry]
    split
    · simp
    · split
      · simp
      · simp [ih]

theorem mem_insertEntry_keep {log : List Entry} {e x : Entry} (hx : x ∈ log) (hne : x.id.index ≠ e.id.index) :
    x ∈ insertEntry log e := by
  induction log with
  | nil => cases hx
  | cons y ys ih =>
    simp only [insertEntry]
    split
    · simp only [List.mem_cons] at hx ⊢; exact .inr hx
    · split
      · rename_i heq
        simp only [List.mem_cons] at hx ⊢
        rcases hx with rfl | hx
        · exact absurd heq.symm hne
        · exact .inr hx
      · simp only [List.mem_cons] at hx ⊢
        rcases hx with rfl | hx
        · exact .inl rfl
        · exact .inr (ih hx)

theorem sorted_insertEntry {log : List Entry} (e : Entry) (h : Sorted log) : Sorted (insertEntry log e) := by
  induction log with
  | nil => simp [insertEntry, Sorted]
  | cons y ys ih =>
    have hy : ∀ z ∈ ys, y.id.index < z.id.index := (List.pairwise_cons.1 h).1
    have hys : Sorted ys := (List.pairwise_cons.1 h).2
    simp only [insertEntry]
    split
    · rename_i hlt
      refine List.pairwise_cons.2 ⟨?_, h⟩
      intro z hz
      simp only [List.mem_cons] at hz
      rcases hz with rfl | hz
      · exact hlt
      · exact Nat.lt_trans hlt (hy z hz)
    · split
      · rename_i heq
        refine List.pairwise_cons.2 ⟨?_, hys⟩
        intro z hz; rw [heq]; exact hy z hz
      · rename_i hnlt hne
        refine List.pairwise_cons.2 ⟨?_, ih hys⟩
        intro z hz
        rcases mem_insertEntry_of hz with rfl | hz
        · omega
        · exact hy z hz

/-- in a sorted log an inserted entry replaces the entry of the same index -/
theorem mem_insertEntry_sorted {log : List Entry} {e x : Entry} (h : Sorted log) (hx : x ∈ insertEntry log e) :
    x = e ∨ (x ∈ log ∧ x.id.index ≠ e.id.index) := by
  induction log with
  | nil => simp [insertEntry] at hx; exact .inl hx
  | cons y ys ih =>
    have hy : ∀ z ∈ ys, y.id.index < z.id.index := (List.pairwise_cons.1 h).1
    have hys : Sorted ys := (List.pairwise_cons.1 h).2
    simp only [insertEntry] at hx
    split at hx
    · rename_i hlt
      simp only [List.mem_cons] at hx
      rcases hx with rfl | rfl | hx
      · exact .inl rfl
      · exact .inr ⟨by simp, by omega⟩
      · exact .inr ⟨by simp [hx], by have := hy x hx; omega⟩
    · split at hx
      · rename_i heq
        simp only [List.mem_cons] at hx
        rcases hx with rfl | hx
        · exact .inl rfl
        · exact .inr ⟨by simp [hx], by have := hy x hx; omega⟩
      · rename_i hnlt hne
        simp only [List.mem_cons] at hx
        rcases hx with rfl | hx
        · exact .inr ⟨by simp, by omega⟩
        · rcases ih hys hx with rfl | ⟨h1, h2⟩
          · exact .inl rfl
          · exact .inr ⟨by simp [h1], h2⟩

/-! ### `appendLog` -/

theorem sorted_appendLog {log : List Entry} (es : List Entry) (h : Sorted log) : Sorted (appendLog log es) := by
  induction es generalizing log with
  | nil => exact h
  | cons e es ih => exact ih (sorted_insertEntry e h)

theorem mem_appendLog_of {log es : List Entry} {x : Entry} (h : x ∈ appendLog log es) : x ∈ es ∨ x ∈ log := by
  induction es generalizing log with
  | nil => exact .inr h
  | cons e es ih =>
    rcases ih (log := insertEntry log e) h with h | h
    · exact .inl (List.mem_cons_of_mem _ h)
    · rcases mem_insertEntry_of h with rfl | h
      · exact .inl (by simp)
      · exact .inr h

theorem mem_appendLog_keep {log es : List Entry} {x : Entry} (hx : x ∈ log)
    (hne : ∀ e ∈ es, x.id.index ≠ e.id.index) : x ∈ appendLog log es := by
  induction es generalizing log with
  | nil => exact hx
  | cons e es ih =>
    exact ih (log := insertEntry log e) (mem_insertEntry_keep hx (hne e (by simp)))
      (fun e' he' => hne e' (List.mem_cons_of_mem _ he'))

/-- an old entry survives an append only if no appended entry has its index -/
theorem mem_appendLog_sorted {log es : List Entry} {x : Entry} (h : Sorted log) (hx : x ∈ appendLog log es) :
    x ∈ es ∨ (x ∈ log ∧ ∀ e ∈ es, x.id.index ≠ e.id.index) := by
  induction es generalizing log with
  | nil => exact .inr ⟨hx, by simp⟩
  | cons e es ih =>
    rcases ih (log := insertEntry log e) (sorted_insertEntry e h) hx with h1 | ⟨h1, h2⟩
    · exact .inl (List.mem_cons_of_mem _ h1)
    · rcases mem_insertEntry_sorted h h1 with rfl | ⟨h3, h4⟩
      · exact .inl (by simp)
      · refine .inr ⟨h3, ?_⟩
        intro e' he'
        simp only [List.mem_cons] at he'
        rcases he' with rfl | he'
        · exact h4
        · exact h2 e' he'

/-! ### storage contract (C35) -/

/-- coherence of a log store: sorted by index, every entry above the purge marker -/
def LogStore.Coherent (s : LogStore) : Prop :=
  Sorted s.log ∧ ∀ e ∈ s.log, above (oidx s.lastPurged) e.id.index = true

/-- calling discipline of openraft that coherence needs: entries are appended above the purge marker -/
def LogOp.Ok (s : LogStore) : LogOp → Prop
  | .append es => ∀ e ∈ es, above (oidx s.lastPurged) e.id.index = true
  | _ => True

def LogOpsOk (s : LogStore) : List LogOp → Prop
  | [] => True
  | op :: ops => op.Ok s ∧ LogOpsOk (s.step op) ops

theorem LogStore.coherent_init : (({} : LogStore)).Coherent := ⟨Sorted.nil, by intro e he; cases he⟩

theorem LogStore.coherent_step {s : LogStore} (h : s.Coherent) (op : LogOp) (hop : op.Ok s) :
    (s.step op).Coherent := by
  obtain ⟨hs, ha⟩ := h
  cases op with
  | saveVote v => exact ⟨hs, ha⟩
  | append es =>
    refine ⟨sorted_appendLog es hs, ?_⟩
    intro e he
    rcases mem_appendLog_of he with h1 | h1
    · exact hop e h1
    · exact ha e h1
  | deleteConflictSince id =>
    refine ⟨hs.filter _, ?_⟩
    intro e he
    exact ha e (List.mem_filter.1 he).1
  | purgeUpto id =>
    refine ⟨hs.filter _, ?_⟩
    intro e he
    have := (List.mem_filter.1 he).2
    simpa [LogStore.step, LogStore.purgeUpto, oidx, above] using this

theorem LogStore.coherent_run {s : LogStore} (h : s.Coherent) (ops : List LogOp) (hops : LogOpsOk s ops) :
    (s.run ops).Coherent := by
  induction ops generalizing s with
  | nil => exact h
  | cons op ops ih => exact ih (coherent_step h op hops.1) hops.2

theorem sorted_getLast_max {l : List Entry} (h : Sorted l) {x m : Entry} (hx : x ∈ l) (hm : l.getLast? = some m) :
    x.id.index ≤ m.id.index := by
  induction l with
  | nil => cases hx
  | cons y ys ih =>
    have hy : ∀ z ∈ ys, y.id.index < z.id.index := (List.pairwise_cons.1 h).1
    have hys : Sorted ys := (List.pairwise_cons.1 h).2
    cases ys with
    | nil =>
      simp only [List.getLast?_singleton, Option.some.injEq] at hm
      simp only [List.mem_singleton] at hx
      subst hm; subst hx; exact Nat.le_refl _
    | cons z zs =>
      rw [List.getLast?_cons_cons] at hm
      simp only [List.mem_cons] at hx
      rcases hx with rfl | hx
      · have hmm : m ∈ z :: zs := List.mem_of_getLast? hm
        exact Nat.le_of_lt (hy m hmm)
      · exact ih hys (by simpa using hx) hm

/-- `get_log_state().last_log_id` is the maximum (by index) of the last entry and the purge marker -/
theorem LogStore.lastLogId_spec {s : LogStore} (h : s.Coherent) :
    (∀ e ∈ s.log, ∃ m, s.getLogState.2 = some m ∧ e.id.index ≤ m.index) ∧
    (∀ p, s.lastPurged = some p → ∃ m, s.getLogState.2 = some m ∧ p.index ≤ m.index) ∧
    (∀ m, s.getLogState.2 = some m → (∃ e ∈ s.log, e.id = m) ∨ s.lastPurged = some m) := by
  obtain ⟨hs, ha⟩ := h
  unfold LogStore.getLogState
  cases hl : s.log.getLast? with
  | none =>
    have hnil : s.log = [] := List.getLast?_eq_none_iff.1 hl
    refine ⟨?_, ?_, ?_⟩
    · intro e he; rw [hnil] at he; cases he
    · intro p hp; exact ⟨p, hp, Nat.le_refl _⟩
    · intro m hm; exact .inr hm
  | some x =>
    have hx : x ∈ s.log := List.mem_of_getLast? hl
    refine ⟨?_, ?_, ?_⟩
    · intro e he; exact ⟨x.id, rfl, sorted_getLast_max hs he hl⟩
    · intro p hp
      refine ⟨x.id, rfl, ?_⟩
      have := ha x hx
      simp only [hp, oidx, above, decide_eq_true_eq] at this
      exact Nat.le_of_lt this
    · intro m hm
      simp only [Option.some.injEq] at hm
      exact .inl ⟨x, hx, hm⟩

theorem LogStore.run_append (s : LogStore) (xs ys : List LogOp) : s.run (xs ++ ys) = (s.run xs).run ys := by
  simp [LogStore.run, List.foldl_append]

end Varpulis.RaftStore
